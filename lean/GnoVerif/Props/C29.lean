/-
Props.C29 — "All database backends implement the same key-value semantics".

The backend model (`Model.C29`, one state machine parameterised by the
backend, mirrored from tm2/pkg/db and run against the six real backends on
every check) is compared with the reference machine `Ref` (`Model.C29Spec`):
an ordered map (`Spec.OMap`) with batches and snapshots.

A. refinement: on every script of the statement's vocabulary that stays inside
   the guard `Clean`, every backend answers exactly what the reference answers
   (`same_as_ordered_map_partial`); the unguarded statement is false on the
   unchanged tree — one counterexample theorem per recorded finding;
B. the contract of the reference (and hence, through A, of every backend on
   guarded scripts): get after set / delete, listings = the keys in
   `[start, end)` in order, both directions, batch write = its ops in sequence,
   staging / discarding is invisible, snapshots never change; two end-to-end
   corollaries on the backend model itself;
C. aliasing: values read from a copying backend are not aliased; memdb is the
   counterexample;
D. PrefixDB over any backend with a non-empty prefix is the ordered map of the
   prefixed keys (all bounds, both directions);
E. SnapshotDB is a read-only view of its snapshot.

Only theorems and their `example` witnesses here; lemmas are in `Proofs/C29*.lean`.
-/
import GnoVerif.Proofs.C29Refine
import GnoVerif.Proofs.C29Contract
import GnoVerif.Proofs.C29Prefix

namespace GnoVerif.C29
open GnoVerif

/-! ## A. every backend refines the ordered map -/

/-- the statement, unguarded: every script of sets, deletes, batches, iterations
and snapshot reads is answered by backend `b` as by the reference ordered map. -/
def same_as_ordered_map_statement : Prop :=
  ∀ (b : Backend) (ops : List ROp),
    (run (State.init b) (ops.map ROp.toOp)).2 = (Ref.run b.snapshots Ref.init ops).2

/-- **refinement**: inside the guard (no point operation on the empty key where
the backend substitutes a sentinel key, no empty non-nil bound where lmdbdb
seeks to it, no use of a written batch other than `Close` unless the backend
answers the announced error) every backend answers every operation of every
script exactly as the in-memory ordered map does. -/
theorem same_as_ordered_map_partial (b : Backend) (ops : List ROp) (h : Clean b Ref.init ops) :
    (run (State.init b) (ops.map ROp.toOp)).2 = (Ref.run b.snapshots Ref.init ops).2 := by
  have := run_refines ops (State.init b) (Inv.init b) (by rw [abs_init]; exact h)
  rw [abs_init] at this
  exact this.1

/-- the guard is satisfiable by a script that uses every kind of operation (here on boltdb). -/
example : Clean .blt Ref.init
    [.set (some [0x61]) (some [1]), .set (some [0x6e, 0x69, 0x6c]) none, .bnew 0, .bset 0 (some [0x62]) (some []),
     .bdel 0 (some [0x61]), .iter false (some []) none, .bwrite 0, .bclose 0, .snap 0, .get (some [0x62]),
     .iter true none (some [0x63])] := by
  simp [Clean, OpOk, keyOk, boundsOk, freshOk, Backend.sentinel, Backend.emptyBoundErr, Ref.step, Ref.init,
    Ref.findBatch, Ref.putBatch]

/-- goleveldb, pebbledb and memdb have no sentinel key and accept every bound:
for them the guard is only the batch discipline of types.go. -/
theorem guard_is_batch_discipline (b : Backend) (hs : b.sentinel = none) (he : b.emptyBoundErr = false)
    (r : Ref) (op : ROp) :
    OpOk b r op ↔ (∀ i, (∃ k v, op = .bset i k v) ∨ (∃ k, op = .bdel i k) ∨ op = .bwrite i → freshOk b r i) := by
  cases op <;> simp [OpOk, keyOk, boundsOk, hs, he]

/-- lmdbdb and mdbxdb answer the announced error on a written batch: no batch clause in their guard. -/
theorem guard_has_no_batch_clause (b : Backend) (h : b.afterWrite = .error) (r : Ref) (i : Nat) : freshOk b r i :=
  fun _ _ _ => h

/-- FINDING (boltdb): the empty key is stored under the user key "nil". -/
theorem empty_key_counterexample_blt :
    (run (State.init .blt) ([ROp.set (some []) (some [1]), .iter true none none, .set (some [0x6e, 0x69, 0x6c]) (some [2]),
        .get none].map ROp.toOp)).2
      = [.ok, .items [([0x6e, 0x69, 0x6c], [1])], .ok, .val (some [2])] ∧
    (Ref.run Backend.blt.snapshots Ref.init [ROp.set (some []) (some [1]), .iter true none none,
        .set (some [0x6e, 0x69, 0x6c]) (some [2]), .get none]).2
      = [.ok, .items [([], [1])], .ok, .val (some [1])] := by decide

/-- FINDING (lmdbdb): the empty key is stored under the user key 0x00. -/
theorem empty_key_counterexample_lmdb :
    (run (State.init .lmdb) ([ROp.set (some []) (some [1]), .iter true none none, .set (some [0]) (some [2]),
        .get none].map ROp.toOp)).2
      = [.ok, .items [([0], [1])], .ok, .val (some [2])] ∧
    (Ref.run Backend.lmdb.snapshots Ref.init [ROp.set (some []) (some [1]), .iter true none none,
        .set (some [0]) (some [2]), .get none]).2
      = [.ok, .items [([], [1])], .ok, .val (some [1])] := by decide

/-- FINDING (mdbxdb): the empty key is stored under the user key 0x00. -/
theorem empty_key_counterexample_mdbx :
    (run (State.init .mdbx) ([ROp.set (some []) (some [1]), .iter true none none, .set (some [0]) (some [2]),
        .get none].map ROp.toOp)).2
      = [.ok, .items [([0], [1])], .ok, .val (some [2])] ∧
    (Ref.run Backend.mdbx.snapshots Ref.init [ROp.set (some []) (some [1]), .iter true none none,
        .set (some [0]) (some [2]), .get none]).2
      = [.ok, .items [([], [1])], .ok, .val (some [1])] := by decide

/-- FINDING (lmdbdb): an empty non-nil bound the cursor seeks to is an error. -/
theorem empty_bound_counterexample_lmdb :
    (run (State.init .lmdb) ([ROp.set (some [0x61]) (some [1]), .iter true (some []) none,
        .iter false none (some []), .iter true none none].map ROp.toOp)).2
      = [.ok, .err "valsize", .err "valsize", .items [([0x61], [1])]] ∧
    (Ref.run Backend.lmdb.snapshots Ref.init [ROp.set (some [0x61]) (some [1]), .iter true (some []) none,
        .iter false none (some []), .iter true none none]).2
      = [.ok, .items [([0x61], [1])], .items [], .items [([0x61], [1])]] := by decide

/-- QUIRK outside the statement (types.go: "other methods will error"): a written
batch re-applies its ops on memdb / goleveldb / boltdb, errors on lmdbdb /
mdbxdb, panics on pebbledb. -/
theorem batch_reuse_counterexample :
    let script := [ROp.bnew 0, .bset 0 (some [0x61]) (some [1]), .bwrite 0, .del (some [0x61]), .bwrite 0, .get (some [0x61])]
    (run (State.init .mem) (script.map ROp.toOp)).2 = [.ok, .ok, .ok, .ok, .ok, .val (some [1])] ∧
    (run (State.init .ldb) (script.map ROp.toOp)).2 = [.ok, .ok, .ok, .ok, .ok, .val (some [1])] ∧
    (run (State.init .blt) (script.map ROp.toOp)).2 = [.ok, .ok, .ok, .ok, .ok, .val (some [1])] ∧
    (run (State.init .peb) (script.map ROp.toOp)).2 = [.ok, .ok, .ok, .ok, .panic "batchdone", .val none] ∧
    (run (State.init .lmdb) (script.map ROp.toOp)).2 = [.ok, .ok, .ok, .ok, .err "batchdone", .val none] ∧
    (run (State.init .mdbx) (script.map ROp.toOp)).2 = [.ok, .ok, .ok, .ok, .err "batchdone", .val none] ∧
    (Ref.run true Ref.init script).2 = [.ok, .ok, .ok, .ok, .err "batchdone", .val none] := by decide

/-- the unguarded statement is false on the unchanged tree. -/
theorem same_as_ordered_map_counterexample : ¬ same_as_ordered_map_statement := by
  intro h
  have h1 := h .blt [ROp.set (some []) (some [1]), .iter true none none, .set (some [0x6e, 0x69, 0x6c]) (some [2]), .get none]
  rw [empty_key_counterexample_blt.1, empty_key_counterexample_blt.2] at h1
  exact absurd h1 (by decide)

/-! ## B. the contract of the reference ordered map -/

/-- every reachable reference state holds strictly sorted maps. -/
theorem reachable_sorted (sn : Bool) (ops : List ROp) : (Ref.run sn Ref.init ops).1.WF :=
  Ref.run_wf ops Ref.WF_init

/-- Get / Has after Set: the new value under that key, every other key as before
(a nil key is the empty key, a nil value the empty value). -/
theorem get_after_set (sn : Bool) (r : Ref) (k v k' : Option Bytes) :
    (Ref.step sn (Ref.step sn r (.set k v)).1 (.get k')).2 =
      .val (if k.getD [] = k'.getD [] then some (v.getD []) else OMap.get r.m (k'.getD [])) ∧
    (Ref.step sn (Ref.step sn r (.set k v)).1 (.has k')).2 =
      .bool (if k.getD [] = k'.getD [] then true else (OMap.get r.m (k'.getD [])).isSome) := by
  simp only [Ref.step, OMap.get_set]
  split <;> simp

/-- Get / Has after Delete: absent, every other key as before. -/
theorem get_after_del (sn : Bool) (r : Ref) (k k' : Option Bytes) :
    (Ref.step sn (Ref.step sn r (.del k)).1 (.get k')).2 =
      .val (if k.getD [] = k'.getD [] then none else OMap.get r.m (k'.getD [])) ∧
    (Ref.step sn (Ref.step sn r (.del k)).1 (.has k')).2 =
      .bool (if k.getD [] = k'.getD [] then false else (OMap.get r.m (k'.getD [])).isSome) := by
  simp only [Ref.step, OMap.get_del]
  split <;> simp

/-- **iterators honour the bounds in both directions**: the listing holds exactly
the entries of the map whose key is ≥ start (inclusive; nil = from the first key)
and < end (exclusive; nil = to the last key), each once, in strictly ascending
resp. strictly descending key order. -/
theorem iter_honours_bounds (sn : Bool) (r : Ref) (hwf : r.WF) (asc : Bool) (s e : Option Bytes) :
    ∃ l, (Ref.step sn r (.iter asc s e)).2 = .items l ∧
      (∀ k v, (k, v) ∈ l ↔ OMap.get r.m k = some v ∧ (∀ a, s = some a → a ≤ k) ∧ (∀ b, e = some b → k < b)) ∧
      (if asc then l.Pairwise (fun x y => x.1 < y.1) else l.Pairwise (fun x y => y.1 < x.1)) := by
  refine ⟨OMap.range r.m s e asc, rfl, ?_, ?_⟩
  · intro k v
    rw [OMap.mem_range, OMap.mem_iff_get hwf.1, Lex.inDomain_iff]
  · cases asc
    · exact OMap.range_desc_pairwise hwf.1 s e
    · exact OMap.sorted_range_asc hwf.1 s e

/-- the descending listing is the ascending listing reversed. -/
theorem iter_desc_is_reverse_asc (sn : Bool) (r : Ref) (s e : Option Bytes) :
    (Ref.step sn r (.iter false s e)).2 = .items (OMap.range r.m s e true).reverse := rfl

/-- **batch write = sequential application**: writing a batch leaves the map that
the same Sets and Deletes, issued directly in staging order, leave. -/
theorem batch_write_is_sequential (sn : Bool) (r : Ref) (i : Nat) (bt : RBatch)
    (hf : r.findBatch i = some bt) (hw : bt.written = false) :
    (Ref.step sn r (.bwrite i)).2 = .ok ∧
    (Ref.step sn r (.bwrite i)).1.m = (Ref.run sn r (bt.ops.map ROpStaged.direct)).1.m ∧
    (Ref.step sn r (.bwrite i)).1.snaps = r.snaps := by
  refine ⟨?_, ?_, ?_⟩ <;> simp [Ref.step, hf, hw, Ref.run_direct, Ref.putBatch]

/-- **staging is invisible, discarding is a no-op**: creating batches, staging
Sets / Deletes and closing batches (written or not) never changes the map nor a
snapshot — only `Write` does. -/
theorem batch_staging_is_invisible (sn : Bool) (r : Ref) (ops : List ROp)
    (h : ∀ op ∈ ops, op.isStaging = true) :
    (Ref.run sn r ops).1.m = r.m ∧ (Ref.run sn r ops).1.snaps = r.snaps :=
  Ref.run_staging ops r h

/-- a snapshot is the state at the time it was taken … -/
theorem snapshot_is_state_at_snap (r : Ref) (s : Nat) (hfree : lookup r.snaps s = none) :
    (Ref.step true r (.snap s)).2 = .ok ∧ lookup (Ref.step true r (.snap s)).1.snaps s = some r.m := by
  simp only [Ref.step, hfree, Option.isSome_none, Bool.false_eq_true, if_false, if_true, true_and]
  unfold lookup at hfree ⊢
  rw [List.find?_append]
  split at hfree
  · cases hfree
  · rename_i hnone
    simp [hnone]

/-- … **and keeps returning it**: whatever is done afterwards (sets, deletes,
batch writes, other snapshots), short of closing it, Get / Has / Iterator on
the snapshot answer from the map it froze. -/
theorem snapshot_stable (sn : Bool) (r : Ref) (s : Nat) (m0 : OMap) (h : lookup r.snaps s = some m0)
    (ops : List ROp) (hops : ∀ op ∈ ops, ∀ j, op = .sclose j → j ≠ s) (k : Option Bytes) (asc : Bool)
    (lo hi : Option Bytes) :
    let r' := (Ref.run sn r ops).1
    (Ref.step sn r' (.sget s k)).2 = .val (OMap.get m0 (k.getD [])) ∧
    (Ref.step sn r' (.shas s k)).2 = .bool (OMap.get m0 (k.getD [])).isSome ∧
    (Ref.step sn r' (.siter s asc lo hi)).2 = .items (OMap.range m0 lo hi asc) := by
  have := Ref.run_keeps_snapshot (sn := sn) ops r s m0 h hops
  simp [Ref.step, this]

/-- end to end, on the backend model: on a backend with snapshots, in a guarded
script `pre ; snap s ; mid ; sget s k` whose middle part does not close `s`, the
final read returns what the database held for `k` when the snapshot was taken. -/
theorem backend_snapshot_stability_partial (b : Backend) (hsn : b.snapshots = true) (pre mid : List ROp)
    (s : Nat) (k : Option Bytes)
    (hclean : Clean b Ref.init (pre ++ [ROp.snap s] ++ mid ++ [ROp.sget s k]))
    (hfree : lookup (Ref.run true Ref.init pre).1.snaps s = none)
    (hmid : ∀ op ∈ mid, ∀ j, op = .sclose j → j ≠ s) :
    (run (State.init b) ((pre ++ [ROp.snap s] ++ mid ++ [ROp.sget s k]).map ROp.toOp)).2.getLast? =
      some (.val (OMap.get (Ref.run true Ref.init pre).1.m (k.getD []))) := by
  rw [same_as_ordered_map_partial b _ hclean, hsn]
  have hsnap := snapshot_is_state_at_snap (Ref.run true Ref.init pre).1 s hfree
  have hst := (snapshot_stable true _ s _ hsnap.2 mid hmid k true none none).1
  simp only [Ref.run_append, Ref.run, List.getLast?_append, List.getLast?_singleton]
  rw [hst]
  rfl

/-- the hypotheses of `backend_snapshot_stability_partial` are satisfiable (pebbledb). -/
example : Clean .peb Ref.init (([.set (some [0x61]) (some [1])] : List ROp) ++ [ROp.snap 0] ++
      [.set (some [0x61]) (some [2]), .del (some [0x61])] ++ [ROp.sget 0 (some [0x61])]) ∧
    lookup (Ref.run true Ref.init [.set (some [0x61]) (some [1])]).1.snaps 0 = none := by
  refine ⟨?_, by decide⟩
  simp [Clean, OpOk, keyOk, Backend.sentinel]

/-- end to end, on the backend model: in a guarded script `pre ; staging… ; it`
the listing is the listing right after `pre` — batches that are staged and
closed without `Write` leave no trace. -/
theorem backend_batch_discard_is_noop_partial (b : Backend) (pre stg : List ROp) (asc : Bool) (s e : Option Bytes)
    (hclean : Clean b Ref.init (pre ++ stg ++ [ROp.iter asc s e]))
    (hstg : ∀ op ∈ stg, op.isStaging = true) :
    (run (State.init b) ((pre ++ stg ++ [ROp.iter asc s e]).map ROp.toOp)).2.getLast? =
      some (.items (OMap.range (Ref.run b.snapshots Ref.init pre).1.m s e asc)) := by
  rw [same_as_ordered_map_partial b _ hclean]
  have := (batch_staging_is_invisible b.snapshots (Ref.run b.snapshots Ref.init pre).1 stg hstg).1
  simp only [Ref.run_append, Ref.run, List.getLast?_append, List.getLast?_singleton, Ref.step, this]
  simp

/-! ## C. returned values are not aliased -/

/-- the clause "values returned are not aliased to internal buffers": writing
into a slice returned by `Get` or by `Iterator.Key/Value` changes nothing that
a later operation can observe. -/
def values_not_aliased_statement : Prop :=
  ∀ (st : State) (snap : Bool) (h : Nat) (k : Option Bytes) (asc : Bool) (s e : Option Bytes),
    (reader st snap h = some .root ∨ ∃ i, reader st snap h = some (.snapdb i)) →
    step st (.get snap h k true) = step st (.get snap h k false) ∧
    step st (.iter snap h asc s e true) = step st (.iter snap h asc s e false)

/-- every backend that copies (all but memdb): flipping the returned slices
leaves the answer and the whole state as they are — on the backend and on its
snapshots. -/
theorem values_not_aliased_partial (st : State) (hb : st.be.aliases = false) (snap : Bool) (h : Nat)
    (k : Option Bytes) (asc : Bool) (s e : Option Bytes)
    (hr : reader st snap h = some .root ∨ ∃ i, reader st snap h = some (.snapdb i)) :
    step st (.get snap h k true) = step st (.get snap h k false) ∧
    step st (.iter snap h asc s e true) = step st (.iter snap h asc s e false) := by
  constructor
  · rcases hr with hr | ⟨i, hr⟩ <;> simp [step, hr, getAliases, hb]
  · simp [step, hb]

/-- the guard `aliases = false` holds for five of the six backends. -/
example : ∀ b : Backend, b ≠ .mem → (State.init b).be.aliases = false := by
  intro b hb; cases b <;> simp_all [State.init, Backend.aliases]

/-- FINDING (memdb): `Get` and `Iterator.Value` return the stored slice — a write
into it is seen by later reads and by a snapshot taken earlier. -/
theorem alias_counterexample_mem :
    (run (State.init .mem) [.set 0 (some [0x61]) (some [1, 2]) false, .snap 0 0,
        .iter false 0 true none none true, .get false 0 (some [0x61]) false, .get true 0 (some [0x61]) false]).2
      = [.ok, .ok, .items [([0x61], [254, 253])], .val (some [254, 253]), .val (some [254, 253])] := by decide

theorem values_not_aliased_counterexample : ¬ values_not_aliased_statement := by
  intro h
  have := (h (run (State.init .mem) [.set 0 (some [0x61]) (some [1, 2]) false]).1 false 0 (some [0x61]) true none none
    (Or.inl rfl)).1
  have h2 := congrArg Prod.snd this
  have e1 : (step (run (State.init .mem) [.set 0 (some [0x61]) (some [1, 2]) false]).1
      (.get false 0 (some [0x61]) true)).2 = .val (some [254, 253]) := by decide
  have e2 : (step (run (State.init .mem) [.set 0 (some [0x61]) (some [1, 2]) false]).1
      (.get false 0 (some [0x61]) false)).2 = .val (some [1, 2]) := by decide
  rw [e1, e2] at h2
  exact absurd h2 (by decide)

/-! ## D. PrefixDB over a backend -/

/-- `PrefixDB.Get/Has` with a non-empty prefix read the prefixed sub-map (and
never meet a sentinel key). -/
theorem prefix_get_eq_view (st : State) (p : Bytes) (hp : p ≠ []) (k : Bytes) :
    dbGet st (.pfx p .root) k = some (OMap.get (pview st.db p) k) ∧
    dbHas st (.pfx p .root) k = some (OMap.get (pview st.db p) k).isSome := by
  have : st.be.phys (p ++ k) = p ++ k := by
    unfold Backend.phys; simp [hp]
  simp [dbGet, dbHas, rootGet, this, get_pview]

/-- `PrefixDB.Iterator/ReverseIterator` with a non-empty prefix list exactly the
keys of the prefixed sub-map inside the caller's bounds, stripped, in order —
for every bound (nil, empty, any key) and both directions, on every backend. -/
theorem prefix_iter_eq_view (st : State) (p : Bytes) (hp : p ≠ []) (asc : Bool) (s e : Option Bytes) :
    dbIter st (.pfx p .root) asc s e = .ok (OMap.range (pview st.db p) s e asc) := by
  have hps : (some (p ++ s.getD []) == some ([] : Bytes)) = false := by simp [hp]
  have hpe : (pend p e == some ([] : Bytes)) = false := by
    cases e with
    | some e0 => simp [pend, hp]
    | none =>
      cases hc : cpIncr p with
      | none => simp [pend, hc]
      | some x =>
        have hlt := Lex.lt_prefixEnd hc
        have : x ≠ [] := by intro hx; subst hx; exact Lex.not_lt_nil p hlt
        simp [pend, hc, this]
  have hroot : rootIter st asc (some (p ++ s.getD [])) (pend p e) =
      .ok (OMap.range st.db (pstart p s) (pend p e) asc) := by
    simp [rootIter, hps, hpe, pstart]
  cases e with
  | some e0 =>
    simp only [dbIter, hroot, pend] at hroot ⊢
    rw [← prefix_range st.db p s (some e0) asc]
    rfl
  | none =>
    simp only [dbIter, hp, if_false, pend] at hroot ⊢
    rw [hroot]
    simp only []
    rw [← prefix_range st.db p s none asc]
    rfl

/-- `PrefixDB.Set/Delete` act as Set/Delete on the prefixed sub-map. -/
theorem prefix_set_del_view (st : State) (hs : OMap.Sorted st.db) (p : Bytes) (hp : p ≠ []) (k : Bytes) (c : Cell) :
    view (pview (dbSet st (.pfx p .root) k c).1.db p) = OMap.set (view (pview st.db p)) k c.val ∧
    pview (dbDel st (.pfx p .root) k).1.db p = OMap.del (pview st.db p) k := by
  have hph : st.be.phys (p ++ k) = p ++ k := by
    unfold Backend.phys; simp [hp]
  constructor
  · have hsp := rootSet_spec st (p ++ k) c
    rw [hph] at hsp
    have hview : ∀ m : PMap, view (pview m p) = pview (view m) p := by
      intro m; simp [view, pview, List.filter_map, Function.comp_def]
    simp only [dbSet]
    rw [hview, hsp.1, hview]
    have hsv : OMap.Sorted (view st.db) := by
      unfold view OMap.Sorted; rw [List.pairwise_map]; exact hs
    apply OMap.ext (sorted_pview (OMap.sorted_set hsv _ _) p) (OMap.sorted_set (sorted_pview hsv p) _ _)
    intro k'
    rw [get_pview, OMap.get_set, OMap.get_set, get_pview]
    by_cases hk : k = k' <;> simp [hk]
  · simp only [dbDel, rootDel, hph]
    apply OMap.ext (sorted_pview (OMap.sorted_del hs _) p) (OMap.sorted_del (sorted_pview hs p) _)
    intro k'
    rw [get_pview, OMap.get_del, OMap.get_del, get_pview]
    by_cases hk : k = k' <;> simp [hk]

/-! ## E. SnapshotDB -/

/-- `SnapshotDB` (snapshot_db.go) is a read-only view of its snapshot: reads
answer from the frozen map (hence, by `snapshot_stable`, from the state at the
time the snapshot was taken), `Set/Delete` panic and leave everything as it
is, and its batches are the no-op batch whose `Write` panics. -/
theorem snapshot_db_is_read_only_view (st : State) (s : Nat) (m : PMap) (h : lookup st.snaps s = some m)
    (k : Bytes) (asc : Bool) (lo hi : Option Bytes) (c : Cell) (bt : Batch) (hbt : bt.kind = .noop) :
    dbGet st (.snapdb s) k = some (OMap.get m k) ∧
    dbHas st (.snapdb s) k = some (OMap.get m k).isSome ∧
    dbIter st (.snapdb s) asc lo hi = .ok (OMap.range m lo hi asc) ∧
    dbSet st (.snapdb s) k c = (st, .panic "readonly") ∧
    dbDel st (.snapdb s) k = (st, .panic "readonly") ∧
    dbBatch (.snapdb s) = (.noop, []) ∧
    batchStage st bt false k c = (st, .ok) ∧ batchWrite st bt = (st, .panic "readonly") := by
  simp [dbGet, dbHas, dbIter, dbSet, dbDel, dbBatch, batchStage, batchWrite, h, hbt]

end GnoVerif.C29
