import GnoVerif.Proofs.C21
import GnoVerif.Proofs.C21Comments
/-!
# C21 — Gno's forked Go parser parses exactly like go/parser

Property statement: "For every source text, the Gno parser returns the same syntax tree
(up to the extra callback) and the same errors as the Go standard library parser it was
forked from, and it never panics."

**What Lean carries, and all it carries.**  There is no Lean model of the recursive-descent
grammar.  The statement is established by translation validation (the textual F tie
`facts-parserfork`: fork = base parser + gno.patch, byte for byte; plus the differential
runs fork / base / installed go/parser on the repository's sources and their mutations).
The patch adds wrappers (`ParseFile2`, `ParseExprFrom2`, `ParseExpr2`), a field, and ONE
statement inside a loop of existing code: the per-token callback in `next0`.  The theorems
below are about that loop shape, in `GnoVerif/Model/C21.lean` (`next0`, `consumeComment`,
`consumeCommentGroup`, `next`, mirrored line by line), and they are parametric in the rest
of the parser: `Prog` is an arbitrary terminating client of `next()` that may read the
parser state and overwrite `p.tok` (the only field of this layer that the grammar code
writes — checked by the F tie).

* `callback_transparent`, `parseFile2_eq_parseFile`: a callback that returns normally
  (a function on its own state) never changes the parser state sequence — hence neither
  the tree nor the errors the grammar builds from it.  A callback that PANICS (gnolang's
  gas callback does, on out-of-gas) is outside the model: the panic leaves `ParseFile2`
  (only a `bailout` is recovered), which is the intended behaviour.
* `callback_once_per_scan`: once installed, the callback is invoked exactly once per token
  the scanner returns, in stream order.
* `comments_filed`: with `ParseComments`, whatever the callback, the comment groups collected
  by this layer, flattened, are exactly the comment tokens before the current token, in order.
* `callback_misses_init_tokens`, `callback_count_counterexample`: the callback count is NOT
  the token count: `ParseFile2` installs the callback after `p.init`, whose `p.next()` has
  already scanned the first non-comment token and every comment before it (finding
  `cb-misses-first`); `callback_count_partial` is the exact count.
* `lineFor_drift_agree`, `lineFor_drift_counterexample`: the one upstream-drift hunk that
  lives in this layer (go1.25.9 groups comments by physical lines, the fork by `//line`
  adjusted lines): equal without directives, different with one (finding
  `drift-linedirective`).

Not a theorem, correspondence/oracle only: everything about the grammar — equality of trees
and error lists with the base parser and with the installed go/parser, and absence of panics.
-/
namespace GnoVerif.C21

/-! ## 1. the callback is transparent -/

/-- For every token stream, line function and mode, every client `prog` of `next()`, every
start state, every callback `cb` and callback state `k`: the run with the callback yields the
same result, the same parser state after every `next()`, and the same final parser state as
the run with `p.callback == nil`. -/
theorem callback_transparent {ρ κ : Type} (c : Cfg) (cb : Nat → Nat → κ → κ) (prog : Prog ρ)
    (st : PState) (k : κ) :
    (run c (some cb) prog st k).result = (run c noCb prog st ()).result ∧
    (run c (some cb) prog st k).trace = (run c noCb prog st ()).trace ∧
    (run c (some cb) prog st k).final = (run c noCb prog st ()).final := by
  rw [run_char c (some cb) prog st k]
  exact ⟨rfl, rfl, rfl⟩

/-- `ParseFile2(…, callback)` and `ParseFile(…)` (likewise `ParseExprFrom2` / `ParseExprFrom`)
drive the grammar through exactly the same parser states. -/
theorem parseFile2_eq_parseFile {ρ κ : Type} (c : Cfg) (cb : Nat → Nat → κ → κ) (prog : Prog ρ) (k : κ) :
    (parse2 c cb prog k).result = (parse1 c prog).result ∧
    (parse2 c cb prog k).trace = (parse1 c prog).trace ∧
    (parse2 c cb prog k).final = (parse1 c prog).final := by
  unfold parse2 parse1
  rw [next_char c (none : Callback κ) 0 PState.init k]
  exact callback_transparent c cb prog _ _

/-! ## 2. one invocation per scanned token, in order -/

/-- The callback state after a run is the callback folded over the scans of the run
(`scans`: stream index and nesting level of each `Scan`), and these scans are the stream
indices `st.idx, st.idx+1, …, final.idx-1` — each exactly once, in order. -/
theorem callback_once_per_scan {ρ κ : Type} (c : Cfg) (cb : Nat → Nat → κ → κ) (prog : Prog ρ)
    (st : PState) (k : κ) :
    (run c (some cb) prog st k).cbState
        = (scans c prog st).foldl (fun k e => cb (tokAt c.s e.1).kind e.2 k) k ∧
    (scans c prog st).map Prod.fst
        = List.range' st.idx ((run c (some cb) prog st k).final.idx - st.idx) := by
  rw [run_char c (some cb) prog st k]
  exact ⟨rfl, scans_fst c prog st⟩

/-! ## 2b. no comment is lost around the patched loop -/

/-- With `ParseComments`, whatever the callback, and for every client that does not overwrite
`p.tok`: when `ParseFile2` returns control the current token is a non-comment token `p` of the
stream, and `p.comments`, flattened, is exactly the list of comment tokens before `p`, in source
order — no comment token is dropped, duplicated or reordered by the layer that carries the
callback. -/
theorem comments_filed {ρ κ : Type} (c : Cfg) (hpc : c.parseComments = true) (cb : Nat → Nat → κ → κ)
    (prog : Prog ρ) (hp : prog.noPoke) (k : κ) :
    ∃ p, (parse2 c cb prog k).final.pos = some p ∧
      (parse2 c cb prog k).final.tok = (tokAt c.s p).kind ∧
      (parse2 c cb prog k).final.tok ≠ tCOMMENT ∧
      (parse2 c cb prog k).final.comments.flatten = commentsUpTo c p := by
  rw [(parseFile2_eq_parseFile c cb prog k).2.2]
  obtain ⟨p, hf, hne⟩ := run_pc c hpc prog hp (afterInit c) (afterInit_pc c hpc)
  exact ⟨p, hf.1.pos, hf.1.tok, hne, hf.2⟩

example : (drain 7).noPoke := drain_noPoke 7

/-! ## 3. the callback count is not the token count (finding `cb-misses-first`) -/

/-- The reading "one callback per token scanned by the parse": with the logging callback, as
many entries as `Scan` calls. -/
def callback_count_statement : Prop :=
  ∀ (c : Cfg) (prog : Prog Unit),
    (parse2 c logCb prog []).cbState.length = (parse2 c logCb prog []).final.idx

/-- tokens scanned by `p.init` (its `p.next()`), before `ParseFile2` installs the callback -/
def initScans (c : Cfg) : Nat := (afterInit c).idx

/-- What holds instead: callbacks + tokens scanned by `p.init` = tokens scanned, and the log is
the stream's token kinds from `initScans` on. -/
theorem callback_count_partial {ρ : Type} (c : Cfg) (prog : Prog ρ) :
    (parse2 c logCb prog []).cbState.length + initScans c = (parse2 c logCb prog []).final.idx ∧
    (parse2 c logCb prog []).cbState.map Prod.fst
      = (List.range' (initScans c) ((parse2 c logCb prog []).final.idx - initScans c)).map
          (fun j => (tokAt c.s j).kind) := by
  obtain ⟨h1, h2⟩ := parse2_log c prog
  have h3 := scans_fst c prog (afterInit c)
  have h4 := run_idx_le c prog (afterInit c)
  rw [h1, h2]
  unfold initScans
  constructor
  · have : (scans c prog (afterInit c)).length
        = (run c noCb prog (afterInit c) ()).final.idx - (afterInit c).idx := by
      have := congrArg List.length h3
      simpa using this
    rw [List.length_map, this]
    omega
  · rw [← h3, List.map_map, List.map_map]
    rfl

/-- `p.init` always scans at least one token, so the callback always misses some. -/
theorem callback_misses_init_tokens {ρ : Type} (c : Cfg) (prog : Prog ρ) :
    (parse2 c logCb prog []).cbState.length < (parse2 c logCb prog []).final.idx := by
  have h := (callback_count_partial c prog).1
  have h1 : 1 ≤ initScans c := by
    unfold initScans afterInit
    have := next_idx_lt c noCb 0 PState.init ()
    have h0 : PState.init.idx = 0 := rfl
    omega
  omega

/-- The witness the harness replays (`cb0` on `package p\n`, corpus/C21/cb-misses-first.ops): the
complete parse scans 4 tokens (`package`, IDENT, `;`, EOF) and the callback sees 3 — IDENT, `;`,
EOF; `package` is never reported. -/
theorem callback_count_counterexample : ¬ callback_count_statement := by
  intro h
  have h1 := h (forkCfg wPackage true) (drain 5)
  rw [wPackage_log.2, ← List.length_map (f := Prod.fst), wPackage_log.1] at h1
  exact absurd h1 (by decide)

example : (parse2 (forkCfg wPackage true) logCb (drain 5) []).cbState.map Prod.fst = [4, 57, 1] :=
  wPackage_log.1

/-! ## 4. the upstream-drift hunk of this layer: `lineFor` (finding `drift-linedirective`) -/

/-- "The fork collects the same comment groups as the installed go/parser (go1.25.9)", for a
complete parse of any token stream. -/
def comment_groups_statement : Prop :=
  ∀ (s : Array Tok) (pc : Bool),
    (parse1 (forkCfg s pc) (drain (s.size + 1))).final.comments
      = (parse1 (stdCfg s pc) (drain (s.size + 1))).final.comments

/-- The guard under which it holds (for every client, every component of the outcome): no
`//line` directive changes the line of any token. -/
theorem lineFor_drift_agree {ρ : Type} (s : Array Tok) (pc : Bool)
    (h : ∀ i, (tokAt s i).line = (tokAt s i).raw) (prog : Prog ρ) :
    parse1 (forkCfg s pc) prog = parse1 (stdCfg s pc) prog := by
  have : forkCfg s pc = stdCfg s pc := by
    unfold forkCfg stdCfg
    congr 1
    funext i
    exact h i
  rw [this]

example : ∀ i, (tokAt wPackage i).line = (tokAt wPackage i).raw := wPackage_lines

/-- With a directive it fails: on `//line :21\n// c\npackage p\n` the fork splits the two comments
into two groups (the second one "is on line 21"), go1.25.9 keeps them in one (physical lines 1, 2).
Replayed on the real parsers by corpus/C21/drift-linedirective.ops. -/
theorem lineFor_drift_counterexample : ¬ comment_groups_statement := by
  intro h
  have h1 := h wDirective true
  have e : wDirective.size + 1 = 7 := rfl
  rw [e, wDirective_fork, wDirective_std] at h1
  exact absurd h1 (by decide)

end GnoVerif.C21
