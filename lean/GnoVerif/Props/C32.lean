import GnoVerif.Proofs.C32
/-!
C32 — applied blocks are valid and block validation is robust.

Model: `Model/C32.lean` (`State.ValidateBlock`, `Block.ValidateBasic`, `MedianTime`,
`WeightedMedian`, `HasAddress`, check by check, with C36's `VerifyCommit` model
inside); statement vocabulary: `Spec/C32.lean` (`Valid`, `BasicOK`, `LastCommitOK`,
`IsWeightedMedian`, `applyBlock`/`applyAll`); helper lemmas: `Proofs/C32.lean`.

All theorems are for EVERY state whose two validator sets satisfy the invariants the
real `ValidatorSet` maintains (`StateOK`) and EVERY block (any field values, any
commit, any precommits, any signature bits) — i.e. for the abstraction of every
decodable block.
-/
namespace GnoVerif.C32
open GnoVerif.C36 (ValSet Validator wrap64)

/-! ### Block.ValidateBasic -/

/-- `Block.ValidateBasic` accepts exactly the internally consistent blocks. -/
theorem validateBasic_ok_iff' (b : Block) : validateBasic b = .ok () ↔ BasicOK b :=
  validateBasic_ok_iff b

/-! ### ValidateBlock accepts exactly the valid blocks -/

/-- **Headline.**  `ValidateBlock` returns nil exactly when the block meets every
condition of the statement's list (`Valid`).  Left to right: every accepted — hence
every applied — block is valid.  Right to left, contraposed: every block that
violates any one condition is rejected. -/
theorem validateBlock_ok_iff (s : State) (hs : StateOK s) (b : Block) :
    validateBlock s b = .ok () ↔ Valid s b :=
  validateBlock_ok_iff_aux hs b

/-! #### accepted ⇒ each listed condition, in the statement's words -/

/-- correct height: exactly one more than the last block's (no int64 wrap). -/
theorem accepted_height (s : State) (hs : StateOK s) (b : Block) (h : validateBlock s b = .ok ())
    (hr : C36.minInt64 ≤ s.lastBlockHeight ∧ s.lastBlockHeight < C36.maxInt64) :
    b.header.height = s.lastBlockHeight + 1 := by
  have := ((validateBlock_ok_iff s hs b).1 h).height
  rwa [C36.wrap64_id (by omega) (by omega)] at this

theorem accepted_chain_id (s : State) (hs : StateOK s) (b : Block) (h : validateBlock s b = .ok ()) :
    b.header.chainID = s.chainID := ((validateBlock_ok_iff s hs b).1 h).chainID

theorem accepted_last_block_id (s : State) (hs : StateOK s) (b : Block) (h : validateBlock s b = .ok ()) :
    b.header.lastBlockID.id = s.lastBlockID := ((validateBlock_ok_iff s hs b).1 h).lastBlockID

/-- app / results / validators / next-validators / consensus-params hashes. -/
theorem accepted_hashes (s : State) (hs : StateOK s) (b : Block) (h : validateBlock s b = .ok ()) :
    b.header.appHash = s.appHash ∧ b.header.lastResultsHash = s.lastResultsHash ∧
    b.header.validatorsHash = s.validatorsHashC ∧ b.header.nextValidatorsHash = s.nextValidatorsHashC ∧
    b.header.consensusHash = s.consensusHashC := by
  have v := (validateBlock_ok_iff s hs b).1 h
  exact ⟨v.appHash, v.lastResultsHash, v.validatorsHash, v.nextValidatorsHash, v.consensusHash⟩

/-- the header's hashes of its own content are the recomputed ones. -/
theorem accepted_content_hashes (s : State) (hs : StateOK s) (b : Block) (h : validateBlock s b = .ok ()) :
    b.header.dataHash = b.dataHashC ∧ b.header.lastCommitHash = b.lastCommitHashC ∧
    b.header.numTxs = (b.nTxs : Int) := by
  have v := ((validateBlock_ok_iff s hs b).1 h).basic
  exact ⟨v.dataHash, v.lastCommitHash, v.numTxs⟩

/-- the first block of the chain carries no precommits and the genesis time. -/
theorem accepted_genesis (s : State) (hs : StateOK s) (b : Block) (h : validateBlock s b = .ok ())
    (hg : b.header.height = s.initialHeight) :
    ∃ c, b.lastCommit = some c ∧ c.precommits = [] ∧ b.header.time = s.lastBlockTime := by
  obtain ⟨c, hc, hl⟩ := ((validateBlock_ok_iff s hs b).1 h).lastCommit
  unfold LastCommitOK at hl
  rw [if_pos hg] at hl
  exact ⟨c, hc, hl⟩

/-- **a last commit signed by more than two thirds of the previous validator set**:
for every later block the commit is well-formed for the previous height and block
(`C36.WellFormed`) and the validators whose slot holds a verifying precommit for
`state.LastBlockID` hold more than 2/3 of the previous set's power — exact integers. -/
theorem accepted_commit_two_thirds (s : State) (hs : StateOK s) (b : Block) (h : validateBlock s b = .ok ())
    (hg : b.header.height ≠ s.initialHeight) :
    ∃ c, b.lastCommit = some c ∧
      C36.WellFormed s.lastValidators s.lastBlockID (wrap64 (b.header.height - 1)) c.toC36 ∧
      3 * C36.signedPower s.lastValidators s.lastBlockID (wrap64 (b.header.height - 1)) c.toC36
        > 2 * C36.sumPowers s.lastValidators := by
  obtain ⟨c, hc, hl⟩ := ((validateBlock_ok_iff s hs b).1 h).lastCommit
  unfold LastCommitOK at hl
  rw [if_neg hg] at hl
  exact ⟨c, hc, hl.1, hl.2.1⟩

/-- **monotonic time**: strictly after the previous block's time. -/
theorem accepted_time_monotonic (s : State) (hs : StateOK s) (b : Block) (h : validateBlock s b = .ok ())
    (hg : b.header.height ≠ s.initialHeight) : s.lastBlockTime < b.header.time := by
  obtain ⟨c, _, hl⟩ := ((validateBlock_ok_iff s hs b).1 h).lastCommit
  unfold LastCommitOK at hl
  rw [if_neg hg] at hl
  exact hl.2.2.1

/-- `MedianTime` is the power-weighted median of the commit's timestamps, each
precommit weighted with the power of the validator in whose slot it sits — for
every valid set and every commit with at least one signed slot, whatever the
timestamps are (instants are compared, since repo commit 6794836d2f). -/
theorem medianTime_is_weighted_median (vals : ValSet) (hv : C36.validSet vals = true) (c : Commit)
    (hne : slotTimes vals c.precommits ≠ []) :
    IsWeightedMedian (slotTimes vals c.precommits) (medianTime c vals) := by
  have hV := (C36.validSet_iff vals).1 hv
  rw [medianTime_eq hV]
  exact weightedMedian_spec _ (slotTimes_weight_pos hV.pos _) hne

/-- **median time**: the time of an accepted later block IS the power-weighted median
of its commit's timestamps (by slot). -/
theorem accepted_time_is_weighted_median (s : State) (hs : StateOK s) (b : Block)
    (h : validateBlock s b = .ok ()) (hg : b.header.height ≠ s.initialHeight) :
    ∃ c, b.lastCommit = some c ∧
      IsWeightedMedian (slotTimes s.lastValidators c.precommits) b.header.time := by
  obtain ⟨c, hc, hl⟩ := ((validateBlock_ok_iff s hs b).1 h).lastCommit
  unfold LastCommitOK at hl
  rw [if_neg hg] at hl
  refine ⟨c, hc, ?_⟩
  rw [hl.2.2.2]
  refine medianTime_is_weighted_median _ hs.2 c ?_
  intro hnil
  have h0 := signedPower_eq_zero s.lastBlockID (wrap64 (b.header.height - 1)) c.blockID c.precommits
    s.lastValidators hnil
  have hnn := C36.sumPowers_nonneg ((C36.validSet_iff _).1 hs.2).pos
  have := hl.2.1
  have hc' : Commit.toC36 ⟨c.blockID, c.precommits⟩ = c.toC36 := rfl
  rw [hc'] at h0
  omega

theorem accepted_proposer (s : State) (hs : StateOK s) (b : Block) (h : validateBlock s b = .ok ()) :
    ∃ v ∈ s.validators, v.addr = b.header.proposer := ((validateBlock_ok_iff s hs b).1 h).proposer

/-! #### each single violation ⇒ rejected (one theorem per condition) -/

theorem rejects_wrong_height (s : State) (hs : StateOK s) (b : Block)
    (h : b.header.height ≠ wrap64 (s.lastBlockHeight + 1)) : validateBlock s b ≠ .ok () :=
  fun hok => h ((validateBlock_ok_iff s hs b).1 hok).height

theorem rejects_below_initial_height (s : State) (hs : StateOK s) (b : Block)
    (h : b.header.height < s.initialHeight) : validateBlock s b ≠ .ok () :=
  fun hok => by have := ((validateBlock_ok_iff s hs b).1 hok).notBelowInitial; omega

theorem rejects_wrong_chain_id (s : State) (hs : StateOK s) (b : Block)
    (h : b.header.chainID ≠ s.chainID) : validateBlock s b ≠ .ok () :=
  fun hok => h ((validateBlock_ok_iff s hs b).1 hok).chainID

theorem rejects_wrong_version (s : State) (hs : StateOK s) (b : Block)
    (h : b.header.version ≠ s.blockVersion ∨ b.header.appVersion ≠ s.appVersion) :
    validateBlock s b ≠ .ok () :=
  fun hok => by
    have v := (validateBlock_ok_iff s hs b).1 hok
    rcases h with h | h
    · exact h v.version
    · exact h v.appVersion

theorem rejects_wrong_last_block_id (s : State) (hs : StateOK s) (b : Block)
    (h : b.header.lastBlockID.id ≠ s.lastBlockID) : validateBlock s b ≠ .ok () :=
  fun hok => h ((validateBlock_ok_iff s hs b).1 hok).lastBlockID

theorem rejects_wrong_total_txs (s : State) (hs : StateOK s) (b : Block)
    (h : b.header.totalTxs ≠ wrap64 (s.lastBlockTotalTx + (b.nTxs : Int))) : validateBlock s b ≠ .ok () :=
  fun hok => h ((validateBlock_ok_iff s hs b).1 hok).totalTxs

theorem rejects_wrong_app_hash (s : State) (hs : StateOK s) (b : Block)
    (h : b.header.appHash ≠ s.appHash) : validateBlock s b ≠ .ok () :=
  fun hok => h ((validateBlock_ok_iff s hs b).1 hok).appHash

theorem rejects_wrong_results_hash (s : State) (hs : StateOK s) (b : Block)
    (h : b.header.lastResultsHash ≠ s.lastResultsHash) : validateBlock s b ≠ .ok () :=
  fun hok => h ((validateBlock_ok_iff s hs b).1 hok).lastResultsHash

theorem rejects_wrong_validators_hash (s : State) (hs : StateOK s) (b : Block)
    (h : b.header.validatorsHash ≠ s.validatorsHashC) : validateBlock s b ≠ .ok () :=
  fun hok => h ((validateBlock_ok_iff s hs b).1 hok).validatorsHash

theorem rejects_wrong_next_validators_hash (s : State) (hs : StateOK s) (b : Block)
    (h : b.header.nextValidatorsHash ≠ s.nextValidatorsHashC) : validateBlock s b ≠ .ok () :=
  fun hok => h ((validateBlock_ok_iff s hs b).1 hok).nextValidatorsHash

theorem rejects_wrong_consensus_hash (s : State) (hs : StateOK s) (b : Block)
    (h : b.header.consensusHash ≠ s.consensusHashC) : validateBlock s b ≠ .ok () :=
  fun hok => h ((validateBlock_ok_iff s hs b).1 hok).consensusHash

theorem rejects_inconsistent_block (s : State) (hs : StateOK s) (b : Block)
    (h : ¬ BasicOK b) : validateBlock s b ≠ .ok () :=
  fun hok => h ((validateBlock_ok_iff s hs b).1 hok).basic

theorem rejects_wrong_data_hash (s : State) (hs : StateOK s) (b : Block)
    (h : b.header.dataHash ≠ b.dataHashC ∨ b.header.numTxs ≠ (b.nTxs : Int)) : validateBlock s b ≠ .ok () :=
  fun hok => by
    have v := ((validateBlock_ok_iff s hs b).1 hok).basic
    rcases h with h | h
    · exact h v.dataHash
    · exact h v.numTxs

theorem rejects_wrong_last_commit_hash (s : State) (hs : StateOK s) (b : Block)
    (h : b.header.lastCommitHash ≠ b.lastCommitHashC) : validateBlock s b ≠ .ok () :=
  fun hok => h ((validateBlock_ok_iff s hs b).1 hok).basic.lastCommitHash

theorem rejects_nil_last_commit (s : State) (hs : StateOK s) (b : Block)
    (h : b.lastCommit = none) : validateBlock s b ≠ .ok () :=
  fun hok => by
    obtain ⟨c, hc, _⟩ := ((validateBlock_ok_iff s hs b).1 hok).lastCommit
    rw [h] at hc; cases hc

theorem rejects_genesis_with_precommits (s : State) (hs : StateOK s) (b : Block) (c : Commit)
    (hc : b.lastCommit = some c) (hg : b.header.height = s.initialHeight) (h : c.precommits ≠ []) :
    validateBlock s b ≠ .ok () :=
  fun hok => by
    obtain ⟨c', hc', hp, _⟩ := accepted_genesis s hs b hok hg
    rw [hc] at hc'; cases hc'; exact h hp

theorem rejects_wrong_genesis_time (s : State) (hs : StateOK s) (b : Block)
    (hg : b.header.height = s.initialHeight) (h : b.header.time ≠ s.lastBlockTime) :
    validateBlock s b ≠ .ok () :=
  fun hok => by
    obtain ⟨_, _, _, ht⟩ := accepted_genesis s hs b hok hg
    exact h ht

/-- at most two thirds of the previous set signed the previous block ⇒ rejected. -/
theorem rejects_insufficient_commit (s : State) (hs : StateOK s) (b : Block) (c : Commit)
    (hc : b.lastCommit = some c) (hg : b.header.height ≠ s.initialHeight)
    (h : 3 * C36.signedPower s.lastValidators s.lastBlockID (wrap64 (b.header.height - 1)) c.toC36
          ≤ 2 * C36.sumPowers s.lastValidators) :
    validateBlock s b ≠ .ok () :=
  fun hok => by
    obtain ⟨c', hc', _, hp⟩ := accepted_commit_two_thirds s hs b hok hg
    rw [hc] at hc'; cases hc'; omega

/-- a commit that is not well-formed for the previous height and block (wrong size,
another block id, an entry of another height / round / type, ANY signature that does
not verify) ⇒ rejected. -/
theorem rejects_malformed_commit (s : State) (hs : StateOK s) (b : Block) (c : Commit)
    (hc : b.lastCommit = some c) (hg : b.header.height ≠ s.initialHeight)
    (h : ¬ C36.WellFormed s.lastValidators s.lastBlockID (wrap64 (b.header.height - 1)) c.toC36) :
    validateBlock s b ≠ .ok () :=
  fun hok => by
    obtain ⟨c', hc', hw, _⟩ := accepted_commit_two_thirds s hs b hok hg
    rw [hc] at hc'; cases hc'; exact h hw

theorem rejects_bad_signature (s : State) (hs : StateOK s) (b : Block) (c : Commit)
    (hc : b.lastCommit = some c) (hg : b.header.height ≠ s.initialHeight)
    (h : ∃ p, some p ∈ c.precommits ∧ p.e.sigOK = false) :
    validateBlock s b ≠ .ok () := by
  refine rejects_malformed_commit s hs b c hc hg (fun hw => ?_)
  obtain ⟨p, hp, hbad⟩ := h
  have : some p.e ∈ c.toC36.precommits := by
    simp only [Commit.toC36, List.mem_map]
    exact ⟨some p, hp, rfl⟩
  have := hw.sigs p.e this
  rw [hbad] at this; cases this

theorem rejects_time_not_after_last (s : State) (hs : StateOK s) (b : Block)
    (hg : b.header.height ≠ s.initialHeight) (h : b.header.time ≤ s.lastBlockTime) :
    validateBlock s b ≠ .ok () :=
  fun hok => by have := accepted_time_monotonic s hs b hok hg; omega

theorem rejects_time_not_median (s : State) (hs : StateOK s) (b : Block) (c : Commit)
    (hc : b.lastCommit = some c) (hg : b.header.height ≠ s.initialHeight)
    (h : b.header.time ≠ medianTime c s.lastValidators) : validateBlock s b ≠ .ok () :=
  fun hok => by
    obtain ⟨c', hc', hl⟩ := ((validateBlock_ok_iff s hs b).1 hok).lastCommit
    rw [hc] at hc'; cases hc'
    unfold LastCommitOK at hl
    rw [if_neg hg] at hl
    exact h hl.2.2.2

theorem rejects_unknown_proposer (s : State) (hs : StateOK s) (b : Block)
    (h : ∀ v ∈ s.validators, v.addr ≠ b.header.proposer) : validateBlock s b ≠ .ok () :=
  fun hok => by
    obtain ⟨v, hv, ha⟩ := accepted_proposer s hs b hok
    exact h v hv ha

/-! ### never panics -/

/-- **Totality.**  `validateBlock` (like `validateBasic`) is a total function on the
abstraction of every decodable block; the only outcomes that stand for a Go panic are
C36's two (`TotalVotingPower` above the cap, a nil validator in `VerifyCommit`'s
loop), and neither is reachable for a state the real type can hold.  `MedianTime`
has no failing outcome at all since repo commit cbe9f9a39b. -/
theorem validateBlock_never_panics (s : State) (hs : StateOK s) (b : Block) (e : Err)
    (h : validateBlock s b = .error e) : e.isPanic = false :=
  validateBlock_not_panic hs b e h

/-- `Block.ValidateBasic` alone never yields a panic outcome either (no hypothesis). -/
theorem validateBasic_never_panics (b : Block) (e : Err) (h : validateBasic b = .error e) :
    e.isPanic = false := by
  cases e with
  | commit e' => exact absurd h validateBasic_not_commit
  | _ => rfl

/-! ### histories: every applied block was valid, and consecutive blocks are linked -/

/-- **Every block a node applies passes validation**, for every history: a run of
`ApplyBlock` (which validates first — extracted fact `ApplyBlock-body`, and all three
call sites of `ApplyBlock` go through it — fact `applyblock-call-sites`) gets through
a list of blocks exactly when each block was `Valid` for the state it met. -/
theorem applied_history_valid (s0 : State) (hs : StateOK s0) (steps : List Step)
    (ho : ∀ st ∈ steps, C36.validSet st.out.validators = true) (sN : State) :
    applyAll s0 steps = some sN ↔ Applied s0 steps ∧ sN = finalState s0 steps :=
  applyAll_some_iff steps s0 hs ho sN

/-- Two consecutive applied blocks: the second has the next height, points at the id
the first was stored under, has a strictly later time, and carries a commit in which
more than two thirds of the validators OF THE FIRST BLOCK signed that id at that height. -/
theorem consecutive_applied_blocks (s : State) (hs : StateOK s) (st1 st2 : Step) (rest : List Step)
    (ho : ∀ st ∈ st1 :: st2 :: rest, C36.validSet st.out.validators = true) (sN : State)
    (h : applyAll s (st1 :: st2 :: rest) = some sN)
    (hmax : st1.block.header.height < C36.maxInt64) :
    st2.block.header.height = st1.block.header.height + 1 ∧
    st2.block.header.lastBlockID.id = st1.blockID ∧
    st1.block.header.time < st2.block.header.time ∧
    ∃ c, st2.block.lastCommit = some c ∧
      C36.WellFormed s.validators st1.blockID st1.block.header.height c.toC36 ∧
      3 * C36.signedPower s.validators st1.blockID st1.block.header.height c.toC36
        > 2 * C36.sumPowers s.validators := by
  obtain ⟨⟨hv1, hv2, _⟩, _⟩ := (applied_history_valid s hs _ ho sN).1 h
  have hpos := hv1.basic.heightPos
  have hinit := hv1.notBelowInitial
  have hh : st2.block.header.height = st1.block.header.height + 1 := by
    have := hv2.height
    simp only [advance] at this
    rwa [C36.wrap64_id (by unfold C36.minInt64; omega) (by omega)] at this
  have hng : st2.block.header.height ≠ (advance s st1.block st1.blockID st1.out).initialHeight := by
    simp only [advance]; omega
  obtain ⟨c, hc, hl⟩ := hv2.lastCommit
  unfold LastCommitOK at hl
  rw [if_neg hng] at hl
  have hw : wrap64 (st2.block.header.height - 1) = st1.block.header.height := by
    rw [hh, C36.wrap64_id (by unfold C36.minInt64; omega) (by omega)]; omega
  rw [hw] at hl
  exact ⟨hh, hv2.lastBlockID, hl.2.2.1, c, hc, hl.1, hl.2.1⟩

/-! ### what repo commit cbe9f9a39b removed

Before it, `MedianTime` looked the validator up by the vote's own `ValidatorIndex`
field — which is neither signed nor checked by `VerifyCommit`/`Commit.ValidateBasic`
(`medianTimeByField`, `none` = the nil-pointer panic).  Both defects are witnessed
on commits that `VerifyCommit` ACCEPTS (so `ValidateBlock` reached `MedianTime`);
the same witnesses are pinned in corpus/C32/ against the real code. -/

def exSkew : ValSet := [⟨1, 5⟩, ⟨4, 1⟩, ⟨6, 30⟩, ⟨9, 9⟩]
def exPc (vidx : Int) (ts : Int) : Option Precommit := some ⟨⟨2, 9, 3, 1, vidx, 0, true, false⟩, ts⟩
/-- slot 2 (power 30) claims `ValidatorIndex` 99 -/
def exCommitOut : Commit := ⟨1, [exPc 0 7000, none, exPc 99 2000, exPc 3 9000]⟩
/-- slot 2 (power 30) claims `ValidatorIndex` 1 (power 1) -/
def exCommitWrong : Commit := ⟨1, [exPc 0 7000, none, exPc 1 2000, exPc 3 9000]⟩

/-- the pre-fix `MedianTime` panicked on a commit that passes `VerifyCommit`; the
current one returns the slot-weighted median. -/
theorem prefix_medianTime_panics :
    C36.validSet exSkew = true ∧ C36.verifyCommit exSkew 1 9 exCommitOut.toC36 = .ok () ∧
    medianTimeByField exCommitOut exSkew = none ∧ medianTime exCommitOut exSkew = 2000 := by
  refine ⟨by decide, by rfl, by rfl, by rfl⟩

/-- the pre-fix `MedianTime` weighted slot 2's timestamp with validator 1's power
(1 instead of 30) and returned another time than the power-weighted median. -/
theorem prefix_medianTime_misweights :
    C36.validSet exSkew = true ∧ C36.verifyCommit exSkew 1 9 exCommitWrong.toC36 = .ok () ∧
    medianTimeByField exCommitWrong exSkew = some 9000 ∧ medianTime exCommitWrong exSkew = 2000 ∧
    IsWeightedMedian (slotTimes exSkew exCommitWrong.precommits) 2000 := by
  refine ⟨by decide, by rfl, by rfl, by rfl, ?_⟩
  have := medianTime_is_weighted_median exSkew (by decide) exCommitWrong (by decide)
  rwa [show medianTime exCommitWrong exSkew = 2000 from by rfl] at this

/-! ### non-vacuity: a concrete state with a valid later block and a valid first block -/

def exH : Bytes := List.replicate 32 7
def exVals : ValSet := [⟨1, 1⟩, ⟨4, 1⟩, ⟨6, 1⟩, ⟨9, 1⟩]
def exS : State :=
  { blockVersion := [1], appVersion := [2], chainID := [3], initialHeight := 1, lastBlockHeight := 7,
    lastBlockTotalTx := 10, lastBlockID := 3, lastBlockTime := 1000, validators := exVals,
    lastValidators := exVals, appHash := [9], lastResultsHash := exH, consensusHashC := exH,
    validatorsHashC := exH, nextValidatorsHashC := exH }
def exP (i : Int) (ts : Int) : Option Precommit := some ⟨⟨2, 7, 0, 3, i, 0, true, false⟩, ts⟩
/-- three of four sign block 3 at height 7 -/
def exC : Commit := ⟨3, [exP 0 1010, exP 1 1020, none, exP 3 1030]⟩
def exHdr : Header :=
  { version := [1], chainID := [3], height := 8, time := 1010, numTxs := 2, totalTxs := 12,
    appVersion := [2], lastBlockID := ⟨3, 32, 5, 32⟩, lastCommitHash := exH, dataHash := exH,
    validatorsHash := exH, nextValidatorsHash := exH, consensusHash := exH, appHash := [9],
    lastResultsHash := exH, proposer := 4 }
def exB : Block := { header := exHdr, nTxs := 2, dataHashC := exH, lastCommit := some exC, lastCommitHashC := exH }

example : StateOK exS := ⟨by decide, by decide⟩

/-- the valid block is accepted (so `Valid exS exB` holds and every `accepted_*` theorem
can be applied to it) … -/
example : validateBlock exS exB = .ok () := by
  rw [validateBlock_ok_flat]
  refine ⟨by decide, by rfl, rfl, rfl, rfl, by decide, rfl, by decide, rfl, rfl, rfl, rfl, rfl, ⟨exC, rfl, by rfl⟩, ?_⟩
  exact (hasAddress_iff (vals := exVals) (by decide) 4).2 ⟨⟨4, 1⟩, .tail _ (.head _), rfl⟩

example : Valid exS exB := (validateBlock_ok_iff exS ⟨by decide, by decide⟩ exB).1 (by
  rw [validateBlock_ok_flat]
  refine ⟨by decide, by rfl, rfl, rfl, rfl, by decide, rfl, by decide, rfl, rfl, rfl, rfl, rfl, ⟨exC, rfl, by rfl⟩, ?_⟩
  exact (hasAddress_iff (vals := exVals) (by decide) 4).2 ⟨⟨4, 1⟩, .tail _ (.head _), rfl⟩)

/-- … and each single-field change is rejected with its own class. -/
example : validateBlock exS { exB with header := { exHdr with height := 9 } } = .error .height := by rfl
example : validateBlock exS { exB with header := { exHdr with chainID := [4] } } = .error .chainID := by rfl
example : validateBlock exS { exB with header := { exHdr with lastBlockID := ⟨5, 32, 5, 32⟩ } } = .error .lastBlockID := by rfl
example : validateBlock exS { exB with header := { exHdr with appHash := [8] } } = .error .appHash := by rfl
example : validateBlock exS { exB with header := { exHdr with time := 1000 } } = .error .timeNotAfter := by rfl
example : validateBlock exS { exB with header := { exHdr with time := 1020 } } = .error .timeNotMedian := by rfl
example : validateBlock exS { exB with lastCommit := none } = .error .nilLastCommit := by rfl
/-- two of four signers: exactly half, not more than two thirds -/
example : validateBlock exS { exB with lastCommit := some ⟨3, [exP 0 1010, exP 1 1020, none, none]⟩ }
    = .error (.commit .power) := by rfl
/-- a bad signature on any entry -/
example : validateBlock exS { exB with lastCommit := some ⟨3, [exP 0 1010, exP 1 1020, none,
    some ⟨⟨2, 7, 0, 3, 3, 0, false, false⟩, 1030⟩]⟩ } = .error (.commit .sig) := by rfl
/-- a `ValidatorIndex` outside the set no longer matters: commit and time checks pass -/
example : validateCommitAndTime exS exB ⟨3, [exP 0 1010, exP 99 1020, none, exP (-1) 1030]⟩ = .ok () := by rfl

/-- the first block of a chain -/
def exG : State := { exS with lastBlockHeight := 0, lastBlockTotalTx := 0, lastBlockID := 0, lastValidators := [] }
def exGB : Block :=
  { header := { exHdr with height := 1, time := 1000, totalTxs := 2, lastBlockID := ⟨0, 0, 0, 0⟩ },
    nTxs := 2, dataHashC := exH, lastCommit := some ⟨0, []⟩, lastCommitHashC := exH }
example : validateCommitAndTime exG exGB ⟨0, []⟩ = .ok () := by rfl
example : validateBasic exGB = .ok () := by rfl

/-! ### what repo commit 6794836d2f removed

Before it, `WeightedMedian` sorted by `Time.UnixNano()`, which wraps for instants
outside the years 1678–2262, while decodable vote timestamps reach year 9999 and no
check bounds a precommit's timestamp: `t + 2^64 ns` sorted where `t` would and was
returned as the median. -/

/-- 2^64 ns after 1015: sorted (by wrapped `UnixNano()`) exactly where 1015 would. -/
def exFar : Int := 1015 + 18446744073709551616
/-- all four validators (power 1 each) sign; slot 3 carries the far-future timestamp -/
def exCW : Commit := ⟨3, [exP 0 1010, exP 1 1020, exP 2 1030, exP 3 exFar]⟩

/-- On a commit `VerifyCommit` accepts, the pre-fix `MedianTime` returned ONE validator's
far-future timestamp (25 % of the power), which is not the weighted median; the current
one returns the weighted median 1020. -/
theorem prefix_weightedMedian_wraps :
    C36.verifyCommit exVals 3 7 exCW.toC36 = .ok () ∧
    medianTimeByUnixNano exCW exVals = exFar ∧
    ¬ IsWeightedMedian (slotTimes exVals exCW.precommits) exFar ∧
    medianTime exCW exVals = 1020 ∧
    IsWeightedMedian (slotTimes exVals exCW.precommits) 1020 := by
  refine ⟨by rfl, by rfl, ?_, by rfl, ?_⟩
  · intro hm
    have := hm.least ⟨1020, 1⟩ (by decide) (by decide)
    revert this
    decide
  · have := medianTime_is_weighted_median exVals (by decide) exCW (by decide)
    rwa [show medianTime exCW exVals = 1020 from by rfl] at this

/-- a two-block history satisfying the hypotheses of `consecutive_applied_blocks`
can be built from `exS`/`exB`: the state after `exB`. -/
example : (advance exS exB 8 ⟨exVals, [9], exH, exH, exH, exH⟩).lastBlockHeight = 8 ∧
    (advance exS exB 8 ⟨exVals, [9], exH, exH, exH, exH⟩).lastValidators = exVals := ⟨rfl, rfl⟩

/-- the first block of the chain `exG` is accepted (hypotheses of `accepted_genesis`) -/
example : validateBlock exG exGB = .ok () ∧ exGB.header.height = exG.initialHeight := by
  refine ⟨?_, rfl⟩
  rw [validateBlock_ok_flat]
  refine ⟨by decide, by rfl, rfl, rfl, rfl, by decide, rfl, by decide, rfl, rfl, rfl, rfl, rfl, ⟨⟨0, []⟩, rfl, by rfl⟩, ?_⟩
  exact (hasAddress_iff (vals := exVals) (by decide) 4).2 ⟨⟨4, 1⟩, .tail _ (.head _), rfl⟩

/-! a two-block history meeting every hypothesis of `consecutive_applied_blocks` -/
def exOut : AppOut := ⟨exVals, [9], exH, exH, exH, exH⟩
def exP9 (i : Int) (ts : Int) : Option Precommit := some ⟨⟨2, 8, 1, 8, i, 0, true, false⟩, ts⟩
def exB9 : Block :=
  { header := { exHdr with height := 9, time := 2000, totalTxs := 14, lastBlockID := ⟨8, 32, 1, 32⟩, proposer := 6 },
    nTxs := 2, dataHashC := exH, lastCommit := some ⟨8, [exP9 0 2000, exP9 1 2010, none, exP9 3 2020]⟩,
    lastCommitHashC := exH }
def exSteps : List Step := [⟨exB, 8, exOut⟩, ⟨exB9, 9, exOut⟩]

example : ∃ sN, applyAll exS exSteps = some sN ∧ sN.lastBlockHeight = 9 ∧ sN.lastBlockID = 9 := by
  have hs : StateOK exS := ⟨by decide, by decide⟩
  have ho : ∀ st ∈ exSteps, C36.validSet st.out.validators = true := by
    intro st hst
    simp only [exSteps, List.mem_cons, List.mem_nil_iff, or_false] at hst
    rcases hst with rfl | rfl <;> decide
  have h1 : validateBlock exS exB = .ok () := by
    rw [validateBlock_ok_flat]
    refine ⟨by decide, by rfl, rfl, rfl, rfl, by decide, rfl, by decide, rfl, rfl, rfl, rfl, rfl, ⟨exC, rfl, by rfl⟩, ?_⟩
    exact (hasAddress_iff (vals := exVals) (by decide) 4).2 ⟨⟨4, 1⟩, .tail _ (.head _), rfl⟩
  have hs1 : StateOK (advance exS exB 8 exOut) := ⟨by decide, by decide⟩
  have h2 : validateBlock (advance exS exB 8 exOut) exB9 = .ok () := by
    rw [validateBlock_ok_flat]
    refine ⟨by decide, by rfl, rfl, rfl, rfl, by decide, rfl, by decide, rfl, rfl, rfl, rfl, rfl,
      ⟨⟨8, [exP9 0 2000, exP9 1 2010, none, exP9 3 2020]⟩, rfl, by rfl⟩, ?_⟩
    exact (hasAddress_iff (vals := exVals) (by decide) 6).2 ⟨⟨6, 1⟩, .tail _ (.tail _ (.head _)), rfl⟩
  refine ⟨finalState exS exSteps, (applied_history_valid exS hs exSteps ho _).2 ⟨⟨?_, ?_, trivial⟩, rfl⟩, rfl, rfl⟩
  · exact (validateBlock_ok_iff exS hs exB).1 h1
  · exact (validateBlock_ok_iff _ hs1 exB9).1 h2
end GnoVerif.C32
