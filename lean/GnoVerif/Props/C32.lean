import GnoVerif.Model.C32
namespace GnoVerif.C32
end GnoVerif.C32
