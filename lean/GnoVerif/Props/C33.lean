import GnoVerif.Proofs.C33
import GnoVerif.Proofs.C33Witness
import GnoVerif.Proofs.C33Live
/-!
# C33 — a node recovers from a crash at any point of block processing

Statement: "If a validator process is killed at any point while proposing, voting, saving a
block, applying it to the application or saving state, restarting it (handshake with the
application plus write-ahead-log replay) brings it back to the same chain: its block store,
state and application agree on the last height and app hash, it continues committing the same
blocks as a node that never crashed, and it does not sign anything conflicting with what it
signed before the crash."

The model (`Model/C33.lean`) is the durable world (block store, state DB, application DB,
consensus WAL, privval sign state), the ORDER of durable writes of `finalizeCommit` /
`SaveBlock` / `ApplyBlock` / `SaveState` / `node.NewNode`, and the restart procedure
(`Handshaker.ReplayBlocks` case table, WAL marker search, privval).  `Reach d` quantifies over
every history: any number of processes, each killed after ANY prefix of its durable steps —
inside the handshake's own replay too — at any height, in any round, with any block contents.

Theorems for every reachable world (no bound):
* `reachable_triple_is_handled`, `restart_never_fails`  — the handshake's table covers it
  (`case_table_is_exhaustive`: for arbitrary databases its final "uncovered case" panic is dead);
* `handshake_converges` — store = state = application at the block store's height, with the
  application hash of an uncrashed execution of the stored blocks;
* `kill_during_recovery_converges` — the same when the recovery itself is killed anywhere;
* `stored_chain_is_hash_chained`, `committed_blocks_never_lost`, `uncrashed_run_stays_synced`;
* `sign_state_never_regresses` — the privval's last signed H/R/S only rises (that it refuses
  conflicting messages at and below it is C34, not re-proved here).

* `first_kill_live_iff` — for the first kill of a chain, at ANY point of ANY height: the validator
  goes on committing iff the kill is outside the one window of the first height.

* `restart_starts`, `torn_tail_alone_is_harmless` — the WAL of a reachable world decodes, also
  with a partial last line.

NOT a theorem, because the unchanged code violates it: "it continues committing".
`recovers_statement` is the full statement; `first_height_counterexample` and
`no_marker_counterexample` refute it on the two histories the harness replays on the real node
(known findings), `torn_record_counterexample` on a third (a kill inside a WAL write, then a
second kill: the node does not start any more); `recovers_partial` proves it under the exact
guard: the WAL holds the marker of the resumed height, or nothing beyond the round-0 proposal was
signed at that height (kills between durable steps; each WAL record written atomically).
-/
namespace GnoVerif.C33

/-- Every world a history of kills can leave is one of the three rows of the handshake's table
that mean "crash": all equal / block saved only / block saved and application committed (then
the ABCI responses of that height are on disk, as the mock replay needs). -/
theorem reachable_triple_is_handled {d : Disk} (h : Reach d) :
    (d.store = d.st ∧ d.app = d.st ∧ d.appHash = d.stHash) ∨
    (d.store = d.st + 1 ∧ d.app = d.st ∧ d.appHash = d.stHash) ∨
    (d.store = d.st + 1 ∧ d.app = d.st + 1 ∧ (d.st + 1) ∈ d.resp) := by
  rcases (reach_inv h).shape with ⟨a, b, c⟩ | ⟨a, b, c⟩ | ⟨a, b, _, e⟩
  · exact Or.inl ⟨a, b, c⟩
  · exact Or.inr (Or.inl ⟨a, b, c⟩)
  · exact Or.inr (Or.inr ⟨a, b, e⟩)

example : ∃ d, Reach d ∧ d.store = 2 ∧ d.st = 1 ∧ d.app = 1 := ⟨world1, reach_world1, rfl, rfl, rfl⟩

/-- For EVERY content of the three databases — reachable or not — the handshake's case analysis
is exhaustive: the `panic("uncovered case!")` that ends `ReplayBlocks` is dead code. -/
theorem case_table_is_exhaustive (c : Core) : newNode c ≠ .error .uncovered :=
  newNode_not_uncovered c

/-- `node.NewNode` (genesis handling, ABCI handshake with block replay, reconstruction of the
last commit) returns without error or panic on every world a history of kills can leave. -/
theorem restart_never_fails {d : Disk} (h : Reach d) :
    ∃ evs c', newNode d.toCore = .ok (evs, c') := by
  obtain ⟨evs, hn, _⟩ := newNode_of_inv (reach_inv h)
  exact ⟨evs, _, hn⟩

/-- …and `ConsensusState.OnStart` then finds a WAL it can decode: a history of kills BETWEEN durable
steps never leaves a partial line (`torn_record_counterexample` is about kills INSIDE a write). -/
theorem restart_starts {d : Disk} (h : Reach d) (evs : List Ev) : startOK (applyAll d evs) = true :=
  startOK_of_no_torn (applyAll_no_torn (reach_no_torn h))

/-- A kill inside the write of a WAL record leaves a partial last line; that world still starts
(the reader takes a partial last line for the end of the log — C38's truncation theorem). -/
theorem torn_tail_alone_is_harmless {d : Disk} (h : Reach d) : startOK (tornKill d) = true :=
  startOK_tornKill (reach_no_torn h)

example : Reach worldT0 ∧ startOK (applyAll worldT1 hsT) = true := ⟨reach_worldT0, worldT1_starts.1⟩

/-- After the handshake the block store, the state and the application agree on the height of the
block store at the kill (no committed block is lost, none is invented), and on the application
hash an uncrashed node has after executing exactly the stored blocks. -/
theorem handshake_converges {d : Disk} (h : Reach d) {evs : List Ev} {c' : Core}
    (hn : newNode d.toCore = .ok (evs, c')) :
    c'.synced ∧ c'.st = d.store ∧ c'.blocks = d.blocks ∧
    c'.stHash = chainHash d.blocks ∧ c'.appHash = chainHash d.blocks := by
  obtain ⟨evs0, hn0, g⟩ := newNode_of_inv (reach_inv h)
  rw [hn0] at hn; cases hn
  have hst := g.along.end_.stHashEq
  rw [g.st, g.blocks, List.take_length] at hst
  refine ⟨⟨by rw [Core.store, g.blocks, g.st], g.synced.2.1, g.synced.2.2⟩, g.st, g.blocks, hst, ?_⟩
  rw [g.synced.2.2]; exact hst

example : ∃ evs c', newNode worldB.toCore = .ok (evs, c') := ⟨_, _, worldB_newNode⟩

/-- The recovery is itself crash-tolerant: killed after any prefix of the handshake's durable
steps, the next restart succeeds and converges to the same height and hash. -/
theorem kill_during_recovery_converges {d : Disk} (h : Reach d) {evs p : List Ev} {c' : Core}
    (hn : newNode d.toCore = .ok (evs, c')) (hp : p <+: evs) :
    ∃ evs2 c2, newNode (applyAll d p).toCore = .ok (evs2, c2) ∧ c2.synced ∧
      c2.st = d.store ∧ c2.stHash = chainHash d.blocks := by
  have hr : Reach (applyAll d p) := Reach.kill d p h (Proc.handshake evs c' p hn hp)
  obtain ⟨evs2, c2, hn2⟩ := restart_never_fails hr
  obtain ⟨a, b, _, e, _⟩ := handshake_converges hr hn2
  -- the handshake never touches the block store
  obtain ⟨t, rfl⟩ := hp
  have hb : (applyAll d p).blocks = d.blocks := by
    have h1 : d.blocks <+: (applyAll d p).blocks := by
      have := blocks_mono d.toCore p; rwa [← applyAll_toCore] at this
    have h2 : (applyAll d p).blocks <+: c'.blocks := by
      obtain ⟨evs0, hn0, g⟩ := newNode_of_inv (reach_inv h)
      rw [hn0] at hn; cases hn
      have := blocks_mono (applyAllCore d.toCore p) t
      rwa [← applyAllCore_append, ← applyAll_toCore] at this
    have h3 : c'.blocks = d.blocks := (handshake_converges h hn).2.2.1
    rw [h3] at h2
    exact List.IsPrefix.eq_of_length_le h2 h1.length_le
  refine ⟨evs2, c2, hn2, a, ?_, ?_⟩
  · rw [b]; show (applyAll d p).blocks.length = d.blocks.length; rw [hb]
  · rw [e, hb]

example : Reach world1 ∧ newNode world1.toCore = .ok (hs2, applyAllCore world1.toCore hs2) ∧
    hs2.take 3 <+: hs2 := ⟨reach_world1, world1_newNode, List.take_prefix _ _⟩

/-- In every reachable world the stored chain is hash-chained and the state's hash is the hash of
its prefix: each header carries the application hash after the previous block (what
`ValidateBlock` and the replay's hash assertions check). -/
theorem stored_chain_is_hash_chained {d : Disk} (h : Reach d) :
    d.stHash = chainHash (d.blocks.take d.st) ∧
    ∀ i (hi : i < d.blocks.length), (d.blocks[i]'hi).appHash = chainHash (d.blocks.take i) :=
  ⟨(reach_inv h).stHashEq, (reach_inv h).chained⟩

/-- No durable step ever removes or changes a stored block. -/
theorem committed_blocks_never_lost (d : Disk) (l : List Ev) : d.blocks <+: (applyAll d l).blocks := by
  have := blocks_mono d.toCore l
  rwa [← applyAll_toCore] at this

/-- The privval's last signed height/round/step never goes down, across any steps, kills and
restarts (with C34: nothing conflicting with an earlier signature is ever released). -/
theorem sign_state_never_regresses (d : Disk) (l : List Ev) : d.pv.le (applyAll d l).pv = true :=
  pv_mono d l

/-- A node that is not killed ends every height with store = state = application. -/
theorem uncrashed_run_stays_synced {d : Disk} (h : Reach d) (hs : d.toCore.synced)
    (hr : d.stRec = true) {run : List Ev} (hrun : Heights d run) : (applyAll d run).toCore.synced := by
  have hs' : Synced d.toCore := ⟨hs.1, hs.2.1, hs.2.2⟩
  obtain ⟨_, s⟩ := heights_along hrun (reach_inv h) hs' hr
  rw [applyAll_toCore]
  exact ⟨s.1, s.2.1, s.2.2⟩

example : Reach w2 ∧ w2.toCore.synced ∧ w2.stRec = true ∧ Heights w2 (h2Evs ++ []) :=
  ⟨reach_w2, ⟨rfl, rfl, rfl⟩, rfl, Heights.height w2 [⟨7, 8⟩] 0 [] (Heights.done _)⟩

/-! ### "…and continues committing" — refuted on the unchanged tree, proved under its guard -/

/-- The full statement: from every reachable world the restart succeeds, converges, AND the
(single) validator goes on committing. -/
def recovers_statement : Prop :=
  ∀ d, Reach d → ∃ evs c', newNode d.toCore = .ok (evs, c') ∧ c'.synced ∧ c'.st = d.store ∧
    c'.stHash = chainHash d.blocks ∧ startOK (applyAll d evs) = true ∧ live (applyAll d evs) = true

/-- What is true of the code as it is: the restart converges, and the validator goes on if the
WAL holds the marker of the height it resumes (and not the next one), or if it signed nothing at
that height beyond the round-0 proposal. -/
theorem recovers_partial {d : Disk} (h : Reach d) :
    ∃ evs c', newNode d.toCore = .ok (evs, c') ∧ c'.synced ∧ c'.st = d.store ∧
      c'.stHash = chainHash d.blocks ∧ startOK (applyAll d evs) = true ∧
      (((hasMark d.wal (d.store + 1) = true ∧ hasMark d.wal (d.store + 2) = false) ∨
        d.pv.le ⟨d.store + 1, 0, 1⟩ = true) → live (applyAll d evs) = true) := by
  obtain ⟨evs, c', hn⟩ := restart_never_fails h
  obtain ⟨a, b, _, e, _⟩ := handshake_converges h hn
  refine ⟨evs, c', hn, a, b, e, restart_starts h evs, ?_⟩
  obtain ⟨hw, hp⟩ := applyAll_db_log (d := d) (newNode_db (reach_inv h) hn)
  have hst : (applyAll d evs).st = d.store := by
    obtain ⟨evs0, hn0, g⟩ := newNode_of_inv (reach_inv h)
    rw [hn0] at hn; cases hn
    show (applyAll d _).toCore.st = _; rw [applyAll_toCore]; exact g.st
  intro hg
  simp only [live, replays, hw, hp, hst, Bool.or_eq_true, Bool.and_eq_true, Bool.not_eq_true']
  exact hg

example : Reach world1 ∧ world1.pv.le ⟨world1.store + 1, 0, 1⟩ = true := ⟨reach_world1, rfl⟩

/-- The FIRST kill of a chain, exactly.  Whatever the uncrashed node was doing (any heights, any
transactions, any rounds) and wherever it is killed, the restart converges, and the validator
goes on committing IF AND ONLY IF the kill did not fall into the one window of the first height:
height ≥ 2 (or the block of height 1 already stored) is always survived; in height 1 only up to
the round-0 proposal.  So the first-height defect is the only way a single kill stops a chain. -/
theorem first_kill_live_iff {run p : List Ev} (hrun : Heights w1 run)
    (hp : p <+: genesisHs ++ walOpenEvs w0 ++ run) :
    ∃ evs c', newNode (applyAll Disk.empty p).toCore = .ok (evs, c') ∧ c'.synced ∧
      (live (applyAll (applyAll Disk.empty p) evs) = true ↔
        (1 ≤ c'.st ∨ (applyAll Disk.empty p).pv.le ⟨1, 0, 1⟩ = true)) := by
  have hreach : Reach (applyAll Disk.empty p) :=
    Reach.kill _ _ Reach.genesis (Proc.running genesisHs _ run p genesis_newNode rfl hrun hp)
  have hlog := first_process_log hrun hp
  generalize applyAll Disk.empty p = d at hreach hlog
  obtain ⟨evs, c', hn⟩ := restart_never_fails hreach
  obtain ⟨a, b, _, _, _⟩ := handshake_converges hreach hn
  refine ⟨evs, c', hn, a, ?_⟩
  obtain ⟨hw, hpv⟩ := applyAll_db_log (d := d) (newNode_db (reach_inv hreach) hn)
  have hst : (applyAll d evs).st = d.blocks.length := by
    obtain ⟨evs0, hn0, g⟩ := newNode_of_inv (reach_inv hreach)
    rw [hn0] at hn; cases hn
    show (applyAll d _).toCore.st = _; rw [applyAll_toCore]; exact g.st
  have hb : c'.st = d.blocks.length := b
  have hlive : live (applyAll d evs) =
      ((hasMark d.wal (d.blocks.length + 1) && !hasMark d.wal (d.blocks.length + 2)) ||
        d.pv.le ⟨d.blocks.length + 1, 0, 1⟩) := by
    simp only [live, replays, hw, hpv, hst]
  have hno2 : hasMark d.wal (d.blocks.length + 2) = false := by
    cases h : hasMark d.wal (d.blocks.length + 2) with
    | false => rfl
    | true => have := (hlog.m1 _ ((hasMark_iff _ _).mp h)).2; omega
  rw [hlive, hno2, hb]
  rcases reachable_triple_is_handled hreach with ⟨s1, _, _⟩ | ⟨s1, _, _⟩ | ⟨s1, _, _⟩
  · -- store = state: the height in progress was not stored yet
    have s1' : d.blocks.length = d.st := s1
    by_cases h0 : d.blocks.length = 0
    · have hno1 : hasMark d.wal (d.blocks.length + 1) = false := by
        cases h : hasMark d.wal (d.blocks.length + 1) with
        | false => rfl
        | true => have := (hlog.m1 _ ((hasMark_iff _ _).mp h)).1; omega
      rw [hno1, h0]; simp
    · have h1 : hasMark d.wal (d.blocks.length + 1) = true :=
        (hasMark_iff _ _).mpr (hlog.m2 _ (by omega) (by omega))
      rw [h1]; simp; omega
  all_goals
    have s1' : d.blocks.length = d.st + 1 := s1
    have hp1 : d.pv.le ⟨d.blocks.length + 1, 0, 1⟩ = true := by
      have := hlog.pv
      simp only [HRS.le, Bool.or_eq_true, decide_eq_true_eq]
      left; omega
    rw [hp1]; simp; omega

example : Heights w1 (h1Evs ++ []) ∧ killA <+: genesisHs ++ walOpenEvs w0 ++ (h1Evs ++ []) :=
  ⟨Heights.height w1 [] 0 [] (Heights.done _), List.take_prefix _ _⟩

/-- FINDING (first height): killed in height 1 after the prevote was signed and before the block
reached the store, the validator never commits again: the marker `1` is never in the WAL (it
starts with `0`, `finalizeCommit(h)` writes `h+1`, `catchupReplay(1)` looks for `1`). -/
theorem first_height_counterexample : ¬ recovers_statement := by
  intro h
  obtain ⟨evs, c', hn, _, _, _, _, hl⟩ := h worldA reach_worldA
  rw [worldA_newNode] at hn; cases hn
  rw [worldA_not_live] at hl; cases hl

/-- FINDING (missing marker, any height — here 3): kill #1 between the block store's height
record and the WAL marker, kill #2 in the next height after the prevote: the world is reachable,
beyond the first height, fully synced after the restart — and the validator is stuck. -/
theorem no_marker_counterexample :
    ∃ d, Reach d ∧ 2 ≤ d.st ∧ hasMark d.wal (d.st + 1) = false ∧
      ∀ evs c', newNode d.toCore = .ok (evs, c') → live (applyAll d evs) = false := by
  refine ⟨worldB, reach_worldB, by decide, rfl, ?_⟩
  intro evs c' hn
  rw [worldB_newNode] at hn; cases hn
  exact worldB_not_live

/-- FINDING (torn record): a kill INSIDE the write of a WAL record, a restart (which works and
goes on), and a second kill in the same height: the restarted node appended to the partial line,
`catchupReplay` hits an undecodable record, `OnStart` returns the error — the node does not start
again.  (`Proc (tornKill d) pre`: what the restarted process did before kill #2.) -/
theorem torn_record_counterexample :
    ∃ d pre, Reach d ∧ Proc (tornKill d) pre ∧
      ∃ evs c', newNode (applyAll (tornKill d) pre).toCore = .ok (evs, c') ∧
        startOK (applyAll (applyAll (tornKill d) pre) evs) = false :=
  ⟨worldT0, killT2, reach_worldT0, proc_worldT2, _, _, worldT2_newNode, worldT2_not_startable⟩

end GnoVerif.C33
