import GnoVerif.Model.C33
namespace GnoVerif.C33
end GnoVerif.C33
