import GnoVerif.Proofs.C34
/-!
# C34 — a validator never double-signs, even across crashes

Model: `Model/C34.lean` (mirrors privval.go / state.go / tempfile.go as of
/repo fd7d3fbcc7: `FileState.Update` rolls its in-memory changes back when
`save` fails).  Predicates: `Spec/C34.lean`.  Lemmas: `Proofs/C34.lean`.

All three clauses of the statement are theorems for EVERY history: any
sequence of vote / proposal requests (same, conflicting, regressing,
timestamp-only), restarts anywhere, kills before or after the rename inside
`WriteFileAtomic`, failing saves (I/O or `validate`), any signer.  Modelled
assumption: the state file is old or new, never torn (`WriteFileAtomic`).

History: before fd7d3fbcc7 `Update` kept the new in-memory state after a
failed save; that ordering is kept as the variant `runOld` and the three
clauses are REFUTED for it below (`old_update_order_*`), on the same
histories as `corpus/C34/finding-*.ops`.
-/
namespace GnoVerif.C34

/-- (1) Never two released signatures for different messages at one H/R/S; a
repeat (also with another timestamp) returns the ORIGINAL signature and
timestamp: all releases at one H/R/S carry the same body, timestamp, signature. -/
theorem no_double_sign {σ : Type} (sign : SignBytes → σ) (ops : List Op) :
    NoConflict (run sign State.init ops).released :=
  (inv_run ops (inv_init sign)).noconf

/-- (2) Never a release for an H/R/S lower than that of an earlier release. -/
theorem no_regression {σ : Type} (sign : SignBytes → σ) (ops : List Op) :
    Monotone (run sign State.init ops).released :=
  (inv_run ops (inv_init sign)).mono

/-- (3) After every history — hence at every prefix, in particular at the moment
of each release — everything released is ≤ the persisted H/R/S, and what was
released at exactly the persisted H/R/S is what the file holds. -/
theorem released_persisted {σ : Type} (sign : SignBytes → σ) (ops : List Op) :
    Persisted (run sign State.init ops) ∧ Remembered (run sign State.init ops) :=
  have h := inv_run ops (inv_init sign)
  ⟨h.persisted, h.remembered⟩

/-- Between calls the memory of the running process is exactly the file content
(so there is never an in-memory signature the file does not know). -/
theorem memory_is_file {σ : Type} (sign : SignBytes → σ) (ops : List Op) :
    (run sign State.init ops).mem = (run sign State.init ops).disk :=
  (inv_run ops (inv_init sign)).clean

/-- Why (3) makes crashes safe: after a restart the validator's memory is at
least at every H/R/S it ever released, and at equality holds exactly the
released message — so `CheckHRS` + the same-HRS branch refuse anything else. -/
theorem restart_remembers {σ : Type} (sign : SignBytes → σ) (ops : List Op) :
    let s := restart (run sign State.init ops)
    ∀ e ∈ s.released, e.hrs ≤ s.mem.hrs ∧
      (e.hrs = s.mem.hrs → s.mem.sb = some ⟨e.hrs, e.body, e.ts⟩ ∧ s.mem.sig = some e.sig) := by
  intro s e he
  have h := inv_run ops (inv_init sign)
  exact ⟨h.persisted e he, h.remembered e he⟩

/-- A call that reports a failed save (the signature was produced and assigned
to the request object, then `save` failed) leaves memory, file and log
exactly as they were. -/
theorem failed_save_changes_nothing {σ : Type} (sign : SignBytes → σ) (s : State σ) (q : Req)
    (h : (step sign s (.sign q)).2.saveFailed = true) : (step sign s (.sign q)).1 = s :=
  signReq_failed_unchanged sign s q h

example : (step (σ := SignBytes) id { State.init with failing := true } (.sign ⟨1, 0, some 2, 1, 10⟩)).2.saveFailed = true := by
  decide
example : (step (σ := SignBytes) id State.init (.sign ⟨1, -1, some 2, 1, 10⟩)).2.saveFailed = true := by
  decide

/-- Each released signature is the signer's signature of exactly the message
returned with it (H/R/S, body, returned timestamp) — in particular on the
timestamp-only path the returned timestamp is the one that was signed. -/
theorem released_signature_valid {σ : Type} (sign : SignBytes → σ) (ops : List Op) :
    SigValid sign (run sign State.init ops).released :=
  (inv_run ops (inv_init sign)).valid

/-- The log the theorems speak about is exactly what callers receive: a call
that returns signature `sg` and timestamp `ts` with a nil error appends the one
entry (request H/R/S, request body, `ts`, `sg`); every other outcome (error,
panic, killed inside `WriteFileAtomic`) appends nothing. -/
theorem log_is_what_is_returned {σ : Type} (sign : SignBytes → σ) (s : State σ) (op : Op) :
    match op with
    | .sign q => Logged q s.released (step sign s op).1.released (step sign s op).2
    | .cut _ q => s.failing = false → Logged q s.released (step sign s op).1.released (step sign s op).2
    | _ => (step sign s op).1.released = s.released :=
  step_logged sign s op

/-- Non-vacuity: a history with repeats, timestamp-only repeats, conflicts, failed
saves, restarts and kills on both sides of the rename releases exactly this. -/
example : ((run id State.init
    [.sign ⟨1, 0, some 2, 1, 10⟩, .sign ⟨1, 0, some 2, 1, 11⟩, .sign ⟨1, 0, some 2, 2, 10⟩, .failsave true,
     .sign ⟨1, 0, some 3, 1, 12⟩, .sign ⟨1, 0, some 3, 1, 12⟩, .crash, .failsave false,
     .sign ⟨1, 0, some 3, 2, 12⟩, .cut .new ⟨2, 0, some 1, 5, 1⟩,
     .sign ⟨2, 0, some 1, 5, 2⟩, .cut .old ⟨2, 0, some 2, 5, 1⟩, .sign ⟨2, 0, some 2, 6, 1⟩,
     .sign ⟨2, -1, some 3, 1, 1⟩, .sign ⟨1, 9, some 3, 1, 1⟩]).released.map
      (fun e => (e.hrs.h, e.hrs.r, e.hrs.s, e.body, e.ts))) =
    [(1, 0, 2, 1, 10), (1, 0, 2, 1, 10), (1, 0, 3, 2, 12), (2, 0, 1, 5, 1), (2, 0, 2, 6, 1)] := by decide

/-! ## Companions: two other orderings are unsafe (the model is not vacuous) -/

/-- OLD `Update` (before fd7d3fbcc7, no roll-back): failed save; the same request
again (answered from memory, nil error, nothing persisted); restart; a
different vote at the same H/R/S is signed. -/
theorem old_update_order_double_sign :
    ¬ NoConflict (runOld (σ := SignBytes) id State.init
      [.failsave true, .sign ⟨1, 0, some 2, 1, 10⟩, .failsave false, .sign ⟨1, 0, some 2, 1, 10⟩,
       .crash, .sign ⟨1, 0, some 2, 2, 11⟩]).released := by decide

/-- OLD `Update`, no I/O failure needed: `validate` rejects the negative round
after memory was already changed. -/
theorem old_update_order_double_sign_validate :
    ¬ NoConflict (runOld (σ := SignBytes) id State.init
      [.sign ⟨1, -1, some 2, 1, 10⟩, .sign ⟨1, -1, some 2, 1, 10⟩, .crash,
       .sign ⟨1, -1, some 2, 2, 10⟩, .sign ⟨1, -1, some 2, 2, 10⟩]).released := by decide

/-- OLD `Update`: after the unpersisted release at 3/2/precommit and a restart,
1/3/prevote is signed. -/
theorem old_update_order_regression :
    ¬ Monotone (runOld (σ := SignBytes) id State.init
      [.failsave true, .sign ⟨3, 2, some 3, 1, 47⟩, .sign ⟨3, 2, some 3, 1, 47⟩, .crash, .failsave false,
       .sign ⟨1, 3, some 2, 7, 47⟩]).released := by decide

/-- OLD `Update`: a signature for 1/0/prevote leaves while the file is at 0/0/0. -/
theorem old_update_order_unpersisted :
    ¬ Persisted (runOld (σ := SignBytes) id State.init
      [.failsave true, .sign ⟨1, 0, some 2, 1, 10⟩, .sign ⟨1, 0, some 2, 1, 10⟩]) := by decide

/-- The same four histories are safe for the code as it is. -/
theorem old_witnesses_now_safe :
    (run (σ := SignBytes) id State.init
      [.failsave true, .sign ⟨1, 0, some 2, 1, 10⟩, .failsave false, .sign ⟨1, 0, some 2, 1, 10⟩,
       .crash, .sign ⟨1, 0, some 2, 2, 11⟩]).released.map (fun e => (e.hrs.h, e.hrs.r, e.hrs.s, e.body, e.ts))
      = [(1, 0, 2, 1, 10)] ∧
    (run (σ := SignBytes) id State.init
      [.sign ⟨1, -1, some 2, 1, 10⟩, .sign ⟨1, -1, some 2, 1, 10⟩, .crash,
       .sign ⟨1, -1, some 2, 2, 10⟩, .sign ⟨1, -1, some 2, 2, 10⟩]).released = [] := by decide

/-- "Release, then persist": in the variant that hands the signature out before
`save`, a kill before the rename already breaks (1) and (3) — on a history
without any failed save, where the real order is safe. -/
theorem release_before_persist_unsafe :
    ∃ ops : List Op,
      NoConflict (run (σ := SignBytes) id State.init ops).released ∧
      ¬ NoConflict (runWrong (σ := SignBytes) id State.init ops).released ∧
      ¬ Persisted (runWrong (σ := SignBytes) id State.init ops) :=
  ⟨[.cut .old ⟨1, 0, some 2, 1, 10⟩, .sign ⟨1, 0, some 2, 2, 10⟩, .cut .old ⟨2, 0, some 2, 1, 10⟩],
   by decide, by decide, by decide⟩

end GnoVerif.C34
