import GnoVerif.Proofs.C34
/-!
# C34 — a validator never double-signs, even across crashes

Model: `Model/C34.lean` (mirrors privval.go / state.go / tempfile.go).
Predicates: `Spec/C34.lean`.  Lemmas: `Proofs/C34.lean`.

The unchanged tree does NOT satisfy the statement for every history: when
`FileState.save` fails, `Update` has already overwritten the in-memory state, and
a repeat of the same request is then answered from memory (same-HRS branch)
with a nil error although the state file never learnt about it; after a
restart a conflicting message at that H/R/S is signed.  So the three full
statements stay visible as `def …_statement`, each is proved under the exact
guard `NoDirtyReuse` (`…_partial`), refuted on a concrete history
(`…_counterexample`, the same histories as `corpus/C34/*.ops`), and the guard
is shown to follow from two operational conditions (`FailStop`: restart after
every failed save; `benign`: no failed save at all).

What is missing for the full statements: nothing on the proof side — they are
false for the code as it is.
-/
namespace GnoVerif.C34

/-! ## The full statements (for every signer, every history from a fresh state file) -/

/-- (1) never two released signatures for different messages at one H/R/S; a repeat
(also with another timestamp) returns the original signature and timestamp. -/
def no_double_sign_statement : Prop :=
  ∀ (σ : Type) (sign : SignBytes → σ) (ops : List Op), NoConflict (run sign State.init ops).released

/-- (2) never a release for an H/R/S lower than an earlier release. -/
def no_regression_statement : Prop :=
  ∀ (σ : Type) (sign : SignBytes → σ) (ops : List Op), Monotone (run sign State.init ops).released

/-- (3) at every moment everything released so far is covered by the state file. -/
def released_persisted_statement : Prop :=
  ∀ (σ : Type) (sign : SignBytes → σ) (ops : List Op),
    Persisted (run sign State.init ops) ∧ Remembered (run sign State.init ops)

/-! ## Proved under the guard -/

/-- (1) under the guard: all releases at one H/R/S carry the same message, the same
(original) timestamp and the same signature — for every history, every crash
point, every placement of kills inside `WriteFileAtomic` and of failing saves. -/
theorem no_double_sign_partial {σ : Type} (sign : SignBytes → σ) (ops : List Op)
    (g : NoDirtyReuse sign State.init ops) : NoConflict (run sign State.init ops).released :=
  (inv_run ops (inv_init sign) g).noconf

example : NoDirtyReuse id State.init
    [.sign ⟨1, 0, some 2, 1, 10⟩, .sign ⟨1, 0, some 2, 1, 11⟩, .failsave true, .sign ⟨1, 0, some 3, 1, 12⟩,
     .crash, .failsave false, .sign ⟨1, 0, some 3, 2, 12⟩, .cut .new ⟨2, 0, some 1, 5, 1⟩,
     .sign ⟨2, 0, some 1, 5, 2⟩, .cut .old ⟨2, 0, some 2, 5, 1⟩, .sign ⟨2, 0, some 2, 6, 1⟩] :=
  noDirtyReuse_of_failStop _ _ _ rfl (by decide)

example : ((run id State.init
    [.sign ⟨1, 0, some 2, 1, 10⟩, .sign ⟨1, 0, some 2, 1, 11⟩, .failsave true, .sign ⟨1, 0, some 3, 1, 12⟩,
     .crash, .failsave false, .sign ⟨1, 0, some 3, 2, 12⟩, .cut .new ⟨2, 0, some 1, 5, 1⟩,
     .sign ⟨2, 0, some 1, 5, 2⟩, .cut .old ⟨2, 0, some 2, 5, 1⟩, .sign ⟨2, 0, some 2, 6, 1⟩]).released.map
      (fun e => (e.hrs.h, e.hrs.r, e.hrs.s, e.body, e.ts))) =
    [(1, 0, 2, 1, 10), (1, 0, 2, 1, 10), (1, 0, 3, 2, 12), (2, 0, 1, 5, 1), (2, 0, 2, 6, 1)] := by decide

/-- (2) under the guard: released H/R/S never go down, in release order. -/
theorem no_regression_partial {σ : Type} (sign : SignBytes → σ) (ops : List Op)
    (g : NoDirtyReuse sign State.init ops) : Monotone (run sign State.init ops).released :=
  (inv_run ops (inv_init sign) g).mono

/-- (3) under the guard, at EVERY prefix of the history (so in particular at the
moment of each release): every released entry is ≤ the persisted H/R/S, and
what was released at exactly the persisted H/R/S is what the file holds. -/
theorem released_persisted_partial {σ : Type} (sign : SignBytes → σ) (pre post : List Op)
    (g : NoDirtyReuse sign State.init (pre ++ post)) :
    Persisted (run sign State.init pre) ∧ Remembered (run sign State.init pre) :=
  have h := inv_run pre (inv_init sign) (noDirtyReuse_prefix sign pre post _ g)
  ⟨h.persisted, h.remembered⟩

/-- Why (3) makes crashes safe: after a restart the validator's memory is at
least at every H/R/S it ever released, and at equality holds exactly the
released message — so `CheckHRS` + the same-HRS branch refuse anything else. -/
theorem restart_remembers_partial {σ : Type} (sign : SignBytes → σ) (ops : List Op)
    (g : NoDirtyReuse sign State.init ops) :
    let s := restart (run sign State.init ops)
    ∀ e ∈ s.released, e.hrs ≤ s.mem.hrs ∧
      (e.hrs = s.mem.hrs → s.mem.sb = some ⟨e.hrs, e.body, e.ts⟩ ∧ s.mem.sig = some e.sig) := by
  intro s e he
  have h := inv_run ops (inv_init sign) g
  exact ⟨h.persisted e he, h.remembered e he⟩

/-! ## The guard follows from fail-stop operation, and from the absence of failed saves -/

/-- If the process is restarted after every failed save (I/O error or `validate`
rejection) — and otherwise anything goes: crashes anywhere, kills inside
`WriteFileAtomic`, conflicting / regressing / repeated requests — all three
clauses hold. -/
theorem safe_of_failStop {σ : Type} (sign : SignBytes → σ) (ops : List Op)
    (h : FailStop sign State.init ops) :
    NoConflict (run sign State.init ops).released ∧ Monotone (run sign State.init ops).released ∧
    Persisted (run sign State.init ops) ∧ Remembered (run sign State.init ops) :=
  have i := inv_run ops (inv_init sign) (noDirtyReuse_of_failStop sign ops _ rfl h)
  ⟨i.noconf, i.mono, i.persisted, i.remembered⟩

example : FailStop id State.init
    [.sign ⟨1, -1, some 2, 1, 10⟩, .crash, .failsave true, .sign ⟨1, 0, some 3, 1, 12⟩, .crash,
     .sign ⟨1, 0, some 3, 1, 12⟩, .crash, .failsave false, .sign ⟨1, 0, some 3, 2, 12⟩] := by decide

/-- If no save ever fails (storage never fails, rounds are non-negative) all three
clauses hold for every history of requests, crashes and kills inside `WriteFileAtomic`. -/
theorem safe_of_benign {σ : Type} (sign : SignBytes → σ) (ops : List Op)
    (h : ∀ op ∈ ops, op.benign = true) :
    NoConflict (run sign State.init ops).released ∧ Monotone (run sign State.init ops).released ∧
    Persisted (run sign State.init ops) ∧ Remembered (run sign State.init ops) :=
  safe_of_failStop sign ops (failStop_of_benign sign ops _ rfl h)

example : ∀ op ∈ ([.sign ⟨5, 3, some 3, 7, 100⟩, .cut .old ⟨5, 4, some 1, 1, 1⟩, .sign ⟨5, 4, some 1, 2, 1⟩,
    .crash, .sign ⟨5, 4, some 1, 2, 9⟩, .sign ⟨5, 4, some 1, 3, 9⟩, .sign ⟨4, 9, some 3, 3, 9⟩] : List Op),
    op.benign = true := by decide

/-! ## Unconditional -/

/-- For EVERY history (guard or not): each released signature is the signer's
signature of exactly the message returned with it (H/R/S, body, returned
timestamp) — in particular on the timestamp-only path the returned timestamp
is the one that was signed. -/
theorem released_signature_valid {σ : Type} (sign : SignBytes → σ) (ops : List Op) :
    SigValid sign (run sign State.init ops).released :=
  (invW_run ops (invW_init sign)).valid

/-- The log the theorems speak about is exactly what callers receive: a call
that returns signature `sg` and timestamp `ts` with a nil error appends the one
entry (request H/R/S, request body, `ts`, `sg`); every other outcome (error,
panic, killed inside `WriteFileAtomic`) appends nothing. -/
theorem log_is_what_is_returned {σ : Type} (sign : SignBytes → σ) (s : State σ) (op : Op) :
    match op with
    | .sign q => Logged q s.released (step sign s op).1.released (step sign s op).2
    | .cut _ q => s.failing = false → Logged q s.released (step sign s op).1.released (step sign s op).2
    | _ => (step sign s op).1.released = s.released :=
  step_logged sign s op

/-! ## The finding: the full statements are false for the code as it is -/

/-- failed save; the same request again (answered from memory, nil error, nothing
persisted); restart; a different vote at the same H/R/S is signed. -/
theorem no_double_sign_counterexample : ¬ no_double_sign_statement := fun h => by
  have := h SignBytes id
    [.failsave true, .sign ⟨1, 0, some 2, 1, 10⟩, .failsave false, .sign ⟨1, 0, some 2, 1, 10⟩,
     .crash, .sign ⟨1, 0, some 2, 2, 11⟩]
  revert this; decide

/-- the same without any I/O failure: `validate` rejects the negative round after
`Update` already changed memory. -/
theorem no_double_sign_counterexample_validate : ¬ no_double_sign_statement := fun h => by
  have := h SignBytes id
    [.sign ⟨1, -1, some 2, 1, 10⟩, .sign ⟨1, -1, some 2, 1, 10⟩, .crash,
     .sign ⟨1, -1, some 2, 2, 10⟩, .sign ⟨1, -1, some 2, 2, 10⟩]
  revert this; decide

/-- after the unpersisted release at 3/2/precommit and a restart, 1/3/prevote is signed. -/
theorem no_regression_counterexample : ¬ no_regression_statement := fun h => by
  have := h SignBytes id
    [.failsave true, .sign ⟨3, 2, some 3, 1, 47⟩, .sign ⟨3, 2, some 3, 1, 47⟩, .crash, .failsave false,
     .sign ⟨1, 3, some 2, 7, 47⟩]
  revert this; decide

/-- the release itself: a signature for 1/0/prevote leaves while the file is at 0/0/0. -/
theorem released_persisted_counterexample : ¬ released_persisted_statement := fun h => by
  have := (h SignBytes id [.failsave true, .sign ⟨1, 0, some 2, 1, 10⟩, .sign ⟨1, 0, some 2, 1, 10⟩]).1
  revert this; decide

/-! ## Companion: the order "release, then persist" is unsafe (the model is not vacuous) -/

/-- In the variant that hands the signature out before `save`, a kill before the
rename already breaks (1) — on a benign history, where the real order is safe. -/
theorem release_before_persist_unsafe :
    ∃ ops : List Op, (∀ op ∈ ops, op.benign = true) ∧
      NoConflict (run (σ := SignBytes) id State.init ops).released ∧
      ¬ NoConflict (runWrong (σ := SignBytes) id State.init ops).released ∧
      ¬ Persisted (runWrong (σ := SignBytes) id State.init ops) :=
  ⟨[.cut .old ⟨1, 0, some 2, 1, 10⟩, .sign ⟨1, 0, some 2, 2, 10⟩, .cut .old ⟨2, 0, some 2, 1, 10⟩],
   by decide, by decide, by decide, by decide⟩

end GnoVerif.C34
