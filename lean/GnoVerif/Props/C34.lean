import GnoVerif.Model.C34
namespace GnoVerif.C34

theorem placeholder : (1 : Nat) = 1 := rfl

end GnoVerif.C34
