import GnoVerif.Model.C30Tree
import GnoVerif.Model.C30Proof
namespace GnoVerif.C30
end GnoVerif.C30
