import GnoVerif.Proofs.C30Hash
import GnoVerif.Proofs.C30Proof
import GnoVerif.Proofs.C30Tidy
/-!
# C30 — the IAVL tree is a correct versioned, provable map

Statement: *for every history of sets, removes, saves, loads and version
deletions, each IAVL version answers reads and ordered iteration like an ordered
map of that version, saved versions are immutable, the root hash is a function of
the version contents and history, and proofs for present and absent keys verify
only for the true answer.*

Model: `Model/C30Avl.lean` (node algorithms, traversal machine, hashing),
`Model/C30Tree.lean` (`MutableTree` over the node database, histories),
`Model/C30Proof.lean` (ICS23 proofs).  Spec: `Spec/OMap.lean` (strictly sorted
association list); abstraction `abs`, invariant `Node.WF`: `Spec/C30Inv.lean`.

What is a theorem here, clause by clause:

* **reads and ordered iteration like an ordered map** — full, for every well-formed
  tree (`set_refines` … `iterate_range`), and every tree of every state reachable by
  any history is well-formed (`history_wf`): working tree, every version in the
  database, the last saved tree.
* **saved versions are immutable** — `version_immutable` / `version_immutable_history`:
  no operation changes the tree stored for a version that exists; it can only stop
  being readable.  A version is a persistent value of the model, so this theorem is
  about the *bookkeeping* (root table, write batch, commits); that the real node
  database (shared nodes, orphan deletion, re-keyed roots) keeps the nodes of a
  retained version intact is carried by the correspondence run and the oracle only.
* **the root hash is a function of contents and history** — true by construction in
  the model (`Node.hash` is a function of the tree, the tree a function of the
  history); `save_hash_is_working_hash`, `stored_hash_function_of_tree`,
  `save_returns_root_hash`, `reopen_keeps_database` state the parts that are not definitional.  Independence of cache size, flush threshold, fast-node index
  and restarts is established by correspondence (shadow tree) only.
* **proofs verify only for the true answer** — `membership_proof_complete` (the proof of
  a present key names key and value and ICS23's `Calculate` maps it to the root hash,
  for every 32-byte hash function) and `nonmembership_proof_neighbours` (the absence proof of
  an absent key carries verifying existence proofs of exactly its two neighbours).  Soundness
  (no proof of a wrong answer verifies) and the ICS23 verifier itself (spec checks, adjacency
  of the neighbours) are NOT modelled: oracle only
  (verification through `store/types.CommitmentOp`, with mutated key / value / root /
  proof bytes and forged absence proofs).
* **every history … version deletions** — the version bookkeeping of the unchanged code
  violates the statement: `versions_readable_statement` is refuted on a concrete
  history (`ghost_version_counterexample`; finding `ghost-version`), and proved under the
  exact guard that excludes the finding (`versions_readable_partial`).

Everything is parametric in the hash function `H`.
-/
namespace GnoVerif.C30
open GnoVerif

/-! ## the invariant holds initially and is non-vacuous -/

theorem wf_empty : WFo none ∧ abs none = [] := ⟨trivial, rfl⟩

example : exTree.WF ∧ exTree.toList = [([], [1]), ([97], [2]), ([97, 0], [3])] := by
  refine ⟨⟨?_, ?_⟩, rfl⟩
  · simp only [exTree, Node.Inv, Node.height, Node.size, Node.minKey]
    decide
  · simp only [exTree, Node.toList, OMap.Sorted, List.cons_append, List.nil_append]
    decide

/-! ## Set and Remove preserve the invariant and refine the ordered map -/

/-- `MutableTree.Set` with a non-nil value never fails on a well-formed working tree,
keeps it well-formed, implements `OMap.set`, reports `updated` exactly when the key was
present, and touches nothing but the working tree. -/
theorem set_refines (s : St) (hw : WFo s.root) (k v : Bytes) :
    ∃ u s', s.set k (some v) = .ok (u, s') ∧ WFo s'.root ∧
      abs s'.root = OMap.set (abs s.root) k v ∧ (u = true ↔ k ∈ OMap.keys (abs s.root)) ∧
      s'.db = s.db ∧ s'.version = s.version := by
  cases hr : s.root with
  | none =>
    refine ⟨false, { s with root := some (Node.new k v) }, by simp [St.set, hr], ?_, rfl, by simp [abs, OMap.keys], rfl, rfl⟩
    exact ⟨trivial, by simp [Node.new, OMap.Sorted]⟩
  | some n =>
    rw [hr] at hw
    obtain ⟨m, u, hset, hm, htl, hu⟩ := Node.set_spec hw k v
    exact ⟨u, { s with root := some m }, by simp [St.set, hr, hset], hm, htl, hu, rfl, rfl⟩

example : ∃ u s', (St.init 0).set [97] (some [1]) = .ok (u, s') ∧ abs s'.root = [([97], [1])] :=
  ⟨_, _, rfl, rfl⟩

/-- a nil value is refused and nothing changes -/
theorem set_nil_value (s : St) (k : Bytes) : s.set k none = .error .nilValue := rfl

/-- `MutableTree.Remove` never fails on a well-formed working tree, keeps it well-formed,
implements `OMap.del`, returns the stored value, and reports `removed` exactly when the key
was present. -/
theorem remove_refines (s : St) (hw : WFo s.root) (k : Bytes) :
    ∃ val rem s', s.remove k = .ok ((val, rem), s') ∧ WFo s'.root ∧
      abs s'.root = OMap.del (abs s.root) k ∧ val = OMap.get (abs s.root) k ∧
      (rem = true ↔ k ∈ OMap.keys (abs s.root)) ∧ s'.db = s.db ∧ s'.version = s.version := by
  cases hr : s.root with
  | none => exact ⟨none, false, s, by simp [St.remove, hr], by rw [hr]; trivial, by simp [hr, abs, OMap.del], rfl,
      by simp [abs, OMap.keys], rfl, rfl⟩
  | some n =>
    rw [hr] at hw
    obtain ⟨nn, nkey, val, rem, hrm, hnn, hyes, hno, hval, hrem⟩ := Node.remove_spec hw k
    cases rem with
    | false =>
      have hk : k ∉ OMap.keys n.toList := fun h => by have := hrem.2 h; cases this
      refine ⟨none, false, s, by simp [St.remove, hr, hrm], by rw [hr]; exact hw, ?_, ?_, ?_, rfl, rfl⟩
      · simp only [hr, abs, OMap.del]
        symm
        rw [List.filter_eq_self]
        intro p hp
        have : p.1 ≠ k := fun e => hk (e ▸ List.mem_map_of_mem hp)
        simpa using this
      · simp only [abs]
        symm
        rw [OMap.get_eq_none_iff]
        intro p hp e
        exact hk (e ▸ List.mem_map_of_mem hp)
      · simp only [abs]; constructor
        · intro h; cases h
        · intro h; exact absurd h hk
    | true =>
      refine ⟨val, true, { s with root := nn }, by simp [St.remove, hr, hrm], hnn, ?_, hval, hrem, rfl, rfl⟩
      simp only [abs] at hyes ⊢
      exact hyes trivial

/-! ## reads agree with the ordered map -/

theorem wf_sorted (root : Option Node) (hw : WFo root) : OMap.Sorted (abs root) := by
  cases root with
  | none => simp [abs, OMap.Sorted]
  | some n => exact hw.2

/-- `Get` (the value half of `node.get`) -/
theorem get_refines (n : Node) (hw : n.WF) (k : Bytes) : (n.get k).2 = OMap.get n.toList k := by
  rw [Node.get_spec hw k]

/-- `GetWithIndex`: the rank of the key among the stored keys, and the value -/
theorem getWithIndex_refines (n : Node) (hw : n.WF) (k : Bytes) :
    n.get k = ((((n.toList.filter (fun p => p.1 < k)).length : Nat) : Int), OMap.get n.toList k) :=
  Node.get_spec hw k

theorem has_refines (n : Node) (hw : n.WF) (k : Bytes) : n.has k = (OMap.get n.toList k).isSome :=
  Node.has_spec hw k

theorem size_refines (n : Node) (hw : n.WF) : n.size = n.toList.length := Node.size_eq_length hw.1

/-- `GetByIndex(i)` is the `i`-th entry of the sorted list for `0 ≤ i < size` … -/
theorem getByIndex_refines (n : Node) (hw : n.WF) (i : Nat) (h : i < n.toList.length) :
    n.getByIndex (i : Int) = some (n.toList[i]) := Node.getByIndex_spec hw.1 h

/-- … and `(nil, nil)` for every other index -/
theorem getByIndex_out_of_range (n : Node) (hw : n.WF) (i : Int) (h : i < 0 ∨ (n.toList.length : Int) ≤ i) :
    n.getByIndex i = none := Node.getByIndex_none hw.1 h

example : (exTree.get [97]).2 = some [2] ∧ exTree.get [97, 0] = (2, some [3]) ∧ exTree.get [98] = (3, none) ∧
    exTree.has [97] = true ∧ exTree.getByIndex 1 = some ([97], [2]) ∧ exTree.getByIndex 3 = none ∧
    exTree.getByIndex (-1) = none := by decide

/-! ## iteration -/

/-- The traversal machine behind `IterateRange` / `IterateRangeInclusive` / `Iterator`
(pre-order, any start / end, ascending or descending, end exclusive or inclusive) hands out,
as leaves, exactly the entries of the sorted list whose key is in the domain, in iteration
order. -/
theorem iterate_refines (n : Node) (hw : n.WF) (start end_ : Option Bytes) (ascending inclusive : Bool) :
    let t : Trav := ⟨start, end_, ascending, inclusive, false, [(n, true)]⟩
    leavesOf t.run =
      (let f := n.toList.filter (fun p => t.inRange p.1); if ascending then f else f.reverse) := by
  intro t
  have h1 := Trav.run_spec t rfl
  rw [h1]
  simp only [t, Trav.yieldStack, List.append_nil]
  exact Trav.yieldPre_spec _ hw

/-- the domain, spelled out: `start ≤ k`, and `k < end` (`k ≤ end` when inclusive); nil = unbounded -/
theorem iterate_domain (t : Trav) (k : Bytes) :
    t.inRange k = true ↔
      (∀ s, t.start = some s → s ≤ k) ∧
      (∀ e, t.end_ = some e → k < e ∨ (t.inclusive = true ∧ k = e)) := Trav.inRange_iff t k

/-- with an exclusive end this is the reference map's `range` (`db.IsKeyInDomain`) -/
theorem iterate_range (n : Node) (hw : n.WF) (start end_ : Option Bytes) (ascending : Bool) :
    leavesOf (Trav.run ⟨start, end_, ascending, false, false, [(n, true)]⟩) =
      OMap.range n.toList start end_ ascending := by
  have h := iterate_refines n hw start end_ ascending false
  simp only at h
  rw [h]
  have hf : ∀ k, Trav.inRange ⟨start, end_, ascending, false, false, [(n, true)]⟩ k = Lex.inDomain k start end_ := by
    intro k
    rw [Bool.eq_iff_iff, Trav.inRange_iff, Lex.inDomain_iff]
    simp
  simp only [OMap.range, hf]

example : leavesOf (Trav.run ⟨some [97], none, false, false, false, [(exTree, true)]⟩) =
    [([97, 0], [3]), ([97], [2])] := by
  rw [iterate_range exTree (by
    refine ⟨?_, ?_⟩
    · simp only [exTree, Node.Inv, Node.height, Node.size, Node.minKey]; decide
    · simp only [exTree, Node.toList, OMap.Sorted, List.cons_append, List.nil_append]; decide)]
  decide

/-! ## shape: balanced, logarithmic height -/

/-- a well-formed tree is height-balanced on heights recomputed from the shape, and the cached
`subtreeHeight` is exact -/
theorem wf_balanced (n : Node) (hw : n.WF) : n.Balanced ∧ n.height = (n.realHeight : Int) :=
  ⟨Node.balanced_of_inv hw.1, Node.height_eq_realHeight hw.1⟩

/-- `2^(height/2) ≤ size`: with fewer than 2^63 entries the height is at most 125 and the `int8`
field `subtreeHeight` (including the `+1` of `calcHeightAndSize`) cannot overflow -/
theorem height_fits_int8 (n : Node) (hw : n.WF) :
    2 ^ (n.realHeight / 2) ≤ n.toList.length ∧ (n.toList.length < 2 ^ 63 → n.realHeight ≤ 125) := by
  have key := Node.pow_le_length hw.1
  refine ⟨key, fun hlt => ?_⟩
  refine Classical.byContradiction fun hgt => ?_
  have h63 : 63 ≤ n.realHeight / 2 := by omega
  have : 2 ^ 63 ≤ 2 ^ (n.realHeight / 2) := Nat.pow_le_pow_right (by omega) h63
  omega

/-! ## every history -/

/-- After EVERY history of sets, removes, saves, loads, overwriting loads, version deletions,
rollbacks and restarts, every tree the state holds — the working tree, the last saved tree,
every version in the database and in the write batch, every surviving leaf — is well-formed.
Hence every theorem above applies to the working tree and to every readable version of every
reachable state. -/
theorem history_wf (H : Bytes → Bytes) (iv : Int) (ops : List Op) :
    let s := St.run H (St.init iv) ops
    WFo s.root ∧ WFo s.lsRoot ∧ ∀ v r, s.getImmutable v = .ok r → WFo r := by
  intro s
  have hw := St.run_holds (I := St.wfInv) H (St.init iv) ops (St.init_holds _ iv)
  exact ⟨hw.2.2.1, hw.2.2.2, fun v r h => DB.getRoot_P (I := St.wfInv) hw.1 h⟩

/-- After every history, every stored version consists of saved nodes only (so its root hash
does not depend on anything but the stored tree), and in the working tree a saved node has
only saved descendants (what `saveNewNodes` relies on when it stops at the first node that
has a node key). -/
theorem history_saved (H : Bytes → Bytes) (iv : Int) (ops : List Op) :
    let s := St.run H (St.init iv) ops
    Node.Closedo s.root ∧ AllSavedo s.lsRoot ∧ ∀ v r, s.getImmutable v = .ok r → AllSavedo r := by
  intro s
  have hw := St.run_holds (I := St.savedInv) H (St.init iv) ops (St.init_holds _ iv)
  exact ⟨hw.2.2.1, hw.2.2.2, fun v r h => DB.getRoot_P (I := St.savedInv) hw.1 h⟩

/-! ## saved versions are immutable -/

/-- No operation changes the tree stored for a version that exists: after the operation the
version reads the very same tree, or it cannot be read any more (it was deleted).  `BatchSub`
(the write batch holds nothing the database does not hold) is an invariant of every reachable
state (`history_batch`). -/
theorem version_immutable (H : Bytes → Bytes) (s : St) (hb : s.BatchSub) (op : Op) (v : Int) (r : Option Node)
    (hex : (s.versionExists v).1 = true) (hr : s.getImmutable v = .ok r) :
    (s.step H op).getImmutable v = .ok r ∨ (s.step H op).getImmutable v = .error .noVersion := by
  rcases DB.getRoot_cases (s.step H op).db v with ⟨r', hr'⟩ | he
  · left
    have := (St.step_frame H s op hb).2 v r' hex hr'
    simp only [St.getImmutable] at hr
    rw [hr] at this
    simp only [Except.ok.injEq] at this
    simp only [St.getImmutable]
    rw [hr', this]
  · right; exact he

theorem history_batch (H : Bytes → Bytes) (iv : Int) (ops : List Op) : (St.run H (St.init iv) ops).BatchSub :=
  St.run_batchSub H _ ops (St.init_batchSub iv)

/-- … and over a whole history: as long as the version keeps existing, it reads the tree that
was stored, or nothing. -/
theorem version_immutable_history (H : Bytes → Bytes) (ops : List Op) (s : St) (hb : s.BatchSub) (v : Int)
    (r : Option Node) (hr : s.getImmutable v = .ok r ∨ s.getImmutable v = .error .noVersion)
    (hex : ∀ pre, pre <+: ops → ((St.run H s pre).versionExists v).1 = true) :
    (St.run H s ops).getImmutable v = .ok r ∨ (St.run H s ops).getImmutable v = .error .noVersion := by
  induction ops generalizing s with
  | nil => exact hr
  | cons op ops ih =>
    have h0 : (s.versionExists v).1 = true := hex [] (List.nil_prefix)
    have hb' := (St.step_frame H s op hb).1
    apply ih (s.step H op) hb'
    · rcases hr with hr | hr
      · exact version_immutable H s hb op v r h0 hr
      · -- unreadable stays unreadable while the version number keeps existing
        right
        rcases DB.getRoot_cases (s.step H op).db v with ⟨r', hr'⟩ | he
        · have := (St.step_frame H s op hb).2 v r' h0 hr'
          simp only [St.getImmutable] at hr
          rw [hr] at this
          cases this
        · exact he
    · intro pre hpre
      have := hex (op :: pre) (by simpa using hpre)
      simpa [St.run] using this

/-! ## saving, loading, restarting -/

/-- `SaveVersion` when the working version does not exist yet: it succeeds, writes the working
tree under that version (same contents, well-formed), commits, makes it the working tree and
the last saved tree, and returns the root hash of what it wrote. -/
theorem save_new_version (H : Bytes → Bytes) (s : St) (hw : WFo s.root)
    (hex : (s.versionExists s.workingVersion).1 = false) :
    ∃ root', (s.saveVersion H).1 = .ok (St.rootHash H (s.workingVersion + 1) root', s.workingVersion) ∧
      (s.saveVersion H).2.getImmutable s.workingVersion = .ok root' ∧
      abs root' = abs s.root ∧ WFo root' ∧
      (s.saveVersion H).2.root = root' ∧ (s.saveVersion H).2.version = s.workingVersion ∧
      (s.saveVersion H).2.pend = none := by
  rcases St.saveVersion_cases H s with ⟨h, -⟩ | ⟨-, h1, h2, h3, h4, h5⟩
  · rw [hex] at h; cases h
  · refine ⟨s.savedRoot, h5, ?_, St.savedRoot_abs s, St.savedRoot_P (I := St.wfInv) hw, h3, h4, h2⟩
    simp only [St.getImmutable, h1, DB.getRoot_setRoot_self]

/-- the hash `SaveVersion` returns is the hash of the stored version (`ihash`) -/
theorem save_returns_root_hash (H : Bytes → Bytes) (s : St)
    (hex : (s.versionExists s.workingVersion).1 = false) :
    ∃ root', (s.saveVersion H).2.getImmutable s.workingVersion = .ok root' ∧
      (s.saveVersion H).1 = .ok (St.rootHash H (s.workingVersion + 1) root', s.workingVersion) := by
  rcases St.saveVersion_cases H s with ⟨h, -⟩ | ⟨-, h1, -, -, -, h5⟩
  · rw [hex] at h; cases h
  · exact ⟨s.savedRoot, by simp only [St.getImmutable, h1, DB.getRoot_setRoot_self], h5⟩

/-- `SaveVersion` when the working version already exists never writes: it is the identity on
the database (idempotent re-save, or the error "already saved to different hash") -/
theorem save_existing_version (H : Bytes → Bytes) (s : St)
    (hex : (s.versionExists s.workingVersion).1 = true) :
    (s.saveVersion H).2.db = s.db ∧ (s.saveVersion H).2.pend = s.pend := by
  rcases St.saveVersion_cases H s with ⟨-, h1, h2⟩ | ⟨h, -⟩
  · exact ⟨h1, h2⟩
  · rw [hex] at h; cases h

/-- a successful `LoadVersion` makes the stored tree of the loaded version the working tree
(and the last saved tree); a failing one, or one on an empty database, leaves the tree alone;
the database is never touched -/
theorem load_reads_version (s : St) (t : Int) :
    (s.loadVersion t).2.db = s.db ∧
    (((s.loadVersion t).2.root = s.root ∧ (s.loadVersion t).2.version = s.version) ∨
     (∃ r, s.getImmutable (s.loadVersion t).2.version = .ok r ∧ (s.loadVersion t).2.root = r ∧
       (s.loadVersion t).2.lsRoot = r)) := by
  refine ⟨(St.loadVersion_frame s t).1, ?_⟩
  rcases St.loadVersion_root s t with ⟨a, -, c, -⟩ | ⟨v, r, hr, a, b, c, -⟩
  · exact Or.inl ⟨a, c⟩
  · exact Or.inr ⟨r, by rw [c]; exact hr, a, b⟩

/-- `Rollback` restores the last saved tree (the empty tree before the first save / load) -/
theorem rollback_restores (s : St) :
    s.rollback.db = s.db ∧
    (if s.version > 0 then s.rollback.root = s.lsRoot ∧ s.rollback.version = s.lsVersion
     else s.rollback.root = none ∧ s.rollback.version = 0) := by
  refine ⟨(St.rollback_frame s).1, ?_⟩
  unfold St.rollback
  split <;> simp

/-- closing the tree and opening the database again changes nothing in the database: every
version reads the same tree, hence has the same root hash -/
theorem reopen_keeps_database (s : St) (v : Int) : s.reopen.2.getImmutable v = s.getImmutable v := by
  simp only [St.getImmutable, (St.reopen_frame s).1]

/-! ## root hashes -/

/-- The hash `SaveVersion` returns for a new version is the hash `WorkingHash` reported for the
working tree just before (the model computes hashes on demand; the code caches them in the
nodes — this is the statement that the cache cannot be stale), given that saved nodes of the
working tree have only saved descendants, which holds after every history (`history_saved`). -/
theorem save_hash_is_working_hash (H : Bytes → Bytes) (s : St) (hc : Node.Closedo s.root)
    (hex : (s.versionExists s.workingVersion).1 = false) :
    (s.saveVersion H).1 = .ok (s.workingHash H, s.workingVersion) := by
  rcases St.saveVersion_cases H s with ⟨h, -⟩ | ⟨-, -, -, -, -, h5⟩
  · rw [hex] at h; cases h
  · rw [h5, St.savedRoot_hash H s hc]

/-- the root hash of a stored version is a function of the stored tree alone: the version number
it is asked with (`t.version + 1` in `ImmutableTree.Hash`) is irrelevant, because a stored tree
has no unsaved node -/
theorem stored_hash_function_of_tree (H : Bytes → Bytes) (iv : Int) (ops : List Op) (v : Int) (r : Option Node)
    (hr : (St.run H (St.init iv) ops).getImmutable v = .ok r) (wv wv' : Int) :
    St.rootHash H wv r = St.rootHash H wv' r :=
  St.rootHash_allSaved H ((history_saved H iv ops).2.2 v r hr) wv wv'

/-! ## proofs -/

/-- Completeness of membership proofs, for every hash function with 32-byte output:
`GetMembershipProof` succeeds exactly for the keys the tree holds; the proof names the key and
the stored value, and what ICS23's `ExistenceProof.Calculate` computes from it is the root hash
of that version. -/
theorem membership_proof_complete (H : Bytes → Bytes) (h32 : ∀ x, (H x).length = 32) (treeVersion : Int)
    (root : Node) (hw : root.WF) (key : Bytes) :
    (∀ v, OMap.get root.toList key = some v →
      ∃ p, membershipProof H treeVersion root key = .ok p ∧ p.key = key ∧ p.value = v ∧
        p.calc H = St.rootHash H (treeVersion + 1) (some root)) ∧
    (OMap.get root.toList key = none → membershipProof H treeVersion root key = .error .absent) := by
  have := membershipProof_spec h32 treeVersion root key
  rw [get_refines root hw key] at this
  exact this

/-- Absence proofs, for every hash function with 32-byte output: for a key the version does not
hold, `GetNonMembershipProof` succeeds and carries the existence proofs of exactly the two
neighbours of the key in the ordered map — the greatest key below it (none if there is none)
and the least key above it (none if there is none) — and ICS23's `Calculate` maps each of them
to the root hash of that version.  (That the two paths are adjacent leaves is what the ICS23
verifier checks on top; the verifier is not modelled.) -/
theorem nonmembership_proof_neighbours (H : Bytes → Bytes) (h32 : ∀ x, (H x).length = 32) (treeVersion : Int)
    (root : Node) (hw : root.WF) (key : Bytes) (habs : OMap.get root.toList key = none) :
    ∃ p, nonMembershipProof H treeVersion (some root) key = .ok p ∧ p.key = key ∧
      (∀ (j : Nat) (hj : j < root.toList.length), j + 1 = (root.toList.filter (fun q => q.1 < key)).length →
        (root.toList[j]).1 < key ∧ ∃ pl, p.left = some pl ∧ pl.key = (root.toList[j]).1 ∧
          pl.value = (root.toList[j]).2 ∧ pl.calc H = St.rootHash H (treeVersion + 1) (some root)) ∧
      ((root.toList.filter (fun q => q.1 < key)).length = 0 → p.left = none) ∧
      (∀ (j : Nat) (hj : j < root.toList.length), j = (root.toList.filter (fun q => q.1 < key)).length →
        key < (root.toList[j]).1 ∧ ∃ pr, p.right = some pr ∧ pr.key = (root.toList[j]).1 ∧
          pr.value = (root.toList[j]).2 ∧ pr.calc H = St.rootHash H (treeVersion + 1) (some root)) ∧
      ((root.toList.filter (fun q => q.1 < key)).length = root.toList.length → p.right = none) := by
  obtain ⟨p, hp, hk, hl, hl0, hr, hr0⟩ := nonMembershipProof_spec h32 treeVersion root hw key habs
  refine ⟨p, hp, hk, ?_, hl0, ?_, hr0⟩
  · intro j hj hji
    refine ⟨?_, hl j hj hji⟩
    exact (rank_split hw.2 key j hj).1 (by omega)
  · intro j hj hji
    refine ⟨?_, hr j hj hji⟩
    have hnlt : ¬ (root.toList[j]).1 < key := fun h => by
      have := (rank_split hw.2 key j hj).2 h
      omega
    have hne : (root.toList[j]).1 ≠ key := by
      intro e
      have hmem : (key, (root.toList[j]).2) ∈ root.toList := by
        have := List.getElem_mem hj
        rw [← e]; exact this
      have := OMap.get_of_mem hw.2 hmem
      rw [habs] at this
      cases this
    rcases Lex.lt_trichotomy (root.toList[j]).1 key with h | h | h
    · exact absurd h hnlt
    · exact absurd h hne
    · exact h

/-- the hypothesis on `H` is satisfiable -/
example : ∃ H : Bytes → Bytes, ∀ x, (H x).length = 32 := ⟨fun _ => List.replicate 32 0, by simp⟩

/-! ## the version bookkeeping of the unchanged code: finding `ghost-version` -/

/-- The part of the statement that says *each version answers reads*, for the versions the tree
itself reports: after every history, every version `VersionExists` reports can be read. -/
def versions_readable_statement : Prop :=
  ∀ (H : Bytes → Bytes) (ops : List Op) (v : Int),
    ((St.run H (St.init 0) ops).versionExists v).1 = true →
    ∃ r, (St.run H (St.init 0) ops).getImmutable v = .ok r

/-- the witness history of finding `ghost-version` (corpus/C30/ghost-version.ops): version 2 is
the single leaf `a`, versions 3 … 5 keep that leaf as a child, versions 1 … 3 are pruned, the
tree is reopened -/
def ghostOps : List Op :=
  [.save, .set [0x61] (some [1]), .save, .set [0x62] (some [2]), .save, .set [0x62] (some [3]), .save, .save,
   .delto 3, .reopen]

/-- The statement fails on the unchanged code (finding `ghost-version`): -/
theorem ghost_version_counterexample : ¬ versions_readable_statement := by
  intro h
  have hex : ((St.run (fun _ => []) (St.init 0) ghostOps).versionExists 3).1 = true := by rfl
  have hne : (St.run (fun _ => []) (St.init 0) ghostOps).getImmutable 3 = .error .noVersion := by rfl
  obtain ⟨r, hr⟩ := h (fun _ => []) ghostOps 3 hex
  rw [hne] at hr
  cases hr

/-- the same history, spelled out: after the restart the tree lists the deleted versions 2 and 3,
version 2 reads as the old single leaf, version 3 cannot be read, and `DeleteVersionsTo(4)` —
a proper prefix of the retained versions 4, 5 — fails with `ErrVersionDoesNotExist`. -/
theorem ghost_version_witness :
    (St.run (fun _ => []) (St.init 0) ghostOps).availableVersions.1 = [2, 3, 4, 5] ∧
    (St.run (fun _ => []) (St.init 0) ghostOps).getImmutable 2 = .ok (some (.leaf [0x61] [1] (some ⟨2, 1⟩))) ∧
    (St.run (fun _ => []) (St.init 0) ghostOps).getImmutable 3 = .error .noVersion ∧
    ((St.run (fun _ => []) (St.init 0) ghostOps).deleteVersionsTo 4).1 = .error .noVersion :=
  ⟨by rfl, by rfl, by rfl, by rfl⟩

/-- What IS true of the version bookkeeping, under the exact guard that excludes the finding: if
at no point of the history a database key `(v, 1)` outlives its version (`St.StuckFree`: that
happens only when a version whose whole tree is one leaf is pruned while the next version keeps
the leaf as a child), then after the history the bookkeeping is consistent (`St.Tidy`: the root
table is a contiguous interval of versions, nothing is pending, the caches are unset or exact,
the tree sits on a stored version) and every version `VersionExists` reports can be read —
restarts (`reopen`), overwriting loads, idle versions and prunings included.  `0 ≤ iv` is the
`uint64` type of `Options.InitialVersion`. -/
theorem versions_readable_partial (H : Bytes → Bytes) (iv : Int) (hiv : 0 ≤ iv) (ops : List Op)
    (hguard : ∀ pre, pre <+: ops → St.StuckFree (St.run H (St.init iv) pre)) (v : Int)
    (hex : ((St.run H (St.init iv) ops).versionExists v).1 = true) :
    ∃ r, (St.run H (St.init iv) ops).getImmutable v = .ok r ∧ WFo r :=
  have ht := St.run_tidy H ops (St.init iv) (St.init_tidy hiv) hguard
  let ⟨r, hr⟩ := St.tidy_readable ht v hex
  ⟨r, hr, (history_wf H iv ops).2.2 v r hr⟩

/-- the guard is satisfiable by a history that saves, prunes and restarts: two keys from the
first version on, so no root is ever a single leaf -/
example : ∀ pre, pre <+: ([.set [0x61] (some [1]), .set [0x62] (some [2]), .save, .set [0x62] (some [3]), .save,
      .save, .delto 2, .reopen] : List Op) →
    St.StuckFree (St.run (fun _ => []) (St.init 0) pre) :=
  fun pre hpre => St.stuckFree_of_B
    (St.prefixes_of_all (fun p => St.stuckFreeB (St.run (fun _ => []) (St.init 0) p)) _ (by rfl) pre hpre)

end GnoVerif.C30
