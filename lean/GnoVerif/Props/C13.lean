import GnoVerif.Model.C13
import GnoVerif.Proofs.C13
/-!
# C13 — chain parameters can be written only by their owners

Property theorems over `Model/C13.lean` (which mirrors `pkey`, `prmkey`,
`assertSysParamsRealm`, `SDKParams.mustHaveModuleKeeper`, the params keeper's
`parsePrefix`/`validate`/`set`, the vm module's `WillSetParam`, `realmFromKey`
and the package-path grammar).  All statements are for ALL strings.

Reading guide (statement clause → theorem):

* "a realm's writes land in that realm's own namespace"
    `pkey_ok_iff`, `pkey_injective`, `pkey_parses_to_own_realm`,
    `realm_write_touches_only_own_key`, `realm_write_frames_other_realms`,
    `realm_write_accounted_to_own_realm`
* "no realm can create or overwrite parameters … of a chain module"
    `realm_path_grammar`, `pkey_never_module_param`, `realm_write_frames_modules`
* "module parameters change only through the designated system parameters realm"
    `sys_gate`, `module_key_changes_only_via_sys_realm`
* "every value stored passes the module's validation"
    `sdk_write_validated`, `sdk_rejects_unprefixed`, `vm_module_param_validated`,
    `vm_depth_valid_iff`
* stated residual (DESIGN §7 C13): the sys route can form every realm key
    `prmkey_ok_iff`, `sys_route_reaches_realm_keys`, `sys_realm_disjoint_counterexample`
* "every program calling the parameter APIs from any realm" (histories of API calls)
    `route_changes_only_entitled_key`, `program_writes_respect_ownership`,
    `realm_param_changed_only_by_owner_or_sys`, `module_param_changed_only_by_sys`

What is NOT a theorem here (tied by correspondence and extracted code-shape
facts instead): that the VM hands `pkey` the right current realm, that gno
code has no other way to the keeper than these natives and the SDKParams
adapter, and that the model functions equal the Go functions.
-/
namespace GnoVerif.C13

/-! ## 1. `pkey`: acceptance, shape, injectivity -/

/-- `pkey` accepts exactly the non-empty colon-free keys and then returns
    `"vm:" ++ realm ++ ":" ++ key`, whatever the realm string is. -/
theorem pkey_ok_iff (r k s : Str) :
    pkey r k = .ok s ↔ k ≠ [] ∧ ':' ∉ k ∧ s = L!"vm:" ++ r ++ ':' :: k := by
  unfold pkey
  cases k with
  | nil => simp
  | cons c cs =>
    cases hc : hasColon (c :: cs) with
    | true =>
      have := hasColon_true_iff.mp hc
      simp [this]
    | false =>
      have := hasColon_false_iff.mp hc
      simp [this, colon, eq_comm]

example : pkey (L!"gno.land/r/a") (L!"k") = .ok (L!"vm:gno.land/r/a:k") := rfl
example : pkey (L!"gno.land/r/a") [] = .error .emptyKey := rfl
example : pkey (L!"gno.land/r/a") (L!"b:c") = .error .colonKey := rfl

/-- Two accepted `(realm, key)` pairs never form the same full key — for ANY
    realm strings (the key is colon-free, so the LAST colon separates). In
    particular for colon-free realm paths, the side condition the code
    guarantees (`realm_path_grammar`). -/
theorem pkey_injective (r r' k k' s : Str)
    (h : pkey r k = .ok s) (h' : pkey r' k' = .ok s) : r = r' ∧ k = k' := by
  obtain ⟨_, hk, rfl⟩ := (pkey_ok_iff r k s).mp h
  obtain ⟨_, hk', e⟩ := (pkey_ok_iff r' k' _).mp h'
  have e' : r ++ ':' :: k = r' ++ ':' :: k' := by
    have : L!"vm:" ++ (r ++ ':' :: k) = L!"vm:" ++ (r' ++ ':' :: k') := by
      simpa [List.append_assoc] using e
    exact List.append_cancel_left this
  exact append_colon_inj r r' k k' (hasColon_false_iff.mpr hk) (hasColon_false_iff.mpr hk') e'

example : pkey (L!"gno.land/r/a") (L!"b.c") = .ok (L!"vm:gno.land/r/a:b.c") ∧
    pkey (L!"gno.land/r/a:b") (L!"c") = .ok (L!"vm:gno.land/r/a:b:c") := ⟨rfl, rfl⟩

/-! ## 2. the realm-path grammar gives the side conditions -/

/-- Every string accepted by `IsUserlib` (hence every realm, package and run
    path) is colon-free, contains a '/', and is not the vm module's struct
    name "p".  `IsRealmPath` implies `IsUserlib`. -/
theorem realm_path_grammar (p : Str) (h : isUserlib p = true) :
    ':' ∉ p ∧ '/' ∈ p ∧ p ≠ L!"p" :=
  ⟨isUserlib_noColon h, isUserlib_hasSlash h, fun e => by
    have hp : isUserlib (L!"p") = false := rfl
    rw [e, hp] at h; cases h⟩

theorem realm_path_is_userlib (p : Str) (h : isRealmPath p = true) : isUserlib p = true :=
  isRealmPath_isUserlib h

example : isRealmPath (L!"gno.land/r/demo/users_2/v1") = true := rfl
example : isRealmPath (L!"gno.land/r/a:b") = false := rfl
example : isUserlib (L!"gno.land/e/g1abc/run") = true ∧ isRealmPath (L!"gno.land/e/g1abc/run") = false := ⟨rfl, rfl⟩
/-- quirk mirrored from the code: only REPO is checked for the `_test` suffix -/
example : isRealmPath (L!"gno.land/r/a_test") = true ∧ isRealmPath (L!"gno.land/r/a/b_test") = false := ⟨rfl, rfl⟩

/-! ## 3. how the keeper parses a `pkey` key -/

/-- For a colon-free realm string the keeper's `parsePrefix` sees module "vm"
    and raw key `realm:key`, whose own first-colon split is `(realm, key)`. -/
theorem pkey_parses_to_own_realm (r k s : Str) (hr : ':' ∉ r) (h : pkey r k = .ok s) :
    parsePrefix s = (L!"vm", r ++ ':' :: k) ∧ cut (r ++ ':' :: k) = some (r, k) := by
  obtain ⟨_, _, rfl⟩ := (pkey_ok_iff r k s).mp h
  constructor
  · have : L!"vm:" ++ r ++ ':' :: k = L!"vm" ++ ':' :: (r ++ ':' :: k) := by
      simp
    rw [this]
    unfold parsePrefix
    rw [cut_append_colon _ (show hasColon (L!"vm") = false from rfl)]
  · exact cut_append_colon _ (hasColon_false_iff.mpr hr)

/-- A key formed by `pkey` from a grammar-valid path always takes the vm
    module's "realm-scoped" branch: never a `case "p:…"`, never the
    unknown-`p:` panic, never another module. -/
theorem pkey_never_module_param (r k s : Str) (hr : isUserlib r = true) (h : pkey r k = .ok s) :
    (parsePrefix s).1 = L!"vm" ∧ vmBranch (parsePrefix s).2 = .realmParam := by
  obtain ⟨hc, _, hp⟩ := realm_path_grammar r hr
  obtain ⟨h1, _⟩ := pkey_parses_to_own_realm r k s hc h
  rw [h1]
  refine ⟨rfl, ?_⟩
  have hnp := not_p_prefix (k := k) (hasColon_false_iff.mpr hc) hp
  unfold vmBranch
  simp only [vmField_none_of_not_prefix hnp, hnp]
  rfl

example : vmBranch (L!"gno.land/r/a:chain_domain") = .realmParam ∧
    vmBranch (L!"p:chain_domain") = .moduleParam .chainDomain ∧
    vmBranch (L!"p:gno.land/r/a") = .unknownModuleParam := ⟨rfl, rfl, rfl⟩

/-- the hypothesis is needed: the non-path string "p" WOULD reach a module parameter -/
example : pkey (L!"p") (L!"chain_domain") = .ok (L!"vm:p:chain_domain") := rfl

/-! ## 4. a chain/params write touches only the realm's own key -/

/-- Any successful `chain/params.Set*` from current realm `r` changes the
    store exactly at `vm:r:k` (and nowhere else), after the vm module's
    WillSetParam was called on raw key `r:k`. -/
theorem realm_write_touches_only_own_key (reg : Registry) (st st' : Store) (r k : Str) (v : Value)
    (w : Option Will) (hr : ':' ∉ r) (h : realmWrite reg st r k v = .ok (st', w)) :
    st' = st.put (L!"vm:" ++ r ++ ':' :: k) v ∧ w = some (L!"vm", r ++ ':' :: k) ∧
    ∀ key', key' ≠ L!"vm:" ++ r ++ ':' :: k → st' key' = st key' := by
  unfold realmWrite at h
  cases hp : pkey r k with
  | error e => simp [hp, bind, Except.bind] at h
  | ok s =>
    obtain ⟨hpp, _⟩ := pkey_parses_to_own_realm r k s hr hp
    obtain ⟨_, _, rfl⟩ := (pkey_ok_iff r k s).mp hp
    simp only [hp, bind, Except.bind] at h
    unfold sdkSet keeperSet validate at h
    rw [hpp] at h
    simp only [bind, Except.bind] at h
    split at h
    · cases h
    · split at h
      · cases h
      · rename_i hv
        split at hv
        · simp at *
        · split at hv
          · cases hv
          · rename_i ws hreg
            cases hw : ws (r ++ ':' :: k) v with
            | error e => simp [hw] at hv
            | ok u =>
              simp [hw] at hv
              simp at h
              obtain ⟨rfl, rfl⟩ := h
              refine ⟨rfl, hv.symm, ?_⟩
              intro key' hne
              show (if key' = _ then _ else st key') = st key'
              exact if_neg hne

/-- frame, other realms: no key of any OTHER (realm, key) pair changes. -/
theorem realm_write_frames_other_realms (reg : Registry) (st st' : Store) (r k r' k' s' : Str)
    (v : Value) (w : Option Will) (hr : ':' ∉ r)
    (h : realmWrite reg st r k v = .ok (st', w))
    (h' : pkey r' k' = .ok s') (hne : ¬ (r' = r ∧ k' = k)) : st' s' = st s' := by
  obtain ⟨_, _, hframe⟩ := realm_write_touches_only_own_key reg st st' r k v w hr h
  apply hframe
  intro e
  have hp : pkey r k = .ok s' := by
    unfold realmWrite at h
    cases hp : pkey r k with
    | error e => simp [hp, bind, Except.bind] at h
    | ok s =>
      obtain ⟨_, _, rfl⟩ := (pkey_ok_iff r k s).mp hp
      rw [e]
  exact hne (pkey_injective r' r k' k s' h' hp)

/-- frame, modules: a write from a grammar-valid realm path changes no key of
    another module, no vm MODULE parameter (`vm:p:…`) and no unprefixed key. -/
theorem realm_write_frames_modules (reg : Registry) (st st' : Store) (r k key' : Str)
    (v : Value) (w : Option Will) (hr : isUserlib r = true)
    (h : realmWrite reg st r k v = .ok (st', w))
    (hk : (parsePrefix key').1 ≠ L!"vm" ∨ vmBranch (parsePrefix key').2 ≠ .realmParam) :
    st' key' = st key' := by
  obtain ⟨hc, _, _⟩ := realm_path_grammar r hr
  obtain ⟨_, _, hframe⟩ := realm_write_touches_only_own_key reg st st' r k v w hc h
  apply hframe
  intro e
  have hp : pkey r k = .ok key' := by
    unfold realmWrite at h
    cases hp : pkey r k with
    | error e => simp [hp, bind, Except.bind] at h
    | ok s =>
      obtain ⟨_, _, rfl⟩ := (pkey_ok_iff r k s).mp hp
      rw [e]
  obtain ⟨h1, h2⟩ := pkey_never_module_param r k key' hr hp
  rcases hk with hk | hk
  · exact hk h1
  · exact hk h2

/-- With the vm module registered as in the code, a realm write succeeds for
    EVERY non-empty colon-free key and every value (realm-scoped keys pass
    through WillSetParam unvalidated — by design), and fails otherwise. -/
theorem realm_write_ok_iff (reg : Registry) (ext : Str → Str → Bool) (st : Store) (r k : Str) (v : Value)
    (hreg : reg (L!"vm") = some (vmWillSet ext)) (hr : isUserlib r = true) :
    (∃ st' w, realmWrite reg st r k v = .ok (st', w)) ↔ k ≠ [] ∧ ':' ∉ k := by
  constructor
  · rintro ⟨st', w, h⟩
    unfold realmWrite at h
    cases hp : pkey r k with
    | error e => simp [hp, bind, Except.bind] at h
    | ok s =>
      obtain ⟨a, b, _⟩ := (pkey_ok_iff r k s).mp hp
      exact ⟨a, b⟩
  · rintro ⟨hk1, hk2⟩
    have hp : pkey r k = .ok (L!"vm:" ++ r ++ ':' :: k) := (pkey_ok_iff r k _).mpr ⟨hk1, hk2, rfl⟩
    obtain ⟨hc, _, _⟩ := realm_path_grammar r hr
    obtain ⟨hpp, _⟩ := pkey_parses_to_own_realm r k _ hc hp
    obtain ⟨_, hb⟩ := pkey_never_module_param r k _ hr hp
    rw [hpp] at hb
    have hcut : cut (L!"vm:" ++ r ++ ':' :: k) = some (L!"vm", r ++ ':' :: k) := by
      have : L!"vm:" ++ r ++ ':' :: k = L!"vm" ++ ':' :: (r ++ ':' :: k) := by
        simp
      rw [this]
      exact cut_append_colon _ (show hasColon (L!"vm") = false from rfl)
    refine ⟨st.put (L!"vm:" ++ r ++ ':' :: k) v, some (L!"vm", r ++ ':' :: k), ?_⟩
    unfold realmWrite
    simp only [hp, bind, Except.bind]
    unfold sdkSet mustHaveModuleKeeper keeperSet validate
    simp only [hcut, hpp, hreg, bind, Except.bind]
    have hw : vmWillSet ext (r ++ ':' :: k) v = .ok () := by
      unfold vmWillSet
      simp at hb
      rw [hb]
    simp [hw]

example : ∃ st' w, realmWrite (fun m => if m = L!"vm" then some (vmWillSet fun _ _ => true) else none)
    Store.empty (L!"gno.land/r/a") (L!"k") (.str (L!"v")) = .ok (st', w) :=
  (realm_write_ok_iff _ (fun _ _ => true) _ _ _ _ (by simp) rfl).mpr
    ⟨by simp, hasColon_false_iff.mp rfl⟩

/-- the storage-deposit accounting of `SDKParams` attributes a `pkey` key to
    the writing realm itself (so the only `_realmmeta_` key touched is its own). -/
theorem realm_write_accounted_to_own_realm (r k s : Str) (hr : isUserlib r = true)
    (h : pkey r k = .ok s) : realmFromKey s = some r := by
  obtain ⟨_, hk, rfl⟩ := (pkey_ok_iff r k s).mp h
  obtain ⟨_, hs, _⟩ := realm_path_grammar r hr
  have : L!"vm:" ++ r ++ ':' :: k = 'v' :: 'm' :: ':' :: (r ++ ':' :: k) := by
    simp
  rw [this]
  unfold realmFromKey
  simp only [cutLast_append_colon r (hasColon_false_iff.mpr hk)]
  have : r.any (· == '/') = true := List.any_eq_true.mpr ⟨'/', hs, rfl⟩
  simp [this]

example : realmFromKey (L!"vm:gno.land/r/a:k.x") = some (L!"gno.land/r/a") ∧
    realmFromKey (L!"vm:p:chain_domain") = none ∧ realmFromKey (L!"bank:gno.land/r/a:k") = none := ⟨rfl, rfl, rfl⟩

/-! ## 5. every adapter write goes through its module's WillSetParam -/

/-- Any write accepted by the `SDKParams` adapter (the only `ParamsInterface`
    a gno program gets) has a non-empty registered module prefix, that
    module's `WillSetParam(rawKey, value)` was called and returned, and only
    then the value was stored under exactly that key. -/
theorem sdk_write_validated (reg : Registry) (st st' : Store) (key : Str) (v : Value) (w : Option Will)
    (h : sdkSet reg st key v = .ok (st', w)) :
    ∃ m raw ws, parsePrefix key = (m, raw) ∧ m ≠ [] ∧ reg m = some ws ∧ ws raw v = .ok () ∧
      w = some (m, raw) ∧ st' = st.put key v := by
  unfold sdkSet mustHaveModuleKeeper at h
  cases hcut : cut key with
  | none => simp [hcut, bind, Except.bind] at h
  | some p =>
    obtain ⟨m, raw⟩ := p
    simp only [hcut, bind, Except.bind] at h
    by_cases hm : m.isEmpty = true
    · simp [hm] at h
    · simp only [hm] at h
      cases hreg : reg m with
      | none => simp [hreg] at h
      | some ws =>
        simp only [hreg, Option.isSome_some, if_true] at h
        unfold keeperSet validate parsePrefix at h
        simp only [hcut, hm, hreg, bind, Except.bind] at h
        cases hw : ws raw v with
        | error e => simp [hw] at h
        | ok u =>
          simp [hw] at h
          refine ⟨m, raw, ws, by simp [parsePrefix, hcut], ?_, hreg, hw, h.2.symm, h.1.symm⟩
          intro e; simp [e] at hm

/-- The raw keeper skips validation for a key with no (or an empty) module
    prefix — the `_realmmeta_…` convention relies on it … -/
theorem keeper_unprefixed_unvalidated (reg : Registry) (st : Store) (key : Str) (v : Value)
    (h : (parsePrefix key).1 = []) : keeperSet reg st key v = .ok (st.put key v, none) := by
  unfold keeperSet validate
  cases hp : parsePrefix key with
  | mk m raw =>
    rw [hp] at h
    simp at h
    subst h
    rfl

/-- … and the adapter closes exactly that hole: such keys are rejected before
    they reach the keeper, so no gno program can make an unvalidated write. -/
theorem sdk_rejects_unprefixed (reg : Registry) (st : Store) (key : Str) (v : Value)
    (h : (parsePrefix key).1 = []) : sdkSet reg st key v = .error .badKey := by
  unfold sdkSet mustHaveModuleKeeper
  unfold parsePrefix at h
  cases hcut : cut key with
  | none => rfl
  | some p =>
    obtain ⟨m, raw⟩ := p
    rw [hcut] at h
    simp at h
    subst h
    rfl

example : sdkSet (fun _ => none) Store.empty (L!"_realmmeta_gno.land/r/a") (.int 1) = .error .badKey ∧
    sdkSet (fun _ => none) Store.empty (L!":x") (.int 1) = .error .badKey := ⟨rfl, rfl⟩

/-- A stored vm MODULE parameter (`vm:p:…`) is one of the fourteen known
    fields and its value passed that field's validation. -/
theorem vm_module_param_validated (ext : Str → Str → Bool) (raw : Str) (v : Value)
    (hp : (L!"p:").isPrefixOf raw = true) (h : vmWillSet ext raw v = .ok ()) :
    ∃ f, vmField raw = some f ∧ vmFieldValid ext raw f v = .ok () := by
  unfold vmWillSet vmBranch at h
  cases hf : vmField raw with
  | some f => simp only [hf] at h; exact ⟨f, rfl, h⟩
  | none => simp [hf, hp] at h

/-- what validation means for the six depth fields (0 ≤ v ≤ 10000, int64 only) -/
theorem vm_depth_valid_iff (ext : Str → Str → Bool) (raw : Str) (v : Value) :
    vmFieldValid ext raw .depth v = .ok () ↔ ∃ i : Int, v = .int i ∧ 0 ≤ i ∧ i ≤ 10000 := by
  cases v <;> simp [vmFieldValid]

example : vmWillSet (fun _ _ => true) (L!"p:min_write_depth_100") (.int 540) = .ok () ∧
    vmWillSet (fun _ _ => true) (L!"p:min_write_depth_100") (.int (-1)) = .error .invalid ∧
    vmWillSet (fun _ _ => true) (L!"p:min_write_depth_100") (.str (L!"540")) = .error .badType ∧
    vmWillSet (fun _ _ => true) (L!"p:nonesuch") (.int 1) = .error .unknownParam ∧
    vmWillSet (fun _ _ => true) (L!"p:sysnames_pkgpath") (.str (L!"gno.land/r/a:b")) = .error .invalid :=
  ⟨rfl, rfl, rfl, rfl, rfl⟩

/-! ## 6. the sys/params route -/

/-- `prmkey` accepts exactly: colon-free `name`, non-empty `submodule` —
    `module` and `submodule` are otherwise unconstrained. -/
theorem prmkey_ok_iff (m s n x : Str) :
    prmkey m s n = .ok x ↔ ':' ∉ n ∧ s ≠ [] ∧ x = m ++ ':' :: s ++ ':' :: n := by
  unfold prmkey
  cases hc : hasColon n with
  | true => simp [hasColon_true_iff.mp hc]
  | false =>
    cases s with
    | nil => simp [hasColon_false_iff.mp hc]
    | cons c cs => simp [hasColon_false_iff.mp hc, colon, eq_comm]

/-- the gate: only code of package gno.land/r/sys/params gets a key at all -/
theorem sys_gate (c m s n x : Str) (h : sysKey c m s n = .ok x) : c = sysParamsRealm := by
  unfold sysKey at h
  by_cases hc : c = sysParamsRealm
  · exact hc
  · simp [hc] at h

example : sysKey (L!"gno.land/r/evil") (L!"vm") (L!"p") (L!"chain_domain") = .error .gate ∧
    sysKey sysParamsRealm (L!"vm") (L!"p") (L!"chain_domain") = .ok (L!"vm:p:chain_domain") := ⟨rfl, rfl⟩

/-- STATED RESIDUAL (DESIGN §7 C13).  Because `submodule` is unconstrained,
    the sys route can form EVERY key `pkey` can form (for a non-empty realm
    string): governance may overwrite a realm's parameter.  That is the
    statement's "designated system parameters realm", not a realm escape. -/
theorem sys_route_reaches_realm_keys (r k s : Str) (hr : r ≠ []) (h : pkey r k = .ok s) :
    prmkey (L!"vm") r k = .ok s := by
  obtain ⟨_, hk, rfl⟩ := (pkey_ok_iff r k s).mp h
  exact (prmkey_ok_iff _ _ _ _).mpr ⟨hk, hr, by simp⟩

/-- The disjointness one might hope for is FALSE, and is therefore not claimed. -/
def sys_realm_disjoint_statement : Prop :=
  ∀ m s n r k x y, prmkey m s n = .ok x → pkey r k = .ok y → x ≠ y

theorem sys_realm_disjoint_counterexample : ¬ sys_realm_disjoint_statement := by
  intro h
  exact h (L!"vm") (L!"gno.land/r/a") (L!"k") (L!"gno.land/r/a") (L!"k")
    (L!"vm:gno.land/r/a:k") (L!"vm:gno.land/r/a:k") rfl rfl rfl

/-! ## 7. module parameters change only via the system parameters realm -/

/-- the two ways a gno program can reach the params keeper -/
inductive Route
  | chain (rlmPath key : Str) (v : Value)                    -- chain/params from current realm `rlmPath`
  | sys (callerPkg module submodule name : Str) (v : Value)  -- sys/params from code of package `callerPkg`

def Route.run (reg : Registry) (st : Store) : Route → Except Err (Store × Option Will)
  | .chain r k v => realmWrite reg st r k v
  | .sys c m s n v => sysWrite reg st c m s n v

/-- the current realm of a `chain` route is a path of the grammar -/
def Route.wf : Route → Prop
  | .chain r _ _ => isUserlib r = true
  | .sys .. => True

/-- a key that is NOT a realm-scoped vm key: another module's, a vm module
    parameter, or unprefixed -/
def isModuleKey (key : Str) : Prop :=
  (parsePrefix key).1 ≠ L!"vm" ∨ vmBranch (parsePrefix key).2 ≠ .realmParam

/-- If any program route changes a module key, that route was `sys/params`
    called from exactly gno.land/r/sys/params, and (by `sdk_write_validated`)
    the value passed the owning module's WillSetParam. -/
theorem module_key_changes_only_via_sys_realm (reg : Registry) (st st' : Store) (rt : Route)
    (w : Option Will) (key : Str) (hwf : rt.wf) (h : rt.run reg st = .ok (st', w))
    (hk : isModuleKey key) (hch : st' key ≠ st key) :
    ∃ m s n v, rt = .sys sysParamsRealm m s n v ∧
      ∃ m' raw ws, reg m' = some ws ∧ ws raw v = .ok () ∧ w = some (m', raw) := by
  cases rt with
  | chain r k v =>
    exact absurd (realm_write_frames_modules reg st st' r k key v w hwf h hk) hch
  | sys c m s n v =>
    unfold Route.run sysWrite at h
    cases hs : sysKey c m s n with
    | error e => simp [hs, bind, Except.bind] at h
    | ok x =>
      have hc := sys_gate c m s n x hs
      subst hc
      simp only [hs, bind, Except.bind] at h
      obtain ⟨m', raw, ws, _, _, hreg, hw, hwill, _⟩ := sdk_write_validated reg st st' x v w h
      exact ⟨m, s, n, v, rfl, m', raw, ws, hreg, hw, hwill⟩

/-- non-vacuity: the sys realm does change a module key, through validation -/
example : ∃ st' w, Route.run (fun m => if m = L!"vm" then some (vmWillSet fun _ _ => true) else none) Store.empty
    (.sys sysParamsRealm (L!"vm") (L!"p") (L!"min_write_depth_100") (.int 541)) = .ok (st', w) ∧
    st' (L!"vm:p:min_write_depth_100") = some (.int 541) ∧ isModuleKey (L!"vm:p:min_write_depth_100") := by
  refine ⟨_, _, rfl, rfl, ?_⟩
  unfold isModuleKey
  right
  have : vmBranch (parsePrefix (L!"vm:p:min_write_depth_100")).2 = .moduleParam .depth := rfl
  rw [this]
  intro h
  cases h

/-! ## 8. every program: histories of parameter-API calls -/

/-- A program, as far as parameters are concerned, is a sequence of API calls
    (routes).  A call that panics aborts the transaction (its writes are
    rolled back with everything else); skipping it is the more permissive
    reading, and the ownership invariant holds even so. -/
def runAll (reg : Registry) : Store → List Route → Store
  | st, [] => st
  | st, rt :: rts =>
    match rt.run reg st with
    | .ok (st', _) => runAll reg st' rts
    | .error _ => runAll reg st rts

/-- who may have written `key`: the realm whose `pkey` forms it, or the
    system parameters realm through `prmkey` -/
def Route.mayWrite (key : Str) : Route → Prop
  | .chain r k _ => pkey r k = .ok key
  | .sys c m s n _ => c = sysParamsRealm ∧ prmkey m s n = .ok key

/-- one call changes at most the key it is entitled to -/
theorem route_changes_only_entitled_key (reg : Registry) (st st' : Store) (rt : Route)
    (w : Option Will) (key : Str) (hwf : rt.wf) (h : rt.run reg st = .ok (st', w))
    (hch : st' key ≠ st key) : rt.mayWrite key := by
  cases rt with
  | chain r k v =>
    obtain ⟨hc, _, _⟩ := realm_path_grammar r hwf
    obtain ⟨_, _, hframe⟩ := realm_write_touches_only_own_key reg st st' r k v w hc h
    have hk : key = L!"vm:" ++ r ++ ':' :: k := by
      apply Classical.byContradiction
      intro hne
      exact hch (hframe key hne)
    unfold Route.run realmWrite at h
    cases hp : pkey r k with
    | error e => simp [hp, bind, Except.bind] at h
    | ok s =>
      obtain ⟨_, _, rfl⟩ := (pkey_ok_iff r k s).mp hp
      show pkey r k = .ok key
      rw [hk]; exact hp
  | sys c m s n v =>
    unfold Route.run sysWrite at h
    cases hs : sysKey c m s n with
    | error e => simp [hs, bind, Except.bind] at h
    | ok x =>
      have hc := sys_gate c m s n x hs
      subst hc
      simp only [hs, bind, Except.bind] at h
      obtain ⟨_, _, _, _, _, _, _, _, hst⟩ := sdk_write_validated reg st st' x v w h
      have hk : key = x := by
        apply Classical.byContradiction
        intro hne
        apply hch
        rw [hst]
        show (if key = x then _ else st key) = st key
        exact if_neg hne
      refine ⟨rfl, ?_⟩
      have : sysKey sysParamsRealm m s n = prmkey m s n := by simp [sysKey]
      rw [hk, ← this]; exact hs

/-- THE STATEMENT, for every program: whatever sequence of parameter-API
    calls is executed (any realms, any keys, any values, any interleaving),
    a key that ends up changed was written by a call entitled to it. -/
theorem program_writes_respect_ownership (reg : Registry) (ops : List Route)
    (hwf : ∀ rt ∈ ops, rt.wf) : ∀ (st : Store) (key : Str),
    runAll reg st ops key ≠ st key → ∃ rt ∈ ops, rt.mayWrite key := by
  induction ops with
  | nil => intro st key h; exact absurd rfl h
  | cons rt rts ih =>
    intro st key h
    have hwf' : ∀ r ∈ rts, r.wf := fun r hr => hwf r (List.mem_cons_of_mem _ hr)
    unfold runAll at h
    cases hr : rt.run reg st with
    | error e =>
      simp only [hr] at h
      obtain ⟨r, hr', hm⟩ := ih hwf' st key h
      exact ⟨r, List.mem_cons_of_mem _ hr', hm⟩
    | ok p =>
      obtain ⟨st', w⟩ := p
      simp only [hr] at h
      by_cases hch : st' key = st key
      · rw [← hch] at h
        obtain ⟨r, hr', hm⟩ := ih hwf' st' key h
        exact ⟨r, List.mem_cons_of_mem _ hr', hm⟩
      · exact ⟨rt, List.mem_cons_self, route_changes_only_entitled_key reg st st' rt w key
          (hwf rt List.mem_cons_self) hr hch⟩

/-- Corollary, realms: if realm `r`'s parameter `k` changed during a program,
    then `r` itself wrote it (same key) or the system parameters realm did —
    no other realm can create or overwrite it. -/
theorem realm_param_changed_only_by_owner_or_sys (reg : Registry) (ops : List Route)
    (hwf : ∀ rt ∈ ops, rt.wf) (st : Store) (r k key : Str) (hk : pkey r k = .ok key)
    (hch : runAll reg st ops key ≠ st key) :
    (∃ v, Route.chain r k v ∈ ops) ∨ (∃ m s n v, Route.sys sysParamsRealm m s n v ∈ ops) := by
  obtain ⟨rt, hmem, hm⟩ := program_writes_respect_ownership reg ops hwf st key hch
  cases rt with
  | chain r' k' v =>
    obtain ⟨rfl, rfl⟩ := pkey_injective r' r k' k key hm hk
    exact .inl ⟨v, hmem⟩
  | sys c m s n v =>
    obtain ⟨rfl, _⟩ := hm
    exact .inr ⟨m, s, n, v, hmem⟩

/-- Corollary, modules: a module key that changed during a program was
    written by the system parameters realm. -/
theorem module_param_changed_only_by_sys (reg : Registry) (ops : List Route)
    (hwf : ∀ rt ∈ ops, rt.wf) (st : Store) (key : Str) (hk : isModuleKey key)
    (hch : runAll reg st ops key ≠ st key) :
    ∃ m s n v, Route.sys sysParamsRealm m s n v ∈ ops ∧ prmkey m s n = .ok key := by
  obtain ⟨rt, hmem, hm⟩ := program_writes_respect_ownership reg ops hwf st key hch
  cases rt with
  | chain r k v =>
    have hr : isUserlib r = true := hwf _ hmem
    obtain ⟨h1, h2⟩ := pkey_never_module_param r k key hr hm
    rcases hk with hk | hk
    · exact absurd h1 hk
    · exact absurd h2 hk
  | sys c m s n v =>
    obtain ⟨rfl, hp⟩ := hm
    exact ⟨m, s, n, v, hmem, hp⟩

/-- non-vacuity: two realms and the sys realm interleaved; each key ends up
    with its owner's (or governance's) value -/
example :
    let reg : Registry := fun m => if m = L!"vm" then some (vmWillSet fun _ _ => true) else none
    let ops := [Route.chain (L!"gno.land/r/a") (L!"k") (.int 1),
                Route.chain (L!"gno.land/r/b") (L!"k") (.int 2),
                Route.chain (L!"gno.land/r/b") (L!"x:y") (.int 3),
                Route.sys (L!"gno.land/r/b") (L!"vm") (L!"gno.land/r/a") (L!"k") (.int 4),
                Route.sys sysParamsRealm (L!"vm") (L!"p") (L!"min_write_depth_100") (.int 5)]
    (∀ rt ∈ ops, rt.wf) ∧
    runAll reg Store.empty ops (L!"vm:gno.land/r/a:k") = some (.int 1) ∧
    runAll reg Store.empty ops (L!"vm:gno.land/r/b:k") = some (.int 2) ∧
    runAll reg Store.empty ops (L!"vm:p:min_write_depth_100") = some (.int 5) := by
  refine ⟨?_, rfl, rfl, rfl⟩
  intro rt hrt
  simp only [List.mem_cons, List.not_mem_nil, or_false] at hrt
  rcases hrt with rfl | rfl | rfl | rfl | rfl
  · exact (rfl : isUserlib (L!"gno.land/r/a") = true)
  · exact (rfl : isUserlib (L!"gno.land/r/b") = true)
  · exact (rfl : isUserlib (L!"gno.land/r/b") = true)
  · trivial
  · trivial

end GnoVerif.C13
