import GnoVerif.Proofs.C42Tamper
import GnoVerif.Proofs.C42Honest
/-!
C42 — secret connections are authenticated and tamper-evident
(tm2/pkg/p2p/conn/secret_connection.go).

Model: `Model/C42.lean` (the code, statement by statement, over an ABSTRACT AEAD and
abstract handshake primitives); vocabulary: `Model/C42Spec.lean`; helper lemmas:
`Proofs/C42*.lean`.  The cryptographic laws used are hypotheses of the theorems
(`AEAD.Correct`, `AEAD.Overhead`, `AEAD.NonceBinding`, `NoForgery`), each shown
satisfiable by an `example`.

Clause by clause:
* "any byte stream written is read back identically for any split of writes and
  reads" — `stream_roundtrip`: every list of `Write` calls (any sizes) and every
  list of `Read` buffer sizes; no bound.
* "any modification, reordering, replay or truncation of encrypted frames … makes
  the connection fail instead of delivering altered data" — `tamper_never_alters`
  (arbitrary bytes on the wire, `NoForgery` hypothesis: the bytes returned by ANY
  sequence of reads, continued after errors, are a prefix of the bytes written),
  `rearranged_frames_never_alter` (reorder / replay / drop / truncate of the sender's
  own frames under `NonceBinding` alone), `tampered_frame_rejected` and
  `truncated_frame_rejected` (the read that meets the tampering fails, delivers
  nothing and leaves the nonce where it was).
* nonces and frame layout — `nonce_increment`, `nonce_wrap_panics`, `nonces_distinct`,
  `write_uses_consecutive_nonces`, `write_panics_before_reusing_a_nonce`,
  `frame_layout` (length prefix, chunk, ZERO padding: nothing but the chunk is sent).
* "after a successful handshake each side knows the other's authenticated public
  key … a handshake with a substituted key fails" — `handshake_authenticates`: success
  implies the stored remote key came with a signature that verifies over THIS
  session's challenge, derived from the DH secret of this session;
  `substituted_key_rejected`: a key for which no signature over this challenge
  verifies is never accepted; `honest_handshake_succeeds`: two honest parties (all keys)
  both succeed, each holds the OTHER's public key, and their send/receive keys pair up.

NOT claimed: confidentiality in the cryptographic sense (nothing is proved about what the
ciphertext reveals; that the plaintext frame carries nothing but the chunk IS proved,
`frame_layout` — it was violated until /repo commit 90b41c9888); unforgeability of
the AEAD and of ed25519 (hypotheses); that the peer's key is the one the CALLER
expected (the code leaves that comparison to its caller, as its comment says).
-/
namespace GnoVerif.C42

/-! ### nonces -/

/-- `incrNonce` adds one to the 64-bit little-endian counter in bytes 4..12 -/
theorem nonce_increment (c : Nat) (h : c < 2 ^ 64 - 1) : incrNonce (nonceOf c) = some (nonceOf (c + 1)) :=
  incrNonce_nonceOf c h

/-- … and panics at 2^64-1 instead of wrapping -/
theorem nonce_wrap_panics : incrNonce (nonceOf (2 ^ 64 - 1)) = none := incrNonce_max

/-- different counters below 2^64 give different nonces -/
theorem nonces_distinct (c c' : Nat) (h : c < 2 ^ 64) (h' : c' < 2 ^ 64) (hne : c ≠ c') :
    nonceOf c ≠ nonceOf c' :=
  fun e => hne (nonceOf_injective c c' h h' e)

/-- **Wire format of `Write`.**  From counter `c`, `Write(data)` returns `len(data)`, puts
`⌈len/1024⌉` sealed frames on the wire — chunk `i` sealed under the nonce with counter `c+i`,
as `le32(len chunk) ‖ chunk ‖ 00…` — and leaves the counter at `c + ⌈len/1024⌉`. -/
theorem write_uses_consecutive_nonces (A : AEAD) (sc : SC) (data : Bytes) (c : Nat)
    (hn : sc.sendNonce = nonceOf c) (hroom : c + (data.length + 1023) / 1024 ≤ 2 ^ 64 - 1) :
    write A sc data =
      ⟨{ sc with sendNonce := nonceOf (c + (data.length + 1023) / 1024) },
       sealAll A sc.sendKey c (framesOfWrite data), data.length, false⟩ := by
  have hl := chunksOf_length data
  rw [dataMaxSize_eq] at hl
  have := write_spec A sc data c hn (by rw [hl]; exact hroom)
  rw [hl] at this
  exact this

/-- At the last counter value `Write` panics, and the frame it sealed under that value never
reaches the connection: no nonce is ever used twice on the wire. -/
theorem write_panics_before_reusing_a_nonce (A : AEAD) (sc : SC) (data : Bytes)
    (hn : sc.sendNonce = nonceOf (2 ^ 64 - 1)) (hd : data ≠ []) :
    (write A sc data).panicked = true ∧ (write A sc data).wire = [] ∧
    (write A sc data).sc = sc := by
  unfold write
  rw [chunksOf_of_ne data hd]
  simp only [writeFrames, hn]
  rw [show (2 ^ 64 - 1 : Nat) = maxUint64 from rfl, incrNonce_max]
  exact ⟨rfl, rfl, rfl⟩

/-- **Frame layout.**  The plaintext frame of a chunk is exactly: its length as a 4-byte
little-endian integer, the chunk, and zeros up to 1028 bytes — nothing else is sealed and sent
(in particular no stale buffer contents: the defect fixed by /repo commit 90b41c9888). -/
theorem frame_layout (ch : Bytes) (h : ch.length ≤ 1024) :
    (mkFrame ch).length = 1028 ∧
    (mkFrame ch).take 4 = leBytes 4 ch.length ∧
    ((mkFrame ch).drop 4).take ch.length = ch ∧
    (mkFrame ch).drop (4 + ch.length) = List.replicate (1024 - ch.length) 0 := by
  refine ⟨mkFrame_length ch h, mkFrame_take4 ch, mkFrame_chunk ch, ?_⟩
  unfold mkFrame
  rw [show dataLenSize = 4 from rfl, show dataMaxSize = 1024 from rfl]
  have hl : (leBytes 4 ch.length ++ ch).length = 4 + ch.length := by simp [leBytes_length]
  exact List.drop_left' hl

/-! ### the honest stream -/

/-- **Stream round trip.**  A sender at counter `c0` makes any sequence of `Write` calls
(any data, any sizes); a receiver with the matching key and counter and
an empty buffer makes any sequence of `Read` calls with buffer sizes `sizes`.  Then: no write
panics; the concatenation of what the reads return is a prefix of the concatenation of what was
written; the only error a read can report is io.EOF; it is reported only once EVERYTHING written
has been returned; and with positive buffer sizes, more reads than bytes written always get there. -/
theorem stream_roundtrip (A : AEAD) (k : Bytes) (hC : A.Correct k) (hO : A.Overhead k)
    (c0 : Nat) (ws : List Bytes) (sizes : List Nat) (snd rcv : SC)
    (hsk : snd.sendKey = k) (hsn : snd.sendNonce = nonceOf c0)
    (hrk : rcv.recvKey = k) (hrn : rcv.recvNonce = nonceOf c0) (hrb : rcv.recvBuffer = [])
    (hroom : c0 + (framesOfWrites ws).length ≤ 2 ^ 64 - 1) :
    ∃ snd' wire rcv' rest ds e,
      writeMany A snd ws = (snd', wire, false) ∧
      readMany A rcv wire sizes = (rcv', rest, ds, e) ∧
      ds.flatten <+: ws.flatten ∧
      (e = none ∨ e = some .eof) ∧
      (e = some .eof → ds.flatten = ws.flatten) ∧
      ((∀ s ∈ sizes, 0 < s) → ws.flatten.length < sizes.length → e = some .eof) := by
  have hw := writeMany_spec A ws snd c0 hsn hroom
  rw [hsk] at hw
  have hon : Hon A k c0 (framesOfWrites ws) 0 rcv (sealAll A k c0 (framesOfWrites ws)) :=
    ⟨Nat.zero_le _, hrk, by simpa using hrn, by simp⟩
  obtain ⟨q, sc', conn', ds, e, hrm, _, hpay, he, hcount⟩ :=
    readMany_honest A k c0 (framesOfWrites ws) hC hO (framesOfWrites_wf ws) hroom sizes 0 rcv _ []
      hon (by simp [hrb, payload])
  refine ⟨_, _, sc', conn', ds, e, hw, hrm, ?_, ?_, ?_, ?_⟩
  · rw [← payload_framesOfWrites ws]
    have h1 : ds.flatten <+: payload ((framesOfWrites ws).take q) := by
      rw [hpay]; simp
    exact h1.trans (payload_take_prefix _ q)
  · rcases he with h | ⟨h, _, _⟩
    · exact Or.inl h
    · exact Or.inr h
  · intro heof
    rcases he with h | ⟨_, hq, hb⟩
    · rw [h] at heof; cases heof
    · rw [← payload_framesOfWrites ws]
      rw [hq, List.take_length, hb] at hpay
      simpa using hpay.symm
  · intro hpos hlen
    rcases he with h | ⟨h, _, _⟩
    · exfalso
      have h1 := hcount hpos h
      have h2 : ds.flatten.length ≤ (payload (framesOfWrites ws)).length := by
        have hp : ds.flatten <+: payload ((framesOfWrites ws).take q) := by rw [hpay]; simp
        exact (hp.trans (payload_take_prefix _ q)).length_le
      rw [payload_framesOfWrites] at h2
      omega
    · exact h

/-- the hypotheses are satisfiable: the toy cipher (identity + the nonce as tag) round-trips
and adds 16 bytes, for every key -/
example : ∀ k, toyAEAD.Correct k ∧ toyAEAD.Overhead k := fun k => ⟨toy_correct k, toy_overhead k⟩

/-! ### tampering -/

/-- **Tampering never alters data.**  The sender sealed `sent` (any well-formed frames) from
counter `c0`.  The wire the receiver sees is ARBITRARY (`wire`: modified, reordered, replayed,
dropped, truncated, injected bytes …) subject only to `NoForgery` — every 1044-byte window that
opens under some nonce is one of the sender's frames under its own counter.  Then for every
sequence of `Read` calls, even continued after errors, no read panics and everything the reads
return, concatenated, is a prefix of what the sender wrote. -/
theorem tamper_never_alters (A : AEAD) (k : Bytes) (hC : A.Correct k)
    (c0 : Nat) (sent : List Fr) (hwf : ∀ f ∈ sent, f.WF) (hroom : c0 + sent.length ≤ 2 ^ 64 - 1)
    (wire : Bytes) (hnf : NoForgery A k c0 sent wire)
    (rcv : SC) (hrk : rcv.recvKey = k) (hrn : rcv.recvNonce = nonceOf c0) (hrb : rcv.recvBuffer = [])
    (sizes : List Nat) :
    delivered (readAll A rcv wire sizes).2.2 <+: payload sent ∧
    ∀ x ∈ (readAll A rcv wire sizes).2.2, x.2 ≠ some .panicNonce := by
  obtain ⟨q, _, hpay, hnp⟩ := readAll_adv A k c0 sent hC hwf hroom sizes 0 rcv wire []
    ⟨Nat.zero_le _, hrk, by simpa using hrn⟩ (by simp [hrb, payload]) hnf
  refine ⟨?_, hnp⟩
  have h1 : delivered (readAll A rcv wire sizes).2.2 <+: payload (sent.take q) := by
    rw [hpay]; simp
  exact h1.trans (payload_take_prefix _ q)

/-- **Reorder / replay / drop / truncate.**  If every 1044-byte window of the wire is one of the
sender's own sealed frames — in any order, any number of times, any of them missing, the tail cut
anywhere — then nonce binding alone (no integrity assumption) gives the same guarantee. -/
theorem rearranged_frames_never_alter (A : AEAD) (k : Bytes) (hC : A.Correct k) (hB : A.NonceBinding k)
    (c0 : Nat) (sent : List Fr) (hwf : ∀ f ∈ sent, f.WF) (hroom : c0 + sent.length ≤ 2 ^ 64 - 1)
    (wire : Bytes) (hsub : ∀ s ∈ windows wire, s ∈ sealList A k c0 sent)
    (rcv : SC) (hrk : rcv.recvKey = k) (hrn : rcv.recvNonce = nonceOf c0) (hrb : rcv.recvBuffer = [])
    (sizes : List Nat) :
    delivered (readAll A rcv wire sizes).2.2 <+: payload sent :=
  (tamper_never_alters A k hC c0 sent hwf hroom wire
    (noForgery_of_nonceBinding A k c0 sent wire hB hroom hsub) rcv hrk hrn hrb sizes).1

/-- the hypotheses are jointly satisfiable: the toy cipher, two frames sent, the wire carries
them swapped and the second one twice -/
example : toyAEAD.Correct [] ∧ toyAEAD.NonceBinding [] ∧
    (∀ f ∈ ([[1], [2, 3]] : List Fr), f.WF) :=
  ⟨toy_correct [], toy_nonceBinding [], by
    intro f hf
    simp only [List.mem_cons, List.mem_nil_iff, or_false] at hf
    rcases hf with rfl | rfl <;> exact ⟨by simp, by decide⟩⟩

/-- … and so is `NoForgery` for a concrete tampered wire: the second frame, then the first,
then the second again -/
example : NoForgery toyAEAD [] 0 [[1], [2, 3]]
    (sealedAt toyAEAD [] 1 [2, 3] ++ (sealedAt toyAEAD [] 0 [1] ++ (sealedAt toyAEAD [] 1 [2, 3] ++ []))) := by
  apply noForgery_of_nonceBinding _ _ _ _ _ (toy_nonceBinding []) (by decide)
  intro s hs
  have h0 := sealedAt_length toyAEAD [] (toy_overhead []) 0 [1] ⟨by simp, by decide⟩
  have h1 := sealedAt_length toyAEAD [] (toy_overhead []) 1 [2, 3] ⟨by simp, by decide⟩
  rw [windows_append _ _ h1, windows_append _ _ h0, windows_append _ _ h1, windows_short [] (by decide)] at hs
  simp only [sealList, List.mem_cons, List.mem_nil_iff, or_false] at hs ⊢
  rcases hs with rfl | rfl | rfl
  · exact Or.inr rfl
  · exact Or.inl rfl
  · exact Or.inr rfl

/-- **The read that meets the tampering fails.**  The receiver has accepted `p` frames and its
buffer is empty; the next 1044 bytes on the wire are NOT the sender's frame number `p`
(a modified frame, an earlier or later frame, a frame of the other direction, garbage) and the
wire carries no forgery.  Then this `Read` returns "failed to decrypt", no data, and leaves the
receive nonce where it was (so the connection stays stuck on frame `p`). -/
theorem tampered_frame_rejected (A : AEAD) (k : Bytes) (c0 : Nat) (sent : List Fr)
    (hroom : c0 + sent.length ≤ 2 ^ 64 - 1)
    (s rest : Bytes) (hs : s.length = 1044) (hnf : NoForgery A k c0 sent (s ++ rest))
    (p : Nat) (hp : p ≤ sent.length) (hdiff : ∀ h : p < sent.length, s ≠ sealedAt A k (c0 + p) sent[p])
    (rcv : SC) (hrk : rcv.recvKey = k) (hrn : rcv.recvNonce = nonceOf (c0 + p)) (hrb : rcv.recvBuffer = [])
    (size : Nat) :
    read A rcv (s ++ rest) size = ⟨rcv, rest, [], some .decrypt⟩ := by
  have hs' : s.length = sealedFrameSize := hs
  have h1 : sealedFrameSize ≤ (s ++ rest).length := by rw [List.length_append]; omega
  have htake : (s ++ rest).take sealedFrameSize = s := List.take_left' hs'
  have hdrop : (s ++ rest).drop sealedFrameSize = rest := List.drop_left' hs'
  have ho : A.doOpen rcv.recvKey rcv.recvNonce ((s ++ rest).take sealedFrameSize) = none := by
    rw [htake, hrk, hrn]
    cases ho : A.doOpen k (nonceOf (c0 + p)) s with
    | none => rfl
    | some f =>
      exfalso
      have hmem : s ∈ windows (s ++ rest) := by rw [windows_append s rest hs']; exact List.mem_cons_self
      have hj : c0 + p < 2 ^ 64 := by omega
      obtain ⟨p', hp', hjp, hsp⟩ := hnf s hmem (c0 + p) f hj ho
      have : p' = p := by omega
      subst this
      exact hdiff hp' hsp
  rw [read_reject A rcv (s ++ rest) size hrb h1 ho, hdrop]

/-- **Truncation inside a frame.**  Fewer than 1044 bytes left: `Read` reports
io.ErrUnexpectedEOF, returns nothing and changes nothing but the (now empty) connection. -/
theorem truncated_frame_rejected (A : AEAD) (rcv : SC) (conn : Bytes) (size : Nat)
    (hrb : rcv.recvBuffer = []) (h0 : conn ≠ []) (h1 : conn.length < 1044) :
    read A rcv conn size = ⟨rcv, [], [], some .short⟩ :=
  read_short A rcv conn size hrb h0 h1

/-! ### the handshake -/

/-- **A successful handshake authenticates the remote key.**  Whatever bytes arrive
(`incoming` is arbitrary: an honest peer, a man in the middle, garbage), if
`MakeSecretConnection` returns a connection then: the peer's ephemeral key `remEph` is not on
the low-order blacklist, X25519 succeeded, the two AEAD keys and the challenge are the three
parts of the KDF output for THIS session's shared secret (split according to `locIsLeast`), and
the key stored as `RemotePubKey()` was presented together with a signature that verifies, under
that key, over this session's challenge. -/
theorem handshake_authenticates (P : Prims) (A : AEAD) (locPriv locEphPriv incoming : Bytes) (sc : SC)
    (h : (makeSecretConnection P A locPriv locEphPriv incoming).result = .ok sc) :
    ∃ remEph dhs,
      hasSmallOrder remEph = false ∧
      P.dh locEphPriv remEph = some dhs ∧
      (makeSecretConnection P A locPriv locEphPriv incoming).challenge = ((P.kdf dhs).drop 64).take 32 ∧
      (∃ sig, P.verify sc.remPubKey (((P.kdf dhs).drop 64).take 32) sig = true) ∧
      sc.recvKey = (deriveSecrets (P.kdf dhs) (locIsLeast (P.ephPub locEphPriv) remEph)).1 ∧
      sc.sendKey = (deriveSecrets (P.kdf dhs) (locIsLeast (P.ephPub locEphPriv) remEph)).2.1 := by
  obtain ⟨remEph, dhs, h1, h2, h3, h4, h5, h6⟩ := handshake_ok_inv P A locPriv locEphPriv incoming sc h
  rw [deriveSecrets_challenge] at h3 h4
  exact ⟨remEph, dhs, h1, h2, h3, h4, h5, h6⟩

/-- **A substituted key is rejected.**  If, for the challenge this side derived, NO signature
verifies under the key `K` (the adversary does not own `K`'s private key and signatures made for
other challenges do not verify for this one), then no input whatsoever makes the handshake
succeed with `K` as the authenticated remote key. -/
theorem substituted_key_rejected (P : Prims) (A : AEAD) (locPriv locEphPriv incoming K : Bytes)
    (hK : ∀ sig, P.verify K (makeSecretConnection P A locPriv locEphPriv incoming).challenge sig = false) :
    ∀ sc, (makeSecretConnection P A locPriv locEphPriv incoming).result = .ok sc → sc.remPubKey ≠ K := by
  intro sc h hk
  obtain ⟨_, _, _, _, h3, ⟨sig, h4⟩, _, _⟩ := handshake_ok_inv P A locPriv locEphPriv incoming sc h
  rw [← h3, hk, hK sig] at h4
  cases h4

/-- **Two honest parties authenticate each other.**  For every pair of static keys and
ephemeral keys (distinct 32-byte public keys off the blacklist), a DH that agrees
(`dh a (pub b) = dh b (pub a) = s`), 32-byte public keys, 64-byte signatures, a signature scheme
in which an honest signature verifies, and an AEAD that round-trips: when each side receives
exactly what the other side writes, BOTH calls of `MakeSecretConnection` succeed; A's
`RemotePubKey()` is B's public key and vice versa; A's send key is B's receive key and vice versa
(the two keys of the KDF output, assigned by the byte order of the ephemeral keys); both derived
the same challenge; all four nonce counters stand at 1 (one auth frame each way), both receive
buffers are empty and nothing is left in flight.  (`wB`/`wA` below are what B / A write; each is
the other's input — the run is a fixed point.) -/
theorem honest_handshake_succeeds (P : Prims) (A : AEAD) (skA ephA skB ephB s : Bytes)
    (hla : (P.ephPub ephA).length = 32) (hlb : (P.ephPub ephB).length = 32)
    (hne : P.ephPub ephA ≠ P.ephPub ephB)
    (hsa : hasSmallOrder (P.ephPub ephA) = false) (hsb : hasSmallOrder (P.ephPub ephB) = false)
    (hdhA : P.dh ephA (P.ephPub ephB) = some s) (hdhB : P.dh ephB (P.ephPub ephA) = some s)
    (hpa : (P.pubKey skA).length = 32) (hpb : (P.pubKey skB).length = 32)
    (hga : ∀ m, (P.sign skA m).length = 64) (hgb : ∀ m, (P.sign skB m).length = 64)
    (hva : ∀ m, P.verify (P.pubKey skA) m (P.sign skA m) = true)
    (hvb : ∀ m, P.verify (P.pubKey skB) m (P.sign skB m) = true)
    (hC : ∀ k, A.Correct k) (hO : ∀ k, A.Overhead k) :
    ∃ recvA sendA ch wA wB,
      (recvA, sendA, ch) = deriveSecrets (P.kdf s) (locIsLeast (P.ephPub ephA) (P.ephPub ephB)) ∧
      makeSecretConnection P A skA ephA wB =
        ⟨wA, [], .ok ⟨sendA, recvA, nonceOf 1, nonceOf 1, [], P.pubKey skB⟩, ch⟩ ∧
      makeSecretConnection P A skB ephB wA =
        ⟨wB, [], .ok ⟨recvA, sendA, nonceOf 1, nonceOf 1, [], P.pubKey skA⟩, ch⟩ := by
  obtain ⟨h1, h2⟩ := handshake_pair P A skA ephA skB ephB s hla hlb hne hsa hsb hdhA hdhB hpa hpb
    hga hgb hva hvb hC hO
  exact ⟨_, _, _, _, _, rfl, h1, h2⟩

/-- all hypotheses of `honest_handshake_succeeds` are jointly satisfiable: primitives that
are constant functions (public key of an ephemeral key = the key itself, a fixed DH output,
every static public key the same 32 bytes, every signature 64 zero bytes, `verify` always
true) with the toy AEAD — the theorem then yields a concrete successful run -/
example : ∃ recvA sendA ch wA wB,
    (recvA, sendA, ch) = deriveSecrets [] (locIsLeast (List.replicate 32 2) (List.replicate 32 3)) ∧
    makeSecretConnection ⟨fun e => e, fun _ _ => some [7], fun _ => [], fun _ => List.replicate 32 5,
        fun _ _ => List.replicate 64 0, fun _ _ _ => true⟩ toyAEAD [] (List.replicate 32 2) wB =
      ⟨wA, [], .ok ⟨sendA, recvA, nonceOf 1, nonceOf 1, [], List.replicate 32 5⟩, ch⟩ ∧
    makeSecretConnection ⟨fun e => e, fun _ _ => some [7], fun _ => [], fun _ => List.replicate 32 5,
        fun _ _ => List.replicate 64 0, fun _ _ _ => true⟩ toyAEAD [] (List.replicate 32 3) wA =
      ⟨wB, [], .ok ⟨recvA, sendA, nonceOf 1, nonceOf 1, [], List.replicate 32 5⟩, ch⟩ :=
  honest_handshake_succeeds
    ⟨fun e => e, fun _ _ => some [7], fun _ => [], fun _ => List.replicate 32 5,
      fun _ _ => List.replicate 64 0, fun _ _ _ => true⟩ toyAEAD
    [] (List.replicate 32 2) [] (List.replicate 32 3) [7]
    (by simp) (by simp) (by decide) (by decide) (by decide) rfl rfl (by simp) (by simp)
    (fun _ => by simp) (fun _ => by simp) (fun _ => rfl) (fun _ => rfl) toy_correct toy_overhead

end GnoVerif.C42
