import GnoVerif.Base.Sha256
import GnoVerif.Proofs.C25Verify
import GnoVerif.Proofs.C25Iter
import GnoVerif.Proofs.C25Map
/-!
C25 — Merkle proofs are sound and complete (STAGE 1: tm2/pkg/crypto/merkle
simple trees / proofs / maps; the B+tree / ICS23 half is correspondence-only
and has NO theorem here — see harness/cmd/c25/bptree.go).

Every theorem is for ALL item lists, ALL indices, ALL proofs and ALL hash
functions `H : Bytes → Bytes`; the soundness theorems assume only that `H` has
a fixed, non-zero output size (`hsz`, `hpos`; true of SHA-256, `*_sha256`).
Collision resistance is NOT assumed and is not an axiom.  Because a fixed-size
hash always has collisions, a disjunct "∃ collision" would be vacuous; each
soundness theorem instead names an explicit pair of byte strings COMPUTED from
the proof at hand (`collisionOf …`, `collisionOf2 …`, or the two values) and
says: the conclusion holds, or that very pair is a collision of `H`.

Findings (kept visible: `soundness_statement` is the full statement, it is
refuted by `soundness_counterexample`, and `soundness_partial` is proved under the
exact guard):
  * total-malleable (open): `Total` (and `Index` jointly with it) is not bound by
    `Verify` — only the turn sequence of `(Index, Total)` is;
  * nil-root (FIXED in /repo 96b4d2262f): against the root of the EMPTY list (nil)
    every leaf verified.  `Verify` now rejects a nil computed hash; the theorems
    below hold for EVERY list including the empty one (`empty_root_rejects`), and
    the old behaviour is recorded about `verifyOld` (`verifyOld_nil_root_accepts_anything`).
    The same weakness on the `SimpleValueOp` + `ProofOperators.Verify` path (oracle class
    nil-root-valueop) was FIXED in /repo 4d9045b816 (`valueOp_rejects_non_positions`,
    `valueOp_empty_root_rejects`; old behaviour: `valueOpVerifyOld_nil_root_accepts_anything`).
-/
namespace GnoVerif.C25

/-! ## (1) completeness -/

/-- Every generated proof verifies: for every item list and every index, the
proof `SimpleProofsFromByteSlices` produces for item `i` passes `Verify` against
the root with that item.  (No assumption on `H` at all.) -/
theorem completeness (H : Bytes → Bytes) (items : List Bytes) (i : Nat) (hi : i < items.length) :
    (proofFor H items i).verify H (simpleHashFromByteSlices H items) items[i] = .ok () :=
  complete_model H items i hi

/-- The same on the API function: it returns the root of `SimpleHashFromByteSlices`
and one proof per item, with `Total = len`, `Index = i`, and proof `i` verifies item `i`.
(For zero items the real function panics — `none`.) -/
theorem completeness_api (H : Bytes → Bytes) (items : List Bytes) (hne : items ≠ []) :
    ∃ proofs, simpleProofsFromByteSlices H items = some (simpleHashFromByteSlices H items, proofs) ∧
      proofs.length = items.length ∧
      ∀ i (hi : i < items.length), ∃ p, proofs[i]? = some p ∧ p.total = items.length ∧ p.index = i ∧
        p.verify H (simpleHashFromByteSlices H items) items[i] = .ok () := by
  refine ⟨(List.range items.length).map (proofFor H items), ?_, by simp, ?_⟩
  · unfold simpleProofsFromByteSlices
    have : items.isEmpty = false := by cases items <;> simp_all
    simp [this]
  · intro i hi
    refine ⟨proofFor H items i, by simp [hi], rfl, rfl, completeness H items i hi⟩

example : (proofFor toyH [[1], [2], [3]] 2).verify toyH (simpleHashFromByteSlices toyH [[1], [2], [3]]) [3] = .ok () :=
  completeness toyH [[1], [2], [3]] 2 (by decide)

/-- Generated proofs pass `ValidateBasic` (sizes 32, at most 100 aunts) whenever the
hash is 32 bytes wide and the list has at most 2^100 items (always, for a Go slice). -/
theorem generated_proof_validateBasic (H : Bytes → Bytes) (h32 : ∀ x, (H x).length = 32)
    (items : List Bytes) (i : Nat) (hi : i < items.length) (hbig : items.length ≤ 2 ^ 100) :
    (proofFor H items i).validateBasic = .ok () := by
  have hlen : (auntsFor H items i).length ≤ 100 := by
    rw [auntsFor_length H items i hi]; exact turns_length_le 100 _ _ hbig
  have hsizes : ∀ a ∈ auntsFor H items i, a.length = 32 := by
    intro a ha
    have h1 := auntsFor_rev H _ items i rfl hi
    have : a ∈ (auntsFor H items i).reverse := List.mem_reverse.mpr ha
    rw [h1] at this
    exact auntsRev_sizes h32 _ _ a this
  unfold SimpleProof.validateBasic
  have a1 : ¬ (proofFor H items i).total < 0 := by simp [proofFor]
  have a2 : ¬ (proofFor H items i).index < 0 := by simp [proofFor]
  have a3 : ¬ (((proofFor H items i).leafHash.getD []).length ≠ hashSize) := by
    simp [proofFor, leafHash, h32, hashSize]
  have a4 : ¬ ((proofFor H items i).aunts.length > maxAunts) := by
    simp only [proofFor, maxAunts]; omega
  have a5 : (proofFor H items i).aunts.any (fun a => a.length ≠ hashSize) = false := by
    simp only [proofFor, hashSize, List.any_eq_false]
    intro a ha; simp [hsizes a ha]
  simp only [a1, a2, a3, a4, a5, if_false, Bool.false_eq_true]

example : (proofFor (fun _ => List.replicate 32 0) [[1], [2], [3]] 1).validateBasic = .ok () :=
  generated_proof_validateBasic _ (by intro x; simp) _ 1 (by decide) (by decide)

/-! ## (4) leaf / inner domain separation -/

/-- A leaf hash never equals an inner hash, except through an explicit collision
between a `0x00 ‖ …` and a `0x01 ‖ …` preimage. -/
theorem domain_separation (H : Bytes → Bytes) (x l r : Bytes) (h : leafHash H x = innerHash H l r) :
    IsCollision H (0 :: x, 1 :: (l ++ r)) :=
  ⟨by simp, h⟩

example : ∃ (H : Bytes → Bytes) (x l r : Bytes), leafHash H x = innerHash H l r :=
  ⟨fun _ => [7], [], [], [], rfl⟩

/-! ## (2) soundness -/

/-- THE FULL STATEMENT (not a theorem — refuted below): whatever verifies against
the root of `items` is the item at the proof's index, and the proof's `Total` is the
real size — or the pair computed by `collisionOf` is a collision. -/
def soundness_statement : Prop :=
  ∀ (H : Bytes → Bytes) (sz : Nat), (∀ x, (H x).length = sz) → 0 < sz →
  ∀ (items : List Bytes) (p : SimpleProof) (leaf : Bytes),
    p.verify H (simpleHashFromByteSlices H items) leaf = .ok () →
    (p.total = items.length ∧ ∃ i : Nat, p.index = i ∧ items[i]? = some leaf) ∨
      IsCollision H (collisionOf H items p leaf)

/-- Soundness under the exact guard (the verifier compares `Total` with the known
size, as `PartSet.AddPart` does), for EVERY list, the empty one included: a proof that
verifies against the root of `items` proves `leaf = items[Index]` — or `collisionOf`
computes a collision of `H` from the proof. -/
theorem soundness_partial {H : Bytes → Bytes} {sz : Nat} (hsz : ∀ x, (H x).length = sz) (hpos : 0 < sz)
    (items : List Bytes) (p : SimpleProof) (leaf : Bytes)
    (hv : p.verify H (simpleHashFromByteSlices H items) leaf = .ok ())
    (ht : p.total = items.length) :
    (∃ i : Nat, p.index = i ∧ items[i]? = some leaf) ∨ IsCollision H (collisionOf H items p leaf) := by
  obtain ⟨_, h1, h2, h | h⟩ := sound_model hsz hpos hv
  · left
    refine ⟨p.index.toNat, (Int.toNat_of_nonneg h1).symm, ?_⟩
    have hi : p.index.toNat < items.length := by omega
    have := leafAt_turns _ items p.index.toNat rfl hi
    rw [ht, Int.toNat_natCast] at h
    rw [← this, h]
  · right; exact h

example : ∃ (H : Bytes → Bytes) (sz : Nat) (_ : ∀ x, (H x).length = sz) (_ : 0 < sz)
    (items : List Bytes) (p : SimpleProof) (leaf : Bytes),
    p.verify H (simpleHashFromByteSlices H items) leaf = .ok () ∧ p.total = items.length :=
  ⟨toyH, 1, toyH_len, by decide, [[1], [2], [3]], proofFor toyH [[1], [2], [3]] 1, [2],
    completeness toyH [[1], [2], [3]] 1 (by decide), rfl⟩

/-- Soundness WITHOUT trusting `Total`, for every list: whatever verifies against the
root of `items` is an item of the list, namely the one at the position `j` whose
turn sequence equals that of the claimed `(Index, Total)` — or an explicit collision.
(So the leaf is always authenticated; only `(Index, Total)` can be restated.) -/
theorem soundness_membership_partial {H : Bytes → Bytes} {sz : Nat} (hsz : ∀ x, (H x).length = sz) (hpos : 0 < sz)
    (items : List Bytes) (p : SimpleProof) (leaf : Bytes)
    (hv : p.verify H (simpleHashFromByteSlices H items) leaf = .ok ()) :
    (∃ j, items[j]? = some leaf ∧ turns j items.length = turns p.index.toNat p.total.toNat) ∨
      IsCollision H (collisionOf H items p leaf) := by
  obtain ⟨hne, _, _, h | h⟩ := sound_model hsz hpos hv
  · left
    obtain ⟨j, _, ht, hx⟩ := leafAt_build_inv _ items _ _ rfl hne h
    exact ⟨j, hx, ht⟩
  · right; exact h

/-- For a fixed size the turn sequence determines the index: with `Total = len` the
index cannot be restated. -/
theorem turns_injective (n i j : Nat) (hi : i < n) (hj : j < n) (h : turns i n = turns j n) : i = j :=
  turns_inj n i j hi hj h

/-- Soundness for the EMPTY list, explicitly (what /repo 96b4d2262f established):
nothing verifies against a nil or empty root — no proof, no leaf, no `(Index, Total)`.
In particular nothing verifies against `SimpleHashFromByteSlices(nil)`, the DataHash
of an empty block. -/
theorem empty_root_rejects {H : Bytes → Bytes} {sz : Nat} (hsz : ∀ x, (H x).length = sz) (hpos : 0 < sz)
    (p : SimpleProof) (root : Option Bytes) (leaf : Bytes) (hroot : root.getD [] = []) :
    p.verify H root leaf ≠ .ok () := by
  intro hv
  obtain ⟨r, hr, hne, _⟩ := verify_ok_path hsz hpos hv
  rw [hr] at hroot
  exact hne (by simpa using hroot)

theorem empty_list_rejects {H : Bytes → Bytes} {sz : Nat} (hsz : ∀ x, (H x).length = sz) (hpos : 0 < sz)
    (p : SimpleProof) (leaf : Bytes) :
    p.verify H (simpleHashFromByteSlices H []) leaf ≠ .ok () :=
  empty_root_rejects hsz hpos p _ leaf (by simp [simpleHashFromByteSlices])

/-- REGRESSION RECORD (nil-root, fixed by 96b4d2262f): the OLD `Verify` (`verifyOld`, without
the `computedHash == nil` test) accepted every leaf against the root of the empty list,
for every hash, with any `(Index, Total)` that is not a position (`Total = 1, Index = 1`
passed `TxProof.Validate`'s own guards too). -/
theorem verifyOld_nil_root_accepts_anything (H : Bytes → Bytes) (leaf : Bytes) (aunts : List Bytes) (total index : Nat)
    (h : total ≤ index) :
    (⟨total, index, some (leafHash H leaf), aunts⟩ : SimpleProof).verifyOld H (simpleHashFromByteSlices H []) leaf = .ok () := by
  have a1 : ¬ ((total : Int) < 0) := by omega
  have a2 : ¬ ((index : Int) < 0) := by omega
  simp [SimpleProof.verifyOld, SimpleProof.computeRootHash, computeHashFromAunts, simpleHashFromByteSlices, bytesEqual,
    h, a1, a2]

/-- …and the current `Verify` rejects exactly those inputs (for every hash, no size assumption). -/
theorem verify_rejects_non_positions (H : Bytes → Bytes) (leaf : Bytes) (aunts : List Bytes) (total index : Nat)
    (root : Option Bytes) (h : total ≤ index) :
    (⟨total, index, some (leafHash H leaf), aunts⟩ : SimpleProof).verify H root leaf = .error .root := by
  have a1 : ¬ ((total : Int) < 0) := by omega
  have a2 : ¬ ((index : Int) < 0) := by omega
  simp [SimpleProof.verify, SimpleProof.computeRootHash, computeHashFromAunts, bytesEqual, h, a1, a2]

/-- Wherever the new `Verify` accepts, the old one did too (the fix only removes acceptances). -/
theorem verify_ok_imp_verifyOld_ok (H : Bytes → Bytes) (p : SimpleProof) (root : Option Bytes) (leaf : Bytes)
    (h : p.verify H root leaf = .ok ()) : p.verifyOld H root leaf = .ok () := by
  obtain ⟨a, b, c, _, e⟩ := (verify_ok_iff H p root leaf).1 h
  have a1 : ¬ p.total < 0 := by omega
  have a2 : ¬ p.index < 0 := by omega
  simp [SimpleProof.verifyOld, a1, a2, c, e]

/-- REGRESSION RECORD (nil-root-valueop, fixed by 4d9045b816): the OLD `SimpleValueOp.Run` passed a
nil computed root on to `ProofOperators.Verify`'s `bytes.Equal`, so against an empty root
every `(key, value)` was accepted once `(Index, Total)` is not a position. -/
theorem valueOpVerifyOld_nil_root_accepts_anything (H : Bytes → Bytes) (key value : Bytes) (aunts : List Bytes)
    (total index : Nat) (h : total ≤ index) :
    valueOpVerifyOld H key value none ⟨total, index, some (leafHash H (mapLeaf H key value)), aunts⟩ = .ok () := by
  simp [valueOpVerifyOld, SimpleProof.computeRootHash, computeHashFromAunts, bytesEqual, h]

/-- …and the current `Run` fails on exactly those inputs, whatever the root (every hash). -/
theorem valueOp_rejects_non_positions (H : Bytes → Bytes) (key value : Bytes) (aunts : List Bytes)
    (total index : Nat) (root : Option Bytes) (h : total ≤ index) :
    valueOpVerify H key value root ⟨total, index, some (leafHash H (mapLeaf H key value)), aunts⟩
      = .error .invalidProof := by
  simp [valueOpVerify, SimpleProof.computeRootHash, computeHashFromAunts, bytesEqual, h]

/-- Nothing is accepted by the `SimpleValueOp` path against a nil or empty root (the root of an
empty map). -/
theorem valueOp_empty_root_rejects {H : Bytes → Bytes} {sz : Nat} (hsz : ∀ x, (H x).length = sz) (hpos : 0 < sz)
    (key value : Bytes) (p : SimpleProof) (root : Option Bytes) (hroot : root.getD [] = []) :
    valueOpVerify H key value root p ≠ .ok () :=
  fun hv => empty_root_rejects hsz hpos p root _ hroot (valueOp_ok_verify hv)

/-- FINDING total-malleable — for EVERY hash: the genuine proof of item 0 of a
5-item list still verifies after `Total` is altered from 5 to 7 (one bit), and the
extractor finds no collision (it returns `(0‖leaf, 0‖leaf)`): `Total` is not authenticated. -/
theorem soundness_total_counterexample (H : Bytes → Bytes) :
    let items : List Bytes := [[1], [2], [3], [4], [5]]
    let p : SimpleProof := { proofFor H items 0 with total := 7 }
    p.verify H (simpleHashFromByteSlices H items) [1] = .ok () ∧ p.total ≠ items.length ∧
      ¬ IsCollision H (collisionOf H items p [1]) := by
  intro items p
  have hi : 0 < items.length := by decide
  have hc := completeness H items 0 hi
  have hcongr : p.verify H (simpleHashFromByteSlices H items) [1] =
      (proofFor H items 0).verify H (simpleHashFromByteSlices H items) [1] :=
    verify_congr_turns _ _ (by simp [p, proofFor]) (by simp [p, proofFor]) (by simp [proofFor])
      (by simp [proofFor, items]) rfl rfl (by simpa [p, proofFor, items] using turns_0_7_eq_turns_0_5)
  refine ⟨by rw [hcongr]; exact hc, by simp [p, items], ?_⟩
  have hpath := leafAt_turns _ items 0 rfl hi
  have hco : collisionOf H items p [1] = (0 :: [1], 0 :: [1]) := by
    have h1 : collisionOf H items p [1] =
        collide H (build items) (turns 0 5) [1] ((build items).auntsRev H (turns 0 5)) := by
      unfold collisionOf
      have : (auntsFor H items 0).reverse = (build items).auntsRev H (turns 0 items.length) :=
        auntsFor_rev H _ items 0 rfl hi
      simp only [p, proofFor, Int.toNat_natCast, this]
      rw [show (7 : Int).toNat = 7 from rfl, turns_0_7_eq_turns_0_5]
      rfl
    rw [h1]
    exact collide_complete H _ _ _ (by simpa [items] using hpath)
  rw [hco]
  exact fun h => h.1 rfl

/-- The full statement is false (total-malleable): with the toy hash, the proof of item 0 of
5 restated with `Total = 7` verifies, `Total ≠ 5`, and `collisionOf` finds no collision. -/
theorem soundness_counterexample : ¬ soundness_statement := by
  intro h
  obtain ⟨hv, hne, hnc⟩ := soundness_total_counterexample toyH
  rcases h toyH 1 toyH_len (by decide) _ _ _ hv with ⟨ht, _⟩ | hc
  · exact hne ht
  · exact hnc hc

/-- the hypotheses of `soundness_membership_partial` with a restated `Total` are satisfiable -/
example : ∃ (H : Bytes → Bytes) (sz : Nat) (_ : ∀ x, (H x).length = sz) (_ : 0 < sz)
    (items : List Bytes) (p : SimpleProof) (leaf : Bytes), p.total ≠ items.length ∧
    p.verify H (simpleHashFromByteSlices H items) leaf = .ok () :=
  ⟨toyH, 1, toyH_len, by decide, [[1], [2], [3], [4], [5]], { proofFor toyH [[1], [2], [3], [4], [5]] 0 with total := 7 }, [1],
    by simp, (soundness_total_counterexample toyH).1⟩

/-- The exact extent of the malleability: `(Index, Total)` influence `Verify` only
through their turn sequence. -/
theorem verify_depends_on_turns {H : Bytes → Bytes} {p q : SimpleProof} (root : Option Bytes) (leaf : Bytes)
    (hp1 : 0 ≤ p.index) (hp2 : p.index < p.total) (hq1 : 0 ≤ q.index) (hq2 : q.index < q.total)
    (hl : p.leafHash = q.leafHash) (ha : p.aunts = q.aunts)
    (ht : turns p.index.toNat p.total.toNat = turns q.index.toNat q.total.toNat) :
    p.verify H root leaf = q.verify H root leaf :=
  verify_congr_turns root leaf hp1 hp2 hq1 hq2 hl ha ht

example : ∃ (p q : SimpleProof), p.total ≠ q.total ∧ 0 ≤ p.index ∧ p.index < p.total ∧ 0 ≤ q.index ∧ q.index < q.total ∧
    p.leafHash = q.leafHash ∧ p.aunts = q.aunts ∧
    turns p.index.toNat p.total.toNat = turns q.index.toNat q.total.toNat :=
  ⟨⟨7, 0, none, []⟩, ⟨5, 0, none, []⟩, by decide, by decide, by decide, by decide, by decide, rfl, rfl,
    turns_0_7_eq_turns_0_5⟩

/-! ## mutations: leaf, proof, root -/

/-- Altering the leaf, the leaf hash or any aunt: two proofs for the same
`(Index, Total)` that both verify against the same root (ANY root — nil/empty roots
verify nothing since 96b4d2262f) have the same leaf, the same leaf hash and the same
aunts — or `collisionOf2` computes a collision. -/
theorem proof_binding {H : Bytes → Bytes} {sz : Nat} (hsz : ∀ x, (H x).length = sz) (hpos : 0 < sz)
    (p₁ p₂ : SimpleProof) (root : Option Bytes) (leaf₁ leaf₂ : Bytes)
    (hi : p₁.index = p₂.index) (ht : p₁.total = p₂.total)
    (h₁ : p₁.verify H root leaf₁ = .ok ()) (h₂ : p₂.verify H root leaf₂ = .ok ()) :
    (leaf₁ = leaf₂ ∧ p₁.leafHash = p₂.leafHash ∧ p₁.aunts = p₂.aunts) ∨
      IsCollision H (collisionOf2 H p₁ p₂ leaf₁ leaf₂) := by
  obtain ⟨r1, hr1, _, _, _, l1, c1⟩ := verify_ok_path hsz hpos h₁
  obtain ⟨r2, hr2, _, _, _, l2, c2⟩ := verify_ok_path hsz hpos h₂
  have hrr : r2 = r1 := by rw [hr1] at hr2; simpa using hr2.symm
  rw [← hi, ← ht, hrr] at c2
  rcases binding_path hsz _ _ _ _ _ _ c1 c2 with ⟨e1, e2⟩ | h
  · left
    refine ⟨e1, by rw [l1, l2, e1], ?_⟩
    have := congrArg List.reverse e2
    simpa using this
  · right; exact h

example : ∃ (H : Bytes → Bytes) (sz : Nat) (_ : ∀ x, (H x).length = sz) (_ : 0 < sz)
    (p₁ p₂ : SimpleProof) (root : Option Bytes) (l₁ l₂ : Bytes), p₁.index = p₂.index ∧ p₁.total = p₂.total ∧
    p₁.verify H root l₁ = .ok () ∧ p₂.verify H root l₂ = .ok () :=
  ⟨toyH, 1, toyH_len, by decide, proofFor toyH [[1], [2]] 0, proofFor toyH [[1], [2]] 0,
    simpleHashFromByteSlices toyH [[1], [2]], [1], [1], rfl, rfl,
    completeness toyH [[1], [2]] 0 (by decide), completeness toyH [[1], [2]] 0 (by decide)⟩

/-- Altering the root: one proof and leaf verify against at most one root
(as byte strings; Go's `bytes.Equal` identifies nil and empty). -/
theorem root_binding (H : Bytes → Bytes) (p : SimpleProof) (r₁ r₂ : Option Bytes) (leaf : Bytes)
    (h₁ : p.verify H r₁ leaf = .ok ()) (h₂ : p.verify H r₂ leaf = .ok ()) :
    r₁.getD [] = r₂.getD [] := by
  obtain ⟨_, _, _, _, c1⟩ := (verify_ok_iff H p r₁ leaf).1 h₁
  obtain ⟨_, _, _, _, c2⟩ := (verify_ok_iff H p r₂ leaf).1 h₂
  unfold bytesEqual at c1 c2
  rw [← eq_of_beq c1, ← eq_of_beq c2]

/-! ## (3) recursive = iterative -/

/-- `SimpleHashFromByteSlicesIterative` computes the same root as the recursive
`SimpleHashFromByteSlices`, for every list and every hash. -/
theorem iterative_eq_recursive (H : Bytes → Bytes) (items : List Bytes) :
    simpleHashFromByteSlicesIterative H items = simpleHashFromByteSlices H items := by
  unfold simpleHashFromByteSlicesIterative simpleHashFromByteSlices
  cases items with
  | nil => simp [iterLoop]
  | cons x xs =>
    rw [iterLoop_eq H _ _ rfl (by simp), treeHash_eq_mth H _ _ rfl]
    simp

/-! ## (5) SimpleMap -/

/-- The map hash does not depend on the insertion order (Go's map iteration order). -/
theorem map_hash_order_independent (H : Bytes → Bytes) (e₁ e₂ : List (Bytes × Bytes)) (h : e₁.Perm e₂) :
    simpleHashFromMap H e₁ = simpleHashFromMap H e₂ := by
  unfold simpleHashFromMap
  rw [smFromEntries_eq_map, smFromEntries_eq_map, smSort_perm (h.map _)]

/-- Neither do the proofs and the returned key order. -/
theorem map_proofs_order_independent (H : Bytes → Bytes) (e₁ e₂ : List (Bytes × Bytes)) (h : e₁.Perm e₂) :
    simpleProofsFromMap H e₁ = simpleProofsFromMap H e₂ := by
  unfold simpleProofsFromMap
  rw [smFromEntries_eq_map, smFromEntries_eq_map, smSort_perm (h.map _)]

example : simpleHashFromMap toyH [([1], [10]), ([2], [20]), ([0], [30])]
    = simpleHashFromMap toyH [([0], [30]), ([2], [20]), ([1], [10])] :=
  map_hash_order_independent toyH _ _ (by decide)

/-- `SimpleProofsFromMap` and `SimpleHashFromMap` agree on the root, and every entry has a
proof that the `SimpleValueOp` path accepts. -/
theorem map_completeness (H : Bytes → Bytes) (entries : List (Bytes × Bytes)) (key value : Bytes)
    (hmem : (key, value) ∈ entries) :
    ∃ (proofs : List SimpleProof) (keys : List Bytes), simpleProofsFromMap H entries = some (simpleHashFromMap H entries, proofs, keys) ∧
      ∃ (j : Nat) (p : SimpleProof), proofs[j]? = some p ∧ keys[j]? = some key ∧
        valueOpVerify H key value (simpleHashFromMap H entries) p = .ok () := by
  have hkv : (⟨key, H value⟩ : KV) ∈ smSort (smFromEntries H entries) := by
    rw [mem_smSort, smFromEntries_eq_map]
    exact List.mem_map.mpr ⟨(key, value), hmem, rfl⟩
  obtain ⟨j, hj, hjeq⟩ := List.getElem_of_mem hkv
  let items := (smSort (smFromEntries H entries)).map KV.bytes
  have hlen : items.length = (smSort (smFromEntries H entries)).length := by simp [items]
  have hne : items ≠ [] := by
    intro hc; rw [hc] at hlen; simp at hlen; omega
  obtain ⟨proofs, hp, hpl, hall⟩ := completeness_api H items hne
  have hj' : j < items.length := by omega
  obtain ⟨p, hpj, _, _, hv⟩ := hall j hj'
  have hitem : items[j] = mapLeaf H key value := by simp [items, hjeq, mapLeaf]
  refine ⟨proofs, (smSort (smFromEntries H entries)).map KV.key, ?_, j, p, hpj, ?_, ?_⟩
  · unfold simpleProofsFromMap simpleHashFromMap hashKVPairs
    simp only [show (smSort (smFromEntries H entries)).map KV.bytes = items from rfl, hp]
  · simp [hj, hjeq]
  · rw [hitem] at hv
    obtain ⟨_, _, hl, hn, hc⟩ := (verify_ok_iff H p _ _).1 hv
    have hroot : simpleHashFromMap H entries = simpleHashFromByteSlices H items := rfl
    rw [hroot, valueOp_ok_iff]
    refine ⟨bytesEqual_symm hl, ?_⟩
    cases hcr : p.computeRootHash H with
    | none => exact absurd hcr hn
    | some c => rw [hcr] at hc; exact ⟨c, rfl, bytesEqual_symm hc⟩

/-- Map soundness, for EVERY map (the empty one included — nothing is accepted against its nil
root since /repo 4d9045b816): if the `SimpleValueOp` path accepts `(key, value)` against the
map root, then `key` is in the map with a value `v'` that is `value` — or `(v', value)` is a
collision of `H`, or `collisionOf` computes one from the proof.
Uses: the length-prefixed `KVPair.Bytes` encoding is injective. -/
theorem map_soundness_partial {H : Bytes → Bytes} {sz : Nat} (hsz : ∀ x, (H x).length = sz) (hpos : 0 < sz)
    (entries : List (Bytes × Bytes)) (key value : Bytes) (p : SimpleProof)
    (hv : valueOpVerify H key value (simpleHashFromMap H entries) p = .ok ()) :
    (∃ v', (key, v') ∈ entries ∧ (v' = value ∨ IsCollision H (v', value))) ∨
      IsCollision H (collisionOf H ((smSort (smFromEntries H entries)).map KV.bytes) p (mapLeaf H key value)) := by
  let items := (smSort (smFromEntries H entries)).map KV.bytes
  have hv' : p.verify H (simpleHashFromByteSlices H items) (mapLeaf H key value) = .ok () := valueOp_ok_verify hv
  rcases soundness_membership_partial hsz hpos items p _ hv' with ⟨j, hj, _⟩ | h
  · left
    have hmem : mapLeaf H key value ∈ items := List.mem_of_getElem? hj
    obtain ⟨kv, hkv, hb⟩ := List.mem_map.mp hmem
    have hkveq : kv = ⟨key, H value⟩ := kvBytes_inj hb
    rw [mem_smSort, smFromEntries_eq_map] at hkv
    obtain ⟨e, he, hee⟩ := List.mem_map.mp hkv
    rw [hkveq] at hee
    have hk : e.1 = key := by simpa using congrArg KV.key hee
    have hvv : H e.2 = H value := by simpa using congrArg KV.value hee
    refine ⟨e.2, by rw [← hk]; exact he, ?_⟩
    by_cases heq : e.2 = value
    · left; exact heq
    · right; exact ⟨heq, hvv⟩
  · right; exact h

example : ∃ (entries : List (Bytes × Bytes)) (key value : Bytes) (p : SimpleProof),
    valueOpVerify toyH key value (simpleHashFromMap toyH entries) p = .ok () := by
  obtain ⟨_, _, _, _, p, _, _, h⟩ := map_completeness toyH [([1], [10]), ([2], [20])] [2] [20] (by simp)
  exact ⟨_, _, _, p, h⟩

/-! ## instantiation with the real hash (uses only `sha256_length`) -/

theorem soundness_partial_sha256 (items : List Bytes) (p : SimpleProof) (leaf : Bytes)
    (hv : p.verify Sha256.sha256 (simpleHashFromByteSlices Sha256.sha256 items) leaf = .ok ())
    (ht : p.total = items.length) :
    (∃ i : Nat, p.index = i ∧ items[i]? = some leaf) ∨
      IsCollision Sha256.sha256 (collisionOf Sha256.sha256 items p leaf) :=
  soundness_partial Sha256.sha256_length (by decide) items p leaf hv ht

end GnoVerif.C25
