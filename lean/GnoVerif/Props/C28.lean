import GnoVerif.Model.C28
import GnoVerif.Proofs.C28Reach
/-!
C28 — "Queries never interfere with consensus and see one committed version."

Statement: under any interleaving of queries and transaction simulations with block execution and
commit, the blocks produce exactly the app hashes and results they would produce without queries,
and every query observes the state of a single committed height (never a mix of two heights or
uncommitted writes).

All theorems are about the event model `Model/C28.lean`; `run s tr` accepts ANY interleaving `tr`
of consensus events and query events (no bound on length, number of queries, or blocks).

Clause 1 (consensus unperturbed) — theorems, full:
  `consensus_unperturbed`, `commit_results_unperturbed`, `queries_cannot_block_consensus`.
Clause 2a (never uncommitted writes, never a torn commit) — theorems, full:
  `snapshot_is_committed_state`, `query_reads_pinned_view`, `each_read_committed`.
Clause 2b (ONE committed height) — does NOT hold for the code as it is (known findings):
  `query_single_height_statement` is the full statement, `query_single_height_partial` proves it
  under the exact guard, `query_single_height_counterexample` refutes it on the corpus witness;
  likewise `query_header_statement` / `query_header_counterexample` for the block header.
Direction of the mix: `version_never_ahead_of_snapshot`.
Snapshot lifetime (refSnapshot): `no_use_after_close`, `snapshot_closed_iff_unreferenced`.
-/
namespace GnoVerif.C28

/-! ### Clause 1: the blocks produce what they would produce without queries -/

/-- For EVERY interleaving `tr` accepted by the model, the consensus side of the final state (DB,
live trees, collector, published commit id and header, deliver state, the list of DeliverTx results
and commit records = what the app hashes are a function of, and the history of committed DBs) is the
one the query-free run of the same consensus events produces. -/
theorem consensus_unperturbed (s s' : State) (tr : List Ev) (h : run s tr = some s') :
    runC s.cons (consEvents tr) = some s'.cons :=
  run_cons_proj tr s s' h

/-- …in particular the results (tx results, app-hash inputs) and the committed states. -/
theorem commit_results_unperturbed (a : Bool) (k : Nat) (b : Bool) (tr : List Ev) (s' : State)
    (h : run (State.init a k b) tr = some s') :
    ∃ c', runC (Cons.init a k b) (consEvents tr) = some c' ∧
      c'.results = s'.cons.results ∧ c'.hist = s'.cons.hist ∧ c'.db = s'.cons.db :=
  ⟨s'.cons, run_cons_proj tr _ s' h, rfl, rfl, rfl⟩

/-- A consensus event that the query-free run can take can be taken whatever the queries are doing
(no query state disables it), with the same effect on the consensus side. -/
theorem queries_cannot_block_consensus (c c' : Cons) (e : CEv) (h : stepC c e = some c') (q : QS) :
    step ⟨c, q⟩ (.c e) = some ⟨c', sideQ c q e⟩ := by
  simp [step, h]

example : ∃ s', run (State.init false 0 false)
    [.c .begin, .q (.height 1 false 0), .c (.tx [.w (0, 0) 1, .w (1, 0) 1, .r (1, 0)]), .q (.acquire 1), .c .endBlock,
     .c .flush, .q (.hdr 1), .c .drain, .q (.read 1 (0, 0)), .c .snap, .c .swap, .c .publishCid, .q (.release 1),
     .c .publishHdr] = some s' ∧ s'.cons.results = [.tx true [some 1], .commit 1 [((1, 0), 1)]] := by
  refine ⟨_, rfl, ?_⟩
  decide

/-! ### Clause 2a: a query reads one frozen, fully committed DB state — never uncommitted writes -/

/-- Every snapshot ever taken (current or still pinned by a query) holds the DB content after one
COMPLETE atomic write: an element of `hist`.  (By `commit_results_unperturbed`, `hist` is the same
as in the query-free run.)  Never the DB in the middle of a commit, never collector / live-tree /
deliver-state content. -/
theorem snapshot_is_committed_state (s : State) (hr : Reachable s) :
    ∀ sn ∈ s.qs.snaps, sn.content ∈ s.cons.hist := by
  rcases hr with ⟨a, k, b, tr, h⟩
  have hi := inv_run tr _ s (inv_init a k b) h
  intro sn hsn
  rcases List.getElem?_of_mem hsn with ⟨i, hi'⟩
  exact hi.snaps i sn.content (by simp [contentAt, hi'])

/-- What is pinned: a query that acquired snapshot `i` reads, for its whole life and whatever
commits happen meanwhile, exactly what the immutable multistore (content of snapshot `i`, its own
version) returns (`own` reads are served by the query's private cache). -/
theorem query_reads_pinned_view (s : State) (hr : Reachable s) (q : Query) (hq : q ∈ s.qs.queries)
    (i : Nat) (hs : q.snap = some i) :
    ∃ d, contentAt s.qs.snaps i = some d ∧ d ∈ s.cons.hist ∧
      ∀ r ∈ q.reads, r.own = false → r.val = viewGet d q.ver r.key := by
  rcases hr with ⟨a, k, b, tr, h⟩
  have hi := inv_run tr _ s (inv_init a k b) h
  exact (hi.queries q hq).2.2 i hs

/-- Never uncommitted writes: each single read of a query returns the value the key has in the
state of SOME committed height. -/
theorem each_read_committed (s : State) (hr : Reachable s) (q : Query) (hq : q ∈ s.qs.queries)
    (r : Read) (hrd : r ∈ q.reads) (hown : r.own = false) :
    ∃ d ∈ s.cons.hist, r.val = heightView d r.key := by
  have hc := reachable_cinv s hr
  cases hsn : q.snap with
  | none =>
    -- no snapshot pinned: no read can have happened
    rcases hr with ⟨a, k, b, tr, h⟩
    have hi := inv_run tr _ s (inv_init a k b) h
    have hn := (hi.queries q hq).2.1 hsn
    simp [hn] at hrd
  | some i =>
    rcases query_reads_pinned_view s hr q hq i hsn with ⟨d, _, hd, hrf⟩
    have hv := hrf r hrd hown
    by_cases hk : isVersioned r.key = true
    · rcases versioned_view hc hd q.ver with ⟨d', hd', h'⟩
      exact ⟨d', hd', by rw [hv]; exact h' r.key hk⟩
    · have hk' : isVersioned r.key = false := by simpa using hk
      exact ⟨d, hd, by rw [hv]; exact unversioned_view d q.ver r.key hk'⟩

/-! ### Clause 2b: ONE committed height -/

/-- THE FULL STATEMENT of clause 2b.  False for the code as it is: see the counterexample. -/
def query_single_height_statement : Prop :=
  ∀ s, Reachable s → ∀ q ∈ s.qs.queries, SingleHeight s.cons q

/-- Clause 2b under the exact guard: the version the query read equals the height of the snapshot
it pinned (the pair was, in effect, acquired atomically), OR the query reads only the unversioned
store, OR only versioned stores.  Missing for the full statement: nothing ties `q.ver` (read from
lastCommitID / lastBlockHeader, or named by the client) to the snapshot pinned later. -/
theorem query_single_height_partial (s : State) (hr : Reachable s) (q : Query) (hq : q ∈ s.qs.queries)
    (i : Nat) (hs : q.snap = some i) (d : DB) (hd : contentAt s.qs.snaps i = some d)
    (guard : q.ver = d.latest ∨ (∀ r ∈ q.reads, r.own = false → isVersioned r.key = false)
      ∨ (∀ r ∈ q.reads, r.own = false → isVersioned r.key = true)) :
    SingleHeight s.cons q := by
  rcases query_reads_pinned_view s hr q hq i hs with ⟨d0, hd0, hmem, hrf⟩
  have : d0 = d := by rw [hd0] at hd; cases hd; rfl
  subst this
  rcases guard with g | g | g
  · exact ⟨d0, hmem, fun r hrd hown => by rw [hrf r hrd hown, g]; rfl⟩
  · exact ⟨d0, hmem, fun r hrd hown => by
      rw [hrf r hrd hown]; exact unversioned_view d0 q.ver r.key (g r hrd hown)⟩
  · rcases versioned_view (reachable_cinv s hr) hmem q.ver with ⟨d', hd', h'⟩
    exact ⟨d', hd', fun r hrd hown => by rw [hrf r hrd hown]; exact h' r.key (g r hrd hown)⟩

/-- `cexTrace` = corpus/C28/commit-window.ops, query 1, as a model trace: block 1 writes 1, block 2
writes 2 into key 0 of the base store and of the main store; the commit of block 2 has swapped in
snapshot 2 but not yet published commit id 2; a latest-height custom query reads lastCommitID = 1,
then pins snapshot 2, and reads base = 2, main = 1.  No committed height has both. -/
theorem query_single_height_counterexample : ¬ query_single_height_statement := by
  intro h
  have h1 := h cexState ⟨false, 705, false, cexTrace, cex_reachable⟩
  revert h1
  decide

/-- the same mix for a Simulate (header height 1 read first, snapshot 2 pinned later) … -/
theorem query_single_height_counterexample_simulate :
    ∃ s, Reachable s ∧ ∃ q ∈ s.qs.queries, q.sim = true ∧ ¬ SingleHeight s.cons q :=
  ⟨finalOf cexSimTrace, ⟨false, 705, false, cexSimTrace, cexSim_run⟩, by decide⟩

/-- … and, with no concurrency at all, for a custom query naming a historic height. -/
theorem query_single_height_counterexample_historic :
    ∃ s, Reachable s ∧ ∃ q ∈ s.qs.queries, q.explicit = 1 ∧ ¬ SingleHeight s.cons q :=
  ⟨finalOf cexHistTrace, ⟨false, 705, false, cexHistTrace, cexHist_run⟩, by decide⟩

/-- the guard of the partial theorem is satisfiable by a non-trivial run: the query pinned snapshot 1
with version 1 while block 2 was being committed and sees height 1 in both stores afterwards. -/
example : Reachable (finalOf okTrace) ∧ ∃ q ∈ (finalOf okTrace).qs.queries,
    q.snap = some 1 ∧ (contentAt (finalOf okTrace).qs.snaps 1).map (·.latest) = some q.ver ∧
    q.reads.map (·.val) = [some 1, some 1] ∧ (finalOf okTrace).cons.db.latest = 2 :=
  ⟨⟨false, 705, false, okTrace, ok_run⟩, by decide⟩

/-- The direction of the mix.  Because a commit publishes snapshot, commit id and header in THIS
order, the version a latest-height query or a Simulate read is never newer than the snapshot it
pins afterwards: the versioned stores are never ahead of the unversioned one, and such a query never
fails with "no commit info for a future version". -/
theorem version_never_ahead_of_snapshot (s : State) (hr : Reachable s) (q : Query) (hq : q ∈ s.qs.queries)
    (hex : q.explicit = 0) (i : Nat) (sn : Snap) (hs : q.snap = some i) (hsn : s.qs.snaps[i]? = some sn) :
    q.ver ≤ sn.content.latest :=
  (reachable_oinv s hr).qs q hq hex i sn hs hsn

/-! ### the block header a query sees -/

/-- FULL STATEMENT for the header: the header height in the query's context is the height of the
state it reads.  False for the code as it is. -/
def query_header_statement : Prop :=
  ∀ s, Reachable s → ∀ q ∈ s.qs.queries, q.status = .released →
    ∃ d ∈ s.cons.hist, d.latest = q.hdr ∧ ∀ r ∈ q.reads, r.own = false → r.val = heightView d r.key

/-- The header clause under the exact guard: version = height of the pinned snapshot = height of
the header the query was given.  Missing for the full statement: the header is read by a separate,
unsynchronised `getLastBlockHeader()` (custom query: after the load; Simulate: before the acquire). -/
theorem query_header_partial (s : State) (hr : Reachable s) (q : Query) (hq : q ∈ s.qs.queries)
    (i : Nat) (hs : q.snap = some i) (d : DB) (hd : contentAt s.qs.snaps i = some d)
    (g1 : q.ver = d.latest) (g2 : q.hdr = q.ver) :
    ∃ d ∈ s.cons.hist, d.latest = q.hdr ∧ ∀ r ∈ q.reads, r.own = false → r.val = heightView d r.key := by
  rcases query_reads_pinned_view s hr q hq i hs with ⟨d0, hd0, hmem, hrf⟩
  have : d0 = d := by rw [hd0] at hd; cases hd; rfl
  subst this
  exact ⟨d0, hmem, by rw [g2, g1], fun r hrd hown => by rw [hrf r hrd hown, g1]; rfl⟩

/-- corpus/C28/commit-window.ops, query 2 (started after cms.Commit returned and before
setCheckState): state of height 2, header of height 1. -/
theorem query_header_counterexample : ¬ query_header_statement := by
  intro h
  have h1 := h (finalOf cexHdrTrace) ⟨false, 705, false, cexHdrTrace, cexHdr_run⟩
  revert h1
  decide

/-! ### snapshot lifetime: the reference counting of `refSnapshot` -/

/-- A query that is still running (snapshot pinned, not yet released) never reads a closed
snapshot, however many commits have swapped the store's own reference away meanwhile: its snapshot
exists, is open, and is counted. -/
theorem no_use_after_close (s : State) (hr : Reachable s) (q : Query) (hq : q ∈ s.qs.queries)
    (hfl : q.status = .acquired ∨ q.status = .ready) (i : Nat) (hs : q.snap = some i) :
    ∃ sn, s.qs.snaps[i]? = some sn ∧ sn.closed = false ∧ 1 ≤ sn.refs := by
  have hi := reachable_rinv s hr
  have hh : 1 ≤ holders s.qs.queries i := by
    have : holdsB i q = true := by
      rcases hfl with h | h <;> simp [holdsB, inFlightB, h, hs]
    exact List.countP_pos_iff.mpr ⟨q, hq, this⟩
  have hlt : i < s.qs.snaps.length := by
    by_cases hlt : i < s.qs.snaps.length
    · exact hlt
    · have := hi.out i (Nat.le_of_not_lt hlt)
      simp only [expected] at this
      omega
  refine ⟨s.qs.snaps[i], by simp [hlt], ?_, ?_⟩
  · have hr' := hi.refs i s.qs.snaps[i] (by simp [hlt])
    have hc := hi.closed i s.qs.snaps[i] (by simp [hlt])
    simp only [expected] at hr'
    cases hb : s.qs.snaps[i].closed with
    | false => rfl
    | true => have := hc.mp hb; omega
  · have hr' := hi.refs i s.qs.snaps[i] (by simp [hlt])
    simp only [expected] at hr'
    omega

/-- A snapshot is closed exactly when nobody references it any more: not the store
(`querySnapshot`), not the commit thread between NewSnapshot and Swap, no running query. -/
theorem snapshot_closed_iff_unreferenced (s : State) (hr : Reachable s) (i : Nat) (sn : Snap)
    (h : s.qs.snaps[i]? = some sn) :
    sn.closed = true ↔ (s.qs.cur ≠ some i ∧ s.qs.fresh ≠ some i ∧
      ∀ q ∈ s.qs.queries, ¬ ((q.status = .acquired ∨ q.status = .ready) ∧ q.snap = some i)) := by
  have hi := reachable_rinv s hr
  rw [hi.closed i sn h, hi.refs i sn h]
  simp only [expected, owner, holders]
  constructor
  · intro h0
    have h1 : ¬ s.qs.cur = some i := by intro hc; simp [hc] at h0
    have h2 : ¬ s.qs.fresh = some i := by intro hc; simp [hc] at h0
    have h3 : List.countP (holdsB i) s.qs.queries = 0 := by omega
    refine ⟨h1, h2, ?_⟩
    intro q hq hcon
    have := List.countP_eq_zero.mp h3 q hq
    rcases hcon with ⟨hst | hst, hsn⟩ <;> simp [holdsB, inFlightB, hst, hsn] at this
  · rintro ⟨h1, h2, h3⟩
    have : List.countP (holdsB i) s.qs.queries = 0 := by
      apply List.countP_eq_zero.mpr
      intro q hq hcon
      apply h3 q hq
      simp only [holdsB, inFlightB, Bool.and_eq_true, Bool.or_eq_true, beq_iff_eq] at hcon
      exact hcon
    simp [h1, h2, this]

end GnoVerif.C28
