import GnoVerif.Model.C28
namespace GnoVerif.C28
end GnoVerif.C28
