import GnoVerif.Model.C17
import GnoVerif.Spec.C17
import GnoVerif.Proofs.C17
/-!
# C17 — the block gas price follows its adjustment rule

Statement: "After each block the minimum gas price moves up by at least one
unit when the block used more gas than the target, moves down by at least one
unit (but never below the configured initial price) when it used less, stays
put when usage equals the target or dynamic pricing is disabled, and the
computation never overflows or panics."  Quantifier: all last prices, gas-used
values, block gas limits, target ratios and compressor parameters in their
valid int64 ranges.

The theorems are about `Model/C17.lean` (`calcPrice` = `calcBlockGasPrice`,
`update` = `UpdateGasPrice` on the one-slot store), tied to the Go code by the
correspondence run.  Reading of the statement used here:
  * target = `maxGas * ratio / 100` (integer gas units, as the code defines it);
  * "dynamic pricing disabled" = stored price 0, `TargetGasRatio = 0`, or no
    positive target (the `fix:` commit);
  * the last clause is FALSE on the unchanged tree: the increase branch panics
    when `last + step` leaves int64 (`overflow_counterexample`); it is proved
    under the exact guard that excludes this (`never_panics_partial`,
    `panics_iff`).
-/
namespace GnoVerif.C17

/-! ## Stays put -/

/-- Price 0, ratio 0, no positive target, or usage exactly on target: the price
(the whole `std.GasPrice`) is returned unchanged.  No hypothesis on the params. -/
theorem unchanged_when_idle (last : GasPrice) (used maxGas : Int) (p : Params)
    (h : Idle last used maxGas p) : calcPrice last used maxGas p = .ok last :=
  calcPrice_unchanged h

example : Idle ⟨1, "ugnot", 10⟩ 700 1000 ⟨10, 70, ⟨1, "ugnot", 1⟩⟩ := by decide          -- on target
example : Idle ⟨1, "ugnot", 10⟩ 5 1 ⟨10, 70, ⟨1, "ugnot", 1⟩⟩ := by decide               -- target rounds to 0
example : Idle ⟨1, "ugnot", 10⟩ 5 (-1) ⟨10, 70, ⟨1, "ugnot", 1⟩⟩ := by decide            -- no block gas limit

/-! ## Moves up -/

/-- Above a positive target the result is exactly `last + upStep` when that fits
in int64, and the range panic otherwise. -/
theorem increase_exact (last : GasPrice) (used maxGas : Int) (p : Params)
    (hv : ValidInputs last used maxGas p) (h1 : last.amount ≠ 0) (h2 : p.ratio ≠ 0)
    (h3 : 0 < targetGas maxGas p.ratio) (h4 : targetGas maxGas p.ratio < used) :
    calcPrice last used maxGas p =
      if last.amount + upStep last used maxGas p ≤ int64Max
      then .ok { last with amount := last.amount + upStep last used maxGas p }
      else .error .range := by
  have hc : p.compressor ≠ 0 := by have := hv.1.1; omega
  rw [calcPrice_increase h1 h2 h3 h4 hc]
  have hs := stepSize_ge_one (used - targetGas maxGas p.ratio) last.amount (targetGas maxGas p.ratio) p.compressor
  have hl := hv.2.2.1
  unfold upStep
  split
  · apply finish_ok; unfold InRange int64Min at *; omega
  · apply finish_err; unfold InRange; omega

/-- "moves up by at least one unit when the block used more gas than the
target": whenever a new price comes back, it is at least `last + 1`, and gas
unit and denom are kept. -/
theorem increase_at_least_one (last new : GasPrice) (used maxGas : Int) (p : Params)
    (hv : ValidInputs last used maxGas p) (h1 : last.amount ≠ 0) (h2 : p.ratio ≠ 0)
    (h3 : 0 < targetGas maxGas p.ratio) (h4 : targetGas maxGas p.ratio < used)
    (hr : calcPrice last used maxGas p = .ok new) :
    last.amount + 1 ≤ new.amount ∧ new.gas = last.gas ∧ new.denom = last.denom := by
  rw [increase_exact last used maxGas p hv h1 h2 h3 h4] at hr
  have hs := upStep_ge_one last used maxGas p
  split at hr
  · injection hr with hr; subst hr
    refine ⟨?_, rfl, rfl⟩
    show last.amount + 1 ≤ last.amount + upStep last used maxGas p
    omega
  · cases hr

example : ValidInputs ⟨1, "ugnot", 100⟩ 900 1000 ⟨10, 70, ⟨1, "ugnot", 1⟩⟩ ∧
    upStep ⟨1, "ugnot", 100⟩ 900 1000 ⟨10, 70, ⟨1, "ugnot", 1⟩⟩ = 2 := by decide
example : upStep ⟨1, "ugnot", 5⟩ 701 1000 ⟨10, 70, ⟨1, "ugnot", 1⟩⟩ = 1 := by decide   -- the quotient is 0, the step is still 1
-- the values the repository's own tests pin (TestCalcBlockGasPrice), computed by the model:
example : calcPrice ⟨1, "ugnot", 100⟩ 900 1000 ⟨10, 70, ⟨1, "ugnot", 1⟩⟩ = .ok ⟨1, "ugnot", 102⟩ := by rfl
example : calcPrice ⟨7, "atom", 100⟩ 7500 10000 ⟨2, 50, GasPrice.zero⟩ = .ok ⟨7, "atom", 125⟩ := by rfl
example : calcPrice ⟨7, "atom", 100⟩ 2500 10000 ⟨2, 50, GasPrice.zero⟩ = .ok ⟨7, "atom", 75⟩ := by rfl

/-! ## Moves down, never below the floor -/

/-- Below a positive target, from a price at or above the floor, the result is
exactly `max initial (last − downStep)` — never a panic. -/
theorem decrease_exact (last : GasPrice) (used maxGas : Int) (p : Params)
    (hv : ValidInputs last used maxGas p) (h1 : last.amount ≠ 0) (h2 : p.ratio ≠ 0)
    (h3 : 0 < targetGas maxGas p.ratio) (h4 : used < targetGas maxGas p.ratio)
    (h5 : p.initial.amount ≤ last.amount) :
    calcPrice last used maxGas p =
      .ok { last with amount := max (last.amount - downStep last used maxGas p) p.initial.amount } := by
  have hc : p.compressor ≠ 0 := by have := hv.1.1; omega
  rw [calcPrice_decrease h1 h2 h3 h4 h5 hc]
  have hs := stepSize_ge_one (targetGas maxGas p.ratio - used) last.amount (targetGas maxGas p.ratio) p.compressor
  have hl := hv.2.2.1
  have hi := hv.1.2.2.2.2
  unfold downStep
  apply finish_ok
  unfold InRange int64Min at *
  omega

/-- "moves down by at least one unit (but never below the configured initial
price) when it used less": strictly above the floor the new price is at most
`last − 1` and at least `initial`; exactly at the floor it stays. -/
theorem decrease_at_least_one (last new : GasPrice) (used maxGas : Int) (p : Params)
    (hv : ValidInputs last used maxGas p) (h1 : last.amount ≠ 0) (h2 : p.ratio ≠ 0)
    (h3 : 0 < targetGas maxGas p.ratio) (h4 : used < targetGas maxGas p.ratio)
    (h5 : p.initial.amount ≤ last.amount)
    (hr : calcPrice last used maxGas p = .ok new) :
    p.initial.amount ≤ new.amount ∧
    (p.initial.amount < last.amount → new.amount ≤ last.amount - 1) ∧
    (last.amount = p.initial.amount → new = last) ∧
    new.gas = last.gas ∧ new.denom = last.denom := by
  rw [decrease_exact last used maxGas p hv h1 h2 h3 h4 h5] at hr
  have hs := downStep_ge_one last used maxGas p
  injection hr with hr; subst hr
  refine ⟨?_, ?_, ?_, rfl, rfl⟩
  · show p.initial.amount ≤ max (last.amount - downStep last used maxGas p) p.initial.amount
    omega
  · show p.initial.amount < last.amount →
      max (last.amount - downStep last used maxGas p) p.initial.amount ≤ last.amount - 1
    omega
  · intro he
    have : max (last.amount - downStep last used maxGas p) p.initial.amount = last.amount := by omega
    rw [this]

example : ValidInputs ⟨1, "ugnot", 100⟩ 0 1000 ⟨10, 70, ⟨1, "ugnot", 1⟩⟩ ∧
    downStep ⟨1, "ugnot", 100⟩ 0 1000 ⟨10, 70, ⟨1, "ugnot", 1⟩⟩ = 10 := by decide
example : downStep ⟨1, "ugnot", 9⟩ 0 1000 ⟨10, 70, ⟨1, "ugnot", 1⟩⟩ = 1 := by decide   -- the ratchet case of issue #5906

/-- What the code does when the stored price is BELOW the floor and usage is
below target (only reachable after governance raised `initial_gasprice`): it
returns the whole `InitialGasPrice`, i.e. the price jumps UP to the floor.  The
statement's "moves down … never below the initial price" cannot both hold
there; the floor wins. -/
theorem below_floor_jumps_to_initial (last : GasPrice) (used maxGas : Int) (p : Params)
    (h1 : last.amount ≠ 0) (h2 : p.ratio ≠ 0)
    (h3 : 0 < targetGas maxGas p.ratio) (h4 : used < targetGas maxGas p.ratio)
    (h5 : last.amount < p.initial.amount) :
    calcPrice last used maxGas p = .ok p.initial :=
  calcPrice_below_floor h1 h2 h3 h4 h5

example : calcPrice ⟨1, "ugnot", 10⟩ 0 1000 ⟨10, 70, ⟨7, "atom", 50⟩⟩ = .ok ⟨7, "atom", 50⟩ :=
  below_floor_jumps_to_initial _ _ _ _ (by decide) (by decide) (by decide) (by decide) (by decide)

/-- The floor is an invariant: a price at or above `initial` never ends below it,
whatever the block did — so with unchanged params the below-floor case above
never arises (the chain starts at `initial`). -/
theorem floor_invariant (last new : GasPrice) (used maxGas : Int) (p : Params)
    (hv : ValidInputs last used maxGas p) (h5 : p.initial.amount ≤ last.amount)
    (hr : calcPrice last used maxGas p = .ok new) : p.initial.amount ≤ new.amount := by
  by_cases hi : Idle last used maxGas p
  · rw [unchanged_when_idle last used maxGas p hi] at hr
    injection hr with hr; subst hr; exact h5
  · unfold Idle at hi
    have h1 : last.amount ≠ 0 := fun h => hi (Or.inl h)
    have h2 : p.ratio ≠ 0 := fun h => hi (Or.inr (Or.inl h))
    have h3 : 0 < targetGas maxGas p.ratio := by
      have : ¬ targetGas maxGas p.ratio ≤ 0 := fun h => hi (Or.inr (Or.inr (Or.inl h)))
      omega
    have h4 : used ≠ targetGas maxGas p.ratio := fun h => hi (Or.inr (Or.inr (Or.inr h)))
    by_cases hlt : used < targetGas maxGas p.ratio
    · exact (decrease_at_least_one last new used maxGas p hv h1 h2 h3 hlt h5 hr).1
    · have hgt : targetGas maxGas p.ratio < used := by omega
      have := (increase_at_least_one last new used maxGas p hv h1 h2 h3 hgt hr).1
      omega

example : (1 : Int) ≤ 99 :=   -- floor 1, price 100, idle block: the new price 90 stays ≥ 1
  have h : calcPrice ⟨1, "ugnot", 100⟩ 0 1000 ⟨10, 70, ⟨1, "ugnot", 1⟩⟩ = .ok ⟨1, "ugnot", 90⟩ := by rfl
  Int.le_trans (floor_invariant _ _ _ _ _ (by decide) (by decide) h) (by decide)

/-! ## The rounding of the step -/

/-- The two nested Euclidean divisions are one floor: for a positive target and
compressor, `step = max 1 ⌊ dist · last / (target · c) ⌋`, and that quotient `q`
is pinned by `target·c·q ≤ dist·last < target·c·(q+1)`. -/
theorem step_is_single_floor (dist last target c : Int) (ht : 0 < target) (hc : 0 < c) :
    stepSize dist last target c = max (dist * last / (target * c)) 1 ∧
    target * c * (dist * last / (target * c)) ≤ dist * last ∧
    dist * last < target * c * (dist * last / (target * c) + 1) := by
  have hpos : 0 < target * c := Int.mul_pos ht hc
  refine ⟨?_, ?_, ?_⟩
  · unfold stepSize; rw [Int.ediv_ediv_of_nonneg (Int.le_of_lt ht)]
  · exact Int.mul_ediv_self_le (Int.ne_of_gt hpos)
  · have := Int.lt_mul_ediv_self_add (x := dist * last) hpos
    rw [Int.mul_add, Int.mul_one]; exact this

example : stepSize 200 100 700 10 = 2 ∧ (200 * 100 : Int) / (700 * 10) = 2 := by decide

/-! ## Never overflows or panics -/

/-- The clause as stated — FALSE on the unchanged tree, see `overflow_counterexample`. -/
def never_panics_statement : Prop :=
  ∀ (last : GasPrice) (used maxGas : Int) (p : Params),
    ValidInputs last used maxGas p → ∃ new, calcPrice last used maxGas p = .ok new

/-- Exact characterisation: on valid inputs the function panics iff the increase
branch's `last + step` exceeds `MaxInt64`, and then with the range panic. -/
theorem panics_iff (last : GasPrice) (used maxGas : Int) (p : Params)
    (hv : ValidInputs last used maxGas p) (e : Panic) :
    calcPrice last used maxGas p = .error e ↔ (e = .range ∧ Overflows last used maxGas p) := by
  by_cases hi : Idle last used maxGas p
  · rw [unchanged_when_idle last used maxGas p hi]
    constructor
    · intro h; cases h
    · rintro ⟨_, h1, h2, h3, h4, _⟩
      unfold Idle at hi
      rcases hi with hi | hi | hi | hi
      · exact absurd hi h1
      · exact absurd hi h2
      · omega
      · omega
  · unfold Idle at hi
    have h1 : last.amount ≠ 0 := fun h => hi (Or.inl h)
    have h2 : p.ratio ≠ 0 := fun h => hi (Or.inr (Or.inl h))
    have h3 : 0 < targetGas maxGas p.ratio := by
      have : ¬ targetGas maxGas p.ratio ≤ 0 := fun h => hi (Or.inr (Or.inr (Or.inl h)))
      omega
    have h4 : used ≠ targetGas maxGas p.ratio := fun h => hi (Or.inr (Or.inr (Or.inr h)))
    by_cases hlt : used < targetGas maxGas p.ratio
    · have hno : ¬ Overflows last used maxGas p := by
        rintro ⟨_, _, _, h, _⟩; omega
      by_cases h5 : p.initial.amount ≤ last.amount
      · rw [decrease_exact last used maxGas p hv h1 h2 h3 hlt h5]
        constructor
        · intro h; cases h
        · rintro ⟨_, h⟩; exact absurd h hno
      · rw [below_floor_jumps_to_initial last used maxGas p h1 h2 h3 hlt (by omega)]
        constructor
        · intro h; cases h
        · rintro ⟨_, h⟩; exact absurd h hno
    · have hgt : targetGas maxGas p.ratio < used := by omega
      rw [increase_exact last used maxGas p hv h1 h2 h3 hgt]
      split
      · next hle =>
        constructor
        · intro h; cases h
        · rintro ⟨_, _, _, _, _, h⟩; omega
      · next hnle =>
        constructor
        · intro h; injection h with h; subst h
          exact ⟨rfl, h1, h2, h3, hgt, by omega⟩
        · rintro ⟨he, _⟩; subst he; rfl

/-- "the computation never overflows or panics", under the exact guard that the
increased price fits in int64 (`¬ Overflows`; by `panics_iff` nothing weaker
works).  What is missing for the full clause is precisely the overflow case. -/
theorem never_panics_partial (last : GasPrice) (used maxGas : Int) (p : Params)
    (hv : ValidInputs last used maxGas p) (hfit : ¬ Overflows last used maxGas p) :
    ∃ new, calcPrice last used maxGas p = .ok new := by
  cases hr : calcPrice last used maxGas p with
  | ok new => exact ⟨new, rfl⟩
  | error e => exact absurd ((panics_iff last used maxGas p hv e).1 hr).2 hfit

example : ValidInputs ⟨1, "ugnot", 100⟩ 900 1000 ⟨10, 70, ⟨1, "ugnot", 1⟩⟩ ∧
    ¬ Overflows ⟨1, "ugnot", 100⟩ 900 1000 ⟨10, 70, ⟨1, "ugnot", 1⟩⟩ := by
  refine ⟨by decide, ?_⟩
  rintro ⟨_, _, _, _, h⟩
  revert h; decide

/-- The witness pinned by the repository's own test `TestCalcBlockGasPrice/int64_overflow`
(price `MaxInt64`, gas used one above a 7 000 000 target, default params): valid
inputs, and the function panics.  Replayed on the real keeper by
`corpus/C17/00-overflow-witness.ops`. -/
theorem overflow_counterexample : ¬ never_panics_statement := by
  intro h
  have hv : ValidInputs ⟨1, "ugnot", 9223372036854775807⟩ 7000001 10000000 ⟨10, 70, ⟨1, "ugnot", 1⟩⟩ := by decide
  obtain ⟨new, hn⟩ := h _ _ _ _ hv
  have hov : Overflows ⟨1, "ugnot", 9223372036854775807⟩ 7000001 10000000 ⟨10, 70, ⟨1, "ugnot", 1⟩⟩ := by
    refine ⟨by decide, by decide, by decide, by decide, ?_⟩
    decide
  have := (panics_iff _ _ _ _ hv .range).2 ⟨rfl, hov⟩
  rw [this] at hn
  cases hn

/-- The overflow is not confined to `MaxInt64` itself: a price of 2^62 doubles
(usage at twice the target, compressor 1) and leaves int64 as well. -/
theorem overflow_counterexample_proportional :
    calcPrice ⟨1, "ugnot", 4611686018427387904⟩ 1400 1000 ⟨1, 70, ⟨1, "ugnot", 1⟩⟩ = .error .range := by
  have hv : ValidInputs ⟨1, "ugnot", 4611686018427387904⟩ 1400 1000 ⟨1, 70, ⟨1, "ugnot", 1⟩⟩ := by decide
  refine (panics_iff _ _ _ _ hv .range).2 ⟨rfl, by decide, by decide, by decide, by decide, ?_⟩
  decide

/-! ## No ratchet: an idle chain brings the price back to the floor -/

/-- Over any run of under-target blocks (same params) the computation never
panics, the price never drops below the floor, and after `n` such blocks it is
at most `max initial (last − n)`: within `last − initial` blocks it is back at
`initial` (the behaviour issue #5906 asked for). -/
theorem idle_chain_decays (maxGas : Int) (p : Params) (us : List Int) (last : GasPrice)
    (hp : p.Valid) (hm : InRange maxGas)
    (hpr : InRange p.ratio ∧ InRange p.compressor ∧ InRange p.initial.amount)
    (h2 : p.ratio ≠ 0) (h3 : 0 < targetGas maxGas p.ratio)
    (hus : ∀ u ∈ us, 0 ≤ u ∧ InRange u ∧ u < targetGas maxGas p.ratio)
    (hl : InRange last.amount) (h5 : p.initial.amount ≤ last.amount) :
    ∃ g, runBlocks maxGas p last us = .ok g ∧ p.initial.amount ≤ g.amount ∧
      g.amount ≤ max p.initial.amount (last.amount - us.length) ∧ g.gas = last.gas := by
  have hi0 : 0 ≤ p.initial.amount := hp.2.2.2.2
  induction us generalizing last with
  | nil => exact ⟨last, rfl, h5, by simp only [List.length_nil]; omega, rfl⟩
  | cons u us ih =>
    obtain ⟨hu0, hur, hut⟩ := hus u (List.mem_cons_self ..)
    have hus' : ∀ v ∈ us, 0 ≤ v ∧ InRange v ∧ v < targetGas maxGas p.ratio :=
      fun v hv => hus v (List.mem_cons_of_mem _ hv)
    have hv : ValidInputs last u maxGas p := ⟨hp, by omega, hl, hu0, hur, hm, hpr.1, hpr.2.1, hpr.2.2⟩
    by_cases h1 : last.amount = 0
    · have hc : calcPrice last u maxGas p = .ok last := unchanged_when_idle _ _ _ _ (Or.inl h1)
      obtain ⟨g, hg, ha, hb, hgas⟩ := ih last hus' hl h5
      refine ⟨g, by simp only [runBlocks, hc]; exact hg, ha, ?_, hgas⟩
      simp only [List.length_cons]; omega
    · have hc := decrease_exact last u maxGas p hv h1 h2 h3 hut h5
      have hd := downStep_ge_one last u maxGas p
      let nxt : GasPrice := { last with amount := max (last.amount - downStep last u maxGas p) p.initial.amount }
      have hn1 : p.initial.amount ≤ nxt.amount := by
        show p.initial.amount ≤ max (last.amount - downStep last u maxGas p) p.initial.amount
        omega
      have hn2 : nxt.amount ≤ max p.initial.amount (last.amount - 1) := by
        show max (last.amount - downStep last u maxGas p) p.initial.amount ≤ _
        omega
      have hnr : InRange nxt.amount := by
        unfold InRange int64Min at *; omega
      obtain ⟨g, hg, ha, hb, hgas⟩ := ih nxt hus' hnr hn1
      refine ⟨g, by simp only [runBlocks, hc]; exact hg, ha, ?_, hgas⟩
      simp only [List.length_cons]; omega

example : runBlocks 1000 ⟨10, 70, ⟨1, "ugnot", 20⟩⟩ ⟨1, "ugnot", 25⟩ [0, 0, 0, 0, 0] = .ok ⟨1, "ugnot", 20⟩ := by
  rfl

-- the hypotheses of `idle_chain_decays` on that run: five idle blocks from 25 with floor 20
example : ∃ g, runBlocks 1000 ⟨10, 70, ⟨1, "ugnot", 20⟩⟩ ⟨1, "ugnot", 25⟩ [0, 699, 0, 3, 0] = .ok g ∧
    (20 : Int) ≤ g.amount ∧ g.amount ≤ max 20 (25 - 5) ∧ g.gas = 1 :=
  idle_chain_decays 1000 ⟨10, 70, ⟨1, "ugnot", 20⟩⟩ [0, 699, 0, 3, 0] ⟨1, "ugnot", 25⟩
    (by decide) (by decide) (by decide) (by decide) (by decide) (by decide) (by decide) (by decide)

/-! ## `UpdateGasPrice`: what the EndBlocker writes, observed through `LastGasPrice` -/

/-- A negative reading of the block gas meter makes `UpdateGasPrice` return at once. -/
theorem update_ignores_negative_gas (s : Store) (used maxGas : Int) (p : Params) (h : used < 0) :
    update s used maxGas p = .ok s := by
  simp [update, h]

/-- A panic of the computation is a panic of the EndBlocker (nothing is written). -/
theorem update_propagates_panic (s : Store) (lgp : GasPrice) (used maxGas : Int) (p : Params) (e : Panic)
    (hu : 0 ≤ used) (hl : lastGasPrice s = .ok lgp) (hr : calcPrice lgp used maxGas p = .error e) :
    update s used maxGas p = .error e := by
  have : ¬ used < 0 := by omega
  simp [update, this, hl, hr]

/-- Otherwise the computed price is what `LastGasPrice` returns after the block
(in its stored form: same gas unit and amount, the denom dropped at amount 0),
and the store is not touched when the price did not change (the skip-write
rule).  Hypothesis `hne`: the new price does not encode to nothing — a price
"0 per 0 gas" with a denom is not `std.GasPrice{}` yet cannot be stored. -/
theorem update_follows_calc (s : Store) (lgp new : GasPrice) (used maxGas : Int) (p : Params)
    (hu : 0 ≤ used) (hl : lastGasPrice s = .ok lgp) (hr : calcPrice lgp used maxGas p = .ok new)
    (hn : 0 ≤ new.amount) (hne : new.gas ≠ 0 ∨ new.amount ≠ 0 ∨ new = lgp) :
    ∃ s', update s used maxGas p = .ok s' ∧ lastGasPrice s' = .ok (stored new) ∧ (new = lgp → s' = s) := by
  have hu' : ¬ used < 0 := by omega
  by_cases he : new = lgp
  · subst he
    refine ⟨s, by simp [update, hu', hl, hr], ?_, fun _ => rfl⟩
    rw [(lastGasPrice_ok hl).1]; exact hl
  · have hz : new ≠ GasPrice.zero := by
      intro hz; subst hz
      rcases hne with h | h | h
      · exact h rfl
      · exact h rfl
      · exact he h
    have hq : ¬ (new.gas = 0 ∧ new.amount = 0) := by
      rintro ⟨h1, h2⟩
      rcases hne with h | h | h
      · exact h h1
      · exact h h2
      · exact he h
    refine ⟨some new, by simp [update, hu', hl, hr, he, setGasPrice, hz, hq], ?_, fun h => absurd h he⟩
    have : ¬ new.amount < 0 := by omega
    simp [lastGasPrice, this]

example : ∃ s', update (some ⟨1, "ugnot", 100⟩) 900 1000 ⟨10, 70, ⟨1, "ugnot", 1⟩⟩ = .ok s' ∧
    lastGasPrice s' = .ok (stored ⟨1, "ugnot", 102⟩) ∧
    ((⟨1, "ugnot", 102⟩ : GasPrice) = ⟨1, "ugnot", 100⟩ → s' = some ⟨1, "ugnot", 100⟩) :=
  update_follows_calc (some ⟨1, "ugnot", 100⟩) ⟨1, "ugnot", 100⟩ ⟨1, "ugnot", 102⟩ 900 1000 ⟨10, 70, ⟨1, "ugnot", 1⟩⟩
    (by decide) (by simp [lastGasPrice, stored]) (by rfl) (by decide) (Or.inl (by decide))

/-- THE STATEMENT, end to end, minus the overflow case: for every store whose
price reads back as `lgp`, valid inputs, a price per a non-zero number of gas
units, and an increase that fits in int64, `UpdateGasPrice` returns normally
and the price read afterwards obeys the rule (`PriceRule`): unchanged when
idle or on target, up by ≥ 1 above target, down by ≥ 1 but not below the floor
under target (staying at the floor once there; jumping to it from below). -/
theorem end_block_rule_partial (s : Store) (lgp : GasPrice) (used maxGas : Int) (p : Params)
    (hl : lastGasPrice s = .ok lgp) (hv : ValidInputs lgp used maxGas p)
    (hgas : lgp.amount ≠ 0 → lgp.gas ≠ 0) (hfit : ¬ Overflows lgp used maxGas p) :
    ∃ s' g, update s used maxGas p = .ok s' ∧ lastGasPrice s' = .ok g ∧
      PriceRule lgp.amount g.amount used (targetGas maxGas p.ratio) p.ratio p.initial.amount := by
  have hu : 0 ≤ used := hv.2.2.2.1
  have h0 : 0 ≤ lgp.amount := hv.2.1
  have hi0 : 0 ≤ p.initial.amount := hv.1.2.2.2.2
  obtain ⟨new, hr⟩ := never_panics_partial lgp used maxGas p hv hfit
  -- the rule on (lgp, new)
  have rule : PriceRule lgp.amount new.amount used (targetGas maxGas p.ratio) p.ratio p.initial.amount ∧
      0 ≤ new.amount ∧ (new.gas ≠ 0 ∨ new.amount ≠ 0 ∨ new = lgp) := by
    by_cases hi : Idle lgp used maxGas p
    · have hn := hr
      rw [unchanged_when_idle lgp used maxGas p hi] at hn
      injection hn with hn; subst hn
      unfold Idle at hi
      refine ⟨⟨fun _ => rfl, ?_, ?_⟩, h0, Or.inr (Or.inr rfl)⟩
      · intro a b c d; rcases hi with hi | hi | hi | hi <;> omega
      · intro a b c d; rcases hi with hi | hi | hi | hi <;> omega
    · unfold Idle at hi
      have h1 : lgp.amount ≠ 0 := fun h => hi (Or.inl h)
      have h2 : p.ratio ≠ 0 := fun h => hi (Or.inr (Or.inl h))
      have h3 : 0 < targetGas maxGas p.ratio := by
        have : ¬ targetGas maxGas p.ratio ≤ 0 := fun h => hi (Or.inr (Or.inr (Or.inl h)))
        omega
      have h4 : used ≠ targetGas maxGas p.ratio := fun h => hi (Or.inr (Or.inr (Or.inr h)))
      by_cases hlt : used < targetGas maxGas p.ratio
      · by_cases h5 : p.initial.amount ≤ lgp.amount
        · obtain ⟨a, b, c, d, _⟩ := decrease_at_least_one lgp new used maxGas p hv h1 h2 h3 hlt h5 hr
          refine ⟨⟨?_, ?_, ?_⟩, by omega, Or.inl (by rw [d]; exact hgas h1)⟩
          · intro h; rcases h with h | h | h | h <;> omega
          · intro _ _ _ h; omega
          · intro _ _ _ _
            exact ⟨a, b, fun h => by rw [c h], fun h => by omega⟩
        · have hn := hr
          rw [below_floor_jumps_to_initial lgp used maxGas p h1 h2 h3 hlt (by omega)] at hn
          injection hn with hn; subst hn
          refine ⟨⟨?_, ?_, ?_⟩, hi0, Or.inr (Or.inl (by omega))⟩
          · intro h; rcases h with h | h | h | h <;> omega
          · intro _ _ _ h; omega
          · intro _ _ _ _
            exact ⟨Int.le_refl _, fun h => by omega, fun h => by omega, fun _ => rfl⟩
      · have hgt : targetGas maxGas p.ratio < used := by omega
        obtain ⟨a, b, _⟩ := increase_at_least_one lgp new used maxGas p hv h1 h2 h3 hgt hr
        refine ⟨⟨?_, ?_, ?_⟩, by omega, Or.inr (Or.inl (by omega))⟩
        · intro h; rcases h with h | h | h | h <;> omega
        · intro _ _ _ _; exact a
        · intro _ _ _ h; omega
  obtain ⟨s', hs', hg', _⟩ := update_follows_calc s lgp new used maxGas p hu hl hr rule.2.1 rule.2.2
  refine ⟨s', stored new, hs', hg', ?_⟩
  rw [stored_amount]; exact rule.1

example : lastGasPrice (some ⟨1, "ugnot", 100⟩) = .ok ⟨1, "ugnot", 100⟩ ∧
    ValidInputs ⟨1, "ugnot", 100⟩ 900 1000 ⟨10, 70, ⟨1, "ugnot", 1⟩⟩ ∧
    ¬ Overflows ⟨1, "ugnot", 100⟩ 900 1000 ⟨10, 70, ⟨1, "ugnot", 1⟩⟩ :=
  ⟨by simp [lastGasPrice, stored], by decide, by decide⟩

/-- The statement end to end, as stated (no overflow guard) — FALSE, see
`end_block_counterexample`. -/
def end_block_rule_statement : Prop :=
  ∀ (s : Store) (lgp : GasPrice) (used maxGas : Int) (p : Params),
    lastGasPrice s = .ok lgp → ValidInputs lgp used maxGas p → (lgp.amount ≠ 0 → lgp.gas ≠ 0) →
    ∃ s' g, update s used maxGas p = .ok s' ∧ lastGasPrice s' = .ok g ∧
      PriceRule lgp.amount g.amount used (targetGas maxGas p.ratio) p.ratio p.initial.amount

/-- On the overflow witness the EndBlocker itself panics. -/
theorem end_block_counterexample : ¬ end_block_rule_statement := by
  intro h
  have hv : ValidInputs ⟨1, "ugnot", 9223372036854775807⟩ 7000001 10000000 ⟨10, 70, ⟨1, "ugnot", 1⟩⟩ := by decide
  have hl : lastGasPrice (some ⟨1, "ugnot", 9223372036854775807⟩) = .ok ⟨1, "ugnot", 9223372036854775807⟩ := by
    simp [lastGasPrice, stored]
  obtain ⟨s', g, hs', _⟩ := h _ _ _ _ _ hl hv (by decide)
  have hov : Overflows ⟨1, "ugnot", 9223372036854775807⟩ 7000001 10000000 ⟨10, 70, ⟨1, "ugnot", 1⟩⟩ := by
    refine ⟨by decide, by decide, by decide, by decide, ?_⟩
    decide
  have hp := (panics_iff _ _ _ _ hv .range).2 ⟨rfl, hov⟩
  rw [update_propagates_panic _ _ _ _ _ .range (by decide) hl hp] at hs'
  cases hs'

end GnoVerif.C17
