import GnoVerif.Model.C17
namespace GnoVerif.C17

theorem placeholder : stepSize 200 100 700 10 = 2 := by decide

end GnoVerif.C17
