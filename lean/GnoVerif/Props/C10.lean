import GnoVerif.Model.C10Gas
import GnoVerif.Model.C02RunTx
import GnoVerif.Proofs.C10Gas
import GnoVerif.Proofs.C02RunTx
import GnoVerif.Props.C02
/-!
# C10 — gas metering is sound and consistent

Theorems about the gas meters (`Model/C10Gas.lean`, the model of
tm2/pkg/store/types/gas.go) and about gas accounting in `runTx`
(`Model/C02RunTx.lean`).

What is a theorem, clause by clause of the statement:

* "reported gas used is at most gas wanted" — FALSE on the unchanged tree for
  out-of-gas transactions (`gas_used_exceeds_wanted_counterexample`: 80 > 70);
  proved for every other outcome (`gas_used_le_wanted_partial`), and the
  mechanism is pinned down (`basic_consume_adds_before_check`).
* "a tx that would exceed it fails out-of-gas, its message effects are discarded,
  its fee is kept" — `oog_discards_effects_keeps_fee`.
* "the same tx from the same state uses the same gas" — the model is a function
  (`gas_deterministic`, trivial); that the real code is a function of (state, tx) is
  only checked by running every harness case on two independent apps.
* "the gas of a block's txs is charged to the block" — `block_charged_once`,
  `block_charge_amount`.
* "a block never processes a tx once the block gas limit is exhausted" —
  `block_exhausted_tx_not_run`, `block_exhausted_stays_exhausted`.
* "any Gno program stops within its gas limit" — NOT a theorem and not even
  expressible in this model (it is a universal statement about the GnoVM: every
  unbounded-work path must charge gas).  Residual; covered only by the
  correspondence run of real Gno programs on a real Machine (harness/cmd/c10/gno.go).
-/
namespace GnoVerif.C10
open GnoVerif.C02

/-! ## the meters -/

/-- after ANY sequence of ConsumeGas / RefundGas calls (panicking or not) a basic
meter's `consumed` is never negative -/
theorem basic_consumed_nonneg (limit : Int) (g : Basic) (ops : List MOp) (h : Basic.new limit = .ok g) :
    0 ≤ (g.run ops).consumed ∧ (g.run ops).limit = limit ∧ 0 ≤ limit := by
  unfold Basic.new at h
  split at h
  · cases h
  · cases h
    exact ⟨Basic.run_nonneg ops _ (Int.le_refl 0), Basic.run_limit ops _, by omega⟩

/-- `ConsumeGas` returns normally iff the amount is not negative and the new total
is within the limit; it then stores exactly the new total -/
theorem basic_consume_returns_iff (g : Basic) (a : Int) (h0 : 0 ≤ g.consumed) (hl : g.limit ≤ maxI64) :
    ((g.consume a).2 = none ↔ (0 ≤ a ∧ g.consumed + a ≤ g.limit)) ∧
    ((g.consume a).2 = none → (g.consume a).1.consumed = g.consumed + a) := by
  rcases Basic.consume_cases g a with ⟨hn, hc⟩ | ⟨hn, hi, hc⟩ | ⟨hn, hi, hc⟩
  · rw [hc]; simp <;> omega
  · rw [hc]
    have : ¬ (g.consumed + a ≤ g.limit) := by
      intro hle
      have : inI64 (g.consumed + a) = true := by
        rw [inI64_iff]; unfold minI64 maxI64 at *; omega
      rw [this] at hi; cases hi
    simp [this]
  · rw [hc]
    by_cases hgt : g.consumed + a > g.limit
    · simp [hgt] <;> omega
    · simp [hgt] <;> omega

/-- the quirk behind the finding: when `ConsumeGas` panics out-of-gas the meter has
ALREADY stored the sum, which is past the limit -/
theorem basic_consume_adds_before_check (g : Basic) (a : Int) (h : (g.consume a).2 = some .oog) :
    (g.consume a).1.consumed = g.consumed + a ∧ g.limit < (g.consume a).1.consumed := by
  rcases Basic.consume_cases g a with ⟨_, hc⟩ | ⟨_, _, hc⟩ | ⟨_, _, hc⟩
  · rw [hc] at h; cases h
  · rw [hc] at h; cases h
  · rw [hc] at h ⊢
    by_cases hgt : g.consumed + a > g.limit
    · simp; omega
    · simp [hgt] at h

/-- overflow and negative amounts leave the meter untouched -/
theorem basic_consume_rejected_unchanged (g : Basic) (a : Int)
    (h : (g.consume a).2 = some .negative ∨ (g.consume a).2 = some .overflow) : (g.consume a).1 = g := by
  rcases Basic.consume_cases g a with ⟨_, hc⟩ | ⟨_, _, hc⟩ | ⟨_, _, hc⟩
  · rw [hc]
  · rw [hc]
  · rw [hc] at h
    by_cases hgt : g.consumed + a > g.limit <;> simp [hgt] at h

/-- `GasConsumedToLimit` never exceeds the limit and equals min(consumed, limit) -/
theorem basic_consumedToLimit_le_limit (g : Basic) :
    g.consumedToLimit ≤ g.limit ∧ g.consumedToLimit ≤ g.consumed ∧
    (g.consumedToLimit = g.limit ∨ g.consumedToLimit = g.consumed) := by
  refine ⟨Basic.consumedToLimit_le g, Basic.consumedToLimit_le_consumed g, ?_⟩
  rw [Basic.consumedToLimit_eq]; split <;> simp

/-- `RefundGas` clamps at zero -/
theorem basic_refund_clamps (g : Basic) (a : Int) (h0 : 0 ≤ g.consumed) (ha : 0 ≤ a) :
    (g.refund a).2 = none ∧ (g.refund a).1.consumed = (if a > g.consumed then 0 else g.consumed - a) ∧
    0 ≤ (g.refund a).1.consumed := by
  have hna : ¬ a < 0 := by omega
  have e : g.refund a = ({ g with consumed := g.consumed - (if a > g.consumed then g.consumed else a) }, none) := by
    simp [Basic.refund, hna]
  rw [e]
  refine ⟨rfl, ?_, ?_⟩
  · show g.consumed - (if a > g.consumed then g.consumed else a) = _
    by_cases h : a > g.consumed <;> simp [h]
  · show 0 ≤ g.consumed - (if a > g.consumed then g.consumed else a)
    by_cases h : a > g.consumed <;> simp [h] <;> omega

/-- `Remaining()` of a well-formed basic meter never panics and lies in [0, limit] -/
theorem basic_remaining_ok (g : Basic) (h0 : 0 ≤ g.consumed) (hl : g.limit ≤ maxI64) :
    ∃ r, g.remaining = .ok r ∧ 0 ≤ r ∧ r = g.limit - g.consumedToLimit := by
  obtain ⟨r, hr, hr0⟩ := blockWF_remaining (.basic g) (.inl ⟨g, rfl, h0, hl⟩)
  refine ⟨r, hr, hr0, ?_⟩
  simp only [Meter.remaining, Basic.remaining] at hr
  split at hr
  · cases hr; rfl
  · cases hr

/-- the infinite meter never reports out-of-gas -/
theorem infinite_never_out_of_gas (c a : Int) :
    ((Meter.infinite c).consume a).2 ≠ some .oog ∧ ((Meter.infinite c).consume a).1.isOutOfGas = false := by
  simp only [Meter.consume]
  split <;> simp [Meter.isOutOfGas]

/-- the passthrough meter returns normally iff its base and its head both do; the
head is not charged when the base panics -/
theorem passthrough_consume (base : Meter) (h : Basic) (a : Int) :
    (((Meter.pass base h).consume a).2 = none ↔ ((base.consume a).2 = none ∧ (h.consume a).2 = none)) ∧
    ((base.consume a).2 ≠ none → ((Meter.pass base h).consume a).1 = .pass (base.consume a).1 h) := by
  simp only [Meter.consume]
  cases hb : (base.consume a).2 with
  | none => simp
  | some e => simp

/-! ## gas accounting of a transaction -/

/-- The statement's first clause on the model, for a tx whose ante handler installs
`NewGasMeter(gasWanted)` (production: auth.SetGasMeter) and completes. -/
def gas_used_le_wanted_statement : Prop :=
  ∀ (tx : Tx) (parent : Store) (block ctxMeter : Meter) (vm : Store),
    tx.ante.kind = .basic → BlockWF block →
    (runTx .deliver tx parent block ctxMeter vm).anteDone = true →
    (runTx .deliver tx parent block ctxMeter vm).gasUsed ≤ (runTx .deliver tx parent block ctxMeter vm).gasWanted

/-- gasWanted 70; the ante uses 10, the message 70: out of gas at 80 -/
def oogTx : Tx :=
  { decodable := true, gasWanted := 70,
    ante := { kind := .basic, recovers := false, pre := [], steps := [.write "x/66" "01", .consume 10] },
    msgs := [{ valid := true, routable := true, steps := [.write "x/61" "01", .consume 70] }] }

/-- KNOWN FINDING (known_findings/C10.json `gasused-exceeds-wanted-on-oog`): the
out-of-gas tx reports GasUsed = 80 > GasWanted = 70; the block is charged 70. -/
theorem gas_used_exceeds_wanted_counterexample : ¬ gas_used_le_wanted_statement := by
  intro h
  have := h oogTx [] (.basic { limit := 1000, consumed := 0 }) (.infinite 0) [] rfl
    (.inl ⟨_, rfl, by decide, by decide⟩) (by decide)
  revert this
  decide

/-- the numbers of the finding, as the harness observes them on the real BaseApp -/
theorem gas_used_exceeds_wanted_witness :
    (runTx .deliver oogTx [] (.basic { limit := 1000, consumed := 0 }) (.infinite 0) []).res = .oog ∧
    (runTx .deliver oogTx [] (.basic { limit := 1000, consumed := 0 }) (.infinite 0) []).gasUsed = 80 ∧
    (runTx .deliver oogTx [] (.basic { limit := 1000, consumed := 0 }) (.infinite 0) []).gasWanted = 70 ∧
    (runTx .deliver oogTx [] (.basic { limit := 1000, consumed := 0 }) (.infinite 0) []).block.gasConsumed = 70 ∧
    (runTx .deliver oogTx [] (.basic { limit := 1000, consumed := 0 }) (.infinite 0) []).store
      = [("x/66", some "01")] := by
  decide

/-- KNOWN FINDING, int64 corner (`gasused-exceeds-wanted-on-oog-block-overflow`): on an
unlimited block meter holding 9223372036854775800 the deferred block charge of the same
tx overflows; the gas-overflow panic replaces the out-of-gas one: internal error, 80 > 70 -/
theorem oog_masked_by_block_overflow_witness :
    (runTx .deliver oogTx [] (.infinite 9223372036854775800) (.infinite 0) []).res = .internal ∧
    (runTx .deliver oogTx [] (.infinite 9223372036854775800) (.infinite 0) []).gasUsed = 80 ∧
    (runTx .deliver oogTx [] (.infinite 9223372036854775800) (.infinite 0) []).gasWanted = 70 := by
  decide

/-- GasUsed ≤ GasWanted for EVERY outcome other than out-of-gas (success, message
error, any other panic, block … ), for a tx metered by `NewGasMeter(gasWanted)` whose
ante completed — provided the block charge cannot overflow int64 (which excludes only
the corner of `oog_masked_by_block_overflow_witness`). -/
theorem gas_used_le_wanted_partial (tx : Tx) (parent : Store) (block ctxMeter : Meter) (vm : Store)
    (hk : tx.ante.kind = .basic) (hb : BlockWF block) (h0 : 0 ≤ block.gasConsumed)
    (hno : inI64 (block.gasConsumed + tx.gasWanted) = true)
    (hd : (runTx .deliver tx parent block ctxMeter vm).anteDone = true)
    (hne : (runTx .deliver tx parent block ctxMeter vm).res ≠ .oog) :
    (runTx .deliver tx parent block ctxMeter vm).gasUsed ≤
      (runTx .deliver tx parent block ctxMeter vm).gasWanted := by
  unfold runTx at hd hne ⊢
  rcases runTx_deliver_cases finishDeliver tx parent block ctxMeter vm with e | ⟨head, _, _, _, e⟩ | ⟨head, _, _, _, e⟩
  · rw [e] at hd; cases hd
  · rw [e] at hd; cases hd
  · rw [e] at hd hne ⊢
    exact runFrame_gas tx _ (fresh_init parent block (Meter.pass ctxMeter head) vm block.gasConsumed) hk
      hb.simple h0 hno (Int.le_refl _) hd hne

/-- an out-of-gas tx keeps the fee (ante writes) and discards every message effect -/
theorem oog_discards_effects_keeps_fee (tx : Tx) (parent : Store) (block ctxMeter : Meter) (vm : Store)
    (h : (runTx .deliver tx parent block ctxMeter vm).res = .oog) :
    (runTx .deliver tx parent block ctxMeter vm).store =
      (if (runTx .deliver tx parent block ctxMeter vm).anteDone = true then anteW tx ++ parent else parent) ∧
    (runTx .deliver tx parent block ctxMeter vm).vm = vm := by
  have := deliver_failed_only_ante_effects tx parent block ctxMeter vm (by rw [h]; simp)
  exact ⟨this.1, this.2.1⟩

/-- determinism: gas is a function of (state, tx) in the model — trivially, because the
model IS a function; nothing about map order, caches or time enters it. -/
theorem gas_deterministic (a a' : App) (tx tx' : Tx) (ha : a = a') (ht : tx = tx') :
    (a.deliverTx tx).map (fun r => (r.2.gasUsed, r.2.gasWanted)) =
    (a'.deliverTx tx').map (fun r => (r.2.gasUsed, r.2.gasWanted)) := by
  subst ha; subst ht; rfl

/-! ## the block gas meter -/

/-- a tx arriving at an exhausted block meter is not processed at all: no ante, no
message, no state change, no charge; it is reported out-of-gas with 0 / 0 -/
theorem block_exhausted_tx_not_run (tx : Tx) (parent : Store) (block ctxMeter : Meter) (vm : Store)
    (hwf : BlockWF block) (h : block.isOutOfGas = true) :
    (runTx .deliver tx parent block ctxMeter vm).res = .oog ∧
    (runTx .deliver tx parent block ctxMeter vm).anteRan = false ∧
    (runTx .deliver tx parent block ctxMeter vm).msgsRan = 0 ∧
    (runTx .deliver tx parent block ctxMeter vm).store = parent ∧
    (runTx .deliver tx parent block ctxMeter vm).vm = vm ∧
    (runTx .deliver tx parent block ctxMeter vm).block = block ∧
    (runTx .deliver tx parent block ctxMeter vm).gasUsed = 0 ∧
    (runTx .deliver tx parent block ctxMeter vm).gasWanted = 0 := by
  have hc := runTx_no_crash finishDeliver tx parent block ctxMeter vm hwf
  unfold runTx
  rcases runTx_deliver_cases finishDeliver tx parent block ctxMeter vm with e | ⟨head, _, _, h0, e⟩ | ⟨head, hf, _, _, _⟩
  · rw [e] at hc; cases hc
  · rw [e]
    refine ⟨rfl, rfl, rfl, rfl, rfl, rfl, ?_, rfl⟩
    show (Meter.pass ctxMeter head).gasConsumed = 0
    exact h0
  · rw [h] at hf; cases hf

/-- every tx that is processed charges the block meter exactly once, with
`GasConsumedToLimit()` of its final gas meter — whether it succeeded, failed or
panicked; a tx reported OK was charged without crossing the block limit -/
theorem block_charged_once (tx : Tx) (parent : Store) (block ctxMeter : Meter) (vm : Store)
    (hwf : BlockWF block) (h : block.isOutOfGas = false) :
    (runTx .deliver tx parent block ctxMeter vm).block =
      (block.consume (runTx .deliver tx parent block ctxMeter vm).cur.consumedToLimit).1 ∧
    ((runTx .deliver tx parent block ctxMeter vm).res = .ok →
      (block.consume (runTx .deliver tx parent block ctxMeter vm).cur.consumedToLimit).2 = none) := by
  have hc := runTx_no_crash finishDeliver tx parent block ctxMeter vm hwf
  unfold runTx at hc ⊢
  rcases runTx_deliver_cases finishDeliver tx parent block ctxMeter vm with e | ⟨head, ht, _, _, _⟩ | ⟨head, _, _, _, e⟩
  · rw [e] at hc; cases hc
  · rw [h] at ht; cases ht
  · rw [e]
    exact runFrame_block tx _ (fresh_init parent block (Meter.pass ctxMeter head) vm block.gasConsumed)

/-- … so the block's consumed gas grows by exactly that amount (whenever the sum
fits int64 — otherwise the meter rejects the charge and the tx fails) -/
theorem block_charge_amount (tx : Tx) (parent : Store) (block ctxMeter : Meter) (vm : Store)
    (hwf : BlockWF block) (h : block.isOutOfGas = false)
    (hT : 0 ≤ (runTx .deliver tx parent block ctxMeter vm).cur.consumedToLimit)
    (hno : inI64 (block.gasConsumed + (runTx .deliver tx parent block ctxMeter vm).cur.consumedToLimit) = true) :
    (runTx .deliver tx parent block ctxMeter vm).block.gasConsumed =
      block.gasConsumed + (runTx .deliver tx parent block ctxMeter vm).cur.consumedToLimit := by
  rw [(block_charged_once tx parent block ctxMeter vm hwf h).1]
  exact (consume_simple block _ hwf.simple hT hno).1

/-- a tx reported OK never leaves the block meter past its limit: a tx that would
cross the block gas limit is a failed tx (and, by C02, has only its ante effects) -/
theorem deliver_ok_block_within_limit (tx : Tx) (parent : Store) (block ctxMeter : Meter) (vm : Store)
    (hwf : BlockWF block) (hok : (runTx .deliver tx parent block ctxMeter vm).res = .ok) :
    (runTx .deliver tx parent block ctxMeter vm).block.isPastLimit = false := by
  by_cases h : block.isOutOfGas = true
  · have := (block_exhausted_tx_not_run tx parent block ctxMeter vm hwf h).1
    rw [this] at hok; cases hok
  · have hf : block.isOutOfGas = false := by simpa using h
    have hb := block_charged_once tx parent block ctxMeter vm hwf hf
    rw [hb.1]
    have hnone := hb.2 hok
    generalize (runTx .deliver tx parent block ctxMeter vm).cur.consumedToLimit = T at hnone ⊢
    rcases hwf with ⟨b, hbb, _, _⟩ | ⟨c, hcc⟩
    · rw [hbb] at hnone ⊢
      simp only [Meter.consume] at hnone ⊢
      simp only [Meter.isPastLimit, Basic.isPastLimit]
      rcases Basic.consume_cases b T with ⟨_, hc⟩ | ⟨_, _, hc⟩ | ⟨_, _, hc⟩
      · rw [hc] at hnone; cases hnone
      · rw [hc] at hnone; cases hnone
      · rw [hc] at hnone ⊢
        by_cases hgt : b.consumed + T > b.limit
        · simp [hgt] at hnone
        · simp; omega
    · rw [hcc]; simp only [Meter.consume]; split <;> rfl

/-- the block meter stays well-formed, and never decreases, across a tx -/
theorem block_meter_monotone (tx : Tx) (parent : Store) (block ctxMeter : Meter) (vm : Store)
    (hwf : BlockWF block) :
    BlockWF (runTx .deliver tx parent block ctxMeter vm).block ∧
    (block.isOutOfGas = true → (runTx .deliver tx parent block ctxMeter vm).block = block) := by
  refine ⟨?_, fun h => (block_exhausted_tx_not_run tx parent block ctxMeter vm hwf h).2.2.2.2.2.1⟩
  by_cases h : block.isOutOfGas = true
  · rw [(block_exhausted_tx_not_run tx parent block ctxMeter vm hwf h).2.2.2.2.2.1]; exact hwf
  · have hf : block.isOutOfGas = false := by simpa using h
    rw [(block_charged_once tx parent block ctxMeter vm hwf hf).1]
    exact blockWF_consume block _ hwf

/-- once the block gas limit is exhausted, NO later tx of the block is processed and the
deliver state does not change any more, however many txs follow -/
theorem block_exhausted_stays_exhausted (txs : List Tx) (a : App) (b : Blk) (hd : a.deliver = some b)
    (hb : b.begun = true) (hwf : BlockWF b.block) (hx : b.block.isOutOfGas = true) :
    (∀ o ∈ (a.deliverAll txs).2, o.res = .oog ∧ o.anteRan = false ∧ o.msgsRan = 0) ∧
    (∃ b', (a.deliverAll txs).1.deliver = some b' ∧ b'.store = b.store ∧ b'.block = b.block) ∧
    (a.deliverAll txs).1.vm = a.vm := by
  induction txs generalizing a b with
  | nil => exact ⟨by simp [App.deliverAll], ⟨b, hd, rfl, rfl⟩, rfl⟩
  | cons tx rest ih =>
    have hx' := block_exhausted_tx_not_run tx b.store b.block b.ctxMeter a.vm hwf hx
    have hdt : a.deliverTx tx = some
        ({ a with deliver := some { b with store := (runTx .deliver tx b.store b.block b.ctxMeter a.vm).store,
                                            block := (runTx .deliver tx b.store b.block b.ctxMeter a.vm).block,
                                            ctxMeter := (runTx .deliver tx b.store b.block b.ctxMeter a.vm).incoming.baseOf },
                   vm := (runTx .deliver tx b.store b.block b.ctxMeter a.vm).vm },
         runTx .deliver tx b.store b.block b.ctxMeter a.vm) := by
      simp [App.deliverTx, hd, hb]
    simp only [App.deliverAll, hdt]
    have ih' := ih
      { a with deliver := some { b with store := (runTx .deliver tx b.store b.block b.ctxMeter a.vm).store,
                                          block := (runTx .deliver tx b.store b.block b.ctxMeter a.vm).block,
                                          ctxMeter := (runTx .deliver tx b.store b.block b.ctxMeter a.vm).incoming.baseOf },
                 vm := (runTx .deliver tx b.store b.block b.ctxMeter a.vm).vm }
      { b with store := (runTx .deliver tx b.store b.block b.ctxMeter a.vm).store,
               block := (runTx .deliver tx b.store b.block b.ctxMeter a.vm).block,
               ctxMeter := (runTx .deliver tx b.store b.block b.ctxMeter a.vm).incoming.baseOf }
      rfl hb (by show BlockWF (runTx .deliver tx b.store b.block b.ctxMeter a.vm).block
                 rw [hx'.2.2.2.2.2.1]; exact hwf)
      (by show (runTx .deliver tx b.store b.block b.ctxMeter a.vm).block.isOutOfGas = true
          rw [hx'.2.2.2.2.2.1]; exact hx)
    refine ⟨?_, ?_, ?_⟩
    · intro o ho
      rcases List.mem_cons.mp ho with h | h
      · rw [h]; exact ⟨hx'.1, hx'.2.1, hx'.2.2.1⟩
      · exact ih'.1 o h
    · obtain ⟨b', h1, h2, h3⟩ := ih'.2.1
      exact ⟨b', h1, by rw [h2]; exact hx'.2.2.2.1, by rw [h3]; exact hx'.2.2.2.2.2.1⟩
    · rw [ih'.2.2]; exact hx'.2.2.2.2.1

/-- CheckTx and Simulate never touch the block gas meter -/
theorem check_simulate_never_charge_block (tx : Tx) (parent : Store) (block ctxMeter : Meter) (vm : Store) :
    (runTx .check tx parent block ctxMeter vm).block = block ∧
    (runTx .simulate tx parent block ctxMeter vm).block = block :=
  ⟨(check_writes_ante_only tx parent block ctxMeter vm).2.2.2.2.1,
   (simulate_writes_nothing tx parent block ctxMeter vm).2.2.2⟩

/-- the prelude of DeliverTx's runTx (Remaining / NewPassthroughGasMeter) cannot panic on a
block meter installed by BeginBlock, in any state charging can bring it to -/
theorem no_crash (tx : Tx) (parent : Store) (block ctxMeter : Meter) (vm : Store) (hwf : BlockWF block) :
    (runTx .deliver tx parent block ctxMeter vm).crash = false :=
  runTx_no_crash finishDeliver tx parent block ctxMeter vm hwf

/-- … and BeginBlock installs such a meter for every int64 MaxGas ≥ -1 -/
theorem begin_block_meter_wf (maxGas : Int) (h : maxGas ≤ maxI64) : BlockWF (blockMeterFor maxGas) := by
  unfold blockMeterFor
  split
  · exact .inl ⟨_, rfl, Int.le_refl 0, h⟩
  · exact .inr ⟨0, rfl⟩

/-! ## non-vacuity -/

/-- hypotheses of `gas_used_le_wanted_partial` hold for a failing (non-OOG) and for a succeeding tx -/
example :
    (runTx .deliver { oogTx with msgs := [{ valid := true, routable := true, steps := [.consume 30, .panic] }] }
      [] (.basic { limit := 1000, consumed := 0 }) (.infinite 0) []).anteDone = true ∧
    (runTx .deliver { oogTx with msgs := [{ valid := true, routable := true, steps := [.consume 30, .panic] }] }
      [] (.basic { limit := 1000, consumed := 0 }) (.infinite 0) []).res = .internal ∧
    (runTx .deliver { oogTx with msgs := [{ valid := true, routable := true, steps := [.consume 30, .panic] }] }
      [] (.basic { limit := 1000, consumed := 0 }) (.infinite 0) []).gasUsed = 40 := by decide

/-- hypotheses of `block_exhausted_tx_not_run` / `block_exhausted_stays_exhausted` -/
example : BlockWF (.basic { limit := 100, consumed := 121 }) ∧
    (Meter.basic { limit := 100, consumed := 121 }).isOutOfGas = true :=
  ⟨.inl ⟨_, rfl, by decide, by decide⟩, by decide⟩

/-- hypotheses of `block_charged_once` / `deliver_ok_block_within_limit` -/
example : (Meter.basic { limit := 100, consumed := 60 }).isOutOfGas = false ∧
    (runTx .deliver { oogTx with gasWanted := 200 } [] (.basic { limit := 1000, consumed := 60 }) (.infinite 0) []).res = .ok := by
  decide

end GnoVerif.C10
