import GnoVerif.Proofs.C12Ex
/-!
C12 — published package code is immutable and namespace-protected.

Theorems about the model `GnoVerif.Model.C12` of `VMKeeper.AddPackage`
(gno.land/pkg/sdk/vm/keeper.go), the mempackage store
(gnovm/pkg/gnolang/store.go) and the `vm/qfile` read path.  `run s ops` is the
chain state after ANY finite history `ops` of deployment messages (arbitrary
path strings, file sets, creators, heights, gnomod.toml contents, VM verdicts),
registry deployments, registrations and parameter changes.

Clauses of the statement and where they are:
* "no later transaction can replace or alter [a public package's] code":
  `public_never_redeployed`, `public_code_immutable_step`, `public_code_immutable`.
* "the source returned by queries always equals what was deployed (with the
  deployment metadata added)": `query_returns_deployed`, `query_file_returns_deployed`,
  `query_listing_returns_deployed`, `stored_is_submission_plus_metadata`,
  and for ever after: `deployed_public_code_forever`.
* "accepted only for valid paths under the chain domain": `accepted_only_valid_path`.
* "only by an address authorized for the namespace when a namespace registry is
  configured": `accepted_only_authorized`.
* redeploys: `private_replaced_only_by_private_realm`; test-only file sets:
  `accepted_only_with_production_file`; atomicity: `failed_tx_writes_nothing`.
* "/p/ package state cannot be mutated after initialization" is a property of the
  GnoVM's write gate (realm.go DidUpdate), NOT of this model: it is checked by
  correspondence only (`pmut` ops of the harness); see `p_state_immutable_statement`.
Helper lemmas: Proofs/C12.lean, Proofs/C12Sort.lean.
-/
namespace GnoVerif.C12
open GnoVerif

/-- a deployable path: under the chain domain, a well-formed /r/ or /p/ path, not a test path,
    without the reserved `#`, at most 256 bytes. -/
def ValidDeployPath (p : Bytes) : Prop :=
  hasPrefix L_domainSlash p = true ∧ isUserPath p = true ∧
  (isRealmPath p = true ∨ isPPackagePath p = true) ∧
  hasSuffix L_test p = false ∧ hasSuffix L_filetest p = false ∧ cHash ∉ p ∧ p.length ≤ 256

/-- Deployments are accepted only for valid paths under the chain domain. -/
theorem accepted_only_valid_path (s : State) (m : Msg) (h : (addPackage s m).2 = .ok) :
    ValidDeployPath m.path := by
  have acc := accepted_of_ok (ok_decision h)
  have hb := acc.basic
  simp only [stdValidateBasic, Bool.and_eq_true, decide_eq_true_eq] at hb
  exact ⟨acc.domain, acc.user, acc.rp, acc.notTest.1, acc.notTest.2, contains_false_iff.1 acc.noHash, hb.1.1.1.1.1.2⟩

/-- non-vacuity: from genesis, account 0 deploys the public realm gno.land/r/aa and is accepted. -/
example : (addPackage State.init (exMsg false 0 exBody)).2 = .ok := by decide

/-- Deployments are accepted only from an address that has an account (not the zero address). -/
theorem accepted_only_with_account (s : State) (m : Msg) (h : (addPackage s m).2 = .ok) :
    m.acct ≠ 3 ∧ m.acct ≠ 4 :=
  ⟨(accepted_of_ok (ok_decision h)).acct3, (accepted_of_ok (ok_decision h)).acct4⟩

/-- Test-only file sets are rejected: an accepted package has a production .gno file. -/
theorem accepted_only_with_production_file (s : State) (m : Msg) (h : (addPackage s m).2 = .ok) :
    ∃ f ∈ m.files, hasSuffix L_dotGno f.name = true ∧ isTestFile f.name = false := by
  have := (accepted_of_ok (ok_decision h)).prod
  simp only [hasProd, List.any_eq_true, Bool.and_eq_true, Bool.not_eq_true'] at this
  exact this

/-- When a namespace registry is configured (param set and registry realm deployed), a deployment
    is accepted only from an address the registry authorizes for the path's namespace. -/
theorem accepted_only_authorized (s : State) (m : Msg) (h : (addPackage s m).2 = .ok)
    (hreg : registryOn s = true) : authorized s m.acct (namespaceOf m.path) = true :=
  (accepted_of_ok (ok_decision h)).auth hreg

/-- non-vacuity: registry deployed, account 0 registered namespace `aa`, then deploys gno.land/r/aa;
    account 1 is refused for the same namespace. -/
example :
    let s := run State.init [.names 0, .reg 0 exName]
    registryOn s = true ∧ (addPackage s (exMsg false 0 exBody)).2 = .ok ∧
      (addPackage s (exMsg false 1 exBody)).2 = .unauthorized := by decide

/-- A path holding a public package never accepts another deployment. -/
theorem public_never_redeployed (s : State) (m : Msg) (hp : OMap.get s.pkgs m.path = some false) :
    (addPackage s m).2 ≠ .ok ∧ (addPackage s m).1 = s := by
  have hd : addDecision s m ≠ .ok := fun hd => (accepted_of_ok hd).notPublic hp
  rw [addPackage_fail hd]
  exact ⟨hd, rfl⟩

/-- non-vacuity: after the deployment the path holds a public package; the redeploy (other source,
    other creator, even a private one) answers `exists_`. -/
example :
    let s := (addPackage State.init (exMsg false 0 exBody)).1
    OMap.get s.pkgs exPath = some false ∧ (addPackage s (exMsg false 1 exBody2)).2 = .exists_ ∧
      (addPackage s (exMsg true 0 exBody2)).2 = .exists_ := by decide

/-- A private package can be replaced only by a private realm. -/
theorem private_replaced_only_by_private_realm (s : State) (m : Msg)
    (hp : OMap.get s.pkgs m.path = some true) (h : (addPackage s m).2 = .ok) :
    m.gm.priv = true ∧ isRealmPath m.path = true ∧ OMap.get (addPackage s m).1.pkgs m.path = some true := by
  have hd := ok_decision h
  have acc := accepted_of_ok hd
  have hpriv := acc.privKeep hp
  refine ⟨hpriv, acc.privRealm hpriv, ?_⟩
  rw [addPackage_ok hd, applyAdd_pkgs]; simp [hpriv]

/-- non-vacuity: a private realm is redeployed privately (accepted) and publicly (refused). -/
example :
    let s := (addPackage State.init (exMsg true 0 exBody)).1
    OMap.get s.pkgs exPath = some true ∧ (addPackage s (exMsg true 1 exBody2)).2 = .ok ∧
      (addPackage s (exMsg false 1 exBody2)).2 = .package := by decide

/-- A message that is not accepted writes nothing (transaction atomicity as run by baseapp). -/
theorem failed_tx_writes_nothing (s : State) (m : Msg) (h : (addPackage s m).2 ≠ .ok) :
    (addPackage s m).1 = s := by
  by_cases hd : addDecision s m = .ok
  · rw [addPackage_ok hd] at h; exact absurd rfl h
  · rw [addPackage_fail hd]

/-- non-vacuity: a deployment from the address without account fails. -/
example : (addPackage State.init (exMsg false 3 exBody)).2 ≠ .ok := by decide

/-- What is stored is the submission, file by file, with only gnomod.toml replaced by the patched
    text (module = path, creator, height — `renderGm`). -/
theorem stored_is_submission_plus_metadata (m : Msg) :
    (stored m).map (·.name) = m.files.map (·.name) ∧
    (∀ f ∈ m.files, ∀ b, f.body = some b → (⟨f.name, b⟩ : File) ∈ stored m) ∧
    (∀ f ∈ m.files, f.body = none → (⟨f.name, renderGm m⟩ : File) ∈ stored m) := by
  refine ⟨stored_names m, ?_, ?_⟩
  · intro f hf b hb
    simp only [stored, List.mem_map]
    exact ⟨f, hf, by simp [hb]⟩
  · intro f hf hb
    simp only [stored, List.mem_map]
    exact ⟨f, hf, by simp [hb]⟩

/-- Right after an accepted deployment the package read back through `GetMemPackageAll`
    (what vm/qfile serves) is exactly the stored list, in the deployed order. -/
theorem query_returns_deployed (s : State) (hi : Inv s) (m : Msg) (h : (addPackage s m).2 = .ok) :
    memPackageAll (addPackage s m).1 m.path = .some (stored m) := by
  have hd := ok_decision h
  rw [addPackage_ok hd]
  exact memPackageAll_applyAdd hi (accepted_of_ok hd)

/-- non-vacuity: genesis satisfies the invariant and accepts the example deployment. -/
example : Inv State.init ∧ (addPackage State.init (exMsg false 0 exBody)).2 = .ok := ⟨inv_init, by decide⟩

/-- vm/qfile of a file of the package returns the deployed body (gnomod.toml: the patched text). -/
theorem query_file_returns_deployed (s : State) (hi : Inv s) (m : Msg) (h : (addPackage s m).2 = .ok)
    (fp : Bytes) (f : File) (hf : f ∈ stored m) (hne : f.name ≠ [])
    (hsplit : splitFilepath fp = (m.path, f.name)) :
    queryFile (addPackage s m).1 fp = .file f.body := by
  have hq := query_returns_deployed s hi m h
  have hs := stored_sorted (accepted_of_ok (ok_decision h)).basic
  unfold queryFile
  simp only [hsplit, hq]
  have : f.name.isEmpty = false := by cases hn : f.name <;> simp_all
  simp only [this, Bool.false_eq_true, if_false, find_by_name hs hf]

/-- non-vacuity: the query path "gno.land/r/aa/aa.gno" splits into (package path, file name) and the
    file is part of the stored package. -/
example : splitFilepath exFilePath = (exPath, exFileName) ∧ exFileName ≠ [] ∧
    (⟨exFileName, exBody⟩ : File) ∈ stored (exMsg false 0 exBody) := by decide

/-- vm/qfile of the package path lists exactly the deployed file names, in order. -/
theorem query_listing_returns_deployed (s : State) (hi : Inv s) (m : Msg) (h : (addPackage s m).2 = .ok)
    (fp : Bytes) (hsplit : splitFilepath fp = (m.path, [])) :
    queryFile (addPackage s m).1 fp = .listing (joinWith [10] (m.files.map (·.name))) := by
  have hq := query_returns_deployed s hi m h
  unfold queryFile
  simp only [hsplit, hq, List.isEmpty_nil, if_true, stored_names]

/-- non-vacuity: the query path "gno.land/r/aa" names the package itself. -/
example : splitFilepath exPath = (exPath, []) := by decide

/-- One step of ANY operation leaves a public package's flag and both of its blobs unchanged. -/
theorem public_code_immutable_step (s : State) (hi : Inv s) (p : Bytes)
    (hp : OMap.get s.pkgs p = some false) (op : Op) :
    OMap.get (step s op).1.pkgs p = some false ∧ memPackageAll (step s op).1 p = memPackageAll s p := by
  have h := public_step hi hp op
  exact ⟨h.1, memPackageAll_congr h.2.1 h.2.2⟩

/-- non-vacuity: the state after the example deployment satisfies the invariant and holds a public package. -/
example :
    Inv (addPackage State.init (exMsg false 0 exBody)).1 ∧
    OMap.get (addPackage State.init (exMsg false 0 exBody)).1.pkgs exPath = some false :=
  ⟨inv_addPackage _ inv_init, by decide⟩

/-- Over ANY history, a public package stays public, its code as served by `GetMemPackageAll`
    never changes, and every vm/qfile query into it returns what it returned before. -/
theorem public_code_immutable (s : State) (hi : Inv s) (p : Bytes)
    (hp : OMap.get s.pkgs p = some false) (ops : List Op) :
    OMap.get (run s ops).pkgs p = some false ∧
    memPackageAll (run s ops) p = memPackageAll s p ∧
    ∀ fp, (splitFilepath fp).1 = p → queryFile (run s ops) fp = queryFile s fp := by
  have h := public_run hi hp ops
  have hm : memPackageAll (run s ops) p = memPackageAll s p := memPackageAll_congr h.2.1 h.2.2
  refine ⟨h.1, hm, ?_⟩
  intro fp hfp
  apply queryFile_congr
  rw [hfp]; exact hm

/-- every state reachable from genesis satisfies the invariant the theorems above assume. -/
theorem reachable_inv (ops : List Op) : Inv (run State.init ops) := inv_run ops inv_init

/-- The statement's first sentence, end to end: after ANY history `before`, once a PUBLIC package
    is accepted at a path, then after ANY later history `after` the code served for that path is
    still exactly what was deployed (with the metadata patch), and the path is still public. -/
theorem deployed_public_code_forever (before : List Op) (m : Msg) (after : List Op)
    (h : (addPackage (run State.init before) m).2 = .ok) (hpub : m.gm.priv = false) :
    let s' := (addPackage (run State.init before) m).1
    memPackageAll (run s' after) m.path = .some (stored m) ∧
    OMap.get (run s' after).pkgs m.path = some false := by
  intro s'
  have hi := reachable_inv before
  have hd := ok_decision h
  have hi' : Inv s' := inv_addPackage m hi
  have hp : OMap.get s'.pkgs m.path = some false := by
    show OMap.get (addPackage (run State.init before) m).1.pkgs m.path = some false
    rw [addPackage_ok hd, applyAdd_pkgs]; simp [hpub]
  have him := public_code_immutable s' hi' m.path hp after
  exact ⟨him.2.1.trans (query_returns_deployed _ hi m h), him.1⟩

/-- non-vacuity: with the registry deployed and the namespace registered beforehand, the public
    example deployment is accepted. -/
example : (addPackage (run State.init [.names 0, .reg 0 exName]) (exMsg false 0 exBody)).2 = .ok ∧
    (exMsg false 0 exBody).gm.priv = false := by decide

/-- NOT a theorem of this model (GnoVM write gate; checked by correspondence only): after a /p/
    package's initialization, no program can change the package's state.  Kept as the visible
    statement of the residual clause, over an abstract VM transition relation. -/
def p_state_immutable_statement (VMState : Type) (exec : VMState → VMState → Prop)
    (pState : VMState → Bytes → Option Bytes) : Prop :=
  ∀ (v v' : VMState) (p : Bytes), isPPackagePath p = true → exec v v' → pState v p ≠ none → pState v' p = pState v p

end GnoVerif.C12
