/-
C16 — session keys cannot exceed their spend limit or allowed actions.

Theorems about the executable model `GnoVerif/Model/C16.lean` (a line-by-line reading of
`auth/spend.go`, `auth/ante.go`, `auth/handler.go`, `bank/keeper.go`, gnoland's
`checkSessionRestrictions`, the VM keeper's Send / storage-deposit paths and `baseapp.runTx`),
in the vocabulary of `GnoVerif/Model/C16Spec.lean`:

* `Op.signedBy m k`   the operation is a transaction that master `m` signs through session key `k`;
* `outflow m k d w o` what left `m`'s balance in denom `d` while such an operation ran (else 0);
* `SamePeriod m k r w ops`  after every operation of `ops` the session is stored with period start `r`
                      ("within one spend period");
* `NoCreate m k ops`  no `MsgCreateSession` for `(m,k)` in `ops` (the run stays with one grant);
* `WFS s` / `WF w`    a session record / every record is well-formed (valid coin sets, `used ≤ limit`);
                      `sessions_always_wellformed` shows this for every reachable state.

All theorems hold for every history: any interleaving of block-time changes (also backwards),
funding, and transactions with any number of messages and signers, failing or not.
Helper lemmas: `GnoVerif/Proofs/C16{Coins,Spend,World,Tx,Keep,Hist,Final,Now}.lean`.
What is NOT a theorem here (see props/C16.json): that the model is the code (differential
correspondence against the real gno.land application on every run) and that no other code path
moves coins out of an account (extracted call-site facts + the harness's balance monitor).
-/
import GnoVerif.Proofs.C16Now
namespace GnoVerif.C16

/-! ### concrete witnesses used by the `example`s (evaluated by the kernel, `decide`) -/

/-- genesis, then: fund master 0, master 0 grants key 0 a limit of 500ugnot per 100 s, any action -/
def exSetup : List Op := [
  .fund (.m 0) [("atom", 9), ("ugnot", 1000)],
  .tx { auth := [], fee := ("ugnot", 1), msgs := [.create 0 0 1000500 100 [("ugnot", 500)] ["*"]] }]

/-- two session-signed transactions; the second one's last message fails after fee and send -/
def exSpend : List Op := [
  .tx { auth := [(0, 0)], fee := ("ugnot", 1), msgs := [.send 0 (.a 0) [("ugnot", 10)]] },
  .tx { auth := [(0, 0)], fee := ("ugnot", 2), msgs := [.send 0 (.a 0) [("ugnot", 20)], .exec 0 0 .fail []] },
  .tx { auth := [(0, 0)], fee := ("ugnot", 1), msgs := [.exec 0 1 (.grow 203) [("ugnot", 6)]] }]

def exWorld : World := run World.init exSetup

/-- **Spend limit.**  Within one spend period of one grant, everything that transactions
    signed with the session key moved out of the master account — gas fees, sends, coins
    attached to calls and run scripts, storage deposits, through any number of messages,
    including transactions whose messages failed after the fee was taken — stays within the
    session's spend limit, denom by denom. -/
theorem spend_within_period (w : World) (ops : List Op) (m k : Nat) (r : Int) (d : Denom)
    (hwf : ∀ s, sessionOf w m k = some s → WFS s) (hne : ops ≠ [])
    (hnc : NoCreate m k ops) (hper : SamePeriod m k r w ops) :
    ∃ s, sessionOf (run w ops) m k = some s ∧
      totalOutflow m k d w ops ≤ amountOf s.used d ∧ amountOf s.used d ≤ amountOf s.limit d := by
  obtain ⟨s, hs, _, hws, hb⟩ := hist_bound (d := d) ops w hne hwf hnc hper
  have := base_nonneg (m := m) (k := k) (r := r) (d := d) hwf
  exact ⟨s, hs, by omega, hws.le d⟩

set_option maxRecDepth 100000 in
/-- non-vacuous: the witness history satisfies the hypotheses; it moves 1+10, then 2 (the fee of the
    tx whose message failed), then 1+6+300 (fee, Send, storage deposit for 3 bytes) = 320 ≤ 500. -/
example : totalOutflow 0 0 "ugnot" exWorld exSpend = 320 ∧
    (sessionOf (run exWorld exSpend) 0 0).map (fun s => (s.used, s.limit)) = some ([("ugnot", 320)], [("ugnot", 500)]) := by
  decide

set_option maxRecDepth 100000 in
example : ∃ s, sessionOf (run exWorld exSpend) 0 0 = some s ∧
    totalOutflow 0 0 "ugnot" exWorld exSpend ≤ amountOf s.used "ugnot" ∧ amountOf s.used "ugnot" ≤ amountOf s.limit "ugnot" :=
  spend_within_period exWorld exSpend 0 0 1000000 "ugnot"
    (fun s h => run_WF init_WF exSetup _ s h) (by decide) (by decide) (samePeriodB_iff (by decide))

set_option maxRecDepth 100000 in
/-- the bound is reached exactly: fee 1 + send 499 = 500 leaves, and one more ugnot is refused -/
example :
    totalOutflow 0 0 "ugnot" exWorld
      [.tx { auth := [(0, 0)], fee := ("ugnot", 1), msgs := [.send 0 (.a 0) [("ugnot", 499)]] }] = 500 ∧
    errOf (runTx exWorld { auth := [(0, 0)], fee := ("ugnot", 1), msgs := [.send 0 (.a 0) [("ugnot", 500)]] }).2
      = some .sessionNotAllowed := by
  decide

/-- The same for every history that starts at genesis: no assumption on the state is left. -/
theorem spend_within_period_all_histories (pre ops : List Op) (m k : Nat) (r : Int) (d : Denom)
    (hne : ops ≠ []) (hnc : NoCreate m k ops) (hper : SamePeriod m k r (run World.init pre) ops) :
    ∃ s, sessionOf (run World.init (pre ++ ops)) m k = some s ∧
      totalOutflow m k d (run World.init pre) ops ≤ amountOf s.limit d := by
  have hw : WF (run World.init pre) := run_WF init_WF pre
  obtain ⟨s, hs, h1, h2⟩ := spend_within_period (run World.init pre) ops m k r d
    (fun s h => hw _ s h) hne hnc hper
  exact ⟨s, by rw [run_append]; exact hs, Int.le_trans h1 h2⟩

set_option maxRecDepth 100000 in
example : ∃ s, sessionOf (run World.init (exSetup ++ exSpend)) 0 0 = some s ∧
    totalOutflow 0 0 "ugnot" (run World.init exSetup) exSpend ≤ amountOf s.limit "ugnot" :=
  spend_within_period_all_histories exSetup exSpend 0 0 1000000 "ugnot" (by decide) (by decide)
    (samePeriodB_iff (by decide))

/-- A denom that the limit does not name can never be spent through the session: one
    operation at a time, in every state (an empty limit therefore allows nothing at all). -/
theorem denom_outside_limit_never_leaves (w : World) (o : Op) (m k : Nat) (d : Denom)
    (hwf : ∀ s, sessionOf w m k = some s → WFS s) (hnc : o.creates m k = false)
    (hlim : ∀ s, sessionOf (step w o) m k = some s → amountOf s.limit d = 0) :
    outflow m k d w o = 0 := by
  have h0 := outflow_nonneg m k d w o
  cases h1 : sessionOf (step w o) m k with
  | some s1 =>
    obtain ⟨hw1, hb⟩ := step_bound (d := d) hwf hnc h1 rfl
    have := base_nonneg (m := m) (k := k) (r := s1.reset) (d := d) hwf
    have := hw1.le d
    have := hlim s1 h1
    omega
  | none =>
    -- no record afterwards: a signed transaction then kept nothing
    unfold outflow
    split
    · rename_i hs
      cases o with
      | tx t =>
        rcases runTx_signed d (by simpa [Op.signedBy] using hs) hwf with e | inv
        · simp [step, e]
        · obtain ⟨s', hs', _⟩ := inv.has
          unfold sessionOf at h1
          simp only [step] at h1
          rw [hs'] at h1; cases h1
      | time t => simp [Op.signedBy] at hs
      | fund a amt => simp [Op.signedBy] at hs
    · rfl

set_option maxRecDepth 100000 in
/-- non-vacuous: the master holds 9atom, the session names only ugnot; the send of 1atom is refused -/
example : outflow 0 0 "atom" exWorld
    (.tx { auth := [(0, 0)], fee := ("ugnot", 1), msgs := [.send 0 (.a 0) [("atom", 1)]] }) = 0 :=
  denom_outside_limit_never_leaves exWorld _ 0 0 "atom" (fun s h => run_WF init_WF exSetup _ s h) (by decide)
    (by
      intro s h
      have e : sessionOf (step exWorld
          (.tx { auth := [(0, 0)], fee := ("ugnot", 1), msgs := [.send 0 (.a 0) [("atom", 1)]] })) 0 0 =
          some (newSession 1000500 100 [("ugnot", 500)] ["*"] 1000000) := by decide
      rw [e] at h; cases h; decide)

/-- A spend period only ends inside a transaction signed with the session key, at a block
    time at least one full `SpendPeriod` after its start, and the next one starts at that block
    time; with `SpendPeriod = 0` the limit is a lifetime cap. -/
theorem period_reset_only_when_elapsed (w : World) (o : Op) (m k : Nat) (s s' : Session)
    (hwf : ∀ s, sessionOf w m k = some s → WFS s) (hnc : o.creates m k = false)
    (h0 : sessionOf w m k = some s) (h1 : sessionOf (step w o) m k = some s') (hne : s'.reset ≠ s.reset) :
    o.signedBy m k = true ∧ s.period > 0 ∧ w.now ≥ s.reset + s.period ∧ s'.reset = w.now :=
  step_reset hwf hnc h0 h1 hne

set_option maxRecDepth 100000 in
/-- non-vacuous: after 320 spent in the first period, a transaction at `reset + period` starts the next -/
example :
    let w := step (run exWorld exSpend) (.time 1000100)
    let o : Op := .tx { auth := [(0, 0)], fee := ("ugnot", 1), msgs := [.send 0 (.a 0) [("ugnot", 40)]] }
    (sessionOf w 0 0).map (fun s => (s.reset, s.used)) = some (1000000, [("ugnot", 320)]) ∧
    (sessionOf (step w o) 0 0).map (fun s => (s.reset, s.used)) = some (1000100, [("ugnot", 41)]) ∧
    o.creates 0 0 = false := by
  decide

/-- **Expired or revoked sessions authorize nothing.**  A transaction signed with a session key
    whose session is absent (never created, revoked) or expired at the block time fails and
    leaves the whole state as it was — no fee, no sequence bump, no message. -/
theorem dead_session_authorizes_nothing (w : World) (t : Tx) (m k : Nat)
    (hs : t.signedBy m k = true) (hd : deadAt w m k = true) : ∃ e, runTx w t = (w, .error e) :=
  runTx_dead hs hd

set_option maxRecDepth 100000 in
/-- non-vacuous: at the expiry time 1000500 the session is dead, a second later too; a session
    that was never created is dead as well -/
example :
    (Tx.signedBy { auth := [(0, 0)], fee := ("ugnot", 1), msgs := [.send 0 (.a 0) [("ugnot", 1)]] } 0 0 = true) ∧
    deadAt (step exWorld (.time 1000499)) 0 0 = false ∧
    deadAt (step exWorld (.time 1000500)) 0 0 = true ∧ deadAt exWorld 0 7 = true := by
  decide

/-- … and stay that way: along every run whose block times do not go back and that carries no
    new `MsgCreateSession` for the key, a session that is absent or expired stays dead, so every
    transaction of the run that is signed with its key is refused without any effect. -/
theorem dead_session_stays_dead (w : World) (ops : List Op) (m k : Nat)
    (hd : deadAt w m k = true) (hnc : NoCreate m k ops) (hmono : Monotone w ops) :
    deadAt (run w ops) m k = true :=
  run_dead ops w hd hnc hmono

set_option maxRecDepth 100000 in
/-- non-vacuous: expired at 1000500; two later blocks with a session-signed tx and a funding -/
example :
    let w := step exWorld (.time 1000500)
    let ops : List Op := [.tx { auth := [(0, 0)], fee := ("ugnot", 1), msgs := [.send 0 (.a 0) [("ugnot", 1)]] },
      .time 1000501, .fund (.m 0) [("ugnot", 5)]]
    deadAt w 0 0 = true ∧ NoCreate 0 0 ops ∧ samePeriodB 0 0 1000000 w ops = true ∧
    (run w ops).bal (.m 0) "ugnot" = w.bal (.m 0) "ugnot" + 5 := by
  decide

set_option maxRecDepth 100000 in
example : deadAt (run (step exWorld (.time 1000500))
    [.tx { auth := [(0, 0)], fee := ("ugnot", 1), msgs := [.send 0 (.a 0) [("ugnot", 1)]] }, .time 1000501]) 0 0 = true :=
  dead_session_stays_dead _ _ 0 0 (by decide) (by decide) ⟨by decide, by decide, trivial⟩

/-- `MsgRevokeSession` / `MsgRevokeAllSessions`, when they succeed, leave no record behind. -/
theorem revoke_removes_session (auth : List (Nat × Nat)) (w w' : World) (m k : Nat) :
    (execMsg auth w (.revoke m k) = .ok w' → sessionOf w' m k = none) ∧
    (execMsg auth w (.revokeall m) = .ok w' → sessionOf w' m k = none) := by
  constructor
  · intro h
    simp only [execMsg] at h
    split at h
    · cases h
    · cases h; simp [sessionOf, lookup_eraseSess]
  · intro h
    simp only [execMsg] at h
    cases h
    simp [sessionOf, lookup_filter_master]

set_option maxRecDepth 100000 in
/-- non-vacuous: the master revokes key 0; the record is gone and the key is dead -/
example :
    isOk (execMsg [] exWorld (.revoke 0 0)) = true ∧
    deadAt (step exWorld (.tx { auth := [], fee := ("ugnot", 1), msgs := [.revoke 0 0] })) 0 0 = true := by
  decide

/-- **Allowed actions.**  If a transaction signed with a session key has any effect, every
    message that the session's master signs in it is within the grant: not an auth message, not
    `vm/add_package`, and permitted by a well-formed allow-list entry (wildcard, or the same
    route/type and — for an entry with a path — a package at or under that path). -/
theorem only_granted_actions_take_effect (w : World) (t : Tx) (m k : Nat)
    (hwf : ∀ s, sessionOf w m k = some s → WFS s) (hs : t.signedBy m k = true) (heff : t.tookEffect w) :
    ∃ tx s, t.decode = some tx ∧ sessionOf w m k = some s ∧
      ∀ msg ∈ tx.msgs, msg.signer = m → Granted s.paths msg := by
  obtain ⟨hm, hauth⟩ := signedBy_iff.mp hs
  have hante := effect_implies_ante heff
  obtain ⟨tx, wa, hd, ha⟩ := hante
  obtain ⟨hau, hsg, _, _⟩ := Tx.decode_spec hd
  obtain ⟨s, hl, hg⟩ := ante_granted (tx := tx) (by rw [hau]; exact hauth) (by rw [hsg]; exact hm) hwf ha
  exact ⟨tx, s, hd, hl, hg⟩

set_option maxRecDepth 100000 in
/-- non-vacuous: a send signed with the session key takes effect (the grant is `*`); with a grant
    for `vm/exec:gno.land/r/verif/sink` only, a call below that path takes effect and a send, a
    call to `…/sinkx` (same prefix, not below) and an auth message do not -/
example :
    let grantExec : Op := .tx { auth := [], fee := ("ugnot", 1), msgs := [.create 0 1 0 0 [("ugnot", 50)] ["vm/exec:gno.land/r/verif/sink"]] }
    let w := step exWorld grantExec
    isOk (runTx exWorld { auth := [(0, 0)], fee := ("ugnot", 1), msgs := [.send 0 (.a 0) [("ugnot", 10)]] }).2 = true ∧
    isOk (runTx w { auth := [(0, 1)], fee := ("ugnot", 1), msgs := [.exec 0 1 .noop []] }).2 = true ∧
    errOf (runTx w { auth := [(0, 1)], fee := ("ugnot", 1), msgs := [.exec 0 2 .noop []] }).2 = some .sessionNotAllowed ∧
    errOf (runTx w { auth := [(0, 1)], fee := ("ugnot", 1), msgs := [.send 0 (.a 0) [("ugnot", 1)]] }).2 = some .sessionNotAllowed ∧
    errOf (runTx w { auth := [(0, 1)], fee := ("ugnot", 1), msgs := [.revokeall 0] }).2 = some .sessionNotAllowed := by
  decide

set_option maxRecDepth 100000 in
example : ∃ tx s, Tx.decode { auth := [(0, 0)], fee := ("ugnot", 1), msgs := [.send 0 (.a 0) [("ugnot", 10)]] } = some tx ∧
    sessionOf exWorld 0 0 = some s ∧ ∀ msg ∈ tx.msgs, msg.signer = 0 → Granted s.paths msg :=
  only_granted_actions_take_effect exWorld _ 0 0 (fun s h => run_WF init_WF exSetup _ s h) (by decide)
    (tookEffect_of_ok (by decide))

/-- Failed messages are undone, the fee is not: when the ante succeeds and a message fails,
    exactly the state after the ante is kept. -/
theorem failed_messages_keep_only_ante_writes (w wa : World) (t tx : Tx) (e : Err)
    (hd : t.decode = some tx) (hne : tx.msgs ≠ []) (hv : tx.msgs.findSome? Msg.validateBasic = none)
    (ha : ante w tx = .ok wa) (hm : execMsgs tx.auth wa tx.msgs = .error e) :
    runTx w t = (wa, .error e) := by
  unfold runTx
  have : tx.msgs.isEmpty = false := by
    cases h : tx.msgs with
    | nil => exact absurd h hne
    | cons _ _ => rfl
  simp [hd, this, hv, ha, hm]

set_option maxRecDepth 100000 in
/-- non-vacuous: fee 2 and a send of 20, then a failing call: the result is the VM error, the
    send is undone (recipient has nothing), the fee stays paid and stays counted -/
example :
    let t : Tx := { auth := [(0, 0)], fee := ("ugnot", 2), msgs := [.send 0 (.a 0) [("ugnot", 20)], .exec 0 0 .fail []] }
    errOf (runTx exWorld t).2 = some .vm ∧ (runTx exWorld t).1.bal (.a 0) "ugnot" = 0 ∧
    (runTx exWorld t).1.bal (.m 0) "ugnot" = exWorld.bal (.m 0) "ugnot" - 2 ∧
    (sessionOf (runTx exWorld t).1 0 0).map (fun s => (s.used, s.seq)) = some ([("ugnot", 2)], 1) := by
  decide

/-- Storage-deposit refunds never lower a session's counted spend. -/
theorem refund_keeps_spend_record (w w' : World) (caller : Nat) (amount : Int)
    (h : refundDeposit w caller amount = .ok w') : w'.sess = w.sess :=
  refundDeposit_sess h

set_option maxRecDepth 100000 in
/-- non-vacuous: a deposit of 300 is counted, the later refund of 200 comes back to the master
    and the counted spend stays -/
example :
    let grant : Op := .tx { auth := [], fee := ("ugnot", 1), msgs := [.create 0 2 0 0 [("ugnot", 1000)] ["*"]] }
    let grow : Op := .tx { auth := [(0, 2)], fee := ("ugnot", 1), msgs := [.exec 0 0 (.grow 203) []] }
    let shrink : Op := .tx { auth := [(0, 2)], fee := ("ugnot", 1), msgs := [.exec 0 0 (.grow 201) []] }
    let w1 := step (step exWorld grant) grow
    let w2 := step w1 shrink
    (sessionOf w1 0 2).map (·.used) = some [("ugnot", 301)] ∧ (sessionOf w2 0 2).map (·.used) = some [("ugnot", 302)] ∧
    w2.bal (.m 0) "ugnot" = w1.bal (.m 0) "ugnot" - 1 + 200 := by
  decide

/-- In every state reachable from genesis every session record is well-formed; in particular
    `SpendUsed ≤ SpendLimit` in every denom at all times. -/
theorem sessions_always_wellformed (ops : List Op) : WF (run World.init ops) :=
  run_WF init_WF ops

end GnoVerif.C16
