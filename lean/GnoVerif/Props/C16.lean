import GnoVerif.Model.C16
namespace GnoVerif.C16
end GnoVerif.C16
