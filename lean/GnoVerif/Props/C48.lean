/-
C48 — bit arrays behave like boolean vectors.

Model: `Model/C48.lean` (BitArray) and `Model/C48Compact.lean` (CompactBitArray),
hand-written line by line from the Go sources and compared with the compiled Go
packages on every run (correspondence).  Spec: `Spec/C48.lean` — boolean
vectors `List Bool`, the abstraction `abs`, and the representation invariant
`WF` (number of words = numElements(bits), no bit set at a position ≥ bits).

Every theorem below is for all arrays of all sizes (no bound), nil included
(`none`, standing for the empty vector).
-/
import GnoVerif.Proofs.C48Varint
namespace GnoVerif.C48

/-! ## BitArray: the invariant is established and preserved by every operation,
and every operation is the boolean-vector operation -/

/-- NewBitArray(n): nil exactly for `n ≤ 0`; otherwise `n` false bits. -/
theorem new_spec (n : Int) :
    WF (newBitArray n) ∧ abs (newBitArray n) = List.replicate n.toNat false ∧
      (newBitArray n = none ↔ n ≤ 0) :=
  newBitArray_spec n

/-- Size is the length of the vector. -/
theorem size_eq_length (a : BitArray) : size a = (abs a).length := by
  cases a with
  | none => rfl
  | some b => exact (length_abs b).symm

/-- GetIndex(i) is element `i` of the vector, and `false` outside it. -/
theorem getIndex_abs (a : BitArray) (h : WF a) (i : Nat) : getIndex a i = bget (abs a) i := by
  cases a with
  | none => simp [getIndex, abs]
  | some b => exact getIndex_some_spec b h i

/-- SetIndex(i, v) reports whether `i` is inside, writes element `i` only, keeps `WF`. -/
theorem setIndex_spec (a : BitArray) (h : WF a) (i : Nat) (v : Bool) :
    WF (setIndex a i v).1 ∧ (setIndex a i v).2 = decide (i < size a) ∧
      abs (setIndex a i v).1 = (abs a).set i v := by
  cases a with
  | none => simp [setIndex, WF, abs, size]
  | some b => exact setIndex_some_spec b h i v

/-- Copy returns an equal array (in the model; that it is a fresh allocation is
checked by the harness). -/
theorem copy_eq (a : BitArray) : copy a = a := by
  cases a with
  | none => rfl
  | some b => simp [copy, BA.copy_eq]

/-- Or never panics on well-formed arrays, keeps `WF`, has size max and is the
pointwise or with the shorter operand padded by false; nil only if both are nil. -/
theorem or_spec (a o : BitArray) (ha : WF a) (ho : WF o) :
    ∃ c, or a o = .ok c ∧ WF c ∧ abs c = specOr (abs a) (abs o) ∧
      (c = none ↔ a = none ∧ o = none) := by
  cases a with
  | none =>
    cases o with
    | none => exact ⟨none, rfl, trivial, rfl, by simp⟩
    | some o => exact ⟨some o, by simp [or, BA.copy_eq], ho, by simp [abs, specOr], by simp⟩
  | some a =>
    cases o with
    | none =>
      refine ⟨some a, by simp [or, BA.copy_eq], ha, ?_, by simp⟩
      simp only [abs]
      cases a.abs <;> rfl
    | some o =>
      obtain ⟨c, h1, h2, h3⟩ := or_some_spec a o ha ho
      exact ⟨some c, h1, h2, h3, by simp⟩

/-- And: size min (the longer operand truncated), pointwise and; nil if either is nil. -/
theorem and_spec (a o : BitArray) (ha : WF a) (ho : WF o) :
    ∃ c, and a o = .ok c ∧ WF c ∧ abs c = specAnd (abs a) (abs o) ∧
      (c = none ↔ a = none ∨ o = none) := by
  cases a with
  | none => exact ⟨none, by cases o <;> rfl, trivial, by simp [abs, specAnd], by simp⟩
  | some a =>
    cases o with
    | none => exact ⟨none, rfl, trivial, by simp [abs, specAnd], by simp⟩
    | some o =>
      obtain ⟨c, h1, h2, h3⟩ := and_some_spec a o ha ho
      exact ⟨some c, h1, h2, h3, by simp⟩

/-- Sub (a and not o) with a non-nil right operand: size of the left operand, the
right one padded by false; nil iff the left one is nil. -/
theorem sub_spec (a : BitArray) (o : BA) (ha : WF a) (ho : o.WF) :
    ∃ c, sub a (some o) = .ok c ∧ WF c ∧ abs c = specSub (abs a) o.abs ∧
      (c = none ↔ a = none) := by
  cases a with
  | none => exact ⟨none, rfl, trivial, by simp [abs, specSub], by simp⟩
  | some a =>
    obtain ⟨c, h1, h2, h3⟩ := sub_some_spec a o ha ho
    exact ⟨some c, h1, h2, h3, by simp⟩

/-- The documented nil rule of Sub: a nil right operand gives nil (not `a`). -/
theorem sub_nil (a : BitArray) : sub a none = .ok none := by
  cases a <;> rfl

/-- Not keeps the invariant — the padding bits of the last word stay zero. This is
the statement the pre-fix `not()` (no mask after complementing) violated. -/
theorem not_preserves_wf (a : BitArray) (h : WF a) : WF (not a) := by
  cases a with
  | none => trivial
  | some b => exact (b.not_spec h).1

/-- Not is the pointwise complement (same size; nil stays nil). -/
theorem not_abs (a : BitArray) (h : WF a) :
    abs (not a) = specNot (abs a) ∧ (not a = none ↔ a = none) := by
  cases a with
  | none => simp [not, abs, specNot]
  | some b => exact ⟨(b.not_spec h).2, by simp [not]⟩

/-- IsEmpty ⇔ every element is false. -/
theorem isEmpty_iff (a : BitArray) (h : WF a) : isEmpty a = (abs a).all (fun x => !x) := by
  cases a with
  | none => rfl
  | some b => exact isEmpty_some_spec b h

/-- IsFull ⇔ every element is true. -/
theorem isFull_iff (a : BitArray) (h : WF a) : isFull a = (abs a).all id := by
  cases a with
  | none => rfl
  | some b => exact isFull_some_spec b h

/-- getTrueIndices enumerates exactly the indices of the true elements, ascending. -/
theorem trueIndices_spec (a : BitArray) (h : WF a) : trueIndices a = specTrueIdx (abs a) := by
  cases a with
  | none => rfl
  | some b => exact trueIndices_some_spec b h

/-- Bytes never panics on a well-formed array; it has ⌈size/8⌉ bytes and bit `j` of
byte `k` is element `8k+j` (false past the end). -/
theorem bytes_spec (a : BitArray) (h : WF a) :
    ∃ bs, bytes a = .ok bs ∧ bs.length = (size a + 7) / 8 ∧
      ∀ k j, j < 8 → (bs.getD k 0).getLsbD j = bget (abs a) (8 * k + j) := by
  cases a with
  | none => exact ⟨[], rfl, rfl, fun k j _ => by simp [abs]⟩
  | some b => exact bytes_some_spec b h

/-- Update keeps the invariant (since the fix: the receiver's last word is masked
after the word copy), keeps the size, and takes from `o` every 64-bit word that `o`
has; in particular with equal sizes the receiver becomes `o`. -/
theorem update_spec (a o : BA) (ha : a.WF) :
    ∃ c, update (some a) (some o) = some c ∧ c.WF ∧ c.bits = a.bits ∧
      (∀ i, i < a.bits → bget c.abs i =
        if i / 64 < o.elems.length then bitAt o.elems i else bitAt a.elems i) ∧
      (o.WF → o.bits = a.bits → c = o) := by
  obtain ⟨c, h1, h2, h3, h4⟩ := update_some_spec a o ha
  refine ⟨c, h1, h2, h3, h4, fun ho hb => ?_⟩
  apply h2.abs_inj ho
  apply abs_eq_of
  · rw [length_abs, h3, hb]
  · intro i hi
    rw [h3] at hi
    rw [ho.bget_abs, ← h2.bget_abs, h4 i hi, if_pos]
    rw [ho.len, hb]; exact lt_numElements hi

/-- Update with a nil on either side changes nothing. -/
theorem update_nil (a o : BitArray) (h : a = none ∨ o = none) : update a o = a := by
  cases a with
  | none => rfl
  | some a =>
    cases o with
    | none => rfl
    | some o => cases h <;> contradiction

/-- The raw words are canonical: two well-formed arrays standing for the same vector
are equal, word for word. -/
theorem wf_abs_injective (a b : BA) (ha : a.WF) (hb : b.WF) (h : a.abs = b.abs) : a = b :=
  ha.abs_inj hb h

/-! ## BitArray: JSON -/

/-- MarshalJSON is `null` for nil and the quoted x/_ string of the vector otherwise. -/
theorem marshalJSON_spec (a : BitArray) (h : WF a) :
    marshalJSON a = match a with
      | none => nullBytes
      | some b => specJSON b.abs := by
  cases a with
  | none => rfl
  | some b => exact marshalJSON_some_spec b h.len

/-- Whatever UnmarshalJSON accepts is a well-formed array. -/
theorem unmarshalJSON_preserves_wf (bz : List Byte) (b : BA) (h : unmarshalJSON bz = some b) :
    b.WF :=
  unmarshalJSON_wf bz b h

/-- Decoding the JSON form of any vector yields an array standing for that vector. -/
theorem unmarshalJSON_decodes (v : List Bool) :
    ∃ b, unmarshalJSON (specJSON v) = some b ∧ b.WF ∧ b.abs = v :=
  unmarshalJSON_specJSON v

/-- JSON round trip: decoding the encoding of a well-formed array returns the same
array, raw words included (nil comes back as the empty non-nil array `{0, nil}`,
which is how `UnmarshalJSON` represents `null`). -/
theorem json_roundtrip (a : BitArray) (h : WF a) :
    unmarshalJSON (marshalJSON a) = some (a.getD ⟨0, []⟩) := by
  cases a with
  | none => rfl
  | some b =>
    rw [marshalJSON_some_spec b h.len]
    obtain ⟨b', h1, h2, h3⟩ := unmarshalJSON_specJSON b.abs
    rw [h1, h2.abs_inj h h3]; rfl

/-! ## CompactBitArray (byte-packed, most significant bit first)

`CWF`: consistent fields (`ExtraBitsStored < 8`, and non-zero only with a byte to
live in) — what `NewCompactBitArray` and the decoders of genuine encodings
produce.  `Canon` adds: no stray bits after `Size()` in the last byte. -/

/-- NewCompactBitArray(n): nil exactly for `n ≤ 0`, else `n` false bits, canonical. -/
theorem cnew_spec (n : Int) :
    CWF (newCompact n) ∧ (∀ c, newCompact n = some c → c.Canon) ∧
      cabs (newCompact n) = List.replicate n.toNat false ∧ (newCompact n = none ↔ n ≤ 0) :=
  newCompact_spec n

/-- Size is the length of the vector (never negative on consistent fields). -/
theorem csize_eq_length (c : Compact) (h : CWF c) : csize c = ((cabs c).length : Int) := by
  cases c with
  | none => rfl
  | some c =>
    simp only [csize, cabs, length_cabs]
    have := h.size_nonneg
    omega

/-- GetIndex(i) is element `i`; false for negative `i` and past the end. -/
theorem cgetIndex_abs (c : Compact) (h : CWF c) (i : Int) :
    cgetIndex c i = (decide (0 ≤ i) && bget (cabs c) i.toNat) := by
  cases c with
  | none => simp [cgetIndex, cabs]
  | some c => exact c.getIndex_spec h i

/-- SetIndex(i, v) reports whether `0 ≤ i < Size()`, writes element `i` only, keeps the
fields consistent (and canonical if they were). -/
theorem csetIndex_spec (c : CBA) (h : c.WF) (i : Int) (v : Bool) :
    (c.setIndex i v).1.WF ∧ (c.setIndex i v).2 = decide (0 ≤ i ∧ i < c.size) ∧
    (c.setIndex i v).1.abs = (if 0 ≤ i then c.abs.set i.toNat v else c.abs) ∧
    (c.Canon → (c.setIndex i v).1.Canon) :=
  c.setIndex_full h i v

/-- SetIndex on nil does nothing and says so. -/
theorem csetIndex_nil (i : Int) (v : Bool) : csetIndex none i v = (none, false) := rfl

/-- NumTrueBitsBefore(k) counts the true elements among the first `k`. -/
theorem numTrueBitsBefore_spec (c : Compact) (h : CWF c) (k : Int) :
    numTrueBitsBefore c k = ((cabs c).take k.toNat).count true := by
  unfold numTrueBitsBefore
  rw [← countP_range_bget]
  apply List.countP_congr
  intro i _
  rw [cgetIndex_abs c h]
  simp

/-- Copy returns an equal array. -/
theorem ccopy_eq (c : Compact) : ccopy c = c := by
  cases c with
  | none => rfl
  | some c => simp [ccopy, goCopy_self_zero]

/-- MarshalJSON: `null` for nil, the quoted x/_ string of the vector otherwise. -/
theorem cmarshalJSON_spec (c : Compact) (h : CWF c) :
    cmarshalJSON c = match c with
      | none => nullBytes
      | some c => specJSON c.abs := by
  cases c with
  | none => rfl
  | some c => exact cmarshalJSON_some_spec c h

/-- Whatever UnmarshalJSON accepts has consistent fields and no stray bits. -/
theorem cunmarshalJSON_canonical (bz : List Byte) (c : CBA) (h : cunmarshalJSON bz = .ok c) :
    c.Canon :=
  cunmarshalJSON_canon bz c h

/-- Decoding the JSON form of any vector (the empty one included — the case that
dereferenced nil before the fix) yields an array standing for that vector. -/
theorem cunmarshalJSON_decodes (v : List Bool) :
    ∃ c, cunmarshalJSON (specJSON v) = .ok c ∧ c.Canon ∧ c.abs = v :=
  cunmarshalJSON_specJSON v

/-- JSON round trip: the decoded array stands for the same vector, and is the very
same array when the original had no stray bits in its last byte. -/
theorem cjson_roundtrip (c : CBA) (h : c.WF) :
    ∃ c', cunmarshalJSON (cmarshalJSON (some c)) = .ok c' ∧ c'.Canon ∧ c'.abs = c.abs ∧
      (c.Canon → c' = c) := by
  rw [cmarshalJSON_some_spec c h]
  obtain ⟨c', h1, h2, h3⟩ := cunmarshalJSON_specJSON c.abs
  exact ⟨c', h1, h2, h3, fun hc => h2.abs_inj hc h3⟩

/-- JSON round trip of nil: `null` decodes to the empty non-nil array. -/
theorem cjson_roundtrip_nil : cunmarshalJSON (cmarshalJSON none) = .ok ⟨0, []⟩ := rfl

/-- Binary round trip (CompactMarshal / CompactUnmarshal): an array with consistent
fields and at least one bit comes back identical, bytes and all.  `hfit` only says the
bit count plus 7 fits Go's `int` (true of anything that fits in memory). -/
theorem compact_roundtrip (c : CBA) (h : c.WF) (hpos : 0 < c.size) (hfit : c.size + 7 < 2 ^ 63) :
    compactUnmarshal (compactMarshal (some c)) = .ok (some c) :=
  compact_roundtrip_pos c h hpos hfit

/-- Binary round trip of nil and of empty arrays: encoded as `null`, decoded as nil —
the same (empty) vector. -/
theorem compact_roundtrip_empty (c : Compact) (h : csize c ≤ 0) :
    compactUnmarshal (compactMarshal c) = .ok none ∧ (CWF c → cabs c = []) := by
  constructor
  · simp only [compactMarshal, h, if_true]
    rfl
  · intro hw
    cases c with
    | none => rfl
    | some c =>
      simp only [csize] at h
      simp only [cabs, CBA.abs]
      have : c.size.toNat = 0 := by omega
      rw [this]; rfl

/-! ## Non-vacuity: concrete well-formed arrays, and the witnesses of the fixed defects -/

/-- a 70-bit array with bits 0, 2 and 69 set is well-formed -/
example : WF (setIndex (setIndex (setIndex (newBitArray 70) 0 true).1 2 true).1 69 true).1 :=
  (setIndex_spec _ (setIndex_spec _ (setIndex_spec _ (new_spec 70).1 0 true).1 2 true).1 69 true).1

example : (setIndex (setIndex (setIndex (newBitArray 70) 0 true).1 2 true).1 69 true).1
    = some ⟨70, [0x5, 0x20]⟩ := by decide

/-- the old Not bug: `NewBitArray(3).Not()` with its three bits cleared again is empty -/
example : not (newBitArray 3) = some ⟨3, [0x7]⟩ := by decide
example : isEmpty (setIndex (setIndex (setIndex (not (newBitArray 3)) 0 false).1 1 false).1 2 false).1
    = true := by decide

/-- the old Or bug: a 64-bit receiver no longer drops bit 100 of a 128-bit argument -/
example : (match or (newBitArray 64) (setIndex (newBitArray 128) 100 true).1 with
      | .ok c => c
      | .error _ => none) = some ⟨128, [0, 0x1000000000]⟩ := by decide

/-- the old Update bug: a longer source leaves no padding bits behind -/
example : update (newBitArray 3) (some ⟨5, [0x8]⟩) = some ⟨3, [0]⟩ := by decide

/-- a canonical 11-bit compact array with bits 0 and 10 set -/
example : (newCompact 11).bind (fun c => some ((c.setIndex 0 true).1.setIndex 10 true).1)
    = some ⟨3, [0x80, 0x20]⟩ := by decide

example : ∀ c, newCompact 11 = some c → ((c.setIndex 0 true).1.setIndex 10 true).1.Canon :=
  fun c hc =>
    have h0 := (cnew_spec 11).2.1 c hc
    have h1 := csetIndex_spec c h0.1 0 true
    (csetIndex_spec _ h1.1 10 true).2.2.2 (h1.2.2.2 h0)

/-- the hypotheses of `compact_roundtrip` on that array; its encoding is uvarint(11)
followed by the two bytes -/
example : compactUnmarshal (compactMarshal (some ⟨3, [0x80, 0x20]⟩)) = .ok (some ⟨3, [0x80, 0x20]⟩) :=
  compact_roundtrip _ (wf_of_shape _ 11 (by omega) rfl rfl) (by decide) (by decide)
example : compactUnmarshal [0x0b, 0x80, 0x20] = .ok (some ⟨3, [0x80, 0x20]⟩) := by decide

/-- the fixed CompactBitArray JSON defect: `""` decodes (to the empty array) -/
example : cunmarshalJSON [0x22, 0x22] = .ok ⟨0, []⟩ := by decide

end GnoVerif.C48
