/-
C48 — bit arrays behave like boolean vectors.

Model: `Model/C48.lean` (BitArray) and `Model/C48Compact.lean` (CompactBitArray),
hand-written line by line from the Go sources and compared with the compiled Go
packages on every run (correspondence).  Spec: `Spec/C48.lean` — boolean
vectors `List Bool`, the abstraction `abs`, and the representation invariant
`WF` (number of words = numElements(bits), no bit set at a position ≥ bits).

Every theorem below is for all arrays of all sizes (no bound), nil included
(`none`, standing for the empty vector).
-/
import GnoVerif.Proofs.C48Top
namespace GnoVerif.C48

/-! ## BitArray: the invariant is established and preserved by every operation,
and every operation is the boolean-vector operation -/

/-- NewBitArray(n): nil exactly for `n ≤ 0`; otherwise `n` false bits. -/
theorem new_spec (n : Int) :
    WF (newBitArray n) ∧ abs (newBitArray n) = List.replicate n.toNat false ∧
      (newBitArray n = none ↔ n ≤ 0) :=
  newBitArray_spec n

/-- Size is the length of the vector. -/
theorem size_eq_length (a : BitArray) : size a = (abs a).length := by
  cases a with
  | none => rfl
  | some b => exact (length_abs b).symm

/-- GetIndex(i) is element `i` of the vector, and `false` outside it. -/
theorem getIndex_abs (a : BitArray) (h : WF a) (i : Nat) : getIndex a i = bget (abs a) i := by
  cases a with
  | none => simp [getIndex, abs]
  | some b => exact getIndex_some_spec b h i

/-- SetIndex(i, v) reports whether `i` is inside, writes element `i` only, keeps `WF`. -/
theorem setIndex_spec (a : BitArray) (h : WF a) (i : Nat) (v : Bool) :
    WF (setIndex a i v).1 ∧ (setIndex a i v).2 = decide (i < size a) ∧
      abs (setIndex a i v).1 = (abs a).set i v := by
  cases a with
  | none => simp [setIndex, WF, abs, size]
  | some b => exact setIndex_some_spec b h i v

/-- Copy returns an equal array (in the model; that it is a fresh allocation is
checked by the harness). -/
theorem copy_eq (a : BitArray) : copy a = a := by
  cases a with
  | none => rfl
  | some b => simp [copy, BA.copy_eq]

/-- Or never panics on well-formed arrays, keeps `WF`, has size max and is the
pointwise or with the shorter operand padded by false; nil only if both are nil. -/
theorem or_spec (a o : BitArray) (ha : WF a) (ho : WF o) :
    ∃ c, or a o = .ok c ∧ WF c ∧ abs c = specOr (abs a) (abs o) ∧
      (c = none ↔ a = none ∧ o = none) := by
  cases a with
  | none =>
    cases o with
    | none => exact ⟨none, rfl, trivial, rfl, by simp⟩
    | some o => exact ⟨some o, by simp [or, BA.copy_eq], ho, by simp [abs, specOr], by simp⟩
  | some a =>
    cases o with
    | none =>
      refine ⟨some a, by simp [or, BA.copy_eq], ha, ?_, by simp⟩
      simp only [abs]
      cases a.abs <;> rfl
    | some o =>
      obtain ⟨c, h1, h2, h3⟩ := or_some_spec a o ha ho
      exact ⟨some c, h1, h2, h3, by simp⟩

/-- And: size min (the longer operand truncated), pointwise and; nil if either is nil. -/
theorem and_spec (a o : BitArray) (ha : WF a) (ho : WF o) :
    ∃ c, and a o = .ok c ∧ WF c ∧ abs c = specAnd (abs a) (abs o) ∧
      (c = none ↔ a = none ∨ o = none) := by
  cases a with
  | none => exact ⟨none, by cases o <;> rfl, trivial, by simp [abs, specAnd], by simp⟩
  | some a =>
    cases o with
    | none => exact ⟨none, rfl, trivial, by simp [abs, specAnd], by simp⟩
    | some o =>
      obtain ⟨c, h1, h2, h3⟩ := and_some_spec a o ha ho
      exact ⟨some c, h1, h2, h3, by simp⟩

/-- Sub (a and not o) with a non-nil right operand: size of the left operand, the
right one padded by false; nil iff the left one is nil. -/
theorem sub_spec (a : BitArray) (o : BA) (ha : WF a) (ho : o.WF) :
    ∃ c, sub a (some o) = .ok c ∧ WF c ∧ abs c = specSub (abs a) o.abs ∧
      (c = none ↔ a = none) := by
  cases a with
  | none => exact ⟨none, rfl, trivial, by simp [abs, specSub], by simp⟩
  | some a =>
    obtain ⟨c, h1, h2, h3⟩ := sub_some_spec a o ha ho
    exact ⟨some c, h1, h2, h3, by simp⟩

/-- The documented nil rule of Sub: a nil right operand gives nil (not `a`). -/
theorem sub_nil (a : BitArray) : sub a none = .ok none := by
  cases a <;> rfl

/-- Not keeps the invariant — the padding bits of the last word stay zero. This is
the statement the pre-fix `not()` (no mask after complementing) violated. -/
theorem not_preserves_wf (a : BitArray) (h : WF a) : WF (not a) := by
  cases a with
  | none => trivial
  | some b => exact (b.not_spec h).1

/-- Not is the pointwise complement (same size; nil stays nil). -/
theorem not_abs (a : BitArray) (h : WF a) :
    abs (not a) = specNot (abs a) ∧ (not a = none ↔ a = none) := by
  cases a with
  | none => simp [not, abs, specNot]
  | some b => exact ⟨(b.not_spec h).2, by simp [not]⟩

/-- IsEmpty ⇔ every element is false. -/
theorem isEmpty_iff (a : BitArray) (h : WF a) : isEmpty a = (abs a).all (fun x => !x) := by
  cases a with
  | none => rfl
  | some b => exact isEmpty_some_spec b h

/-- IsFull ⇔ every element is true. -/
theorem isFull_iff (a : BitArray) (h : WF a) : isFull a = (abs a).all id := by
  cases a with
  | none => rfl
  | some b => exact isFull_some_spec b h

/-- getTrueIndices enumerates exactly the indices of the true elements, ascending. -/
theorem trueIndices_spec (a : BitArray) (h : WF a) : trueIndices a = specTrueIdx (abs a) := by
  cases a with
  | none => rfl
  | some b => exact trueIndices_some_spec b h

/-- Bytes never panics on a well-formed array; it has ⌈size/8⌉ bytes and bit `j` of
byte `k` is element `8k+j` (false past the end). -/
theorem bytes_spec (a : BitArray) (h : WF a) :
    ∃ bs, bytes a = .ok bs ∧ bs.length = (size a + 7) / 8 ∧
      ∀ k j, j < 8 → (bs.getD k 0).getLsbD j = bget (abs a) (8 * k + j) := by
  cases a with
  | none => exact ⟨[], rfl, rfl, fun k j _ => by simp [abs]⟩
  | some b => exact bytes_some_spec b h

/-- Update keeps the invariant (since the fix: the receiver's last word is masked
after the word copy), keeps the size, and takes from `o` every 64-bit word that `o`
has; in particular with equal sizes the receiver becomes `o`. -/
theorem update_spec (a o : BA) (ha : a.WF) :
    ∃ c, update (some a) (some o) = some c ∧ c.WF ∧ c.bits = a.bits ∧
      (∀ i, i < a.bits → bget c.abs i =
        if i / 64 < o.elems.length then bitAt o.elems i else bitAt a.elems i) ∧
      (o.WF → o.bits = a.bits → c = o) := by
  obtain ⟨c, h1, h2, h3, h4⟩ := update_some_spec a o ha
  refine ⟨c, h1, h2, h3, h4, fun ho hb => ?_⟩
  apply h2.abs_inj ho
  apply abs_eq_of
  · rw [length_abs, h3, hb]
  · intro i hi
    rw [h3] at hi
    rw [ho.bget_abs, ← h2.bget_abs, h4 i hi, if_pos]
    rw [ho.len, hb]; exact lt_numElements hi

/-- Update with a nil on either side changes nothing. -/
theorem update_nil (a o : BitArray) (h : a = none ∨ o = none) : update a o = a := by
  cases a with
  | none => rfl
  | some a =>
    cases o with
    | none => rfl
    | some o => cases h <;> contradiction

/-- The raw words are canonical: two well-formed arrays standing for the same vector
are equal, word for word. -/
theorem wf_abs_injective (a b : BA) (ha : a.WF) (hb : b.WF) (h : a.abs = b.abs) : a = b :=
  ha.abs_inj hb h

/-! ## BitArray: JSON -/

/-- MarshalJSON is `null` for nil and the quoted x/_ string of the vector otherwise. -/
theorem marshalJSON_spec (a : BitArray) (h : WF a) :
    marshalJSON a = match a with
      | none => nullBytes
      | some b => specJSON b.abs := by
  cases a with
  | none => rfl
  | some b => exact marshalJSON_some_spec b h.len

/-- Whatever UnmarshalJSON accepts is a well-formed array. -/
theorem unmarshalJSON_preserves_wf (bz : List Byte) (b : BA) (h : unmarshalJSON bz = some b) :
    b.WF :=
  unmarshalJSON_wf bz b h

/-- Decoding the JSON form of any vector yields an array standing for that vector. -/
theorem unmarshalJSON_decodes (v : List Bool) :
    ∃ b, unmarshalJSON (specJSON v) = some b ∧ b.WF ∧ b.abs = v :=
  unmarshalJSON_specJSON v

/-- JSON round trip: decoding the encoding of a well-formed array returns the same
array, raw words included (nil comes back as the empty non-nil array `{0, nil}`,
which is how `UnmarshalJSON` represents `null`). -/
theorem json_roundtrip (a : BitArray) (h : WF a) :
    unmarshalJSON (marshalJSON a) = some (a.getD ⟨0, []⟩) := by
  cases a with
  | none => rfl
  | some b =>
    rw [marshalJSON_some_spec b h.len]
    obtain ⟨b', h1, h2, h3⟩ := unmarshalJSON_specJSON b.abs
    rw [h1, h2.abs_inj h h3]; rfl

/-! ## Non-vacuity: concrete well-formed arrays, and the witnesses of the fixed defects -/

/-- a 70-bit array with bits 0, 2 and 69 set is well-formed -/
example : WF (setIndex (setIndex (setIndex (newBitArray 70) 0 true).1 2 true).1 69 true).1 :=
  (setIndex_spec _ (setIndex_spec _ (setIndex_spec _ (new_spec 70).1 0 true).1 2 true).1 69 true).1

example : (setIndex (setIndex (setIndex (newBitArray 70) 0 true).1 2 true).1 69 true).1
    = some ⟨70, [0x5, 0x20]⟩ := by decide

/-- the old Not bug: `NewBitArray(3).Not()` with its three bits cleared again is empty -/
example : not (newBitArray 3) = some ⟨3, [0x7]⟩ := by decide
example : isEmpty (setIndex (setIndex (setIndex (not (newBitArray 3)) 0 false).1 1 false).1 2 false).1
    = true := by decide

/-- the old Or bug: a 64-bit receiver no longer drops bit 100 of a 128-bit argument -/
example : (match or (newBitArray 64) (setIndex (newBitArray 128) 100 true).1 with
      | .ok c => c
      | .error _ => none) = some ⟨128, [0, 0x1000000000]⟩ := by decide

/-- the old Update bug: a longer source leaves no padding bits behind -/
example : update (newBitArray 3) (some ⟨5, [0x8]⟩) = some ⟨3, [0]⟩ := by decide

end GnoVerif.C48
