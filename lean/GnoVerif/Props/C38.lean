import GnoVerif.Model.C38
import GnoVerif.Model.C38Search
namespace GnoVerif.C38
end GnoVerif.C38
