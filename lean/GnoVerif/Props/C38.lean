import GnoVerif.Model.C38
import GnoVerif.Model.C38Search
import GnoVerif.Proofs.C38Frame
/-!
# C38 — the consensus write-ahead log preserves what was written

Model: `Model/C38.lean` (line format, `WALWriter`, `WALReader.ReadMessage`),
`Model/C38Meta.lean` (amino-JSON parsing of a `#…` line), `Model/C38Search.lean`
(autofile group, `SearchForHeight`), over `Base/Crc32c.lean`, `Base/Base64.lean`.
All of them are compared with the real code on every run (tie = correspondence).

A payload is the amino *sized* encoding of a `TimedWALMessage`; its inside is
opaque (`Cfg.bodyOK` stands for "amino.UnmarshalSized succeeds").
-/
namespace GnoVerif.C38
open GnoVerif

/-! ## Clause 1 — reading returns exactly what was written, in order -/

/-- Reading a log made of well-formed items returns exactly those items, in
order, and then end-of-file — for every item list. -/
theorem read_roundtrip (cfg : Cfg) (items : List Item) (g : ∀ i ∈ items, GoodItem cfg i) :
    readAll cfg (encodeAll items) = (items, .eof) := by
  unfold readAll
  rw [completeLines_encodeAll]
  exact readLines_map cfg items g

/-- The same through the writer's size check: whatever sequence is offered to a
writer with a positive limit, what it accepted reads back exactly. -/
theorem read_roundtrip_writer (cfg : Cfg) (hmax : 0 < cfg.maxSize) (items : List Item)
    (hmsg : ∀ p, Item.msg p ∈ items → p ≠ [] ∧ cfg.bodyOK p = true)
    (hmark : ∀ h, Item.mark h ∈ items → InI64 h) :
    readAll cfg (encodeAll (written cfg.maxSize items)) = (written cfg.maxSize items, .eof) :=
  read_roundtrip cfg _ (goodItem_written cfg hmax items hmsg hmark)

/-- the hypotheses are satisfiable by a non-trivial log -/
example : ∀ i ∈ [Item.mark 1, .msg [0], .msg [3, 1, 2, 3], .mark (-7)],
    GoodItem ⟨1000, sizedOK⟩ i := by
  intro i hi
  simp only [List.mem_cons, List.not_mem_nil, or_false] at hi
  rcases hi with rfl | rfl | rfl | rfl
  · exact ⟨by decide, by decide⟩
  · exact ⟨by decide, by decide, by decide⟩
  · exact ⟨by decide, by decide, by decide⟩
  · exact ⟨by decide, by decide⟩

/-! ## Clause 2 — a log cut at any byte reads as a prefix, then end-of-file -/

/-- For every cut point `k`, reading the first `k` bytes returns a prefix
`items.take j` of what was written — never an altered message — followed by
end-of-file (the torn last line is dropped: `readline` hands it over together
with io.EOF).  `j` is short of everything exactly when the cut removed bytes. -/
theorem read_truncated (cfg : Cfg) (items : List Item) (g : ∀ i ∈ items, GoodItem cfg i) (k : Nat) :
    ∃ j, j ≤ items.length ∧
      readAll cfg ((encodeAll items).take k) = (items.take j, .eof) ∧
      (k < (encodeAll items).length → j < items.length) ∧
      ((encodeAll items).length ≤ k → j = items.length) := by
  obtain ⟨j, hj, hcl, hlt, hge⟩ := completeLines_take items k
  refine ⟨j, hj, ?_, hlt, hge⟩
  unfold readAll
  rw [hcl]
  exact readLines_map cfg _ (fun i hi => g i (List.mem_of_mem_take hi))

end GnoVerif.C38
