import GnoVerif.Model.C38
import GnoVerif.Model.C38Search
import GnoVerif.Spec.C38
import GnoVerif.Proofs.C38Frame
import GnoVerif.Proofs.C38Search
/-!
# C38 — the consensus write-ahead log preserves what was written

Model: `Model/C38.lean` (line format, `WALWriter`, `WALReader.ReadMessage`),
`Model/C38Meta.lean` (amino-JSON parsing of a `#…` line), `Model/C38Search.lean`
(autofile group, `SearchForHeight`), over `Base/Crc32c.lean`, `Base/Base64.lean`.
All of them are compared with the real code on every run (tie = correspondence).

A payload is the amino *sized* encoding of a `TimedWALMessage`; its inside is
opaque (`Cfg.bodyOK` stands for "amino.UnmarshalSized succeeds").
-/
namespace GnoVerif.C38
open GnoVerif

/-! ## Clause 1 — reading returns exactly what was written, in order -/

/-- Reading a log made of well-formed items returns exactly those items, in
order, and then end-of-file — for every item list. -/
theorem read_roundtrip (cfg : Cfg) (items : List Item) (g : ∀ i ∈ items, GoodItem cfg i) :
    readAll cfg (encodeAll items) = (items, .eof) := by
  unfold readAll
  rw [completeLines_encodeAll]
  exact readLines_map cfg items g

/-- The same through the writer's size check: whatever sequence is offered to a
writer with a positive limit, what it accepted reads back exactly. -/
theorem read_roundtrip_writer (cfg : Cfg) (hmax : 0 < cfg.maxSize) (items : List Item)
    (hmsg : ∀ p, Item.msg p ∈ items → p ≠ [] ∧ cfg.bodyOK p = true)
    (hmark : ∀ h, Item.mark h ∈ items → InI64 h) :
    readAll cfg (encodeAll (written cfg.maxSize items)) = (written cfg.maxSize items, .eof) :=
  read_roundtrip cfg _ (goodItem_written cfg hmax items hmsg hmark)

/-- the hypotheses are satisfiable by a non-trivial log -/
example : ∀ i ∈ [Item.mark 1, .msg [0], .msg [3, 1, 2, 3], .mark (-7)],
    GoodItem ⟨1000, sizedOK⟩ i := by
  intro i hi
  simp only [List.mem_cons, List.not_mem_nil, or_false] at hi
  rcases hi with rfl | rfl | rfl | rfl
  · exact ⟨by decide, by decide⟩
  · exact ⟨by decide, by decide, by decide⟩
  · exact ⟨by decide, by decide, by decide⟩
  · exact ⟨by decide, by decide⟩

/-! ## Clause 2 — a log cut at any byte reads as a prefix, then end-of-file -/

/-- For every cut point `k`, reading the first `k` bytes returns a prefix
`items.take j` of what was written — never an altered message — followed by
end-of-file (the torn last line is dropped: `readline` hands it over together
with io.EOF).  `j` is short of everything exactly when the cut removed bytes. -/
theorem read_truncated (cfg : Cfg) (items : List Item) (g : ∀ i ∈ items, GoodItem cfg i) (k : Nat) :
    ∃ j, j ≤ items.length ∧
      readAll cfg ((encodeAll items).take k) = (items.take j, .eof) ∧
      (k < (encodeAll items).length → j < items.length) ∧
      ((encodeAll items).length ≤ k → j = items.length) := by
  obtain ⟨j, hj, hcl, hlt, hge⟩ := completeLines_take items k
  refine ⟨j, hj, ?_, hlt, hge⟩
  unfold readAll
  rw [hcl]
  exact readLines_map cfg _ (fun i hi => g i (List.mem_of_mem_take hi))

/-! ## Clause 3 — a corrupted message line is reported as corruption

`msgText p` is the text of the data line for payload `p` (without its newline).
A single-byte corruption replaces the byte at position `i` by `v`; `v = 10`
('\n') is excluded because it changes the line structure. -/

/-- The statement, at full strength: every single-byte corruption of a message
line is reported as corruption — or (when only bits the base64 decoder ignores
changed) the ORIGINAL message is returned; never anything else. -/
def corruption_statement : Prop :=
  ∀ (cfg : Cfg) (p : Bytes), GoodPayload cfg p → ∀ (i : Nat) (v : UInt8), i < (msgText p).length →
    v ≠ 10 → v ≠ (msgText p).getD i 0 →
    readLine cfg ((msgText p).set i v) = .corrupt ∨ readLine cfg ((msgText p).set i v) = .msg p

/-- FINDING (unchanged tree): the statement is false. Replacing the FIRST byte of
a message line by '#' makes `ReadMessage` treat the line as a height marker; the
JSON parser then fails with a plain error, which is NOT a `DataCorruptionError`
(so e.g. `SearchForHeight` with `IgnoreDataCorruptionErrors` aborts instead of
skipping the line). Witness: payload `00`, i = 0, v = '#'. -/
theorem corruption_counterexample : ¬ corruption_statement := by
  intro h
  have := h ⟨1000, sizedOK⟩ [0] ⟨by decide, by decide, by decide⟩ 0 35 (by decide) (by decide) (by decide)
  revert this
  decide

/-- Partial result 1: EVERY single-byte corruption of a message line is reported as
corruption (or returns the original message, when the byte only carries bits the
base64 decoder ignores) — except for the three situations named in the guard:
  * `v` = '#' in first position: the finding above (`corruption_counterexample`);
  * `v` = CR: Go's base64 decoder silently drops CR, so one character disappears and
    every later bit shifts by six — an error pattern for which a 32-bit CRC alone gives
    no guarantee (see `corruption_cr_partial` for what IS proved about it);
  * another ALPHABET character at position 5, the one character whose six bits
    straddle the stored CRC (low 2 bits) and the payload (top 4 bits of its first
    byte): the damage then touches both sides of the comparison (proved only with the
    length-prefix check, see `corruption_sized_partial`).
Everything else is covered: a byte outside the alphabet makes the text undecodable;
another alphabet character changes at most two adjacent decoded bytes, either inside
the stored CRC (then it no longer matches the intact payload) or inside the payload
(then CRC-32C detects it: bursts of at most 32 bits are always detected —
`Crc32c.crc32c_window_ne`). -/
theorem corruption_partial (cfg : Cfg) (p : Bytes) (g : GoodPayload cfg p) (i : Nat) (v : UInt8)
    (hi : i < (msgText p).length) (h10 : v ≠ 10) (h13 : v ≠ 13) (hh : ¬ (i = 0 ∧ v = 35))
    (h5 : Base64.decChar v = none ∨ i ≠ 5) :
    readLine cfg ((msgText p).set i v) = .corrupt ∨ readLine cfg ((msgText p).set i v) = .msg p :=
  readLine_set_guarded cfg p g i v hi h10 h13 hh h5

/-- the guard is satisfiable: '!' (outside the alphabet) at position 5, 'A' at position 9 -/
example : GoodPayload ⟨1000, sizedOK⟩ [3, 1, 2, 3] ∧ (9 : Nat) < (msgText [3, 1, 2, 3]).length ∧
    (Base64.decChar 33 = none ∨ (5 : Nat) ≠ 5) ∧ (Base64.decChar 65 = none ∨ (9 : Nat) ≠ 5) := by
  refine ⟨⟨by decide, by decide, by decide⟩, by decide, by decide, by decide⟩

/-- The same inside a whole log: with the byte at offset `i` of the line of message `p`
replaced, every other line is read exactly as written, and the damaged line is either
skipped as corruption or read as the original message. (`readAllSkip` continues past
corruption errors, as `SearchForHeight` does with `IgnoreDataCorruptionErrors`.) -/
theorem corrupted_log_skip_partial (cfg : Cfg) (before after : List Item)
    (gb : ∀ i ∈ before, GoodItem cfg i) (ga : ∀ i ∈ after, GoodItem cfg i)
    (p : Bytes) (g : GoodPayload cfg p) (i : Nat) (v : UInt8)
    (hi : i < (msgText p).length) (h10 : v ≠ 10) (h13 : v ≠ 13) (hh : ¬ (i = 0 ∧ v = 35))
    (h5 : Base64.decChar v = none ∨ i ≠ 5) :
    readAllSkip cfg ((encodeAll (before ++ .msg p :: after)).set ((encodeAll before).length + i) v)
        = (before.map Event.item ++ Event.skipped :: after.map Event.item, .eof) ∨
    readAllSkip cfg ((encodeAll (before ++ .msg p :: after)).set ((encodeAll before).length + i) v)
        = (before.map Event.item ++ Event.item (.msg p) :: after.map Event.item, .eof) := by
  rw [set_in_line before after p i v hi,
    readAllSkip_damaged cfg before after gb ga _ (nl_not_mem_set (nl_not_mem_msgText p) h10)]
  rcases readLine_set_guarded cfg p g i v hi h10 h13 hh h5 with h | h <;> simp [h]

/-- … and for a reader that stops at the first error: everything before the damaged
line, then a corruption error — or the whole log unchanged. -/
theorem corrupted_log_partial (cfg : Cfg) (before after : List Item)
    (gb : ∀ i ∈ before, GoodItem cfg i) (ga : ∀ i ∈ after, GoodItem cfg i)
    (p : Bytes) (g : GoodPayload cfg p) (i : Nat) (v : UInt8)
    (hi : i < (msgText p).length) (h10 : v ≠ 10) (h13 : v ≠ 13) (hh : ¬ (i = 0 ∧ v = 35))
    (h5 : Base64.decChar v = none ∨ i ≠ 5) :
    readAll cfg ((encodeAll (before ++ .msg p :: after)).set ((encodeAll before).length + i) v)
        = (before, .corrupt) ∨
    readAll cfg ((encodeAll (before ++ .msg p :: after)).set ((encodeAll before).length + i) v)
        = (before ++ .msg p :: after, .eof) := by
  rw [set_in_line before after p i v hi,
    readAll_damaged cfg before after gb ga _ (nl_not_mem_set (nl_not_mem_msgText p) h10)]
  rcases readLine_set_guarded cfg p g i v hi h10 h13 hh h5 with h | h <;> simp [h]

/-- Partial result 1′: position 5 is covered as well once one uses what amino's
`UnmarshalSized` really does first — it checks the payload's byte-length prefix
(`hsz`: whatever `bodyOK` accepts passes `sizedOK`; the driver's `bodyOK` IS `sizedOK`).
Damage at position 5 leaves the low four bits of the first payload byte — the first
byte of that length prefix — unchanged, and two prefixes that agree there and describe
the same tail are equal. Remaining exceptions: '#' in first position (finding) and CR. -/
theorem corruption_sized_partial (cfg : Cfg) (hsz : ∀ q, cfg.bodyOK q = true → sizedOK q = true)
    (p : Bytes) (g : GoodPayload cfg p) (i : Nat) (v : UInt8)
    (hi : i < (msgText p).length) (h10 : v ≠ 10) (h13 : v ≠ 13) (hh : ¬ (i = 0 ∧ v = 35)) :
    readLine cfg ((msgText p).set i v) = .corrupt ∨ readLine cfg ((msgText p).set i v) = .msg p :=
  readLine_set_sized cfg hsz p g i v hi h10 h13 hh

/-- … and inside a whole log (reader stopping at the first error) -/
theorem corrupted_log_sized_partial (cfg : Cfg) (hsz : ∀ q, cfg.bodyOK q = true → sizedOK q = true)
    (before after : List Item)
    (gb : ∀ i ∈ before, GoodItem cfg i) (ga : ∀ i ∈ after, GoodItem cfg i)
    (p : Bytes) (g : GoodPayload cfg p) (i : Nat) (v : UInt8)
    (hi : i < (msgText p).length) (h10 : v ≠ 10) (h13 : v ≠ 13) (hh : ¬ (i = 0 ∧ v = 35)) :
    readAll cfg ((encodeAll (before ++ .msg p :: after)).set ((encodeAll before).length + i) v)
        = (before, .corrupt) ∨
    readAll cfg ((encodeAll (before ++ .msg p :: after)).set ((encodeAll before).length + i) v)
        = (before ++ .msg p :: after, .eof) := by
  rw [set_in_line before after p i v hi,
    readAll_damaged cfg before after gb ga _ (nl_not_mem_set (nl_not_mem_msgText p) h10)]
  rcases readLine_set_sized cfg hsz p g i v hi h10 h13 hh with h | h <;> simp [h]

/-- `hsz` holds for the configuration the driver runs (and the guard is satisfiable at position 5) -/
example : (∀ q, (⟨1000, sizedOK⟩ : Cfg).bodyOK q = true → sizedOK q = true) ∧
    GoodPayload ⟨1000, sizedOK⟩ [3, 1, 2, 3] ∧ (5 : Nat) < (msgText [3, 1, 2, 3]).length :=
  ⟨fun _ h => h, ⟨by decide, by decide, by decide⟩, by decide⟩

/-- Partial result 1″ (CR): a character replaced by CR far enough into the line that it
lies behind the payload's length prefix (`n` prefix bytes: `4 + n ≤ 3·⌊i/4⌋`, i.e. from
position 8 on for payloads shorter than 128 bytes) is reported as corruption: Go's base64
decoder drops the CR, the payload comes out one byte short but still announces its old
length, and amino's length-prefix check (`hsz`) rejects it.
STILL MISSING for `corruption_statement` besides the finding: CR within the first
`⌈4(4+n)/3⌉` characters (the dropped character then shifts the stored CRC and the length
prefix themselves; excluding an accepted altered message there would need more than a
32-bit CRC can promise). -/
theorem corruption_cr_partial (cfg : Cfg) (hsz : ∀ q, cfg.bodyOK q = true → sizedOK q = true)
    (p : Bytes) (g : GoodPayload cfg p) (i : Nat) (hi : i < (msgText p).length)
    (v n : Nat) (hu : uvarint p = some (v, n)) (hpos : 4 + n ≤ 3 * (i / 4)) :
    readLine cfg ((msgText p).set i 13) = .corrupt :=
  readLine_set_cr cfg hsz p g i hi v n hu hpos

/-- the guard is satisfiable: payload `03 01 02 03` (prefix length 1), CR at position 8 -/
example : GoodPayload ⟨1000, sizedOK⟩ [3, 1, 2, 3] ∧ (8 : Nat) < (msgText [3, 1, 2, 3]).length ∧
    uvarint [3, 1, 2, 3] = some (3, 1) ∧ 4 + 1 ≤ 3 * (8 / 4) := by
  refine ⟨⟨by decide, by decide, by decide⟩, by decide, by decide, by decide⟩

/-- Partial result 2: whatever bytes a line consists of, if the reader accepts it as
message `p'` then the line base64-decodes to `crc ‖ p'` with `crc = crc32c p'`, `p'`
is non-empty, within the limit and amino-decodable. So an altered message can only
be accepted if the damaged line carries a matching CRC-32C. -/
theorem accepted_line_has_matching_crc_partial (cfg : Cfg) (l p' : Bytes) (h : readLine cfg l = .msg p') :
    ∃ a b c d, Base64.decode l = some (a :: b :: c :: d :: p') ∧ Crc32c.crc32c p' = ofBe32 a b c d ∧
      p' ≠ [] ∧ (p'.length : Int) ≤ cfg.maxSize ∧ cfg.bodyOK p' = true := by
  obtain ⟨a, b, c, d, h1, h2, h3, h4, h5, _⟩ := readLine_msg_inv h
  exact ⟨a, b, c, d, h1, h2, h3, h4, h5⟩

example : readLine ⟨1000, sizedOK⟩ (msgText [0]) = .msg [0] := by decide

/-! ### observations about height-marker lines (no claim in the statement; reported) -/

/-- A marker line has no checksum: a damaged digit yields a different, accepted height. -/
theorem marker_digit_flip_accepted_observation :
    readAll ⟨1000, sizedOK⟩ ((encodeAll [.mark 1, .msg [0]]).set 7 55) = ([.mark 7, .msg [0]], .eof) := by
  decide

/-- A marker line whose closing brace is damaged makes the JSON token reader run out
of input: the error returned IS io.EOF, so every caller takes it for the end of the
log — everything after that line is silently ignored. -/
theorem marker_damage_reads_as_eof_observation :
    readAll ⟨1000, sizedOK⟩ ((encodeAll [.mark 1, .msg [0]]).set 9 32) = ([], .eof) := by
  decide

/-- Other damage to a marker line is a plain (non-corruption) error. -/
theorem marker_damage_not_corruption_observation :
    readAll ⟨1000, sizedOK⟩ ((encodeAll [.mark 1, .msg [0]]).set 1 65) = ([], .metaerr) := by
  decide

/-- The writer treats `maxSize = 0` as "no limit", the reader as "limit 0": with
that configuration nothing written can be read back. (Production uses 1 MiB.) -/
theorem maxsize_zero_observation :
    writerAccepts 0 [0] = true ∧ readAll ⟨0, sizedOK⟩ (encodeAll [.msg [0]]) = ([], .corrupt) := by
  decide

/-! ## Clause 4 — the search for a height marker -/

/-- The statement: for every rotation layout of well-formed lines with strictly
increasing markers, every search mode and every height, `SearchForHeight` answers
"found", positioned right after the first marker of that height, or "not found"
when there is none. -/
def search_statement : Prop :=
  ∀ (cfg : Cfg) (layout : Layout) (mode : Nat) (h : Int), layout ≠ [] →
    (∀ f ∈ layout, ∀ i ∈ f, GoodItem cfg i) →
    (markersOf layout.flatten).Pairwise (· < ·) →
    search cfg (layoutGroup layout) mode false h = expectedSearch h layout

/-- FINDING (unchanged tree): the statement is false — `SearchForHeight` PANICS
("should not happen"). Witness: the log `#{"h":"0"}`, `#{"h":"2"}` in the first file,
then a rotation (empty head file), search for height 2, default mode. The head has no
marker, `maxVal` drops to 0 and `backoff` to -1, so the next probe index is -1 < minVal.
The same happens for every two-file group whose head is read to its end without a
decisive marker — in particular `catchupReplay`'s first call `SearchForHeight(h+1)`. -/
theorem search_counterexample : ¬ search_statement := by
  intro h
  have := h ⟨1000, sizedOK⟩ [[.mark 0, .mark 2], []] 0 2 (by decide)
    (by
      intro f hf i hi
      simp only [List.mem_cons, List.not_mem_nil, or_false] at hf
      rcases hf with rfl | rfl
      · simp only [List.mem_cons, List.not_mem_nil, or_false] at hi
        rcases hi with rfl | rfl <;> exact ⟨by decide, by decide⟩
      · cases hi)
    (by decide)
  revert this
  decide

/-- the very same layout as the real `NewWAL`/`Start`/`WriteMetaSync(2)`/rotate produce it -/
theorem search_panic_through_wal_counterexample :
    search ⟨1000, sizedOK⟩ (buildGroup 1000 0 0 true [.item (.mark 2), .rotate]) 0 false 2 = .panicked := by
  decide

/-- The start-up path of the consensus state (`catchupReplay`) first calls
`SearchForHeight(lastHeight+1, IgnoreDataCorruptionErrors)` to make sure that marker
does NOT exist. On a group of exactly two files that search panics — even when the head
file holds markers: here heights 0,1,2 | rotation | 3, search for 4. (With one file or
three files the answer is "not found".) -/
theorem search_startup_panic_counterexample :
    search ⟨1000, sizedOK⟩
      (buildGroup 1000 0 0 true [.item (.mark 1), .item (.mark 2), .rotate, .item (.mark 3), .item (.msg [0])])
      0 true 4 = .panicked := by
  decide

/-- Partial result (soundness of "found"): for every rotation layout of well-formed
lines with strictly increasing markers, every mode, with or without
`IgnoreDataCorruptionErrors`: WHENEVER the search answers "found", the reader it hands
back is positioned right after the first marker of the height asked for — never at
another marker, never inside a line.
(See `search_correct_or_panics_partial` below for the complete picture.) -/
theorem search_found_correct_partial (cfg : Cfg) (layout : Layout)
    (g : ∀ f ∈ layout, ∀ i ∈ f, GoodItem cfg i)
    (hinc : (markersOf layout.flatten).Pairwise (· < ·))
    (mode : Nat) (ignore : Bool) (h : Int) (rest : Bytes)
    (hs : search cfg (layoutGroup layout) mode ignore h = .found rest) :
    expectedSearch h layout = .found rest := by
  obtain ⟨f, hf, ha⟩ := search_found_sound cfg layout g mode ignore h rest hs
  exact expectedSearch_of_mem layout hinc h f hf rest ha

/-- the hypotheses are satisfiable, and "found" does occur -/
example : (∀ f ∈ ([[.mark 1, .msg [0]], [.mark 2], [.msg [0]]] : Layout), ∀ i ∈ f, GoodItem ⟨1000, sizedOK⟩ i) ∧
    (markersOf ([[.mark 1, .msg [0]], [.mark 2], [.msg [0]]] : Layout).flatten).Pairwise (· < ·) ∧
    search ⟨1000, sizedOK⟩ (layoutGroup [[.mark 1, .msg [0]], [.mark 2], [.msg [0]]]) 0 false 1
      = .found (encodeAll [.msg [0]]) := by
  refine ⟨?_, by decide, by decide⟩
  intro f hf i hi
  simp only [List.mem_cons, List.not_mem_nil, or_false] at hf
  rcases hf with rfl | rfl | rfl <;> simp only [List.mem_cons, List.not_mem_nil, or_false] at hi
  · rcases hi with rfl | rfl
    · exact ⟨by decide, by decide⟩
    · exact ⟨by decide, by decide, by decide⟩
  · subst hi; exact ⟨by decide, by decide⟩
  · subst hi; exact ⟨by decide, by decide, by decide⟩

/-- The probing loop of `SearchForHeight` always terminates — for every group, whatever
its files contain, every mode and height (the model's fuel bound `8(n+4)²+64` is never
exhausted: a potential built from the width of [minVal, maxVal], the mode and the probes
left in the current round decreases at every turn). -/
theorem search_terminates (cfg : Cfg) (g : Group) (mode : Nat) (ignore : Bool) (h : Int) :
    search cfg g mode ignore h ≠ .fuelOut :=
  search_ne_fuelOut cfg g mode ignore h

/-- Partial result (the search is right or panics): for every rotation layout of
well-formed lines with strictly increasing markers, every mode and every height, the
outcome of `SearchForHeight` is the RIGHT answer — "found" right after the first marker
of that height, "not found" when there is none — or the panic of the finding
(`search_counterexample`). Nothing else can happen.
The "not found" half is a loop-invariant proof: the marker, if present, always lies
in [minVal, maxVal] and not in a file already probed in the current round.
MISSING for `search_statement`: only the absence of the panic — which is false on the
unchanged tree. -/
theorem search_correct_or_panics_partial (cfg : Cfg) (layout : Layout)
    (g : ∀ f ∈ layout, ∀ i ∈ f, GoodItem cfg i)
    (hinc : (markersOf layout.flatten).Pairwise (· < ·))
    (mode : Nat) (ignore : Bool) (h : Int) :
    search cfg (layoutGroup layout) mode ignore h = expectedSearch h layout ∨
    search cfg (layoutGroup layout) mode ignore h = .panicked := by
  have hne := search_no_err cfg layout g mode ignore h
  cases hr : search cfg (layoutGroup layout) mode ignore h with
  | found rest =>
    obtain ⟨f, hf, ha⟩ := search_found_sound cfg layout g mode ignore h rest hr
    exact Or.inl (expectedSearch_of_mem layout hinc h f hf rest ha).symm
  | notFound => exact Or.inl (search_notFound_sound cfg layout g hinc mode ignore h hr).symm
  | errCorrupt => exact absurd hr hne.1
  | errMeta => exact absurd hr hne.2
  | panicked => exact Or.inr rfl
  | fuelOut => exact absurd hr (search_ne_fuelOut cfg _ mode ignore h)

/-- Full correctness of the BINARY search mode (`WALSearchOptions{Mode: WALSearchModeBinary}`):
it cannot reach the panic, so it finds the position right after the first marker of the
height for every layout, and answers "not found" exactly when there is none.
(The default mode, backwards, is the one that panics.) -/
theorem search_binary_mode_correct (cfg : Cfg) (layout : Layout)
    (g : ∀ f ∈ layout, ∀ i ∈ f, GoodItem cfg i)
    (hinc : (markersOf layout.flatten).Pairwise (· < ·)) (ignore : Bool) (h : Int) :
    search cfg (layoutGroup layout) 2 ignore h = expectedSearch h layout := by
  rcases search_correct_or_panics_partial cfg layout g hinc 2 ignore h with hc | hp
  · exact hc
  · exact absurd hp (search_binary_no_panic cfg _ ignore h)

/-- Partial result: over well-formed lines the search never ends in a read error
(neither a corruption error nor a marker-parse error). -/
theorem search_no_read_error_partial (cfg : Cfg) (layout : Layout)
    (g : ∀ f ∈ layout, ∀ i ∈ f, GoodItem cfg i) (mode : Nat) (ignore : Bool) (h : Int) :
    search cfg (layoutGroup layout) mode ignore h ≠ .errCorrupt ∧
    search cfg (layoutGroup layout) mode ignore h ≠ .errMeta :=
  search_no_err cfg layout g mode ignore h

/-- The reader handed back by a successful search covers only the rest of the file
in which the marker was found (`NewReader(index, index+1)`), not the files after it:
here the message written after the rotation is not in it. (Reported; the statement
only speaks of the position.) -/
theorem search_reader_single_file_observation :
    search ⟨1000, sizedOK⟩ (layoutGroup [[.mark 1, .msg [0]], [.msg [0]], [.msg [0]]]) 0 false 1
      = .found (encodeAll [.msg [0]]) := by
  decide

end GnoVerif.C38
