import GnoVerif.Proofs.C52Esc
import GnoVerif.Proofs.C52Tok
import GnoVerif.Proofs.C52Url
import GnoVerif.Proofs.C52Dec
import GnoVerif.Proofs.C52Link
import GnoVerif.Spec.C52Writes
/-!
# C52 — gnoweb never turns realm output into executable web content

Statement: in its default (safe) configuration, for every markdown document a realm
renders, the HTML gnoweb serves contains no script elements, no event-handler
attributes, no raw HTML passed through from the document, and no link or image URL
with a script-capable scheme.

What is a THEOREM here (about `Model/C52.lean`, whose tables are regenerated from the
goldmark sources and whose functions are compared with the real Go functions on every run),
with the browser side given by `Spec/C52Html.lean` (`step`/`run` tokenizer, `decodeRefs`,
`stripURL`, `scriptCapable`):

* the three escapers every dynamic write of gnoweb's renderers goes through
  (`template.HTMLEscapeString`, `html.EscapeString`, goldmark `util.EscapeHTML`) never
  emit `<`, `>`, `"` (nor `'` / NUL where they handle them), and every `&` they emit starts
  an entity they produced themselves (`*_no_markup`, `*_amp_is_entity`);
* consequently their output cannot open a tag in text, cannot leave a double- (single-)
  quoted attribute value, a comment or a `<textarea>` — stated on the tokenizer
  (`*_stays_in_context`);
* the `href` gnoweb's `renderGnoLink` writes and the `src` goldmark writes after gnoweb's
  image validator are never script-capable for ANY destination, as the browser reads the
  attribute (references decoded, leading/trailing controls stripped, tab/newline removed,
  scheme compared case-insensitively) (`link_href_never_script_capable`,
  `img_src_never_script_capable`), through every quirk of `URLEscape`;
* the order of check and escape matters: the pre-fix `renderGnoLink` (check on the raw
  destination) serves `javascript:` (`raw_check_order_counterexample`).

* the whole element `renderGnoLink` writes is one `<a href rel title>` tag plus constant tags
  and is safe (`link_element_tokens`, `link_element_safe`);
* for every other renderer of gnoweb/markdown/*.go (translated from the source on every run),
  every escaped value is written in one of those contexts (`renderers_holes_stable`).

NOT a theorem (correspondence / extracted facts / end-to-end oracle only): that the
translation `gvx c52flow` is faithful and the vetted finite sets (alert kinds) are right
(F: C52.writes.txt, C52.alert.txt), that `WithUnsafe` is absent from the default
configuration (F), goldmark's own parser and renderer, chroma and html/template (trusted;
exercised by the end-to-end oracle on generated documents), and the composition of all of
this into the statement for whole documents.
-/
namespace GnoVerif.C52

/-- the full statement, for a rendering function `render` from documents to served bytes:
    whatever the document, the served HTML is safe as a browser reads it -/
def never_executable_statement (lk : Lookup) (render : Bytes → Bytes) : Prop :=
  ∀ doc : Bytes, safeHTML lk (render doc) = true

/-! ## 1. the escapers never emit markup bytes -/

/-- `template.HTMLEscapeString` (every `%s` of ext_forms.go): no `<`, `>`, `"`, `'`, NUL in the output -/
theorem tesc_no_markup (s : Bytes) :
    ∀ b ∈ tesc s, b ≠ 60 ∧ b ≠ 62 ∧ b ≠ 34 ∧ b ≠ 39 ∧ b ≠ 0 := tesc_clean s

/-- `html.EscapeString` (gno-foreign label / error, plain-text fallback): no `<`, `>`, `"`, `'` -/
theorem hesc_no_markup (s : Bytes) :
    ∀ b ∈ hesc s, b ≠ 60 ∧ b ≠ 62 ∧ b ≠ 34 ∧ b ≠ 39 := hesc_clean s

/-- goldmark `util.EscapeHTML` (attributes of ext_links.go, code fallback): no `<`, `>`, `"`, NUL
    (it does NOT escape `'`: it is only ever placed in text or between double quotes) -/
theorem gesc_no_markup (s : Bytes) :
    ∀ b ∈ gesc s, b ≠ 60 ∧ b ≠ 62 ∧ b ≠ 34 ∧ b ≠ 0 := gesc_clean s

example : tesc (B!"<a href='x'>&\"") = B!"&lt;a href=&#39;x&#39;&gt;&amp;&#34;" := by decide
example : gesc (B!"<'\">&") = B!"&lt;'&quot;&gt;&amp;" := by decide

/-! ## 2. every `&` in an escaper's output starts one of its own entities -/

theorem tesc_amp_is_entity (s : Bytes) : ampOK goTails (tesc s) = true := tesc_ampOK s
theorem hesc_amp_is_entity (s : Bytes) : ampOK goTails (hesc s) = true := hesc_ampOK s
theorem gesc_amp_is_entity (s : Bytes) : ampOK gmTails (gesc s) = true := gesc_ampOK s

example : ampOK goTails (B!"a&b") = false := by decide
example : ampOK goTails (tesc (B!"a&b&amp;")) = true := by decide

/-! ## 3. escaped text cannot leave the context it is written into -/

/-- Text without `<`, `>`, `"`, `'`, read by the tokenizer:
    * in the data state it produces nothing and stays in the data state (no tag is opened);
    * inside a double- or single-quoted attribute value it only extends that value;
    * inside a comment it stays inside the comment;
    * inside `<textarea>` (RCDATA) it stays there. -/
theorem clean_text_stays_in_context (e : Bytes)
    (he : ∀ b ∈ e, b ≠ 60 ∧ b ≠ 62 ∧ b ≠ 34 ∧ b ≠ 39) (t : Tok) :
    (t.st = .data → run t e = t) ∧
    (t.st = .attrDQ → run t e = { t with av := e.reverse ++ t.av }) ∧
    (t.st = .attrSQ → run t e = { t with av := e.reverse ++ t.av }) ∧
    (inComment t.st → ∃ s', inComment s' ∧ run t e = { t with st := s' }) ∧
    (t.st = .rawText → t.rawBuf = [] → run t e = t) :=
  ⟨fun h => run_data t e h (fun b hb => (he b hb).1),
   fun h => run_attrDQ t e h (fun b hb => (he b hb).2.2.1),
   fun h => run_attrSQ t e h (fun b hb => (he b hb).2.2.2),
   fun h => run_comment t e h (fun b hb => (he b hb).2.1),
   fun h hb => run_rawText t e h hb (fun b hb' => (he b hb').1)⟩

/-- what `ext_forms.go` writes for any attacker-chosen string stays in its context -/
theorem tesc_stays_in_context (s : Bytes) (t : Tok) :
    (t.st = .data → run t (tesc s) = t) ∧
    (t.st = .attrDQ → run t (tesc s) = { t with av := (tesc s).reverse ++ t.av }) ∧
    (t.st = .attrSQ → run t (tesc s) = { t with av := (tesc s).reverse ++ t.av }) ∧
    (inComment t.st → ∃ s', inComment s' ∧ run t (tesc s) = { t with st := s' }) ∧
    (t.st = .rawText → t.rawBuf = [] → run t (tesc s) = t) :=
  clean_text_stays_in_context (tesc s)
    (fun b hb => let h := tesc_clean s b hb; ⟨h.1, h.2.1, h.2.2.1, h.2.2.2.1⟩) t

theorem hesc_stays_in_context (s : Bytes) (t : Tok) :
    (t.st = .data → run t (hesc s) = t) ∧
    (t.st = .attrDQ → run t (hesc s) = { t with av := (hesc s).reverse ++ t.av }) ∧
    (t.st = .attrSQ → run t (hesc s) = { t with av := (hesc s).reverse ++ t.av }) ∧
    (inComment t.st → ∃ s', inComment s' ∧ run t (hesc s) = { t with st := s' }) ∧
    (t.st = .rawText → t.rawBuf = [] → run t (hesc s) = t) :=
  clean_text_stays_in_context (hesc s) (hesc_clean s) t

/-- goldmark's escaper: text, double-quoted attribute, comment, RCDATA (NOT single quotes) -/
theorem gesc_stays_in_context (s : Bytes) (t : Tok) :
    (t.st = .data → run t (gesc s) = t) ∧
    (t.st = .attrDQ → run t (gesc s) = { t with av := (gesc s).reverse ++ t.av }) ∧
    (inComment t.st → ∃ s', inComment s' ∧ run t (gesc s) = { t with st := s' }) ∧
    (t.st = .rawText → t.rawBuf = [] → run t (gesc s) = t) :=
  ⟨fun h => run_data t _ h (fun b hb => (gesc_clean s b hb).1),
   fun h => run_attrDQ t _ h (fun b hb => (gesc_clean s b hb).2.2.1),
   fun h => run_comment t _ h (fun b hb => (gesc_clean s b hb).2.1),
   fun h hb => run_rawText t _ h hb (fun b hb' => (gesc_clean s b hb').1)⟩

/-- non-vacuity: the hypotheses describe reachable tokenizer states -/
example : (run {} (B!"<a title=\"")).st = .attrDQ := by decide
example : (run {} (B!"<a title='")).st = .attrSQ := by decide
example : inComment (run {} (B!"<!-- Error: ")).st := by unfold inComment; decide
example : (run {} (B!"<textarea>")).st = .rawText ∧ (run {} (B!"<textarea>")).rawBuf = [] := by decide
/-- and an UNescaped quote does leave the attribute (the lemma is not true for arbitrary text) -/
example : (tokenize (B!"<a title=\"x\" onclick=\"y\">")).map (·.attrs.map (·.1)) = [[B!"title", B!"onclick"]] := by
  decide
example : (tokenize (B!"<a title=\"" ++ tesc (B!"x\" onclick=\"y") ++ B!"\">")).map (·.attrs.map (·.1))
    = [[B!"title"]] := by decide

/-! ## 4. URLs: what is written into `href` / `src` is never script-capable -/

/-- goldmark's order — escape, then check the escaped bytes — is safe for every destination
    and every entity table: the browser's reading of the attribute is never script-capable. -/
theorem href_esc_check_never_script_capable (lk lk' : Lookup) (hk : KnowsBasic lk') (dest : Bytes) :
    scriptCapable (decodeRefs lk' (hrefEscCheck lk dest)) = false :=
  hrefEscCheck_safe lk lk' hk dest

/-- gnoweb `renderGnoLink` (ext_links.go, as fixed by 4ecd5c7d05) -/
theorem link_href_never_script_capable (lk lk' : Lookup) (hk : KnowsBasic lk') (dest : Bytes) :
    scriptCapable (decodeRefs lk' (linkHref lk dest)) = false :=
  href_esc_check_never_script_capable lk lk' hk dest

/-- `<img src>`: gnoweb's image validator followed by goldmark's `renderImage` -/
theorem img_src_never_script_capable (lk lk' : Lookup) (hk : KnowsBasic lk') (dest : Bytes) :
    scriptCapable (decodeRefs lk' (imgSrc lk dest)) = false := by
  unfold imgSrc
  exact href_esc_check_never_script_capable lk lk' hk _

/-- a lookup satisfying `KnowsBasic` -/
def basicLookup : Lookup := fun n =>
  if n = B!"amp" then some [38] else if n = B!"lt" then some [60] else if n = B!"gt" then some [62]
  else if n = B!"quot" then some [34] else if n = B!"colon" then some [58] else none

example : KnowsBasic basicLookup := by unfold KnowsBasic; decide
/-- the spec does flag what it should: plain, mixed-case, tab-split, control-prefixed, entity-spelled -/
example : scriptCapable (B!"javascript:alert(1)") = true := by decide
example : scriptCapable (B!" \tJaVa\nScRiPt:alert(1)") = true := by decide
example : scriptCapable (decodeRefs basicLookup (B!"java&#115;cript&colon;alert(1)")) = true := by decide
example : scriptCapable (B!"data:text/html,x") = true ∧ scriptCapable (B!"data:image/png;base64,AA") = false := by
  decide
/-- and the model blocks them -/
example : linkHref basicLookup (B!"java&#115;cript&colon;alert(1)") = [] := by decide
example : linkHref basicLookup (B!"/r/demo/foo?a=1&b=2") = B!"/r/demo/foo?a=1&amp;b=2" := by decide

/-! ## 5. the whole element `renderGnoLink` writes -/

/-- Around any text without `<`, what `renderGnoLink` writes is read by the tokenizer as exactly:
    ONE start tag `a` whose attributes are `href` (= `linkHref`), `rel` (external / untrusted
    links), `title` (escaped) — then the constant icon tags and `</a>`.  Neither the destination
    nor the title can add a tag or an attribute. -/
theorem link_element_tokens (lk : Lookup) (n : LinkIn) (hty : n.ty ≠ 0) (txt : Bytes)
    (htxt : ∀ b ∈ txt, b ≠ 60) :
    tokenize (renderGnoLink lk n txt) =
      { name := B!"a", closing := false, attrs := linkAttrs lk n } :: tokenize (linkClose n) :=
  link_tokens lk n hty txt htxt

/-- …and the element is safe as a browser reads it, for every link type, destination, title
    and entity table (the full statement restricted to the link renderer). -/
theorem link_element_safe (lk lk' : Lookup) (hk : KnowsBasic lk') (n : LinkIn) (txt : Bytes)
    (htxt : ∀ b ∈ txt, b ≠ 60) : safeHTML lk' (renderGnoLink lk n txt) = true := by
  unfold safeHTML
  by_cases hty : n.ty = 0
  · have : renderGnoLink lk n txt = B!"<!-- invalid link -->" := by
      unfold renderGnoLink linkOpen; simp [hty]
    rw [this]
    have ht : tokenize (B!"<!-- invalid link -->") = [] := by decide
    rw [ht]; rfl
  · rw [link_tokens lk n hty txt htxt]
    have : firstProblem lk' ({ name := [97], closing := false, attrs := linkAttrs lk n } :: tokenize (linkClose n)) = 0 := by
      apply firstProblem_zero
      intro t ht
      rcases List.mem_cons.1 ht with ht | ht
      · subst ht; exact linkOpen_tag_safe lk lk' hk n
      · exact tagProblem_of_plain lk' t
          (List.all_eq_true.1 (closeVariants_plain _ (linkClose_mem n hty)) t ht)
    simp [this]

set_option maxRecDepth 100000 in
example : (tokenize (renderGnoLink basicLookup
    { ty := 1, untrusted := false, help := false, dest := B!"/x\" onclick=\"alert(1)",
      title := some (B!"\"><script>alert(1)</script>") } (B!"x"))).map (fun t => (t.name, t.attrs.map (·.1)))
    = [(B!"a", [B!"href", B!"rel", B!"title"]),
       (B!"span", [B!"class", B!"data-tooltip-target", B!"data-tooltip", B!"title"]),
       (B!"svg", [B!"class"]), (B!"use", [B!"href"]), (B!"use", []), (B!"svg", []), (B!"span", []),
       (B!"a", [])] := by
  decide

/-! ## 6. every other renderer: each dynamic piece is written in a context it cannot leave -/

/-- `Gen/C52Flow.lean` is the translation (by `gvx c52flow`, on every run) of every function of
    gnoweb/markdown/*.go that writes HTML — forms, gno-foreign, columns, alerts, code expansion;
    `ext_links.go` is covered by section 5 — into abstract programs over their writes, conditions
    abstracted away.  Interpreted over sets of tokenizer states (`flowOK`): starting each goldmark
    node renderer in the data state, EVERY escaped value / integer is written in text, inside a
    quoted attribute value, a comment or a `<textarea>` (the contexts of section 3), every nested
    renderer starts in the data state, and every renderer returns to the data state.
    Together with section 3: no dynamic value can open a tag or add an attribute there. -/
theorem renderers_holes_stable :
    flowOK GnoVerif.Gen.C52Flow.funcs GnoVerif.Gen.C52Flow.roots = true := by
  decide +kernel

/-- the check is not vacuous: an unquoted attribute hole, or a hole right after a tag name, is rejected -/
example : flowOK [("f", .write [[.lit (B!"<input value="), .escT, .lit (B!" />")]])] ["f"] = false := by
  decide +kernel
example : flowOK [("f", .write [[.lit (B!"<input value=\""), .escT, .lit (B!"\" />")]])] ["f"] = true := by
  decide +kernel
example : flowOK [("f", .seq [.write [[.lit (B!"<input")]], .write [[.escT]], .write [[.lit (B!">")]]])] ["f"]
    = false := by decide +kernel
/-- goldmark's escaper leaves `'` alone: it must not be used inside a single-quoted value -/
example : flowOK [("f", .write [[.lit (B!"<a title='"), .escG, .lit (B!"'>")]])] ["f"] = false := by
  decide +kernel

/-- The pre-fix `renderGnoLink` — `IsDangerousURL` on the RAW destination, then
    `EscapeHTML(URLEscape(dest, true))` — serves a `javascript:` href: the witness of the
    finding fixed in /repo by 4ecd5c7d05 (corpus/C52/fixed_link_entity_scheme.ops). -/
theorem raw_check_order_counterexample :
    linkHrefRawCheck basicLookup (B!"java&#115;cript:alert(1)") = B!"javascript:alert(1)" ∧
    scriptCapable (decodeRefs basicLookup (linkHrefRawCheck basicLookup (B!"java&#115;cript:alert(1)"))) = true := by
  decide

end GnoVerif.C52
