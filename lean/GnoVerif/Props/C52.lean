import GnoVerif.Spec.C52Html
namespace GnoVerif.C52
end GnoVerif.C52
