import GnoVerif.Proofs.C04Shift
import GnoVerif.Proofs.C04Fold
import GnoVerif.Proofs.C04Mono
import GnoVerif.Proofs.C04Slice
import GnoVerif.Model.C04Known
import GnoVerif.Model.C04Line
/-!
# C04 — Gno programs compute what the same Go program computes

The statement quantifies over all programs of the supported subset and compares
two implementations (GnoVM, Go).  That comparison is made by the three-way
correspondence run (Lean model ↔ GnoVM ↔ native Go, `harness/cmd/c04`), not by
a theorem.  The theorems below are about the MODEL (`Model/C04Int`, `C04Val`,
`C04Eval`, `C04Fold`), for all operands / expressions / stores, and say that
the model's semantics is the Go specification's:

* integer arithmetic at every width is arithmetic of the integers modulo
  `2^width` (`wrap_*`, `add_wraps`, `sub_wraps`, `mul_wraps`, `neg_wraps`, `compl_wraps`);
* `/` truncates toward zero, `%` has the sign of the dividend, both panic on a
  zero divisor, the only inexact quotient is `MinInt / -1`;
* shifts: `x << n = x·2^n` mod `2^width`, `x >> n = ⌊x / 2^n⌋`, hence `0` /
  sign fill once `n ≥ width`; a negative count panics;
* conversions truncate / sign-extend (= keep the value modulo `2^width(T)`);
* comparisons are the comparisons of the integers;
* constant folding (what the preprocessor does) = run-time evaluation;
* `append` within capacity aliases, beyond capacity copies;
* the three recorded defects of the unchanged tree: the model (= Go) and the
  observed GnoVM answer differ on the pinned witnesses.

NOT proved: fuel monotonicity of the whole evaluator (only for constant
expressions, `const_value_fuel_independent`); anything about the GnoVM or the
Go compiler themselves.
-/
namespace GnoVerif.C04
open GnoVerif

/-! ## integers modulo 2^width -/

/-- `wrap t z` is a value of the type, congruent to `z` modulo `2^width` … -/
theorem wrap_spec (t : ITy) (z : Int) :
    t.inRange (wrap t z) = true ∧ ∃ k : Int, wrap t z = z + k * 2 ^ t.width :=
  ⟨wrap_inRange t z, wrap_cong t z⟩

/-- … and it is the only such value -/
theorem wrap_unique (t : ITy) (z r : Int) (hr : t.inRange r = true) (k : Int)
    (h : r = z + k * 2 ^ t.width) : r = wrap t z :=
  wrap_eq_of_cong hr k h

example : ITy.i8.inRange (-56) = true ∧ (-56 : Int) = 200 + (-1) * 2 ^ ITy.i8.width := by decide

/-- a value of the type is its own representative (no operation changes an in-range result) -/
theorem wrap_id (t : ITy) (a : Int) (h : t.inRange a = true) : wrap t a = a := wrap_of_inRange h

/-- `a + b` at type `t` is the integer sum reduced modulo `2^width` (overflow wraps around) -/
theorem add_wraps (t : ITy) (a b : Int) : arith t .add a b = .ok (wrap t (a + b)) := arith_add t a b
/-- `a - b` wraps around -/
theorem sub_wraps (t : ITy) (a b : Int) : arith t .sub a b = .ok (wrap t (a - b)) := arith_sub t a b
/-- `a * b` wraps around -/
theorem mul_wraps (t : ITy) (a b : Int) : arith t .mul a b = .ok (wrap t (a * b)) := arith_mul t a b
/-- `-a` wraps around (`-MinInt = MinInt`) -/
theorem neg_wraps (t : ITy) (a : Int) : unInt t .neg a = wrap t (-a) := unInt_neg t a
/-- `^a = -a - 1` modulo `2^width` -/
theorem compl_wraps (t : ITy) (a : Int) : unInt t .compl a = wrap t (-a - 1) := unInt_compl t a

/-! ## division -/

/-- a zero divisor is the run-time panic "division by zero", at every type -/
theorem quo_by_zero_panics (t : ITy) (a : Int) : arith t .quo a 0 = .error .divzero := arith_quo_zero t a
theorem rem_by_zero_panics (t : ITy) (a : Int) : arith t .rem a 0 = .error .divzero := arith_rem_zero t a

/-- `/` is the quotient truncated toward zero, reduced into the type -/
theorem quo_truncates (t : ITy) (a b : Int) (ha : t.inRange a = true) (hb : t.inRange b = true)
    (hb0 : b ≠ 0) : arith t .quo a b = .ok (wrap t (Int.tdiv a b)) := arith_quo ha hb hb0

/-- the reduction only matters for `MinInt / -1` (which wraps to `MinInt`) -/
theorem quo_exact_unless_min_over_minus_one (t : ITy) (a b : Int) (ha : t.inRange a = true)
    (hb : t.inRange b = true) (hb0 : b ≠ 0) (hov : ¬ (t.signed = true ∧ a = t.min ∧ b = -1)) :
    arith t .quo a b = .ok (Int.tdiv a b) := by
  rw [arith_quo ha hb hb0, quo_exact ha hb hb0 hov]

example : ITy.i8.inRange (-7) = true ∧ ITy.i8.inRange 2 = true ∧ (2 : Int) ≠ 0 ∧
    ¬ (ITy.i8.signed = true ∧ (-7 : Int) = ITy.i8.min ∧ (2 : Int) = -1) ∧ Int.tdiv (-7) 2 = -3 := by decide

/-- the overflow case really wraps: `MinInt8 / -1 = MinInt8` -/
theorem quo_min_over_minus_one_i8 : arith .i8 .quo (-128) (-1) = .ok (-128) := by decide

/-- `%` is the remainder of truncated division: it has the sign of the dividend -/
theorem rem_sign_of_dividend (t : ITy) (a b : Int) (ha : t.inRange a = true) (hb : t.inRange b = true)
    (hb0 : b ≠ 0) : arith t .rem a b = .ok (Int.tmod a b) := arith_rem ha hb hb0

example : Int.tmod (-7) 2 = -1 ∧ Int.tmod 7 (-2) = 1 := by decide

/-! ## shifts -/

/-- a negative shift count of a signed type panics, whatever is shifted -/
theorem shift_negative_count_panics (t tn : ITy) (left : Bool) (x n : Int) (hs : tn.signed = true)
    (hn : n < 0) : shift t left x tn n = .error .negshift := shift_negative left x n hs hn

example : ITy.i16.signed = true ∧ (-1 : Int) < 0 := by decide

/-- `x << n = x · 2^n` reduced modulo `2^width`, for a count of any integer type -/
theorem shl_is_mul_pow (t tn : ITy) (x n : Int) (h0 : 0 ≤ n) (hr : tn.inRange n = true) :
    shift t true x tn n = .ok (wrap t (x * 2 ^ n.toNat)) := shift_left x h0 hr

/-- `x << n = 0` once `n ≥ width` -/
theorem shl_ge_width_is_zero (t tn : ITy) (x n : Int) (h0 : 0 ≤ n) (hr : tn.inRange n = true)
    (hge : (t.width : Int) ≤ n) : shift t true x tn n = .ok 0 := shift_left_ge_width x h0 hr hge

example : (0 : Int) ≤ 9 ∧ ITy.u8.inRange 9 = true ∧ ((ITy.i8.width : Int) ≤ 9) := by decide

/-- `x >> n = ⌊x / 2^n⌋`: logical for unsigned, arithmetic for signed operands -/
theorem shr_is_floor_div_pow (t tn : ITy) (x n : Int) (hx : t.inRange x = true) (h0 : 0 ≤ n)
    (hr : tn.inRange n = true) : shift t false x tn n = .ok (x / 2 ^ n.toNat) := shift_right hx h0 hr

/-- `x >> n` is `0`, or `-1` for a negative `x` (sign fill), once `n ≥ width` -/
theorem shr_ge_width_is_sign_fill (t tn : ITy) (x n : Int) (hx : t.inRange x = true) (h0 : 0 ≤ n)
    (hr : tn.inRange n = true) (hge : (t.width : Int) ≤ n) :
    shift t false x tn n = .ok (if x < 0 then -1 else 0) := shift_right_ge_width hx h0 hr hge

example : ITy.i8.inRange (-5) = true ∧ (0 : Int) ≤ 200 ∧ ITy.u8.inRange 200 = true ∧
    ((ITy.i8.width : Int) ≤ 200) := by decide

/-! ## conversions and comparisons -/

/-- `T(x)` keeps the value modulo `2^width(T)`: truncation when narrowing, sign /
zero extension (the value itself) when widening -/
theorem conv_truncates_or_extends (s t : ITy) (a : Int) (ha : s.inRange a = true) :
    convInt s t a = wrap t a := convInt_eq ha

/-- widening or same-width-same-sign conversions keep the value -/
theorem conv_preserves_representable (s t : ITy) (a : Int) (ha : s.inRange a = true)
    (hb : t.inRange a = true) : convInt s t a = a := by
  rw [convInt_eq ha, wrap_of_inRange hb]

example : ITy.i16.inRange 300 = true ∧ convInt .i16 .u8 300 = 44 ∧ convInt .i8 .u16 (-1) = 65535 := by decide

theorem cmp_eq_is_int_eq (t : ITy) (a b : Int) (ha : t.inRange a = true) (hb : t.inRange b = true) :
    cmpInt t .eq a b = decide (a = b) := cmpInt_eq ha hb
theorem cmp_lt_is_int_lt (t : ITy) (a b : Int) (ha : t.inRange a = true) (hb : t.inRange b = true) :
    cmpInt t .lt a b = decide (a < b) := cmpInt_lt ha hb
theorem cmp_le_is_int_le (t : ITy) (a b : Int) (ha : t.inRange a = true) (hb : t.inRange b = true) :
    cmpInt t .le a b = decide (a ≤ b) := cmpInt_le ha hb

/-- every arithmetic result is again a value of the type -/
theorem arith_result_inRange (t : ITy) (op : ArOp) (a b r : Int) (h : arith t op a b = .ok r) :
    t.inRange r = true := by
  cases op <;> simp only [arith] at h
  case quo =>
    split at h
    · cases h; exact unbits_inRange t _
    · cases h
  case rem =>
    split at h
    · cases h; exact unbits_inRange t _
    · cases h
  all_goals (cases h; exact unbits_inRange t _)

/-! ## constant folding = run-time evaluation -/

/-- the full statement about fuel: more fuel never changes a finished run -/
def fuel_monotone_statement (P : Program) : Prop :=
  ∀ (n : Nat) (ctx : Ctx) (e : Expr) (s : St),
    (evalE P n ctx e s).isOof = false → evalE P (n + 1) ctx e s = evalE P n ctx e s

/-- for constant expressions the value does not depend on the fuel, the context
or the store (a partial form of `fuel_monotone_statement`: variables, calls,
loops and composite values are not covered) -/
theorem const_value_fuel_independent_partial (P : Program) (e : Expr) (v : Val) (h : constVal e = some v)
    (n : Nat) (ctx : Ctx) (s : St) :
    evalE P n ctx e s = .ok v s ∨ evalE P n ctx e s = .err .oof s :=
  constVal_sound P n e v h ctx s

example : constVal (.bin (.ar .add) (.lit (.int .i8 100)) (.lit (.int .i8 100))) = some (.int .i8 (-56)) := by
  rfl

/-- more fuel never changes a finished evaluation, for every call-free scalar expression
(literals, variables, constant expressions, all unary / binary operators, `&&` `||`, conversions,
boxing, `len` / `cap`, field selection, dereference) in every context and store — the part of
`fuel_monotone_statement` that is proved; calls, statements, loops and composite construction
are not covered -/
theorem simple_expr_fuel_monotone_partial (P : Program) (n : Nat) (e : Expr) (ctx : Ctx) (s : St)
    (hs : simpleExpr e = true) (h : (evalE P n ctx e s).isOof = false) :
    evalE P (n + 1) ctx e s = evalE P n ctx e s := simple_fuel_mono P n e ctx s hs h

example : simpleExpr (.bin (.ar .quo) (.var "x") (.un .neg (.conv (.int .i8) (.var "y")))) = true := by rfl

/-- a constant whose evaluation would panic is NOT folded away: `1 / 0` stays for run time -/
theorem const_panic_not_folded :
    cfold (.bin (.ar .quo) (.lit (.int .int 1)) (.lit (.int .int 0))) =
      .bin (.ar .quo) (.lit (.int .int 1)) (.lit (.int .int 0)) := by rfl

/-- the preprocessor's claim: replacing constant subexpressions by their values
changes nothing — same value, same panic, same store — for every expression,
context and store (whenever the fuel suffices for the unfolded expression) -/
theorem const_fold_preserves_eval (P : Program) (n : Nat) (e : Expr) (ctx : Ctx) (s : St)
    (h : (evalE P n ctx e s).isOof = false) :
    evalE P n ctx (cfold e) s = evalE P n ctx e s := evalE_cfold P n e ctx s h

/-! ## slices: append aliasing -/

/-- `append` within capacity writes into the shared array and returns a slice over the same array -/
theorem append_within_capacity_aliases (s : St) (a off len cap : Nat) (xs es : List Val)
    (hne : xs.isEmpty = false) (hfit : len + xs.length ≤ cap) (ha : s.heap[a]? = some (.arr es)) :
    appendVals (.slice (some a) off len cap) xs s =
      .ok (.slice (some a) off (len + xs.length) cap)
        { s with heap := s.heap.set! a (.arr (es.take (off + len) ++ xs ++ es.drop (off + len + xs.length))) } :=
  append_in_place s a off len cap xs es hne hfit ha

/-- `append` beyond capacity returns a slice over a fresh array (cap = len); the old array is untouched -/
theorem append_beyond_capacity_copies (s : St) (a off len cap : Nat) (xs es : List Val)
    (hne : xs.isEmpty = false) (hbig : cap < len + xs.length) (ha : s.heap[a]? = some (.arr es)) :
    appendVals (.slice (some a) off len cap) xs s =
      .ok (.slice (some s.heap.size) 0 (len + xs.length) (len + xs.length))
        { s with heap := s.heap.push (.arr ((es.drop off).take len ++ xs)) } :=
  append_grows s a off len cap xs es hne hbig ha

example : ([Val.int .int 1].isEmpty = false) ∧ (2 + [Val.int .int 1].length ≤ 4) ∧
    (({ heap := #[.arr [.int .int 0, .int .int 0, .int .int 0, .int .int 0]] } : St).heap[0]? =
      some (.arr [.int .int 0, .int .int 0, .int .int 0, .int .int 0])) := ⟨rfl, by decide, rfl⟩

/-! ## recorded defects of the unchanged tree (known_findings/C04.json)

On each pinned witness the model gives Go's answer (the driver re-checks this on
every run against the corpus line, and native Go is the oracle of the
correspondence run), and the answer the GnoVM was observed to give is different. -/

set_option maxRecDepth 100000 in
/-- `var a uint16 = 3527; x := a; x >>= uint8(a) & 7; println(x)`: 27, the GnoVM prints 0 -/
theorem shift_assign_narrow_count_counterexample :
    outcomeLine (runProgram Known.shiftAssign 64) = Known.shiftAssign_go ∧
    Known.shiftAssign_go ≠ Known.shiftAssign_gno := by decide

set_option maxRecDepth 100000 in
/-- `a := 1; v := (a < 2) || (3 <= 4); w := !v; println(w)`: false, the GnoVM rejects the program -/
theorem untyped_bool_rejected_counterexample :
    outcomeLine (runProgram Known.untypedBool 64) = Known.untypedBool_go ∧
    Known.untypedBool_go ≠ Known.untypedBool_gno := by decide

set_option maxRecDepth 100000 in
/-- `switch { case true: x := 1; println(x); fallthrough; default: println("d") }`: 1, d;
the GnoVM prints 1 and dies with an internal Go panic -/
theorem fallthrough_block_shrink_counterexample :
    outcomeLine (runProgram Known.fallShrink 64) = Known.fallShrink_go ∧
    Known.fallShrink_go ≠ Known.fallShrink_gno := by decide

set_option maxRecDepth 100000 in
set_option maxHeartbeats 4000000 in
/-- `func inner() { defer func() { println("rec", recover() != nil) }(); panic("B") }`,
`func main() { defer func() { inner(); println("after inner") }(); panic("A") }`: the deferred
function continues after `inner` has recovered its own panic and prints `after inner` (then panic A
goes on); the GnoVM abandons the deferred function (printed lines compared; the driver checks the
whole outcome line against `Known.nestedRecover_go` on every run) -/
theorem nested_recover_abandons_defer_counterexample :
    (runProgram Known.nestedRecover 40).2 = Known.nestedRecover_goOut ∧
    Known.nestedRecover_goOut ≠ Known.nestedRecover_gnoOut := by decide

end GnoVerif.C04
