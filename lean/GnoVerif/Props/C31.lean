import GnoVerif.Proofs.C31Final
/-!
C31 — honest nodes never commit conflicting blocks.

PART A (this section): the agreement theorem for the ABSTRACT protocol of `Spec/C31.lean`
(Tendermint as `tm2/pkg/bft/consensus/state.go` realises it: prevote the locked block or
anything when unlocked, eager unlock on a later polka for something else, precommit a block only
on a polka in the current round, decide on +2/3 precommits at any round), for every number of
validators, every assignment of voting powers, every set of faulty validators holding at most
one third of the power, every number of heights and rounds, and every schedule (`AReach`: any
interleaving of honest steps and arbitrary faulty votes; delays, reordering, duplication and loss
are invisible because guards only ask for the existence of a quorum in the monotone vote log).

PART B (section "the executable node model"): `Model/C31.lean` is a function-by-function model
of ONE node (`state.go`'s handleMsg / handleTimeout / enter* functions, `HeightVoteSet`, the
ticker's replacement rule, on top of the C35 model of `VoteSet`); it is the model the correspondence
run compares, transition by transition, with the real `ConsensusState`.  `Model/C31Sys.lean` puts
one such node per honest validator under an arbitrary scheduler.  `refinement` proves that this
system refines the abstract protocol, hence `agreement_exec`: the executable nodes never decide
differently either.

Liveness (the statement's second sentence) is NOT claimed: `liveness_statement` below is left
unproved on purpose.
-/
namespace GnoVerif.C31

/-! ### quorum arithmetic -/

/-- The arithmetic lemma, over `Int` powers: two amounts above two thirds of `T` whose overlap is
at least `a + b - T` overlap in more than any `f ≤ T/3`. -/
theorem quorum_overlap (T a b ab f : Int)
    (hincl : a + b ≤ T + ab) (ha : 2 * T < 3 * a) (hb : 2 * T < 3 * b) (hf : 3 * f ≤ T) : f < ab :=
  quorum_overlap_int T a b ab f hincl ha hb hf

example : (1 : Int) < 2 := quorum_overlap 4 3 3 2 1 (by decide) (by decide) (by decide) (by decide)

/-- Two sets of validators each holding more than two thirds of the power share an honest
validator (any powers, any faulty set of at most one third). -/
theorem quorums_share_honest (c : Cfg) (hf : c.FewFaulty) (P Q : Val → Bool)
    (hP : 2 * c.total < 3 * c.powerOf P) (hQ : 2 * c.total < 3 * c.powerOf Q) :
    ∃ i, c.honest i ∧ P i = true ∧ Q i = true :=
  quorum_intersection c hf P Q hP hQ

/-- four validators of power 1, validator 3 faulty -/
def cfg4 : Cfg := { powers := [1, 1, 1, 1], byz := fun i => i == 3 }
example : cfg4.FewFaulty := by decide
example : cfg4.FaultyBelowThird := by decide
example : 2 * cfg4.total < 3 * cfg4.powerOf (fun i => i != 0) := by decide

/-- the statement's assumption (strictly less than a third) implies the bound the proofs use -/
theorem faultyBelowThird_fewFaulty (c : Cfg) (h : c.FaultyBelowThird) : c.FewFaulty :=
  Nat.le_of_lt h

/-! ### safety on the vote log -/

/-- Once +2/3 precommitted `b` at round `r`, no later round of that height ever has +2/3
prevotes for another block or for nil — in any reachable state. -/
theorem no_conflicting_polka_after_commit (c : Cfg) (hf : c.FewFaulty) {σ : AState}
    (hr : AReach c σ) {H r : Nat} {b : Block} (hq : commitQ c σ.log H r b) :
    ¬ ∃ ρ w, r < ρ ∧ w ≠ some b ∧ polka c σ.log H ρ w :=
  no_polka_after_commit hf (AInv.reach hr).logInv hq

/-- Two commit quorums (+2/3 precommits, possibly at different rounds) of one height are for the
same block — in any reachable state. -/
theorem commit_quorums_agree (c : Cfg) (hf : c.FewFaulty) {σ : AState} (hr : AReach c σ)
    {H r r' : Nat} {b b' : Block} (hq : commitQ c σ.log H r b) (hq' : commitQ c σ.log H r' b') :
    b = b' :=
  commitQ_unique hf (AInv.reach hr).logInv hq hq'

/-- An honest validator never signs two different prevotes, or two different precommits, for the
same height and round. -/
theorem honest_votes_once (c : Cfg) {σ : AState} (hr : AReach c σ) {p : Val} (hp : c.honest p)
    {v v' : Vote} (hv : v ∈ σ.log) (hv' : v' ∈ σ.log) (hs : v.sender = p) (hs' : v'.sender = p)
    (hh : v.height = v'.height) (hrd : v.round = v'.round) (ht : v.type = v'.type) : v = v' := by
  have := (AInv.reach hr p hp).uniq v hv v' hv' hs hs' hh hrd ht
  cases v; cases v'; simp_all

/-- An honest validator precommits a block only on +2/3 prevotes for it in the same round. -/
theorem honest_precommit_has_polka (c : Cfg) {σ : AState} (hr : AReach c σ) {p : Val}
    (hp : c.honest p) {H r : Nat} {b : Block} (hv : ⟨p, H, r, .precommit, some b⟩ ∈ σ.log) :
    polka c σ.log H r (some b) :=
  (AInv.reach hr p hp).pcPolka _ hv rfl rfl b rfl

/-! ### agreement -/

/-- The first sentence of the property on the abstract protocol: no two honest nodes decide
different blocks at the same height, in any reachable state. -/
def agreement_statement (c : Cfg) : Prop :=
  ∀ σ, AReach c σ → ∀ p q, c.honest p → c.honest q → ∀ H b b',
    (H, b) ∈ (σ.nodes p).decided → (H, b') ∈ (σ.nodes q).decided → b = b'

/-- **Agreement.**  For every validator set, powers, faulty set with at most one third of the
power, and every schedule: no two honest nodes decide different blocks at the same height
(`p = q` included: a node never decides twice differently). -/
theorem agreement (c : Cfg) (hf : c.FewFaulty) : agreement_statement c := by
  intro σ hr p q hp hq H b b' hd hd'
  have hI := AInv.reach hr
  obtain ⟨r, h1⟩ := (hI p hp).dec H b hd
  obtain ⟨r', h2⟩ := (hI q hq).dec H b' hd'
  exact commitQ_unique hf hI.logInv h1 h2

/-- the statement's own assumption (honest power MORE than two thirds) -/
theorem agreement_below_third (c : Cfg) (hf : c.FaultyBelowThird) : agreement_statement c :=
  agreement c (faultyBelowThird_fewFaulty c hf)

/-! #### non-vacuity: a schedule on which two honest nodes do decide (cfg4, validator 3 faulty) -/

/-- In `cfg4` the honest validators 0, 1, 2 prevote and precommit block 10 at (1, 0) and
validators 0 and 1 decide it: decisions are reachable, so `agreement` is not vacuous. -/
theorem decisions_reachable :
    ∃ σ, AReach cfg4 σ ∧ (1, 10) ∈ (σ.nodes 0).decided ∧ (1, 10) ∈ (σ.nodes 1).decided := by
  have s0 := AReach.init (c := cfg4)
  have s1 := AReach.prevote s0 0 (some 10) (by decide) rfl (by intro v h; cases h)
  have s2 := AReach.prevote s1 1 (some 10) (by decide) rfl (by intro v h; cases h)
  have s3 := AReach.prevote s2 2 (some 10) (by decide) rfl (by intro v h; cases h)
  have s4 := AReach.precommitBlock s3 0 10 (by decide) rfl (by decide)
  have s5 := AReach.precommitBlock s4 1 10 (by decide) rfl (by decide)
  have s6 := AReach.precommitBlock s5 2 10 (by decide) rfl (by decide)
  have s7 := AReach.decide s6 0 10 0 (by decide) (by decide)
  have s8 := AReach.decide s7 1 10 0 (by decide) (by decide)
  exact ⟨_, s8, by decide, by decide⟩

/-! #### the fault bound is needed -/

/-- powers 2, 2, 3 with the validator of power 3 faulty: 3·3 > 7 -/
def cfgBad : Cfg := { powers := [2, 2, 3], byz := fun i => i == 2 }
example : ¬ cfgBad.FewFaulty := by decide

/-- Without the fault bound agreement fails: the faulty validator (3 of 7) signs prevotes and
precommits for both block 10 and block 20; honest validator 0 sees a quorum with it for 10,
honest validator 1 for 20, and they decide differently at height 1. -/
theorem agreement_needs_fault_bound : ¬ agreement_statement cfgBad := by
  intro hA
  have s0 := AReach.init (c := cfgBad)
  have s1 := AReach.byz s0 ⟨2, 1, 0, .prevote, some 10⟩ (by decide)
  have s2 := AReach.byz s1 ⟨2, 1, 0, .prevote, some 20⟩ (by decide)
  have s3 := AReach.prevote s2 0 (some 10) (by decide) rfl (by intro v h; cases h)
  have s4 := AReach.prevote s3 1 (some 20) (by decide) rfl (by intro v h; cases h)
  have s5 := AReach.precommitBlock s4 0 10 (by decide) rfl (by decide)
  have s6 := AReach.precommitBlock s5 1 20 (by decide) rfl (by decide)
  have s7 := AReach.byz s6 ⟨2, 1, 0, .precommit, some 10⟩ (by decide)
  have s8 := AReach.byz s7 ⟨2, 1, 0, .precommit, some 20⟩ (by decide)
  have s9 := AReach.decide s8 0 10 0 (by decide) (by decide)
  have s10 := AReach.decide s9 1 20 0 (by decide) (by decide)
  have := hA _ s10 0 1 (by decide) (by decide) 1 10 20 (by decide) (by decide)
  exact absurd this (by decide)

/-! ### the executable node model (PART B) -/

/-- **Vote sets count only signed votes.**  In every reachable state of the system of executable
nodes, a `+2/3` majority reported by any vote set of an honest node (`HeightVoteSet` over the C35
`VoteSet` model: first vote per validator, conflicting votes only under a peer's +2/3 claim, two
catch-up rounds per peer) is a quorum of votes that were really signed. -/
theorem exec_maj23_is_signed_quorum (c : SysCfg) {σ : SysState} (h : SysReach c σ) {p : Val}
    (hp : c.abs.honest p) {r : Nat} {t : VType} {bid : Option Block}
    (hm : (σ.nodes p).votes.maj23 r t = some bid) :
    quorum c.abs σ.votes (σ.nodes p).height r t bid := by
  obtain ⟨σa, _, hc⟩ := refinement h
  exact (hc.good p hp).hvs.maj23_quorum hm

/-- **One iteration of the receive routine refines the abstract protocol.**  From a state
satisfying the local invariant, `handle` on any admissible input (any proposal, any block part, any
really signed vote, any badly signed vote, the own queue, the pending timeout, any +2/3 claim) is
simulated by a finite sequence of abstract actions emitting exactly the votes it signs, and
re-establishes the invariant. -/
theorem exec_step_refines (c : SysCfg) {p : Val} {s : Node} {L : List Vote} (hg : Good c p s L)
    (i : Input) (hi : InputOK L i) : ∃ L', Sim c p L s L' (handle (c.node p) s i) :=
  handle_sim hg i hi

/-- **Refinement.**  Every reachable state of the system of executable nodes — any number of
validators and powers, any faulty set, any schedule — is coupled with a reachable state of the
abstract protocol: same vote log, and each honest node's height, round, prevote / precommit
marks, lock and decisions are those of its abstract image. -/
theorem exec_refines_abstract (c : SysCfg) {σ : SysState} (h : SysReach c σ) :
    ∃ σa, AReach c.abs σa ∧ σa.log = σ.votes ∧
      ∀ p, c.abs.honest p → σa.nodes p = absNode (σ.nodes p) := by
  obtain ⟨σa, hr, hc⟩ := refinement h
  exact ⟨σa, hr, hc.log, hc.nodes⟩

/-- The first sentence of the property on the system of executable nodes. -/
def agreement_exec_statement (c : SysCfg) : Prop :=
  ∀ σ, SysReach c σ → ∀ p q, c.abs.honest p → c.abs.honest q → ∀ H b b',
    (H, b) ∈ (σ.nodes p).decided → (H, b') ∈ (σ.nodes q).decided → b = b'

/-- **Agreement for the executable model.**  Nodes running the model of `state.go` never finalise
different blocks at the same height: every validator set and powers, faulty power at most one
third, every schedule of deliveries (any order, duplicates, losses), timeouts, +2/3 claims,
forged proposals and blocks, and arbitrary votes of the faulty validators. -/
theorem agreement_exec (c : SysCfg) (hf : c.abs.FewFaulty) : agreement_exec_statement c :=
  fun _ h _ _ hp hq _ _ _ hd hd' => sys_agreement hf h hp hq hd hd'

/-- The executable node never signs two different prevotes, or two different precommits, for one
height and round. -/
theorem exec_votes_once (c : SysCfg) {σ : SysState} (h : SysReach c σ) {p : Val} (hp : c.abs.honest p)
    {v v' : Vote} (hv : v ∈ σ.votes) (hv' : v' ∈ σ.votes) (hs : v.sender = p) (hs' : v'.sender = p)
    (hh : v.height = v'.height) (hrd : v.round = v'.round) (ht : v.type = v'.type) : v = v' := by
  have := (sys_pinv h hp).uniq v hv v' hv' hs hs' hh hrd ht
  cases v; cases v'; simp_all

/-- The executable node precommits a block only on +2/3 prevotes for it in the same round. -/
theorem exec_precommit_has_polka (c : SysCfg) {σ : SysState} (h : SysReach c σ) {p : Val}
    (hp : c.abs.honest p) {H r : Nat} {b : Block} (hv : ⟨p, H, r, .precommit, some b⟩ ∈ σ.votes) :
    polka c.abs σ.votes H r (some b) :=
  (sys_pinv h hp).pcPolka _ hv rfl rfl b rfl

/-- The executable node never prevotes against its lock: if it prevoted something else than `b`
at a round `ρ` after precommitting `b` at `r < ρ`, then +2/3 prevotes for something else than `b`
at a round in `(r, ρ]` had been signed BEFORE that prevote. -/
theorem exec_prevote_respects_lock (c : SysCfg) {σ : SysState} (h : SysReach c σ) {p : Val}
    (hp : c.abs.honest p) {i H r ρ : Nat} {b : Block} {w : Option Block}
    (hm : σ.votes[i]? = some ⟨p, H, ρ, .prevote, w⟩) (hv : ⟨p, H, r, .precommit, some b⟩ ∈ σ.votes)
    (hr : r < ρ) (hw : w ≠ some b) :
    ∃ ρ' w', r < ρ' ∧ ρ' ≤ ρ ∧ w' ≠ some b ∧ polka c.abs (σ.votes.take i) H ρ' w' :=
  (sys_pinv h hp).hist i _ hm rfl rfl _ hv rfl rfl rfl hr b rfl hw

/-! #### non-vacuity: the executable node does decide -/

/-- one validator: it proposes, prevotes, precommits and commits alone -/
def sys1 : SysCfg := { powers := [1], byz := fun _ => false, proposer := fun _ _ => 0 }
example : sys1.abs.FewFaulty := by decide
example : sys1.abs.honest 0 := by decide

/-- `start`, the NewHeight timeout, then its own proposal, block part, prevote and precommit from
the internal queue: the model node finalises its own block at height 1 (a reachable system
state in which an honest node has decided, so `agreement_exec` is not vacuous). -/
theorem exec_decisions_reachable :
    ∃ σ, SysReach sys1 σ ∧ (1, ownBlock 1) ∈ (σ.nodes 0).decided := by
  obtain ⟨σ, hr, he⟩ := SysReachFrom.runLocal (c := sys1) (σ := SysState.init sys1) 0 (by decide)
    [.start, .timeout, .internal, .internal, .internal, .internal] (by decide)
  refine ⟨σ, hr.reach .init, ?_⟩
  rw [he]
  decide

/-! ### liveness — not claimed -/

/-- `σ'` is reachable from `σ` -/
inductive AReachFrom (c : Cfg) (σ : AState) : AState → Prop
  | refl : AReachFrom c σ σ
  | step {σ' σ'' : AState} : AReachFrom c σ σ' → AStep c σ' σ'' → AReachFrom c σ σ''

/-- The statement's second sentence ("once messages are delivered within bounded delay, honest
nodes keep committing new heights") needs time, timeouts, proposers and fair delivery, none of
which the abstract protocol has.  What CAN be said in its vocabulary is only the possibility
half written here (from every reachable state every honest node can still reach a higher
height).  Neither real liveness nor this weaker statement is proved: NOT CLAIMED. -/
def liveness_statement : Prop :=
  ∀ (c : Cfg), c.FaultyBelowThird → ∀ σ, AReach c σ → ∀ p, c.honest p →
    ∃ σ', AReachFrom c σ σ' ∧ (σ.nodes p).height < (σ'.nodes p).height

end GnoVerif.C31
