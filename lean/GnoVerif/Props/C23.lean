/-
C23 — the B+ tree (tm2/pkg/bptree) is a correct versioned ordered map.

Statement (properties.jsonl): "For every history of sets, removes, saves,
rollbacks, version loads and pruning, the working tree and every retained saved
version answer point lookups, membership, size, by-index lookups and ordered
range iteration exactly as an ordered map holding that version's contents
would.  A saved version never changes afterwards, a rollback restores the last
saved version, and pruning never affects versions that are retained."

Objects: Model.C23BpTree (a function-by-function port of search.go, insert.go,
split.go, remove.go, the read helpers of mutable_tree.go and iterator.go, for
an arbitrary branching factor `B`), Model.C23Versions (MutableTree as a
persistent versioned store), Spec.C23Inv (`abs`, `Ord`, `Occ`, `WF`),
Spec.OMap (the reference ordered map).  `4 ≤ B` is the only assumption on the
branching factor (the code's `B = 32`); the search-order half of every theorem
needs no assumption on `B` (insert) or `2 ≤ B` (remove).

What is a theorem here:
* `Set` / `Remove` refine `OMap.set` / `OMap.del`, keep the tree well-formed
  (search order, exact cached sizes, occupancy of every node) and report
  `updated` / `found` + old value correctly;
* `Get`, `Has`, `Size`, `GetByIndex`, `GetWithIndex`, `Iterate` and
  `IterateRange` (the stack iterator, ascending and descending, with early
  stop) equal the ordered-map answers on every well-formed tree;
* in every state reachable by any history of
  set / remove / save / rollback / load / prune / reopen, the working tree and
  every retained version are well-formed (so all of the above applies to
  them), the cached size is exact, a rollback yields exactly the version the
  session is based on, a saved version is never re-bound or altered, and
  pruning removes exactly the versions `≤ to`.
The last three facts are about a model in which a saved version is an immutable
value, so they hold by construction there; that the REAL copy-on-write node
store, `SaveVersion`/`LoadVersion` and the dual-walk pruning behave like those
immutable values is established by the differential correspondence run only
(harness/cmd/c23 re-reads every retained version in full after each save and
prune and compares every answer with this model).
-/
import GnoVerif.Proofs.C23Iter

namespace GnoVerif.C23
open GnoVerif

/-! ## Set and Remove -/

theorem wf_empty (B : Nat) : Tree.empty.WF B := Tree.wf_empty B

/-- `Set` refines `OMap.set`, preserves well-formedness, reports `updated` exactly. -/
theorem set_refines {B : Nat} (hB : 4 ≤ B) {t : Tree} (ht : t.WF B) (key : Key) (v : Val) :
    (treeInsert B t key v).1.WF B ∧
    (treeInsert B t key v).1.abs = OMap.set t.abs key v ∧
    (treeInsert B t key v).2 = (OMap.get t.abs key).isSome :=
  treeInsert_wf hB ht key v

/-- the search-order half of `set_refines` holds for EVERY branching factor. -/
theorem set_refines_order (B : Nat) {t : Tree} (ht : t.OrdOk) (key : Key) (v : Val) :
    (treeInsert B t key v).1.OrdOk ∧
    (treeInsert B t key v).1.abs = OMap.set t.abs key v ∧
    (treeInsert B t key v).2 = (OMap.get t.abs key).isSome :=
  treeInsert_ok B t ht key v

/-- `Remove` refines `OMap.del`, preserves well-formedness, returns the old value
exactly when the key was present. -/
theorem remove_refines {B : Nat} (hB : 4 ≤ B) {t : Tree} (ht : t.WF B) (key : Key) :
    (treeRemove B t key).1.WF B ∧
    (treeRemove B t key).1.abs = OMap.del t.abs key ∧
    (if (treeRemove B t key).2.2 = true then OMap.get t.abs key = some (treeRemove B t key).2.1
     else OMap.get t.abs key = none) :=
  treeRemove_wf hB ht key

/-- the tree always represents a strictly sorted association list. -/
theorem wf_sorted {B : Nat} {t : Tree} (ht : t.WF B) : OMap.Sorted t.abs := Tree.sorted_abs ht.1

/-- non-vacuity: `WF` is inhabited by non-trivial trees — here the tree obtained by
six inserts with `B = 4` (`#eval exTree.height` = 1: the fifth insert splits the root leaf). -/
def exTree : Tree :=
  [1, 2, 3, 4, 5, 6].foldl (fun t (i : Nat) => (treeInsert 4 t [UInt8.ofNat i] [UInt8.ofNat (10 * i)]).1) .empty

example : exTree.WF 4 := by
  have step : ∀ (t : Tree) (i : Nat), t.WF 4 → (treeInsert 4 t [UInt8.ofNat i] [UInt8.ofNat (10 * i)]).1.WF 4 :=
    fun t i ht => (set_refines (by decide) ht _ _).1
  exact step _ 6 (step _ 5 (step _ 4 (step _ 3 (step _ 2 (step _ 1 (wf_empty 4))))))


/-! ## reads -/

/-- `Get`. -/
theorem get_refines {B : Nat} {t : Tree} (ht : t.WF B) (key : Key) : t.get key = OMap.get t.abs key := by
  cases t with
  | empty => rfl
  | node h n => exact nodeLookup_ok h n none none key ht.1 trivial trivial

/-- `Has`. -/
theorem has_refines {B : Nat} {t : Tree} (ht : t.WF B) (key : Key) :
    t.has key = (OMap.get t.abs key).isSome := by
  simp only [Tree.has, get_refines ht]

/-- `Size` of a snapshot (`nodeSize(root)`, from the cached child sizes). -/
theorem size_refines {B : Nat} {t : Tree} (ht : t.WF B) : t.size = t.abs.length :=
  Tree.size_eq_abs ht

/-- `GetByIndex`: the `i`-th entry in key order; `ErrKeyDoesNotExist` exactly outside `0 ≤ i < size`. -/
theorem getByIndex_refines {B : Nat} {t : Tree} (ht : t.WF B) (i : Int) :
    t.getByIndex i = if 0 ≤ i ∧ i < (t.abs.length : Int) then t.abs[i.toNat]? else none := by
  cases t with
  | empty => simp [Tree.getByIndex]
  | node h n =>
    have hs : nodeSize h n = (abs h n).length := Ord.size_eq ht.1
    simp only [Tree.getByIndex, Tree.abs_node, hs]
    by_cases hi : i < 0 ∨ i ≥ ((abs h n).length : Int)
    · have h1 : ¬ (0 ≤ i ∧ i < ((abs h n).length : Int)) := by omega
      simp only [hi, h1, if_true, if_false]
    · have h1 : 0 ≤ i ∧ i < ((abs h n).length : Int) := by omega
      simp only [hi, h1.1, h1.2, and_self, if_true, if_false]
      exact nodeGetByIndex_ok h n none none i.toNat ht.1

/-- `GetWithIndex`: the number of smaller keys, and the value if present. -/
theorem getWithIndex_refines {B : Nat} {t : Tree} (ht : t.WF B) (key : Key) :
    t.getWithIndex key = (rank t.abs key, OMap.get t.abs key) := by
  cases t with
  | empty => rfl
  | node h n => exact nodeGetWithIndex_ok h n none none key ht.1 trivial trivial

/-- `Iterate` (recursive in-order walk with early stop) is the walk over the sorted list. -/
theorem iterate_refines {σ : Type} (t : Tree) (fn : σ → Key → Val → σ × Bool) (s : σ) :
    t.iterate fn s = iterList (fun (e : Entry) s => fn s e.1 e.2) t.abs s := by
  cases t with
  | empty => rfl
  | node h n => exact nodeIterate_ok fn h n s

/-- `IterateRange` (the stack iterator of iterator.go, both directions, early stop):
the walk over `OMap.range` of the contents. -/
theorem iterateRange_refines {B : Nat} (hB : 4 ≤ B) {σ : Type} {t : Tree} (ht : t.WF B)
    (s e : Option Key) (asc : Bool) (fn : σ → Key → Val → σ × Bool) (st : σ) :
    t.iterateRange s e asc fn st =
      iterList (fun (en : Entry) s => fn s en.1 en.2) (OMap.range t.abs s e asc) st :=
  iterateRange_ok hB ht s e asc fn st

/-! ## histories -/

/-- every state reachable by any history satisfies the store invariant: working
tree, rollback target and every retained version are well-formed, the cached
size is exact, `lastSaved` is the saved version the session is based on. -/
theorem history_inv {B : Nat} (hB : 4 ≤ B) (hashOf : Tree → Bytes) (ops : List MT.Op) :
    MT.Inv B (MT.run B hashOf ops) := MT.run_inv hB hashOf ops

/-- all read theorems apply to the working tree and to every retained version of a
reachable state. -/
theorem history_trees_wf {B : Nat} (hB : 4 ≤ B) (hashOf : Tree → Bytes) (ops : List MT.Op) :
    (MT.run B hashOf ops).root.WF B ∧
    ∀ v t, (MT.run B hashOf ops).lookup v = some t → t.WF B := by
  have hi := history_inv hB hashOf ops
  exact ⟨hi.root, fun v t h => hi.saved _ (MT.lookup_mem h)⟩

/-- `MutableTree.Size()` (the separately maintained counter) is exact in every reachable state. -/
theorem history_size {B : Nat} (hB : 4 ≤ B) (hashOf : Tree → Bytes) (ops : List MT.Op) :
    (MT.run B hashOf ops).size = (MT.run B hashOf ops).root.abs.length :=
  (history_inv hB hashOf ops).size

/-- a rollback restores the version the session is based on (the last saved or
loaded one; the empty tree before any save). -/
theorem rollback_restores {B : Nat} (hB : 4 ≤ B) (hashOf : Tree → Bytes) (ops : List MT.Op) :
    let m := MT.run B hashOf ops
    (m.rollback.root = m.lastSaved) ∧
    ((m.version = 0 ∧ m.lastSaved = .empty) ∨ m.lookup m.version = some m.lastSaved) :=
  ⟨rfl, (history_inv hB hashOf ops).base⟩

/-- a saved version never changes: whatever operation follows, version `v` is
still bound to the same tree value — or it was pruned (`v ≤ to`). -/
theorem saved_stable {B : Nat} (hashOf : Tree → Bytes) (m : MT) (op : MT.Op) {v : Nat} {t : Tree}
    (h : m.lookup v = some t) :
    (m.apply B hashOf op).lookup v = some t ∨
    (∃ to, op = .prune to ∧ v ≤ to ∧ (m.apply B hashOf op).lookup v = none) :=
  MT.lookup_apply hashOf m op h

/-- pruning never affects versions that are retained. -/
theorem prune_retained {m m' : MT} {to : Nat} (h : m.prune to = .ok m') {v : Nat} (hv : to < v) :
    m'.lookup v = m.lookup v := MT.prune_lookup h hv

/-- a successful `LoadVersion(v)` makes the working tree the saved version `v`. -/
theorem load_restores {m m' : MT} {v l : Nat} (h : m.loadVersion v = .ok (m', l)) :
    m.lookup v = some m'.root ∧ m'.version = v ∧ m'.lastSaved = m'.root := by
  simp only [MT.loadVersion] at h
  cases hl : m.lookup v with
  | none => rw [hl] at h; cases h
  | some t =>
    rw [hl] at h
    simp only [Except.ok.injEq, Prod.mk.injEq] at h
    obtain ⟨rfl, _⟩ := h
    exact ⟨rfl, rfl, rfl⟩

/-- a successful `SaveVersion` binds the new version number to the working contents
(or, when that version already exists with the same hash, adopts the existing tree). -/
theorem save_records (hashOf : Tree → Bytes) (m : MT) (h : (m.saveVersion hashOf).1 = none) :
    let m' := (m.saveVersion hashOf).2
    m'.version = m.version + 1 ∧ m'.lookup m'.version = some m'.root ∧ m'.lastSaved = m'.root ∧
    (m.lookup (m.version + 1) = none → m'.root = m.root) := by
  unfold MT.saveVersion at h ⊢
  by_cases hp : m.poisoned = true
  · rw [if_pos hp] at h; cases h
  · rw [if_neg hp] at h ⊢
    cases hl : m.lookup (m.version + 1) with
    | some existing =>
      simp only [hl] at h ⊢
      by_cases hc : MT.saveConflict hashOf existing m.root = true
      · rw [if_pos hc] at h; cases h
      · rw [if_neg hc]
        exact ⟨rfl, hl, rfl, fun h0 => by cases h0⟩
    | none =>
      simp only [hl]
      refine ⟨?_, ?_, ?_, ?_⟩
      · trivial
      · simp only [MT.lookup, Option.map_eq_none_iff] at hl
        simp only [MT.lookup, MT.find_insertSaved hl, Option.map_some]
      · trivial
      · intro _; trivial

/-! ### non-vacuity of the hypotheses of the versioning theorems -/

/-- a store with two saved versions, session based on version 2. -/
def exStore : MT :=
  { root := .empty, lastSaved := .empty, size := 0, version := 2,
    saved := [(1, .empty), (2, .empty)] }

example : exStore.prune 1 = .ok { exStore with saved := [(2, .empty)] } := rfl
example : ∃ m' l, exStore.loadVersion 1 = .ok (m', l) := ⟨_, _, rfl⟩
example : (exStore.saveVersion (fun _ => [])).1 = none := rfl
example : exStore.lookup 2 = some .empty := rfl

end GnoVerif.C23
