/-
C19 — overflow-checked integer arithmetic is exact.

Theorems about the definitions `GnoVerif.Gen.C19.{Add,Sub,Mul,Div,Addp,Subp,Mulp,Divp}`
that `gvx tint` regenerates from /repo/tm2/pkg/overflow/overflow.go on every run.
They hold for every bit width `w > 0` and both signednesses `sg`, hence for all ten
Go integer types at once (`int8 … int64, int` are `sg = true`, `w = 8 … 64`;
`uint8 … uint64, uint` are `sg = false`).

`toInt sg a` is the mathematical integer a Go value denotes, `inRange w sg x` says that
`x` is representable in the type (`minVal w sg ≤ x ≤ maxVal w sg`).

Only hypothesis beyond `0 < w`: `div_exact`/`divp_exact` need `sg = true → 2 ≤ w`,
because the source compares `b == 1` and the literal `1` is not a value of a 1-bit
signed type (values −1, 0) — Go has no such type and its type checker would reject the
instantiation.  `div_exact_fails_at_w1` shows the guard is necessary.
Helper lemmas: `GnoVerif/Proofs/C19Core.lean` (pure `Int`), `GnoVerif/Proofs/C19.lean`.
-/
import GnoVerif.Proofs.C19
namespace GnoVerif.C19
open GnoVerif.GoInt

/-- `Add` reports ok exactly when the exact sum is representable, and then returns it. -/
theorem add_exact {w : Nat} (hw : 0 < w) (sg : Bool) (a b : BitVec w) :
    ((Gen.C19.Add sg a b).2 = true ↔ inRange w sg (toInt sg a + toInt sg b)) ∧
    ((Gen.C19.Add sg a b).2 = true →
      toInt sg (Gen.C19.Add sg a b).1 = toInt sg a + toInt sg b) := by
  obtain ⟨k, hk⟩ := toInt_add_cong sg a b
  rw [Add_snd, Add_fst, inRange_iff hw]
  exact Core.add_core k (two_pow_pos w) (minVal_cases hw sg) (toInt_bounds hw sg a)
    (toInt_bounds hw sg b) (toInt_bounds hw sg (a + b)) hk

/-- `Sub` reports ok exactly when the exact difference is representable, and then returns it. -/
theorem sub_exact {w : Nat} (hw : 0 < w) (sg : Bool) (a b : BitVec w) :
    ((Gen.C19.Sub sg a b).2 = true ↔ inRange w sg (toInt sg a - toInt sg b)) ∧
    ((Gen.C19.Sub sg a b).2 = true →
      toInt sg (Gen.C19.Sub sg a b).1 = toInt sg a - toInt sg b) := by
  obtain ⟨k, hk⟩ := toInt_sub_cong sg a b
  rw [Sub_snd, Sub_fst, inRange_iff hw]
  exact Core.sub_core k (two_pow_pos w) (minVal_cases hw sg) (toInt_bounds hw sg a)
    (toInt_bounds hw sg b) (toInt_bounds hw sg (a - b)) hk

/-- `Mul` never fails at run time (its internal `c / b` is never a division by zero); it
reports ok exactly when the exact product is representable, and then returns it. -/
theorem mul_exact {w : Nat} (hw : 0 < w) (sg : Bool) (a b : BitVec w) :
    ∃ c ok, Gen.C19.Mul sg a b = .ok (c, ok) ∧
      (ok = true ↔ inRange w sg (toInt sg a * toInt sg b)) ∧
      (ok = true → toInt sg c = toInt sg a * toInt sg b) :=
  mul_main hw sg a b

/-- `Div` never fails at run time; it reports ok exactly when the divisor is non-zero and
the truncated quotient is representable, and then returns that quotient. -/
theorem div_exact {w : Nat} (hw : 0 < w) (sg : Bool) (h2 : sg = true → 2 ≤ w)
    (a b : BitVec w) :
    ∃ c ok, Gen.C19.Div sg a b = .ok (c, ok) ∧
      (ok = true ↔ (b ≠ 0#w ∧ inRange w sg (Int.tdiv (toInt sg a) (toInt sg b)))) ∧
      (ok = true → toInt sg c = Int.tdiv (toInt sg a) (toInt sg b)) :=
  div_main hw sg h2 a b

/-- The representability clause of `div_exact` spelled out: with a non-zero divisor the
only unrepresentable truncated quotient is `MinInt / -1` of a signed type. -/
theorem div_overflow_iff {w : Nat} (hw : 0 < w) (sg : Bool) (a b : BitVec w)
    (hb : toInt sg b ≠ 0) :
    inRange w sg (Int.tdiv (toInt sg a) (toInt sg b))
      ↔ ¬(sg = true ∧ toInt sg a = minVal w sg ∧ toInt sg b = -1) :=
  tdiv_inRange_iff hw sg a b hb

/-- The guard `sg = true → 2 ≤ w` of `div_exact` is necessary: in a 1-bit signed type
(values −1, 0) the source's literal `1` is the value −1, and `Div (-1) (-1)` answers
`(-1, true)` although `(-1) / (-1) = 1` is not representable. -/
theorem div_exact_fails_at_w1 :
    Gen.C19.Div true (1#1) (1#1) = .ok (1#1, true) ∧
    toInt true (1#1) = -1 ∧
    ¬ inRange 1 true (Int.tdiv (toInt true (1#1)) (toInt true (1#1))) := by decide

/-- `Addp` is `Add` with the flag turned into a panic: it returns the exact sum when that
is representable and panics ("addition overflow") otherwise. -/
theorem addp_exact {w : Nat} (hw : 0 < w) (sg : Bool) (a b : BitVec w) :
    (Gen.C19.Addp sg a b = if (Gen.C19.Add sg a b).2 = true then .ok (Gen.C19.Add sg a b).1
        else .error "addition overflow") ∧
    (inRange w sg (toInt sg a + toInt sg b) →
      ∃ r, Gen.C19.Addp sg a b = .ok r ∧ toInt sg r = toInt sg a + toInt sg b) ∧
    (¬ inRange w sg (toInt sg a + toInt sg b) →
      Gen.C19.Addp sg a b = .error "addition overflow") := by
  obtain ⟨h1, h2⟩ := add_exact hw sg a b
  refine ⟨Addp_eq sg a b, fun h => ?_, fun h => ?_⟩
  · exact ⟨_, by rw [Addp_eq, if_pos (h1.2 h)], h2 (h1.2 h)⟩
  · rw [Addp_eq, if_neg (fun h' => h (h1.1 h'))]

/-- `Subp` returns the exact difference when representable and panics otherwise. -/
theorem subp_exact {w : Nat} (hw : 0 < w) (sg : Bool) (a b : BitVec w) :
    (Gen.C19.Subp sg a b = if (Gen.C19.Sub sg a b).2 = true then .ok (Gen.C19.Sub sg a b).1
        else .error "subtraction overflow") ∧
    (inRange w sg (toInt sg a - toInt sg b) →
      ∃ r, Gen.C19.Subp sg a b = .ok r ∧ toInt sg r = toInt sg a - toInt sg b) ∧
    (¬ inRange w sg (toInt sg a - toInt sg b) →
      Gen.C19.Subp sg a b = .error "subtraction overflow") := by
  obtain ⟨h1, h2⟩ := sub_exact hw sg a b
  refine ⟨Subp_eq sg a b, fun h => ?_, fun h => ?_⟩
  · exact ⟨_, by rw [Subp_eq, if_pos (h1.2 h)], h2 (h1.2 h)⟩
  · rw [Subp_eq, if_neg (fun h' => h (h1.1 h'))]

/-- `Mulp` returns `Mul`'s value when `Mul`'s flag is true and panics otherwise; hence it
returns the exact product when representable and panics ("multiplication overflow")
otherwise — never with a divide-by-zero panic. -/
theorem mulp_exact {w : Nat} (hw : 0 < w) (sg : Bool) (a b : BitVec w) :
    (∀ c ok, Gen.C19.Mul sg a b = .ok (c, ok) →
      Gen.C19.Mulp sg a b = if ok = true then .ok c else .error "multiplication overflow") ∧
    (inRange w sg (toInt sg a * toInt sg b) →
      ∃ r, Gen.C19.Mulp sg a b = .ok r ∧ toInt sg r = toInt sg a * toInt sg b) ∧
    (¬ inRange w sg (toInt sg a * toInt sg b) →
      Gen.C19.Mulp sg a b = .error "multiplication overflow") := by
  obtain ⟨c, ok, he, h1, h2⟩ := mul_exact hw sg a b
  refine ⟨fun c ok h => Mulp_eq sg a b c ok h, fun h => ?_, fun h => ?_⟩
  · exact ⟨c, by rw [Mulp_eq sg a b c ok he, if_pos (h1.2 h)], h2 (h1.2 h)⟩
  · rw [Mulp_eq sg a b c ok he, if_neg (fun h' => h (h1.1 h'))]

/-- `Divp` returns `Div`'s value when `Div`'s flag is true and panics otherwise; hence it
returns the truncated quotient when the divisor is non-zero and the quotient is
representable, and panics ("division failure") otherwise. -/
theorem divp_exact {w : Nat} (hw : 0 < w) (sg : Bool) (h2 : sg = true → 2 ≤ w)
    (a b : BitVec w) :
    (∀ c ok, Gen.C19.Div sg a b = .ok (c, ok) →
      Gen.C19.Divp sg a b = if ok = true then .ok c else .error "division failure") ∧
    (b ≠ 0#w ∧ inRange w sg (Int.tdiv (toInt sg a) (toInt sg b)) →
      ∃ r, Gen.C19.Divp sg a b = .ok r ∧ toInt sg r = Int.tdiv (toInt sg a) (toInt sg b)) ∧
    (¬ (b ≠ 0#w ∧ inRange w sg (Int.tdiv (toInt sg a) (toInt sg b))) →
      Gen.C19.Divp sg a b = .error "division failure") := by
  obtain ⟨c, ok, he, h1, h3⟩ := div_exact hw sg h2 a b
  refine ⟨fun c ok h => Divp_eq sg a b c ok h, fun h => ?_, fun h => ?_⟩
  · exact ⟨c, by rw [Divp_eq sg a b c ok he, if_pos (h1.2 h)], h3 (h1.2 h)⟩
  · rw [Divp_eq sg a b c ok he, if_neg (fun h' => h (h1.1 h'))]

/-! ### Non-vacuity and boundary witnesses (all by kernel evaluation)

`int8` is `w = 8, sg = true`; `uint8` is `w = 8, sg = false`. -/

-- the hypotheses are satisfiable by every Go type (here int8, uint8, int64)
example : (0 < 8) ∧ ((true = true) → 2 ≤ 8) := by decide
example : (0 < 8) ∧ ((false = true) → 2 ≤ 8) := by decide
example : (0 < 64) ∧ ((true = true) → 2 ≤ 64) := by decide

-- Add: int8 127 + 1 wraps to −128 and is refused; 100 + 27 = 127 is accepted
example : Gen.C19.Add true (127#8) (1#8) = (128#8, false) := by decide
example : Gen.C19.Add true (100#8) (27#8) = (127#8, true) := by decide
example : ¬ inRange 8 true (toInt true (127#8) + toInt true (1#8)) := by decide
-- Add: int8 (−128) + (−1) wraps to +127 and is refused; uint8 255 + 1 wraps to 0
example : Gen.C19.Add true (128#8) (255#8) = (127#8, false) := by decide
example : Gen.C19.Add false (255#8) (1#8) = (0#8, false) := by decide
-- Sub: int8 (−128) − 1 wraps to 127; uint8 0 − 1 wraps to 255; 0 − (−128) unrepresentable
example : Gen.C19.Sub true (128#8) (1#8) = (127#8, false) := by decide
example : Gen.C19.Sub false (0#8) (1#8) = (255#8, false) := by decide
example : Gen.C19.Sub true (0#8) (128#8) = (128#8, false) := by decide
example : Gen.C19.Sub true (255#8) (127#8) = (128#8, true) := by decide   -- −1 − 127 = −128

-- Mul: int8 16 * 17 = 272 wraps to +16 — the SAME sign as the exact product, so the sign
-- test passes and only `c / b == a` (16 / 17 = 0 ≠ 16) rejects it
example : Gen.C19.Mul true (16#8) (17#8) = .ok (16#8, false) := by decide
example : toInt true (16#8) * toInt true (17#8) = 272 ∧ ¬ inRange 8 true 272 := by decide
-- Mul: int8 (−128) * (−1) = 128 wraps to −128, and (−128) / (−1) wraps back to −128 = a,
-- so `c / b == a` PASSES; this is the one case the sign test exists for
example : Gen.C19.Mul true (128#8) (255#8) = .ok (128#8, false) := by decide
example : (128#8 : BitVec 8).sdiv (255#8) = 128#8 := by decide
-- Mul: int8 (−1) * (−128) the other way round; 64 * 2 = 128 wraps to −128
example : Gen.C19.Mul true (255#8) (128#8) = .ok (128#8, false) := by decide
example : Gen.C19.Mul true (64#8) (2#8) = .ok (128#8, false) := by decide
-- Mul: representable extremes are accepted: (−64) * 2 = −128, (−127) * (−1) = 127
example : Gen.C19.Mul true (192#8) (2#8) = .ok (128#8, true) := by decide
example : Gen.C19.Mul true (129#8) (255#8) = .ok (127#8, true) := by decide
-- Mul: uint8 16 * 16 = 256 wraps to 0; 15 * 17 = 255 accepted; zero operand short-circuits
example : Gen.C19.Mul false (16#8) (16#8) = .ok (0#8, false) := by decide
example : Gen.C19.Mul false (15#8) (17#8) = .ok (255#8, true) := by decide
example : Gen.C19.Mul true (0#8) (128#8) = .ok (0#8, true) := by decide

-- Div: int8 MinInt / −1 is the only overflow; division by zero is refused, not a panic
example : Gen.C19.Div true (128#8) (255#8) = .ok (128#8, false) := by decide
example : ¬ inRange 8 true (Int.tdiv (toInt true (128#8)) (toInt true (255#8))) := by decide
example : Gen.C19.Div true (5#8) (0#8) = .ok (0#8, false) := by decide
-- Div: `c == a` without overflow: a / 1 and 0 / b are accepted; truncation toward zero
example : Gen.C19.Div true (128#8) (1#8) = .ok (128#8, true) := by decide
example : Gen.C19.Div true (0#8) (255#8) = .ok (0#8, true) := by decide
example : Gen.C19.Div true (249#8) (2#8) = .ok (253#8, true) := by decide      -- −7 / 2 = −3
example : Gen.C19.Div false (128#8) (255#8) = .ok (0#8, true) := by decide    -- uint8 128 / 255

-- panicking variants
example : Gen.C19.Addp true (127#8) (1#8) = .error "addition overflow" := by decide
example : Gen.C19.Addp true (100#8) (27#8) = .ok (127#8) := by decide
example : Gen.C19.Subp false (0#8) (1#8) = .error "subtraction overflow" := by decide
example : Gen.C19.Mulp true (128#8) (255#8) = .error "multiplication overflow" := by decide
example : Gen.C19.Mulp true (192#8) (2#8) = .ok (128#8) := by decide
example : Gen.C19.Divp true (128#8) (255#8) = .error "division failure" := by decide
example : Gen.C19.Divp true (5#8) (0#8) = .error "division failure" := by decide
example : Gen.C19.Divp true (249#8) (2#8) = .ok (253#8) := by decide

-- the 1-bit signed corner (values −1, 0) is covered by add/sub/mul_exact: (−1)*(−1) = 1 refused
example : Gen.C19.Mul true (1#1) (1#1) = .ok (1#1, false) := by decide
example : Gen.C19.Add true (1#1) (1#1) = (0#1, false) := by decide

end GnoVerif.C19
