import GnoVerif.Gen.C19
namespace GnoVerif.C19
open GnoVerif.GoInt GnoVerif.Gen.C19

theorem placeholder : (Add true (3#8) (4#8)).1 = 7#8 := by decide

end GnoVerif.C19
