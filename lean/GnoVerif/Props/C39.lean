import GnoVerif.Model.C39
namespace GnoVerif.C39
end GnoVerif.C39
