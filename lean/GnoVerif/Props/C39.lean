import GnoVerif.Proofs.C39Run
/-!
# C39 — block part sets reassemble exactly the proposed block

Statement: *for every block, splitting it into parts and adding those parts in
any order reproduces the same block bytes and hash; a part whose content or
proof does not match the part-set header is rejected, and duplicates or
out-of-range indices never corrupt the set.*

All theorems are about `Model/C39.lean` + `Model/C39Merkle.lean` (the code of
`tm2/pkg/bft/types/part_set.go` and the simple Merkle tree it uses) and hold
for EVERY hash function `H`; where the shape of hashes matters the hypothesis
is `FixedLen H n` (all outputs have the same length `n` — true of SHA-256
with `n = 32`; not a hardness assumption).  Collision resistance is never
assumed: soundness is stated with an explicit, computed collision as the
alternative.

History: until /repo commit 96b4d2262f (`fix: SimpleProof.Verify rejects proofs whose position
is invalid instead of matching a nil root`) a set created from a header whose hash is EMPTY accepted
parts with malformed proofs (`bytes.Equal(nil, [])`); this property carried it as a finding with a
`…_partial` / `…_counterexample` pair.  With the fix the clause is the plain theorem
`strict_reject`, and the old witness is pinned as `nilroot_witness_rejected` and in the corpus.
-/
namespace GnoVerif.C39

/-! ## (1) any arrival order with duplicates reassembles the block -/

/-- Feed the parts of `NewPartSetFromData(data, ps)` to `NewPartSetFromHeader(header)` in ANY
order `order` (a list of part indices, each index at least once, arbitrary repetitions):
the set ends complete, with the same header, reading back exactly `data`; the `k`-th call
returns `added = true` iff it is the first occurrence of its index, `added = false` otherwise.
(For `data = []` there are no parts; `GetReader` on that set panics — the model says so.) -/
theorem reassembly (H : Bytes → Bytes) (data : Bytes) (ps : Nat) (hps : 0 < ps) (order : List Nat)
    (hin : ∀ i ∈ order, i < numParts data.length ps)
    (hall : ∀ i, i < numParts data.length ps → i ∈ order) :
    let r := addMany H (fromHeader (headerOf H data ps)) (order.map (partAt H data ps))
    r.2.isComplete = true ∧
    r.2.header = headerOf H data ps ∧
    r.2.reader = (if data = [] then .error .range else .ok data) ∧
    r.1.length = order.length ∧
    ∀ k (hk : k < order.length), r.1[k]? = some (.added (decide (order[k] ∉ order.take k))) := by
  intro r
  have hr : r = (firstFlags [] order, stateAfter H data ps (order.reverse ++ [])) := by
    show addMany H (fromHeader (headerOf H data ps)) (order.map (partAt H data ps)) = _
    rw [fromHeader_eq, addMany_stateAfter H data ps order [] hin]
  have hfull : ∀ i, i < numParts data.length ps → i ∈ order.reverse ++ [] := by
    intro i hi; simpa using hall i hi
  rw [hr]
  refine ⟨stateAfter_full_complete H data ps _ hfull, rfl,
    stateAfter_full_reader H data ps hps _ hfull, ?_, ?_⟩
  · have : ∀ (o seen : List Nat), (firstFlags seen o).length = o.length := by
      intro o; induction o with
      | nil => intro _; rfl
      | cons a t ih => intro seen; simp [firstFlags, ih]
    exact this order []
  · intro k hk
    have := firstFlags_get order [] k hk
    simpa using this

example : ∃ (data : Bytes) (ps : Nat) (order : List Nat), 0 < ps ∧ numParts data.length ps = 3 ∧
    (∀ i ∈ order, i < numParts data.length ps) ∧ (∀ i, i < numParts data.length ps → i ∈ order) ∧
    order.length = 6 :=
  ⟨[1, 2, 3, 4, 5], 2, [2, 0, 2, 1, 0, 1], by decide, by decide, by decide, by decide, by decide⟩

/-- The same with the arrival sequence given as a list of PARTS: any sequence made of parts of
the block that contains each of them at least once. -/
theorem reassembly_parts (H : Bytes → Bytes) (data : Bytes) (ps : Nat) (hps : 0 < ps) (seq : List Part)
    (hin : ∀ p ∈ seq, p ∈ mkParts H data ps) (hall : ∀ p ∈ mkParts H data ps, p ∈ seq) :
    let s := (addMany H (fromHeader (headerOf H data ps)) seq).2
    s.isComplete = true ∧ s.header = headerOf H data ps ∧
    s.reader = (if data = [] then .error .range else .ok data) := by
  intro s
  have hseq : seq = (seq.map (fun p => p.index.toNat)).map (partAt H data ps) := by
    rw [List.map_map]
    conv => lhs; rw [← List.map_id seq]
    apply List.map_congr_left
    intro p hp
    have := hin p hp
    rw [mkParts_eq, List.mem_map] at this
    obtain ⟨i, _, rfl⟩ := this
    simp [partAt_index]
  have h1 : ∀ i ∈ seq.map (fun p => p.index.toNat), i < numParts data.length ps := by
    intro i hi
    rw [List.mem_map] at hi
    obtain ⟨p, hp, rfl⟩ := hi
    have := hin p hp
    rw [mkParts_eq, List.mem_map] at this
    obtain ⟨j, hj, rfl⟩ := this
    simpa [partAt_index] using hj
  have h2 : ∀ i, i < numParts data.length ps → i ∈ seq.map (fun p => p.index.toNat) := by
    intro i hi
    rw [List.mem_map]
    refine ⟨partAt H data ps i, hall _ ?_, by simp [partAt_index]⟩
    rw [mkParts_eq, List.mem_map]
    exact ⟨i, by simpa using hi, rfl⟩
  have := reassembly H data ps hps _ h1 h2
  simp only at this
  rw [← hseq] at this
  exact ⟨this.1, this.2.1, this.2.2.1⟩

/-- `NewPartSetFromData` itself: for a non-empty block it returns the complete set holding
exactly those parts under that header, and reading it gives the block back; for zero-length
data it panics (nil root node in `SimpleProofsFromByteSlices`). -/
theorem fromData_spec (H : Bytes → Bytes) (data : Bytes) (ps : Nat) (hps : 0 < ps) :
    (data = [] → fromData H data ps = .error .nilDeref) ∧
    (data ≠ [] → ∃ s, fromData H data ps = .ok s ∧ s.header = headerOf H data ps ∧
      s.parts = (mkParts H data ps).map some ∧ s.isComplete = true ∧ s.reader = .ok data ∧
      s.bits = s.parts.map Option.isSome ∧ s.count = s.parts.countP Option.isSome) := by
  constructor
  · intro hd; subst hd
    simp [fromData, (numParts_eq_zero 0 ps hps).mpr rfl]
  · intro hd
    have hn : numParts data.length ps ≠ 0 := by
      intro h0
      exact hd (List.eq_nil_of_length_eq_zero ((numParts_eq_zero _ _ hps).mp h0))
    refine ⟨_, by simp only [fromData, if_neg hn]; rfl, rfl, rfl, ?_, ?_, ?_, ?_⟩
    · simp [PartSet.isComplete]
    · have := reader_of_full H data ps hps
        { total := numParts data.length ps, hash := (proofsAux H (split data ps)).1,
          parts := ((List.range (numParts data.length ps)).map
            (partOf H (split data ps) (proofsAux H (split data ps)).2)).map some,
          bits := List.replicate (numParts data.length ps) true,
          count := numParts data.length ps }
        (by simp [PartSet.isComplete]) (by rw [List.map_map]; rfl)
      rw [if_neg hd] at this
      exact this
    · simp only [List.map_map]
      apply List.ext_getElem?
      intro i
      simp only [List.getElem?_replicate, List.getElem?_map]
      by_cases hi : i < numParts data.length ps
      · simp [hi]
      · simp [hi]
    · symm
      have : ∀ o ∈ ((List.range (numParts data.length ps)).map
            (partOf H (split data ps) (proofsAux H (split data ps)).2)).map some,
          Option.isSome o = true := by
        intro o ho
        simp only [List.mem_map] at ho
        obtain ⟨q, _, rfl⟩ := ho
        rfl
      rw [List.countP_eq_length.mpr this]
      simp

/-! ## (2) rejection, duplicates, out-of-range: the set is never corrupted -/

/-- `AddPart` stores the part iff: index in range, slot empty, proof index/total consistent with
the part and the header, and `Proof.Verify` against the header hash succeeds. -/
theorem added_iff (H : Bytes → Bytes) (s : PartSet) (p : Part) :
    (addPart H s p).1 = .added true ↔
      (0 ≤ p.index ∧ p.index < (s.total : Int) ∧ s.parts[p.index.toNat]? = some none ∧
       p.proof.index = p.index ∧ p.proof.total = (s.total : Int) ∧
       p.proof.verify H s.hash p.bytes = true) :=
  addPart_added_iff H s p

/-- Whatever is offered — corrupted part, duplicate, out-of-range or negative index (panic),
nil part (panic) — if the call did not return `added = true`, the set is exactly as before. -/
theorem not_added_unchanged (H : Bytes → Bytes) (s : PartSet) (p : Option Part)
    (h : (addPartOpt H s p).1 ≠ .added true) : (addPartOpt H s p).2 = s := by
  cases p with
  | none => rfl
  | some p =>
    simp only [addPartOpt] at h ⊢
    by_cases ha : Accepts H s p
    · exact absurd ((addPart_added_iff H s p).mpr ha) h
    · exact (addPart_of_not_accepts H s p ha).2

/-- and when it did return `added = true`, only slot `index`, bit `index` and the count changed;
the header never changes. -/
theorem added_effect (H : Bytes → Bytes) (s : PartSet) (p : Part) (h : (addPart H s p).1 = .added true) :
    (addPart H s p).2 =
      { s with parts := s.parts.set p.index.toNat (some p), bits := s.bits.set p.index.toNat true,
               count := s.count + 1 } := by
  rw [addPart_of_accepts H s p ((addPart_added_iff H s p).mp h)]; rfl

/-- a part whose proof does not verify against the header hash is rejected -/
theorem bad_proof_rejected (H : Bytes → Bytes) (s : PartSet) (p : Part)
    (h0 : 0 ≤ p.index) (h1 : p.index < (s.total : Int)) (hslot : s.parts[p.index.toNat]? = some none)
    (hv : p.proof.verify H s.hash p.bytes = false) : addPart H s p = (.errProof, s) := by
  unfold addPart
  rw [if_neg (by omega), if_neg (by omega)]
  simp only [hslot]
  split
  · rfl
  · split
    · rfl
    · rw [if_pos (by simp [hv])]

/-- a part whose proof carries another index or another total than part/header is rejected -/
theorem wrong_index_or_total_rejected (H : Bytes → Bytes) (s : PartSet) (p : Part)
    (h0 : 0 ≤ p.index) (h1 : p.index < (s.total : Int)) (hslot : s.parts[p.index.toNat]? = some none)
    (hw : p.proof.index ≠ p.index ∨ p.proof.total ≠ (s.total : Int)) :
    addPart H s p = (.errProof, s) := by
  unfold addPart
  rw [if_neg (by omega), if_neg (by omega)]
  simp only [hslot]
  rcases hw with hw | hw
  · rw [if_pos hw]
  · by_cases h3 : p.proof.index ≠ p.index
    · rw [if_pos h3]
    · rw [if_neg h3, if_pos hw]

/-- index ≥ total: `ErrPartSetUnexpectedIndex`; negative index: the slice access panics before
any mutation. Either way the set is unchanged. -/
theorem out_of_range_unchanged (H : Bytes → Bytes) (s : PartSet) (p : Part) :
    (p.index ≥ (s.total : Int) → addPart H s p = (.errIndex, s)) ∧
    (p.index < 0 → addPart H s p = (.panicRange, s)) := by
  constructor
  · intro h; unfold addPart; rw [if_pos h]
  · intro h; unfold addPart; rw [if_neg (by omega), if_pos h]

/-- a duplicate (slot already filled, by whatever part) returns `added = false`, set unchanged -/
theorem duplicate_false_unchanged (H : Bytes → Bytes) (s : PartSet) (p q : Part)
    (h0 : 0 ≤ p.index) (h1 : p.index < (s.total : Int))
    (h : s.parts[p.index.toNat]? = some (some q)) : addPart H s p = (.added false, s) :=
  addPart_dup H s p q h0 h1 h

example : ∃ (s : PartSet) (p : Part), 0 ≤ p.index ∧ p.index < (s.total : Int) ∧
    s.parts[p.index.toNat]? = some none ∧ p.proof.index ≠ p.index :=
  ⟨fromHeader ⟨2, [1]⟩, ⟨1, [9], ⟨2, 0, [], []⟩⟩, by decide, by decide, by decide, by decide⟩

example : ∃ (H : Bytes → Bytes) (s : PartSet) (p : Part), 0 ≤ p.index ∧ p.index < (s.total : Int) ∧
    s.parts[p.index.toNat]? = some none ∧ p.proof.verify H s.hash p.bytes = false :=
  ⟨id, fromHeader ⟨2, [1]⟩, ⟨1, [9], ⟨2, 1, [], []⟩⟩, by decide, by decide, by decide, by decide⟩

example : ∃ (s : PartSet) (p q : Part), 0 ≤ p.index ∧ p.index < (s.total : Int) ∧
    s.parts[p.index.toNat]? = some (some q) :=
  ⟨⟨2, [1], [none, some ⟨1, [9], ⟨2, 1, [], []⟩⟩], [false, true], 1⟩, ⟨1, [8], ⟨2, 1, [], []⟩⟩,
    ⟨1, [9], ⟨2, 1, [], []⟩⟩, by decide, by decide, by decide⟩

/-- A part that passed `Part.ValidateBasic` (what the consensus reactor runs first) never makes
`AddPart` panic on a well-formed set: the negative-index panic is the only one. -/
theorem no_panic_after_validate (H : Bytes → Bytes) (s : PartSet) (p : Part)
    (hlen : s.parts.length = s.total) (hvb : p.validateBasic = .ok) :
    (addPart H s p).1 ≠ .panicRange ∧ (addPartOpt H s (some p)).1 ≠ .panicNil := by
  have hidx : 0 ≤ p.index := by
    unfold Part.validateBasic at hvb
    split at hvb
    · cases hvb
    · omega
  constructor
  · by_cases ha : Accepts H s p
    · rw [addPart_of_accepts H s p ha]; simp
    · unfold addPart
      by_cases c1 : p.index ≥ (s.total : Int)
      · rw [if_pos c1]; simp
      · rw [if_neg c1, if_neg (by omega)]
        simp only
        have hlt : p.index.toNat < s.parts.length := by rw [hlen]; omega
        rw [List.getElem?_eq_getElem hlt]
        cases s.parts[p.index.toNat] with
        | some q => simp
        | none =>
          simp only
          split
          · simp
          · split
            · simp
            · split <;> simp
  · simp only [addPartOpt]
    by_cases ha : Accepts H s p
    · rw [addPart_of_accepts H s p ha]; simp
    · unfold addPart
      by_cases c1 : p.index ≥ (s.total : Int)
      · rw [if_pos c1]; simp
      · rw [if_neg c1, if_neg (by omega)]
        simp only
        cases s.parts[p.index.toNat]? with
        | none => simp
        | some o =>
          cases o with
          | some q => simp
          | none =>
            simp only
            split
            · simp
            · split
              · simp
              · split <;> simp

example : ∃ (s : PartSet) (p : Part), s.parts.length = s.total ∧ p.validateBasic = .ok :=
  ⟨fromHeader ⟨2, [1]⟩, ⟨1, [9], ⟨2, 1, List.replicate 32 0, [List.replicate 32 1]⟩⟩, by decide, by decide⟩

/-! ## (3) soundness: accepted bytes are the block's bytes, or here is a collision -/

/-- If a set carrying the block's header accepts a part, the part's bytes are the block's bytes
for that index — or `collide`, run on the accepted proof and the proof `NewPartSetFromData`
builds for that index, returns two DIFFERENT inputs with the SAME hash. -/
theorem accepted_bytes_or_collision (H : Bytes → Bytes) {m : Nat} (hH : FixedLen H m)
    (data : Bytes) (ps : Nat) (s : PartSet) (p : Part)
    (hhdr : s.header = headerOf H data ps) (hacc : (addPart H s p).1 = .added true) :
    p.bytes = slice data ps p.index.toNat ∨
    ∃ x y, collide H p.index.toNat (numParts data.length ps) p.bytes (slice data ps p.index.toNat)
        p.proof.aunts.reverse (partAt H data ps p.index.toNat).proof.aunts.reverse = some (x, y) ∧
      x ≠ y ∧ H x = H y := by
  obtain ⟨h0, h1, _, h3, h4, h5⟩ := (addPart_added_iff H s p).mp hacc
  have ht : s.total = numParts data.length ps := congrArg Header.total hhdr
  have hh : s.hash = (headerOf H data ps).hash := congrArg Header.hash hhdr
  rw [ht] at h1 h4
  rw [hh] at h5
  exact verified_bytes_or_collision H hH data ps p p.index.toNat (by omega)
    (by rw [h3]; omega) h4 h5

/-- Adversarial arrival: feed ANY sequence of parts (corrupted, duplicated, reordered, forged) to
the set created from the block's header.  If the set ends complete, it reads back exactly the
block — or a collision of `H` exists (obtained as above from a stored proof). -/
theorem adversarial_reassembly (H : Bytes → Bytes) {m : Nat} (hH : FixedLen H m)
    (data : Bytes) (ps : Nat) (hps : 0 < ps) (hd : data ≠ []) (seq : List Part) :
    let s := (addMany H (fromHeader (headerOf H data ps)) seq).2
    s.isComplete = true → s.reader = .ok data ∨ ∃ x y, x ≠ y ∧ H x = H y := by
  intro s hc
  have hinv : Inv H s := inv_addMany H _ seq (inv_fromHeader H _)
  have hhdr := addMany_header H (fromHeader (headerOf H data ps)) seq
  have ht : s.total = numParts data.length ps := hhdr.1
  have hh : s.hash = (headerOf H data ps).hash := hhdr.2
  have hslots := all_slots_of_complete H s hinv hc
  by_cases hgood : ∀ i q, s.parts[i]? = some (some q) → q.bytes = slice data ps i
  · left
    have hn : numParts data.length ps ≠ 0 := by
      intro h0
      exact hd (List.eq_nil_of_length_eq_zero ((numParts_eq_zero _ _ hps).mp h0))
    unfold PartSet.reader
    rw [hc]
    simp only [not_true_eq_false, if_false]
    have hne : s.parts.isEmpty = false := by
      cases hp : s.parts with
      | nil => have := hinv.len; rw [hp, ht] at this; simp at this; omega
      | cons a t => rfl
    have hany : s.parts.any Option.isNone = false := by
      rw [List.any_eq_false]
      intro o ho
      obtain ⟨i, hlt, hget⟩ := List.getElem_of_mem ho
      obtain ⟨q, hq⟩ := hslots i (by rw [← hinv.len]; exact hlt)
      rw [List.getElem?_eq_getElem hlt, hget] at hq
      have : o = some q := Option.some.inj hq
      rw [this]; simp
    rw [hne, hany]
    simp only [Bool.false_eq_true, if_false]
    congr 1
    rw [List.flatMap_def]
    have : s.parts.map (fun p => match p with | some p => p.bytes | none => []) = split data ps := by
      apply List.ext_getElem?
      intro i
      rw [List.getElem?_map]
      by_cases hi : i < s.total
      · obtain ⟨q, hq⟩ := hslots i hi
        rw [hq]
        have hb := hgood i q hq
        have hi' : i < numParts data.length ps := by omega
        have : (split data ps)[i]? = some (slice data ps i) := by
          simp [split, List.getElem?_range hi']
        rw [this]
        simp [hb]
      · rw [List.getElem?_eq_none (by rw [hinv.len]; omega),
            List.getElem?_eq_none (by rw [split_length]; omega)]
        rfl
    exact (congrArg List.flatten this).trans (split_flatten data ps hps)
  · right
    have ⟨i, hi⟩ := Classical.not_forall.mp hgood
    have ⟨q, hq⟩ := Classical.not_forall.mp hi
    have ⟨hq1, hq2⟩ := Classical.not_imp.mp hq
    have hlt : i < s.total := by
      have := (List.getElem?_eq_some_iff.mp hq1).1
      rw [hinv.len] at this; exact this
    obtain ⟨_, hpi, hpt, hv⟩ := hinv.slot i q hq1
    rw [ht] at hpt hlt
    rw [hh] at hv
    rcases verified_bytes_or_collision H hH data ps q i hlt hpi hpt hv with h | ⟨x, y, _, hxy⟩
    · exact absurd h hq2
    · exact ⟨x, y, hxy.1, hxy.2⟩

/-- and the set DOES end complete as soon as every part of the block occurs somewhere in the
sequence, whatever else is interleaved (no assumption on `H`). -/
theorem complete_when_all_offered (H : Bytes → Bytes) (data : Bytes) (ps : Nat) (seq : List Part)
    (hall : ∀ i, i < numParts data.length ps → partAt H data ps i ∈ seq) :
    (addMany H (fromHeader (headerOf H data ps)) seq).2.isComplete = true := by
  have hinv0 := inv_fromHeader H (headerOf H data ps)
  have hinv := inv_addMany H _ seq hinv0
  have hhdr := addMany_header H (fromHeader (headerOf H data ps)) seq
  apply complete_of_all_slots H _ hinv
  intro i hi
  rw [hhdr.1] at hi
  have hi' : i < numParts data.length ps := hi
  have := addMany_fills H seq (fromHeader (headerOf H data ps)) (partAt H data ps i) hinv0 (hall i hi')
    (by rw [partAt_index]; omega) (by rw [partAt_index]; simpa [fromHeader, headerOf] using hi')
    (by rw [partAt_pindex, partAt_index]) (by rw [partAt_ptotal]; rfl)
    (partAt_verify H data ps i hi')
  simpa [partAt_index] using this

/-- toy hash with fixed one-byte output: the hypotheses of (3) are satisfiable … -/
example : FixedLen (fun x : Bytes => [x.foldl (· + ·) 0]) 1 := fun _ => rfl

/-- … and the collision disjunct is needed: with a constant hash, a set carrying the header of the
one-part block `[1]` accepts the bytes `[2]` for index 0. -/
example : ∃ (H : Bytes → Bytes) (s : PartSet) (p : Part), FixedLen H 1 ∧
    s.header = headerOf H [1] 1 ∧ (addPart H s p).1 = .added true ∧ p.bytes ≠ slice [1] 1 0 := by
  refine ⟨fun _ => [7], fromHeader (headerOf (fun _ => [7]) [1] 1),
    ⟨0, [2], ⟨1, 0, [7], []⟩⟩, fun _ => rfl, rfl, ?_, by decide⟩
  have hh : headerOf (fun _ => ([7] : Bytes)) [1] 1 = ⟨1, [7]⟩ := by
    simp [headerOf, numParts, split, slice, proofsAux_single, leafHash]
  rw [hh]
  decide

/-! ## (4) count and bit array -/

/-- For every header and EVERY sequence of `AddPart` calls on the set created from it:
`parts` has `total` slots, the bit array is exactly the set of filled slots, `count` is their
number (= number of distinct indices stored), the header is unchanged, and a part stored at
slot `i` has index `i`, came from the sequence, and verified against the header. -/
theorem count_and_bits (H : Bytes → Bytes) (h : Header) (seq : List Part) :
    let s := (addMany H (fromHeader h) seq).2
    s.header = h ∧ s.parts.length = h.total ∧
    s.bits = s.parts.map Option.isSome ∧ s.count = s.parts.countP Option.isSome ∧
    (s.isComplete = true ↔ ∀ i, i < h.total → ∃ q, s.parts[i]? = some (some q)) ∧
    ∀ (i : Nat) (p : Part), s.parts[i]? = some (some p) →
      p.index = (i : Int) ∧ p ∈ seq ∧ p.proof.index = (i : Int) ∧ p.proof.total = (h.total : Int) ∧
      p.proof.verify H h.hash p.bytes = true := by
  intro s
  have hinv : Inv H s := inv_addMany H _ seq (inv_fromHeader H _)
  have hhdr := addMany_header H (fromHeader h) seq
  have ht : s.total = h.total := hhdr.1
  have hh : s.hash = h.hash := hhdr.2
  refine ⟨?_, ?_, hinv.bits, hinv.count, ?_, ?_⟩
  · show Header.mk s.total s.hash = h
    rw [ht, hh]
  · rw [hinv.len, ht]
  · rw [← ht]
    exact ⟨all_slots_of_complete H s hinv, complete_of_all_slots H s hinv⟩
  · intro i p hp
    obtain ⟨a, b, c, d⟩ := hinv.slot i p hp
    rw [ht] at c; rw [hh] at d
    refine ⟨a, ?_, b, c, d⟩
    rcases addMany_slot_origin H (fromHeader h) seq p i hp with h' | h'
    · simp only [fromHeader, List.getElem?_replicate] at h'
      split at h' <;> simp at h'
    · exact h'

/-! ## "a part whose content or proof does not match the header is rejected", stated directly -/

/-- An accepted part carries a proof whose aunts have exactly the shape of a path in a
`total`-leaf tree and hash, from `leafHash(bytes)`, up to the header hash — for EVERY header,
including one with an empty hash. -/
theorem strict_reject (H : Bytes → Bytes) (s : PartSet) (p : Part)
    (h : (addPart H s p).1 = .added true) : p.proof.verifyStrict H s.hash p.bytes = true := by
  rw [← verify_eq_strict H]
  exact ((addPart_added_iff H s p).mp h).2.2.2.2.2

/-- Regression witness of the former finding: `NewPartSetFromHeader({Total: 2, Hash: nil})` used to
accept a part for index 0 with NO aunts (`computeHashFromAunts` returns nil, `bytes.Equal(nil, nil)`);
since fix 96b4d2262f it is rejected with `ErrPartSetInvalidProof`, set unchanged. -/
theorem nilroot_witness_rejected :
    addPart (fun _ => [7]) (fromHeader ⟨2, []⟩) ⟨0, [1], ⟨2, 0, [7], []⟩⟩ =
      (.errProof, fromHeader ⟨2, []⟩) := by
  decide

end GnoVerif.C39
