import GnoVerif.Model.C15Sym
namespace GnoVerif.C15
end GnoVerif.C15
