import GnoVerif.Proofs.C15Replay
import GnoVerif.Proofs.C15Sym
/-!
# C15 — only correctly signed, fresh transactions take effect

Model: `GnoVerif.C15.deliver` (`Model/C15.lean`) = `BaseApp.runTx` in deliver
mode from the decoded tx on, around `GnoVerif.C15.ante` = `auth.NewAnteHandler`
(phases 1–4), for EVERY instance `cr : Crypto π σ β` of the cryptographic
primitives (`addrOf`, `signBytes`, `verify`, `sigGas`, `subKeys`), every
configuration, state, transaction (any signer set: master keys, multisig keys —
those are just keys here —, session keys, duplicated signers) and every history
of transactions, blocks and fundings.  The predicates the statements use
(`SigOk`, `SeqEffect`, `Accepted`, `Inv`, `CryptoOk`) are in `Model/C15Spec.lean`.

Clauses of the property statement and where they are:

* "changes state only if every required signer provided a valid signature over
  the chain id, its account number and its current sequence"
  — `state_change_only_if_signed`, `accepted_signatures_valid`;
* "each accepted transaction advances each signer's sequence by exactly one"
  — `ante_sequences_advance`, `accepted_master_sequences_advance`,
  `accepted_session_sequences_advance`;
* "so the same signed transaction can never take effect twice"
  — `replay_rejected`, `no_transaction_takes_effect_twice`, under `CryptoOk`
  (a signature verifies for at most one byte string per key; sign bytes
  determine account number and sequence; addresses are collision free).  These
  are hypotheses about the cryptography, not theorems; `sym_cryptoOk` shows they
  are jointly satisfiable (by the driver's ideal scheme, every ring key
  included), and `replay_needs_unique_signatures` shows the first one cannot be
  dropped (a key that verifies everything — what a threshold-0 multisig key was
  before the fix in /repo e5e21f6a46 — lets the same tx take effect twice);
* "a transaction rejected by the signature or fee checks leaves no state change
  at all, not even a fee" — `rejected_no_state_change`,
  `bad_signature_no_state_change`, `unpayable_fee_no_state_change`, with
  `fee_is_deducted_before_signatures_are_checked` showing that the model (like
  the code) really deducts the fee first and only the dropped cache undoes it.

All statements about signatures carry the guard `s.height ≠ 0`: at height 0
(InitChain) the code signs over account number 0 / sequence 0 or skips
verification altogether (`genesis_height_guard_needed`).
-/
namespace GnoVerif.C15

variable {π σ β : Type} [DecidableEq π]

/-! ## accepted ⇒ correctly signed -/

/-- An accepted transaction (ante passed; its writes are kept) carries, for every
    required signer in order, a valid signature over the chain id and that
    signer's current account number and sequence. -/
theorem accepted_signatures_valid (cr : Crypto π σ β) (cfg : Config) (s : State π) (tx : Tx π σ)
    (hh : s.height ≠ 0) (hacc : Accepted (deliver cr cfg s tx).2) :
    All2 (SigOk cr cfg s tx) (signersOf tx.msgs) tx.sigs := by
  obtain ⟨s1, ha, _⟩ := deliver_accepted cr cfg s tx hacc
  exact ante_sigs_valid cr cfg s tx s1 hh ha

/-- A transaction changes the state ONLY IF every required signer provided a valid
    signature over the chain id, its account number and its current sequence. -/
theorem state_change_only_if_signed (cr : Crypto π σ β) (cfg : Config) (s : State π) (tx : Tx π σ)
    (hh : s.height ≠ 0) (hch : (deliver cr cfg s tx).1 ≠ s) :
    All2 (SigOk cr cfg s tx) (signersOf tx.msgs) tx.sigs := by
  by_cases hacc : Accepted (deliver cr cfg s tx).2
  · exact accepted_signatures_valid cr cfg s tx hh hacc
  · exact absurd (deliver_not_accepted cr cfg s tx hacc) hch

omit [DecidableEq π] in
/-- The required signers are exactly the de-duplicated signer list: duplicates
    inside or across messages need (and get) one signature. -/
theorem signers_are_duplicate_free (msgs : List (Msg π)) : (signersOf msgs).Nodup :=
  signersOf_nodup msgs

/-! ## accepted ⇒ each signer's sequence advances by exactly one -/

/-- The ante of an accepted transaction: every master-key signer's sequence +1,
    every signing session's sequence +1 (not its master's), no other sequence
    moves, no account number changes, a key is only filled in where none was
    stored (a master key only if it hashes to the address). -/
theorem ante_sequences_advance (cr : Crypto π σ β) (cfg : Config) (s : State π) (tx : Tx π σ) (s1 : State π)
    (hh : s.height ≠ 0) (h : ante cr cfg s tx = .ok s1) : SeqEffect cr cfg tx s s1 :=
  ante_seq_effect cr cfg s tx s1 (fun hg => hh hg.1) h

/-- … and that is what is committed for accounts, whether or not the messages
    succeed (messages never touch an account's number, sequence or key). -/
theorem accepted_master_sequences_advance (cr : Crypto π σ β) (cfg : Config) (s : State π) (tx : Tx π σ)
    (hh : s.height ≠ 0) (hacc : Accepted (deliver cr cfg s tx).2) (x : Addr) (acc : Account π)
    (hx : s.accounts x = some acc) :
    ∃ acc', (deliver cr cfg s tx).1.accounts x = some acc' ∧ acc'.accNum = acc.accNum ∧
      ((MasterSigner tx x ∧ acc'.seq = acc.seq + 1) ∨ (¬ MasterSigner tx x ∧ acc'.seq = acc.seq)) := by
  obtain ⟨s1, ha, hm⟩ := deliver_accepted cr cfg s tx hacc
  obtain ⟨acc', h1, h2, h3, _⟩ := (ante_sequences_advance cr cfg s tx s1 hh ha).accounts x acc hx
  refine ⟨acc', by rw [hm.accounts]; exact h1, h2, ?_⟩
  rcases h3 with h3 | ⟨h3, h4, _⟩
  · exact .inl h3
  · exact .inr ⟨h3, h4⟩

/-- A session that signed has its sequence advanced by exactly one in the
    committed state — unless the transaction's own messages revoked it (then it
    is gone, or re-created under a fresh account number). -/
theorem accepted_session_sequences_advance (cr : Crypto π σ β) (cfg : Config) (s : State π) (tx : Tx π σ)
    (hh : s.height ≠ 0) (hacc : Accepted (deliver cr cfg s tx).2) (m k : Addr) (ss : Session π)
    (hs : s.sessions m k = some ss) (hsig : SessionSigner tx m k) :
    (∃ ss', (deliver cr cfg s tx).1.sessions m k = some ss' ∧ ss'.accNum = ss.accNum ∧ ss'.seq = ss.seq + 1) ∨
    (deliver cr cfg s tx).1.sessions m k = none ∨
    (∃ ss', (deliver cr cfg s tx).1.sessions m k = some ss' ∧ s.nextAccNum ≤ ss'.accNum) := by
  obtain ⟨s1, ha, hm⟩ := deliver_accepted cr cfg s tx hacc
  have he := ante_sequences_advance cr cfg s tx s1 hh ha
  have h1 := he.sessions m k
  rw [hs] at h1
  simp only at h1
  obtain ⟨ss1, e0, e1, e2, _⟩ := h1
  rcases hm.sess m k with e | e | ⟨ssF, e, g1, _, _⟩
  · left
    refine ⟨ss1, by rw [e]; exact e0, e1, ?_⟩
    rcases e2 with ⟨_, e2⟩ | ⟨hn, _⟩
    · exact e2
    · exact absurd hsig hn
  · exact .inr (.inl e)
  · exact .inr (.inr ⟨ssF, e, Nat.le_trans he.evolves.next g1⟩)

/-! ## rejected ⇒ no state change at all -/

/-- A transaction rejected by the ante handler (any of its checks: signature,
    fee, sequence, gas, …) leaves the state exactly as it was. -/
theorem rejected_no_state_change (cr : Crypto π σ β) (cfg : Config) (s : State π) (tx : Tx π σ)
    (h : ¬ Accepted (deliver cr cfg s tx).2) : (deliver cr cfg s tx).1 = s :=
  deliver_not_accepted cr cfg s tx h

/-- Every outcome is `ok`, `failed` (ante passed) or a rejection, and an ante error is a rejection. -/
theorem ante_error_is_rejection (cr : Crypto π σ β) (cfg : Config) (s : State π) (tx : Tx π σ) (e : Err)
    (h : ante cr cfg s tx = .error e) : ¬ Accepted (deliver cr cfg s tx).2 := by
  intro hacc
  obtain ⟨s1, ha, _⟩ := deliver_accepted cr cfg s tx hacc
  rw [h] at ha
  cases ha

/-- Signature check: if some required signer has no valid signature, nothing
    changes — not even the fee that phase 2 had already moved in the cache. -/
theorem bad_signature_no_state_change (cr : Crypto π σ β) (cfg : Config) (s : State π) (tx : Tx π σ)
    (hh : s.height ≠ 0) (hbad : ¬ All2 (SigOk cr cfg s tx) (signersOf tx.msgs) tx.sigs) :
    (deliver cr cfg s tx).1 = s := by
  apply rejected_no_state_change
  intro hacc
  exact hbad (accepted_signatures_valid cr cfg s tx hh hacc)

/-- Fee check: an accepted transaction with a non-zero fee names the gas denom and
    the first signer held at least the fee. -/
theorem accepted_fee_payable (cr : Crypto π σ β) (cfg : Config) (s : State π) (tx : Tx π σ)
    (hacc : Accepted (deliver cr cfg s tx).2) :
    tx.fee.amount = 0 ∨
    (tx.fee.gas = true ∧ ∃ a as acc, signersOf tx.msgs = a :: as ∧ s.accounts a = some acc ∧
      tx.fee.amount ≤ acc.coins) := by
  obtain ⟨s1, ha, _⟩ := deliver_accepted cr cfg s tx hacc
  have hok := ante_ok_inv cr cfg s tx s1 ha
  obtain ⟨r0, rs, s1', r0', hres, hp2, _⟩ := hok.run
  have hR := resolveAll_ok s _ _ _ hok.lenEq.symm hres
  obtain ⟨a, g, as, gs, eas, _, hp, _⟩ := hR.cons_inv
  rcases phase2_payable cfg s tx r0 s1' r0' hp2 with h0 | ⟨acc, hacc', hle⟩
  · exact .inl h0
  by_cases h0 : tx.fee.amount = 0
  · exact .inl h0
  right
  rw [hp.1] at hacc'
  cases hg : tx.fee.gas with
  | false =>
    simp [hg] at hle
    exact absurd hle h0
  | true =>
    simp [hg] at hle
    exact ⟨rfl, a, as, acc, eas, hacc', hle⟩

/-- … so a fee the payer cannot pay (too large, or of a denom it does not hold)
    leaves no state change. -/
theorem unpayable_fee_no_state_change (cr : Crypto π σ β) (cfg : Config) (s : State π) (tx : Tx π σ)
    (hfee : tx.fee.amount ≠ 0)
    (hun : tx.fee.gas = false ∨ ∀ a as acc, signersOf tx.msgs = a :: as → s.accounts a = some acc →
      acc.coins < tx.fee.amount) :
    (deliver cr cfg s tx).1 = s := by
  apply rejected_no_state_change
  intro hacc
  rcases accepted_fee_payable cr cfg s tx hacc with h | ⟨hg, a, as, acc, e1, e2, e3⟩
  · exact hfee h
  · rcases hun with h | h
    · rw [hg] at h
      cases h
    · have := h a as acc e1 e2
      omega

/-! ## the same signed transaction never takes effect twice -/

/-- The full replay statement for a given cryptography, WITHOUT hypotheses on it. -/
def replay_statement (cr : Crypto π σ β) : Prop :=
  ∀ (cfg : Config) (s : State π) (tx : Tx π σ) (ops : List (Op π σ)),
    Inv cr s → s.height ≠ 0 → Accepted (deliver cr cfg s tx).2 →
    ¬ Accepted (deliver cr cfg (run cr cfg (deliver cr cfg s tx).1 ops) tx).2

/-- Under `CryptoOk`, a transaction accepted in a well-formed state is rejected —
    with no state change — in every state any later history (transactions,
    blocks, fundings, session creation and revocation) leads to. -/
theorem replay_rejected (cr : Crypto π σ β) (hc : CryptoOk cr) : replay_statement cr := by
  intro cfg s tx ops hi hh hacc hacc2
  have hs_after : Evolves s (deliver cr cfg s tx).1 ∧ Inv cr (deliver cr cfg s tx).1 ∧
      (deliver cr cfg s tx).1.height ≠ 0 := step_evolves_inv cr cfg s (.tx tx) hh hi
  obtain ⟨hev, hi2, hh2⟩ := run_evolves_inv cr cfg ops _ hs_after.2.2 hs_after.2.1
  obtain ⟨s3, ha3, _⟩ := deliver_accepted cr cfg _ tx hacc2
  exact replay_core cr hc cfg s tx hi hh hacc _ hev hi2 hh2 s3 ha3

/-- … and the rejected replay changes nothing. -/
theorem replay_changes_nothing (cr : Crypto π σ β) (hc : CryptoOk cr) (cfg : Config) (s : State π) (tx : Tx π σ)
    (ops : List (Op π σ)) (hi : Inv cr s) (hh : s.height ≠ 0) (hacc : Accepted (deliver cr cfg s tx).2) :
    (deliver cr cfg (run cr cfg (deliver cr cfg s tx).1 ops) tx).1 = run cr cfg (deliver cr cfg s tx).1 ops :=
  rejected_no_state_change cr cfg _ tx (replay_rejected cr hc cfg s tx ops hi hh hacc)

/-- Histories from the empty chain: in `ops₁ ++ [tx] ++ ops₂ ++ [tx]` the two
    deliveries of the same signed transaction are never both accepted (the first
    one being delivered at a height > 0). -/
theorem no_transaction_takes_effect_twice (cr : Crypto π σ β) (hc : CryptoOk cr) (cfg : Config) (t0 : Int)
    (ops₁ ops₂ : List (Op π σ)) (tx : Tx π σ)
    (hh : (run cr cfg (init t0) ops₁).height ≠ 0)
    (hacc : Accepted (deliver cr cfg (run cr cfg (init t0) ops₁) tx).2) :
    ¬ Accepted (deliver cr cfg (run cr cfg (deliver cr cfg (run cr cfg (init t0) ops₁) tx).1 ops₂) tx).2 :=
  replay_rejected cr hc cfg _ tx ops₂ (run_inv cr cfg ops₁ _ (init_inv cr t0)) hh hacc

/-- Reachable states are well-formed (so `Inv` is not an extra assumption). -/
theorem reachable_states_wellformed (cr : Crypto π σ β) (cfg : Config) (t0 : Int) (ops : List (Op π σ)) :
    Inv cr (run cr cfg (init t0) ops) :=
  run_inv cr cfg ops _ (init_inv cr t0)

/-! ## the hypotheses are satisfiable, and needed -/

/-- The driver's ideal signature scheme (every key of the ring, multisigs and the
    threshold-0 key included) satisfies `CryptoOk`. -/
theorem sym_cryptoOk : CryptoOk Sym.crypto := Sym.sym_cryptoOk

/-- Since the fix in /repo e5e21f6a46 a threshold-0 multisig key verifies nothing. -/
theorem sym_threshold_zero_never_verifies (d : SignDoc Nat) (sg : Sym.SSig) :
    Sym.crypto.verify 5 d sg = false :=
  Sym.threshold_zero_never_verifies d sg

/-! ### concrete witnesses (also the non-vacuity examples) -/

namespace Ex

def cfg : Config :=
  { chain := 0, collector := 90, maxGas := 1000000000000000, sigLimit := 7, maxMemo := 65536,
    verifyGenesis := true, smallGas := 500 }

/-- account 0 funded with 1000, one block begun -/
def s0 : State Nat := beginBlock (credit (init 1700000000) 0 1000) 5

def body : Body Nat := { msgs := [.note [0] 1 false], gasWanted := 10000000000, fee := .coin true 10, memo := (1, 0) }

/-- a correctly signed transaction of account 0 -/
def tx : Tx Nat Sym.SSig :=
  { msgs := body.msgs, gasWanted := body.gasWanted, fee := body.fee, memo := body.memo, memoLen := 2,
    sigs := [{ pubKey := some 0, sig := .leaf 0 ⟨0, 0, 0, body⟩ true, session := none }] }

/-- the same with the signature bytes flipped -/
def txBad : Tx Nat Sym.SSig :=
  { tx with sigs := [{ pubKey := some 0, sig := .leaf 0 ⟨0, 0, 0, body⟩ false, session := none }] }

/-- a scheme whose keys verify everything (a threshold-0 multisig before the fix) -/
def vacuous : Crypto Nat Sym.SSig (SignDoc Nat) :=
  { Sym.crypto with verify := fun _ _ _ => true, sigGas := fun _ _ => .ok }

end Ex

/-- non-vacuity: a well-formed state at height 1 in which a transaction is accepted -/
example : Inv Sym.crypto Ex.s0 ∧ Ex.s0.height ≠ 0 ∧ (deliver Sym.crypto Ex.cfg Ex.s0 Ex.tx).2 = .ok :=
  ⟨(beginBlock_evolves_inv _ _ _ (credit_evolves_inv _ _ _ _ (init_inv _ _)).2).2, by decide, by decide⟩

/-- … its replay is rejected (computed, in accordance with `replay_rejected`) -/
example : (deliver Sym.crypto Ex.cfg (deliver Sym.crypto Ex.cfg Ex.s0 Ex.tx).1 Ex.tx).2 = .rejected .unauthorized := by
  decide

/-- The model, like the code, deducts the fee BEFORE checking signatures: after
    phases 1–2 of the badly signed transaction the payer's balance is 990 and
    the collector holds 10 …  -/
theorem fee_is_deducted_before_signatures_are_checked :
    (∃ s1 r, phase2 Ex.cfg Ex.s0 Ex.txBad ⟨0, ⟨0, 0, none, 1000⟩, none⟩ = .ok (s1, r) ∧
      (s1.accounts 0).map (·.coins) = some 990 ∧ (s1.accounts 90).map (·.coins) = some 10) ∧
    -- … yet the delivery is a rejection that leaves the state untouched:
    deliver Sym.crypto Ex.cfg Ex.s0 Ex.txBad = (Ex.s0, .rejected .unauthorized) := by
  refine ⟨⟨_, _, rfl, by decide, by decide⟩, ?_⟩
  have h : (deliver Sym.crypto Ex.cfg Ex.s0 Ex.txBad).2 = .rejected .unauthorized := by decide
  have h2 := rejected_no_state_change Sym.crypto Ex.cfg Ex.s0 Ex.txBad (by rw [h]; simp [Accepted])
  exact Prod.ext h2 h

/-- `CryptoOk.unique` cannot be dropped: with keys that verify everything the
    replay statement is false — the same transaction is accepted twice in a row. -/
theorem replay_needs_unique_signatures : ¬ replay_statement Ex.vacuous := by
  intro h
  have hi : Inv Ex.vacuous Ex.s0 :=
    (beginBlock_evolves_inv _ _ _ (credit_evolves_inv _ _ _ _ (init_inv _ _)).2).2
  have h1 : (deliver Ex.vacuous Ex.cfg Ex.s0 Ex.tx).2 = .ok := by decide
  have h2 : (deliver Ex.vacuous Ex.cfg (deliver Ex.vacuous Ex.cfg Ex.s0 Ex.tx).1 Ex.tx).2 = .ok := by decide
  exact h Ex.cfg Ex.s0 Ex.tx [] hi (by decide) (by rw [h1]; trivial) (by simp only [run]; rw [h2]; trivial)

/-- The guard `height ≠ 0` cannot be dropped: at height 0 (with genesis signature
    verification on) the sign doc carries account number 0 and sequence 0, so the
    very same signed transaction is accepted twice. -/
theorem genesis_height_guard_needed :
    let s := credit (init 1700000000 : State Nat) 0 1000
    s.height = 0 ∧ (deliver Sym.crypto Ex.cfg s Ex.tx).2 = .ok ∧
      (deliver Sym.crypto Ex.cfg (deliver Sym.crypto Ex.cfg s Ex.tx).1 Ex.tx).2 = .ok := by
  decide

end GnoVerif.C15
