/-
C37 — proposer selection fairness; validator-set updates.
Property theorems about Model/C37.lean (the model of tm2/pkg/bft/types/validator_set.go).
Helper lemmas live in Proofs/C37*.lean.

Reading guide
* updates:   update_rejected_unchanged, update_bad_input_rejected, update_errors_are_returned,
             update_accepted_wellformed, update_accepted_spread, new_wellformed
* choice:    proposer_choice (max priority, tie → lowest address)
* spread:    rescale_spread, inc_prologue_spread, inc_one_spread, reachable_spread_partial
             (full statement `spread_statement` is NOT proved for `times > 1`, see there)
* fairness:  calm_run_closed_form, fairness_partial, fairness_counterexample
             (full statement `fairness_statement` is FALSE on the code as it is)
* T tie:     safeAddClip_is_clip, safeSubClip_is_clip (generated code = the model's `clip`)
-/
import GnoVerif.Proofs.C37Main
import GnoVerif.Proofs.C37Clip
namespace GnoVerif.C37

/-! ## the clipping adders (regenerated from source) -/

/-- `safeAddClip` of validator_set.go, as translated from the source, saturates the exact sum. -/
theorem safeAddClip_is_clip (a b : BitVec 64) :
    (Gen.C37.safeAddClip a b).toInt = clip (a.toInt + b.toInt) := gen_safeAddClip a b

/-- `safeSubClip` of validator_set.go, as translated from the source, saturates the exact difference. -/
theorem safeSubClip_is_clip (a b : BitVec 64) :
    (Gen.C37.safeSubClip a b).toInt = clip (a.toInt - b.toInt) := gen_safeSubClip a b

/-! ## updates -/

/-- A rejected update does not change the set (in the model this holds by construction: an
error carries no state; the harness checks the same on the real receiver). -/
theorem update_rejected_unchanged (s : VSet) (ch : List Val) (e : Err)
    (h : update s ch = .error e) : applyUpdate s ch = s := by
  unfold applyUpdate; rw [h]

/-- Change sets with a duplicate address, a negative power, a power above
`MaxTotalVotingPower`, or the removal of an address that is not in the set are rejected, and the
set stays as it was. (Any set `s`, no invariant needed.) -/
theorem update_bad_input_rejected (s : VSet) (ch : List Val) (hbad : BadChanges s ch) :
    (∃ e, update s ch = .error e) ∧ applyUpdate s ch = s := by
  obtain ⟨e, he⟩ := updateWith_rejects (ad := true) hbad
  exact ⟨⟨e, he⟩, update_rejected_unchanged s ch e he⟩

example : BadChanges ⟨[⟨2, 10, 0⟩], 10, none⟩ [⟨4, 5, 0⟩, ⟨4, 6, 0⟩] := Or.inl (by decide)
example : BadChanges ⟨[⟨2, 10, 0⟩], 10, none⟩ [⟨3, 0, 0⟩] :=
  Or.inr (Or.inr (Or.inr ⟨⟨3, 0, 0⟩, by simp, rfl, by simp⟩))

/-- On a well-formed set whose priorities are bounded by `3·MaxTotalVotingPower`, the update
pipeline never panics (no division by zero in `RescalePriorities`, no total above the cap in
`updateTotalVotingPower`): every failure is one of the returned errors
(`dup neg toobig zero unknown overflow empty`). -/
theorem update_errors_are_returned (s : VSet) (ch : List Val) (e : Err) (hwf : WF s)
    (hb : PrioBound s.vals bigB) (h : update s ch = .error e) : e.isReturned = true :=
  updateWith_error_returned hwf hb h

/-- An accepted update keeps the set strictly sorted by address (hence duplicate-free), all
powers positive, and the cached total equal to the sum of the powers and at most
`MaxTotalVotingPower`; and a non-empty accepted change set never produces an empty set. -/
theorem update_accepted_wellformed (s s' : VSet) (ch : List Val) (hwf : WF s)
    (h : update s ch = .ok s') : WF s' ∧ (ch ≠ [] → s'.vals ≠ []) := by
  by_cases hne : ch = []
  · subst hne
    have : s' = s := by
      simp only [update, updateWith, List.isEmpty_nil, if_true, Except.ok.injEq] at h
      exact h.symm
    subst this
    exact ⟨hwf, fun h => absurd rfl h⟩
  · obtain ⟨h1, h2⟩ := updateWithChangeSet_wf hwf h hne
    exact ⟨h1, fun _ => h2⟩
where
  updateWithChangeSet_wf {s s' : VSet} {ch : List Val} (hwf : WF s) (h : update s ch = .ok s')
      (hne : ch ≠ []) : WF s' ∧ s'.vals ≠ [] := updateWith_ok_wf hwf h hne

example : WF ⟨[⟨2, 10, 7⟩, ⟨4, 20, -7⟩], 30, some 2⟩ :=
  ⟨by simp [SortedAddr], by simp, by simp [sumPower], by simp [maxTotal]⟩

/-- Right after an accepted non-empty update (rescale with the NEW total `T'`, then centring)
all priorities are within `2·T'` of each other and within `[-2T', 2T']`. -/
theorem update_accepted_spread (s s' : VSet) (ch : List Val) (hwf : WF s)
    (hb : PrioBound s.vals bigB) (h : update s ch = .ok s') (hne : ch ≠ []) :
    SpreadLe s'.vals (2 * s'.total) ∧ PrioBound s'.vals (2 * s'.total) :=
  updateWith_ok_spread hwf hb h hne

/-- `NewValidatorSet` either panics or returns a well-formed set. -/
theorem new_wellformed (valz : List Val) (s : VSet) (h : newSet valz = .ok s) : WF s := by
  have hwf0 : WF VSet.empty := ⟨by simp [VSet.empty, SortedAddr], by simp [VSet.empty],
    by simp [VSet.empty, sumPower], by simp [VSet.empty, maxTotal]⟩
  by_cases hne : valz = []
  · subst hne
    simp only [newSet, updateWith, List.isEmpty_nil, if_true, Except.ok.injEq] at h
    rw [← h]; exact hwf0
  · obtain ⟨z, hz, hop⟩ := newSet_form h hne
    have hwfz : WF z := ⟨hz.sorted, hz.pos, hz.total_eq, hz.total_le⟩
    obtain ⟨s', hs', hwf', _⟩ := incOne_spec hwfz hz.ne (fun v hv => by
      rw [hz.zero v hv]; unfold bigB maxTotal; omega)
    rw [hop] at hs'
    cases hs'
    exact hwf'

/-! ## priority spread -/

/-- `RescalePriorities(D)` (Go's truncating `/=` by `ratio = (diff + D - 1) / D`): if all
priorities lie in `[-B, B]` with `2B + D ≤ MaxInt64` (no int64 wrap in `maxVal - minVal` and
`diff + diffMax - 1`), then afterwards every two priorities differ by at most `D` — exactly `D`,
not `D + 1` — the division does not panic, and magnitudes do not grow. -/
theorem rescale_spread (vs : List Val) (B D : Int) (hne : vs ≠ []) (hb : PrioBound vs B)
    (hD : 0 < D) (hBD : 2 * B + D ≤ maxInt64) :
    rescalePanics D vs = false ∧ SpreadLe (rescale D vs) D ∧ PrioBound (rescale D vs) B :=
  rescale_spec hne hb hD hBD

example : PrioBound [⟨0, 1, 700⟩, ⟨1, 1, -300⟩] 700 ∧ 2 * 700 + 4 ≤ maxInt64 := by
  refine ⟨?_, by decide⟩
  intro v hv; simp only [List.mem_cons, List.mem_nil_iff, or_false] at hv
  rcases hv with rfl | rfl <;> decide

/-- For EVERY `times`: the state right after the rescale-and-centre prologue of
`IncrementProposerPriority` has all priorities within `2·T` of each other (and in `[-2T, 2T]`),
and their sum lies in `[0, n)` (Euclidean remainder of the `big.Int` average). -/
theorem inc_prologue_spread (s : VSet) (hwf : WF s) (hne : s.vals ≠ [])
    (hb : PrioBound s.vals bigB) :
    SpreadLe (afterPrologue s) (2 * s.total) ∧ PrioBound (afterPrologue s) (2 * s.total) ∧
    0 ≤ sumPrio (afterPrologue s) ∧ sumPrio (afterPrologue s) < s.vals.length := by
  obtain ⟨_, _, h1, h2, h3, h4⟩ := prologue_spec hwf hne hb
  exact ⟨h1, h2, h3, h4⟩

/-- `IncrementProposerPriority(1)` never panics on a well-formed non-empty bounded set, keeps
it well-formed with the same validators and total, and afterwards all priorities are within
`3·T − 1` of each other: one round moves the spread by less than `T`. -/
theorem inc_one_spread (s : VSet) (hwf : WF s) (hne : s.vals ≠ []) (hb : PrioBound s.vals bigB) :
    ∃ s', opInc 1 s = .ok s' ∧ WF s' ∧ s'.vals ≠ [] ∧ s'.total = s.total ∧
      SpreadLe s'.vals (3 * s'.total - 1) ∧ PrioBound s'.vals (3 * s'.total) := by
  obtain ⟨s', h1, h2, h3, h4, _, h5, h6⟩ := incOne_spec hwf hne hb
  exact ⟨s', h1, h2, h3, h4, h5, h6⟩

/-- The statement's spread clause, for all histories (any `times`). NOT proved: for
`times > 1` the rounds after the first run without a rescale in between, and no bound on the
maximum priority of the pure rotation is known to me that is independent of the number of
validators (only `max ≤ (n−1)·2T` from the constant sum). The harness checks it on every run. -/
def spread_statement : Prop :=
  ∀ s, Reach (fun _ => True) s → WF s ∧ SpreadLe s.vals (3 * s.total)

/-- **Spread, proved part**: every state reachable from `NewValidatorSet` through accepted
updates and `IncrementProposerPriority(1)` calls (what `state/execution.go` does once per
block) is well-formed and has all priorities within `3·T` of each other. -/
theorem reachable_spread_partial (s : VSet) (h : Reach (fun t => t = 1) s) :
    WF s ∧ SpreadLe s.vals (3 * s.total) := by
  suffices hinv : WF s ∧ SpreadLe s.vals (3 * s.total) ∧ PrioBound s.vals (3 * s.total) from
    ⟨hinv.1, hinv.2.1⟩
  have toBig : ∀ {t : VSet}, WF t → PrioBound t.vals (3 * t.total) → PrioBound t.vals bigB := by
    intro t hwf hp v hv
    have := hp v hv; have := hwf.total_le
    unfold bigB; omega
  induction h with
  | @new valz s hnew =>
    have hwf := new_wellformed valz s hnew
    by_cases hne : valz = []
    · subst hne
      simp only [newSet, updateWith, List.isEmpty_nil, if_true, Except.ok.injEq] at hnew
      subst hnew
      exact ⟨hwf, by intro u hu; simp [VSet.empty] at hu, by intro u hu; simp [VSet.empty] at hu⟩
    · obtain ⟨z, hz, hop⟩ := newSet_form hnew hne
      have hwfz : WF z := ⟨hz.sorted, hz.pos, hz.total_eq, hz.total_le⟩
      obtain ⟨s', hs', _, _, _, _, h5, h6⟩ := incOne_spec hwfz hz.ne (fun v hv => by
        rw [hz.zero v hv]; unfold bigB maxTotal; omega)
      rw [hop] at hs'
      cases hs'
      exact ⟨hwf, fun u hu w hw => by have := h5 u hu w hw; omega, h6⟩
  | @update s s' ch _ hup ih =>
    obtain ⟨hwf, hsp, hpb⟩ := ih
    by_cases hne : ch = []
    · subst hne
      simp only [update, updateWith, List.isEmpty_nil, if_true, Except.ok.injEq] at hup
      subst hup
      exact ⟨hwf, hsp, hpb⟩
    · obtain ⟨hwf', hne'⟩ := updateWith_ok_wf hwf hup hne
      obtain ⟨h1, h2⟩ := updateWith_ok_spread hwf (toBig hwf hpb) hup hne
      have hT := wf_total_pos hwf' hne'
      exact ⟨hwf', fun u hu w hw => by have := h1 u hu w hw; omega,
        fun v hv => by have := h2 v hv; omega⟩
  | @inc s s' times _ ht hop ih =>
    obtain ⟨hwf, _, hpb⟩ := ih
    subst ht
    by_cases hne : s.vals = []
    · simp [opInc, hne] at hop
    · obtain ⟨s'', hs'', hwf', _, _, _, h5, h6⟩ := incOne_spec hwf hne (toBig hwf hpb)
      rw [hop] at hs''
      cases hs''
      exact ⟨hwf', fun u hu w hw => by have := h5 u hu w hw; omega, h6⟩

example : Reach (fun t => t = 1) ⟨[⟨0, 1, 1⟩, ⟨1, 2, -1⟩], 3, some 1⟩ :=
  Reach.new (valz := [⟨0, 1, 0⟩, ⟨1, 2, 0⟩]) (by decide)

/-! ## the choice of the proposer -/

/-- `getValWithMostPriority` (with `CompareProposerPriority`'s tie-break) picks a validator of
maximal priority and, among those, the one with the LOWEST address. -/
theorem proposer_choice (vs : List Val) (m : Val) (hs : SortedAddr vs) (h : most vs = some m) :
    m ∈ vs ∧ ∀ v ∈ vs, v.prio ≤ m.prio ∧ (v.prio = m.prio → m.addr ≤ v.addr) :=
  ⟨(most_spec h).1, most_lowest_address hs h⟩

example : most [⟨1, 5, 7⟩, ⟨3, 5, 9⟩, ⟨4, 1, 9⟩] = some ⟨3, 5, 9⟩ := by decide

/-! ## fairness -/

/-- **The calm rotation.** From the all-zero state `z` that `NewValidatorSet` builds, as long as
the priority spread stays within `2·T` at the beginning of each of the first `K` calls (so that
`RescalePriorities` does nothing), the real `IncrementProposerPriority(1)` is the pure
"add power, pick max, subtract `T`" round and after `k ≤ K` calls:
priority of `v` = `k·power(v) − T·c_v(k)` (`c_v(k)` = how often `v` was chosen), every priority
is `> −T`, and the priorities sum to 0. -/
theorem calm_run_closed_form (z : VSet) (hz : ZeroStart z) (K : Nat)
    (hG : ∀ k < K, SpreadLe (iter incOne k z).vals (2 * z.total)) (k : Nat) (hk : k ≤ K) :
    (∀ v ∈ (iter incOne k z).vals,
      v.prio = k * v.power - z.total * (countIn (pickOf z) (some v.addr) 0 k : Nat)) ∧
    (∀ v ∈ (iter incOne k z).vals, -z.total < v.prio) ∧
    sumPrio (iter incOne k z).vals = 0 := by
  have inv := run_inv hz K hG k hk
  exact ⟨inv.closed, inv.lower, inv.sum0⟩

/-- The fairness clause of the statement, for sets built by `NewValidatorSet` and never updated:
in every window of `T` consecutive heights each validator proposes exactly `power` times.
FALSE for the code as it is — see `fairness_counterexample`. -/
def fairness_statement : Prop :=
  ∀ (valz : List Val) (s0 : VSet), valz ≠ [] → newSet valz = .ok s0 →
    ∀ (j : Nat) (v : Val), v ∈ s0.vals →
      (countIn (proposerAt s0) (some v.addr) j s0.total.toNat : Int) = v.power

/-- "No rescale occurs": at each of the first `T` heights the spread of the set is within
`2·T` (then it is so forever, by periodicity). -/
def NoRescale (s0 : VSet) : Prop :=
  ∀ h < s0.total.toNat, SpreadLe (stateAt s0 h).vals (2 * s0.total)

/-- **Fairness, proved part**: if no rescale occurs during the first `T` heights, then in EVERY
window of `T` consecutive heights every validator is proposer exactly as many times as its
voting power (no clipping occurs either: it is excluded by the same guard). -/
theorem fairness_partial (valz : List Val) (s0 : VSet) (hne : valz ≠ [])
    (hnew : newSet valz = .ok s0) (hcalm : NoRescale s0) (j : Nat) (v : Val) (hv : v ∈ s0.vals) :
    (countIn (proposerAt s0) (some v.addr) j s0.total.toNat : Int) = v.power := by
  obtain ⟨z, hz, hop⟩ := newSet_form hnew hne
  have hs0 : s0 = incOne z := by unfold incOne; rw [hop]
  have hstate : ∀ h, stateAt s0 h = iter incOne (h + 1) z := by
    intro h
    unfold stateAt
    rw [hs0, Nat.add_comm, iter_add]; rfl
  have inv1 := run_inv hz 1 (by
    intro k hk
    have : k = 0 := by omega
    subst this
    exact hz.calm.spread) 1 (Nat.le_refl _)
  have htot : s0.total = z.total := by
    have := inv1.total
    rw [hs0]; exact this
  have hshape : shape s0.vals = shape z.vals := by
    have := inv1.shape
    rw [hs0]; exact this
  have hG : ∀ k < z.total.toNat, SpreadLe (iter incOne k z).vals (2 * z.total) := by
    intro k hk
    cases k with
    | zero => exact hz.calm.spread
    | succ k =>
      have := hcalm k (by rw [htot]; omega)
      rw [hstate, htot] at this
      exact this
  obtain ⟨w, hw, hwa, hwp⟩ := mem_of_shape_eq hshape hv
  have hpick : proposerAt s0 = pickOf z := by
    funext h
    unfold proposerAt pickOf
    rw [hstate]
  rw [hpick, htot, ← hwa, ← hwp]
  exact window_counts hz hG j w hw

/-- the guard of `fairness_partial` is satisfiable (and decidable on a concrete set) -/
example : ∃ s0, newSet [⟨0, 1, 0⟩, ⟨1, 2, 0⟩, ⟨2, 3, 0⟩] = .ok s0 ∧ NoRescale s0 :=
  ⟨⟨[⟨0, 1, 1⟩, ⟨1, 2, 2⟩, ⟨2, 3, -3⟩], 6, some 2⟩, by decide, by
    intro h hh
    have : h < 6 := hh
    have h6 : h = 0 ∨ h = 1 ∨ h = 2 ∨ h = 3 ∨ h = 4 ∨ h = 5 := by omega
    rcases h6 with rfl | rfl | rfl | rfl | rfl | rfl <;> decide⟩

/-- Smallest stable set found on which the fairness clause fails: powers in address order
`[1,1,6,6,6,6,6,46,46,46]`, `T = 170`. -/
def witness : List Val :=
  [⟨0, 1, 0⟩, ⟨1, 1, 0⟩, ⟨2, 6, 0⟩, ⟨3, 6, 0⟩, ⟨4, 6, 0⟩, ⟨5, 6, 0⟩, ⟨6, 6, 0⟩,
   ⟨7, 46, 0⟩, ⟨8, 46, 0⟩, ⟨9, 46, 0⟩]

/-- the set `NewValidatorSet witness` returns (same as the real code prints) -/
def witnessSet : VSet :=
  ⟨[⟨0, 1, 1⟩, ⟨1, 1, 1⟩, ⟨2, 6, 6⟩, ⟨3, 6, 6⟩, ⟨4, 6, 6⟩, ⟨5, 6, 6⟩, ⟨6, 6, 6⟩,
    ⟨7, 46, -124⟩, ⟨8, 46, 46⟩, ⟨9, 46, 46⟩], 170, some 7⟩

/-- **Counterexample** (kernel-evaluated on the model, replayed on the real code by
corpus/C37/01-unfair-170.ops): on the never-updated set `witness` the validator at address 0
(power 1) is proposer TWICE within the first window of `T = 170` heights — the spread reaches
`343 > 2T` and `RescalePriorities` halves every priority. So `fairness_statement` is false. -/
theorem fairness_counterexample : ¬ fairness_statement := by
  intro h
  have hnew : newSet witness = .ok witnessSet := by decide +kernel
  have := h witness witnessSet (by decide) hnew 0 ⟨0, 1, 1⟩ (by decide)
  have hc : countIn (proposerAt witnessSet) (some 0) 0 170 = 2 := by
    have e := countIn_eq_trace incOne (fun s => s.proposer) witnessSet (some 0) 170
    unfold proposerAt stateAt
    rw [e]
    decide +kernel
  change ((countIn (proposerAt witnessSet) (some 0) 0 170 : Nat) : Int) = 1 at this
  rw [hc] at this
  exact absurd this (by decide)

end GnoVerif.C37
