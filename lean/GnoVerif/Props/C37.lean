import GnoVerif.Model.C37
import GnoVerif.Gen.C37
namespace GnoVerif.C37

theorem placeholder : clip 5 = 5 := by decide

end GnoVerif.C37
