import GnoVerif.Proofs.C35Facts
/-!
C35 — vote sets track quorums exactly.

Theorems about the model `Model/C35.lean` of `tm2/pkg/bft/types/vote_set.go`, for EVERY
validator set (any powers; `total ≤ MaxTotalVotingPower` only matters for `quorum_fits_int64`)
and EVERY sequence of `AddVote` / `SetPeerMaj23` events (`Reachable`, `run`, `runLog`).

Vocabulary (defined in the model file): `sumPow vals l` = Σ power of the validators `i` with
`l[i] ≠ nil`; `Tracked s k i v` = `votesByBlock[k].votes[i] = v`; `countedFor s k` = power counted
for block key `k`; `Verified s v` = `v` passes every check of `addVote` up to and including the
signature; `PeerClaimed s k`; log entries `added` / `lateStored` / `stored`.

Two clauses of the statement are false of the code and are recorded as findings
(full statement as `def`, `_partial` theorem, `_counterexample` theorem):
* "the resulting commit contains only votes for the majority block" — `MakeCommit` copies
  every `votes[i]` (stray precommits are kept by design);
* blocks are identified by `BlockID.Key()`, which is not injective: two different BlockIDs with
  one key are counted together and a double-sign across them is reported as
  "non-deterministic signature", not as a conflict.
-/
namespace GnoVerif.C35

-- ---------------------------------------------------------------- witnesses used by the examples

def blkA : BlockID := ⟨1, 0⟩
def blkB : BlockID := ⟨2, 0⟩
/-- two different BlockIDs with the same `Key()` -/
def blkX : BlockID := ⟨7, 0⟩
def blkY : BlockID := ⟨7, 1⟩
def vals4 : List (Nat × Nat) := [(0, 1), (1, 1), (2, 1), (3, 1)]
/-- a valid precommit of validator `i` for block `b` at height 5 round 2 -/
def mkVote (i : Nat) (b : BlockID) : Vote :=
  { idx := i, addr := i, height := 5, round := 2, type := precommitType, block := b, sig := b.tag * 4, sigOk := true }
def fresh4 : VoteSet := newVoteSet 5 2 precommitType vals4
/-- validator 3 precommits B, validators 0,1,2 precommit A -/
def strayEvents : List Event :=
  [.vote (some (mkVote 3 blkB)), .vote (some (mkVote 0 blkA)), .vote (some (mkVote 1 blkA)), .vote (some (mkVote 2 blkA))]
/-- 0 votes X, 1 votes Y, 2 votes X: three of four validators, but only two for X -/
def collisionEvents : List Event :=
  [.vote (some (mkVote 0 blkX)), .vote (some (mkVote 1 blkY)), .vote (some (mkVote 2 blkX))]

/-- the state after the stray-precommit history -/
def sStray : VoteSet := run fresh4 strayEvents

-- ---------------------------------------------------------------- (1) per-block sums

/-- (1) `votesByBlock[k].sum` is exactly the power of the distinct validators whose vote is counted for `k`. -/
theorem counted_sum_exact {s : VoteSet} (hr : Reachable s) {k : Nat} {bv : BlockVotes}
    (h : alGet k s.vbb = some bv) : bv.sum = sumPow s.vals bv.votes :=
  (reachable_inv hr).1.sumBV k bv h

/-- (1, history) the votes counted for key `k` are exactly the votes some `AddVote` of the history
reported as added (each validator at most once per key, whatever was sent in between). -/
theorem counted_iff_added (h r : Int) (t : Nat) (vals : List (Nat × Nat)) (evs : List Event)
    (k j : Nat) (w : Vote) :
    Tracked (run (newVoteSet h r t vals) evs) k j w ↔
      ∃ e ∈ runLog (newVoteSet h r t vals) evs, e.vote = w ∧ e.added ∧ k = w.block.key ∧ (j : Int) = w.idx := by
  rw [tracked_run (inv_new h r t vals) (peerInv_new h r t vals)]
  constructor
  · rintro (⟨bv, hb, _⟩ | h)
    · simp [newVoteSet, alGet] at hb
    · exact h
  · exact Or.inr

/-- (1) only votes that passed every check are ever counted: right index, address, height, round,
type, valid signature, and for the key they are counted under. -/
theorem counted_votes_valid {s : VoteSet} (hr : Reachable s) {k j : Nat} {w : Vote} (h : Tracked s k j w) :
    w.idx = j ∧ w.height = s.height ∧ w.round = s.round ∧ w.type = s.type ∧ w.sigOk = true ∧
    (∃ p, s.vals[j]? = some (w.addr, p)) ∧ w.block.key = k := by
  obtain ⟨bv, hb, hw⟩ := h
  obtain ⟨wf, hk⟩ := (reachable_inv hr).1.wfBV k bv j w hb hw
  exact ⟨wf.idx, wf.height, wf.round, wf.type, wf.sigOk, wf.addr, hk⟩

example : Reachable sStray ∧ ∃ bv, alGet blkA.key sStray.vbb = some bv ∧ bv.sum = 3 :=
  ⟨⟨_, _, _, _, _, rfl⟩, _, rfl, rfl⟩

example : Tracked sStray blkB.key 3 (mkVote 3 blkB) := ⟨_, rfl, rfl⟩

-- ---------------------------------------------------------------- (2) total sum

/-- (2) `sum` is exactly the power of the validators that have a canonical vote `votes[i] ≠ nil`. -/
theorem sum_exact {s : VoteSet} (hr : Reachable s) : s.sum = sumPow s.vals s.votes :=
  (reachable_inv hr).1.sumAll

/-- (2) a validator has a canonical vote iff one of its votes is counted for some key: `sum` is the
power of the distinct validators with at least one accepted vote. -/
theorem has_vote_iff_counted {s : VoteSet} (hr : Reachable s) (j : Nat) :
    (at? s.votes j).isSome ↔ ∃ k w, Tracked s k j w := by
  constructor
  · exact reachable_everTracked hr j
  · rintro ⟨k, w, bv, hb, hw⟩
    exact (reachable_inv hr).1.hasVote k bv j w hb hw

-- ---------------------------------------------------------------- (3) +2/3 majority

/-- (3a) a reported majority has more than two thirds of the total power counted for its key. -/
theorem maj23_has_quorum {s : VoteSet} (hr : Reachable s) {b : BlockID} (h : s.maj23 = some b) :
    3 * countedFor s b.key > 2 * s.total := by
  have hI := (reachable_inv hr).1
  obtain ⟨bv, hb, hq, _⟩ := hI.majQuorum b h
  rw [countedFor_eq hI hb]
  exact (quorum_le_iff _ _).mp hq

/-- (3b) as soon as the power counted for some key exceeds two thirds, a majority is reported. -/
theorem quorum_gives_maj23 {s : VoteSet} (hr : Reachable s) {k : Nat}
    (h : 3 * countedFor s k > 2 * s.total) : s.maj23.isSome = true := by
  have hI := (reachable_inv hr).1
  cases hm : s.maj23 with
  | some _ => rfl
  | none =>
    exfalso
    cases hb : alGet k s.vbb with
    | none => simp [countedFor, hb] at h
    | some bv =>
      have h1 := hI.noMaj hm k bv hb
      rw [countedFor_eq hI hb] at h
      have := (quorum_le_iff s.total bv.sum).mpr h
      unfold VoteSet.quorum at h1; omega

/-- (3) `HasTwoThirdsMajority` exactly when the power counted for some block key exceeds two thirds. -/
theorem maj23_iff_quorum {s : VoteSet} (hr : Reachable s) :
    hasTwoThirdsMajority s = true ↔ ∃ k, 3 * countedFor s k > 2 * s.total := by
  constructor
  · intro h
    unfold hasTwoThirdsMajority at h
    cases hm : s.maj23 with
    | none => rw [hm] at h; cases h
    | some b => exact ⟨b.key, maj23_has_quorum hr hm⟩
  · rintro ⟨k, h⟩; exact quorum_gives_maj23 hr h

example : Reachable (run fresh4 strayEvents) ∧ (run fresh4 strayEvents).maj23 = some blkA ∧
    countedFor (run fresh4 strayEvents) blkA.key = 3 ∧ (run fresh4 strayEvents).total = 4 :=
  ⟨⟨_, _, _, _, _, rfl⟩, by decide, by decide, by decide⟩

example : 3 * countedFor sStray blkA.key > 2 * sStray.total := by decide

-- ---------------------------------------------------------------- (4) the first majority never changes

/-- (4) once `maj23 = b`, it is `b` after any further events. -/
theorem maj23_never_changes {s : VoteSet} (hr : Reachable s) {b : BlockID} (h : s.maj23 = some b)
    (evs : List Event) : (run s evs).maj23 = some b :=
  maj_run_mono (reachable_inv hr).1 (reachable_inv hr).2 h evs

/-- two blocks can both exceed two thirds (double signing with peer claims); the first one stays -/
example :
    let evs : List Event := [.peerMaj 1 blkA, .peerMaj 2 blkB,
      .vote (some (mkVote 0 blkA)), .vote (some (mkVote 1 blkA)), .vote (some (mkVote 2 blkA)),
      .vote (some (mkVote 0 blkB)), .vote (some (mkVote 1 blkB)), .vote (some (mkVote 2 blkB))]
    (run fresh4 evs).maj23 = some blkA ∧ countedFor (run fresh4 evs) blkB.key = 3 := by
  decide

-- ---------------------------------------------------------------- (5) any +2/3

/-- (5) `HasTwoThirdsAny` exactly when the power of the validators holding a vote exceeds two thirds. -/
theorem hasTwoThirdsAny_iff {s : VoteSet} (hr : Reachable s) :
    hasTwoThirdsAny s = true ↔ 3 * sumPow s.vals s.votes > 2 * s.total := by
  unfold hasTwoThirdsAny
  rw [sum_exact hr, decide_eq_true_iff]
  omega

/-- `HasAll` exactly when every unit of power has voted -/
theorem hasAll_iff {s : VoteSet} (hr : Reachable s) :
    hasAll s = true ↔ sumPow s.vals s.votes = s.total := by
  unfold hasAll
  rw [sum_exact hr, decide_eq_true_iff]

/-- the `int64` expressions of the code cannot overflow: every sum is at most the total and
`total*2/3 + 1` fits when `total ≤ MaxTotalVotingPower` (guaranteed by `NewValidatorSet`). -/
theorem quorum_fits_int64 {s : VoteSet} (hr : Reachable s) (ht : s.total ≤ maxTotalVotingPower) :
    s.total * 2 < 2^63 ∧ s.quorum < 2^63 ∧ s.sum ≤ s.total ∧
    ∀ k bv, alGet k s.vbb = some bv → bv.sum ≤ s.total := by
  have hI := (reachable_inv hr).1
  unfold maxTotalVotingPower at ht
  refine ⟨by omega, by unfold VoteSet.quorum; omega, ?_, ?_⟩
  · rw [hI.sumAll]; exact sumPow_le_total _ _
  · intro k bv hb; rw [hI.sumBV k bv hb]; exact sumPow_le_total _ _

example : hasTwoThirdsAny sStray = true ∧ hasAll sStray = true ∧ sStray.total ≤ maxTotalVotingPower := by decide

-- ---------------------------------------------------------------- (6) conflicting votes

/-- A vote failing any check (nil, index, step, unknown validator, address, already known,
bad signature) is rejected without touching the state, and never with the conflict error. -/
theorem rejected_vote_no_effect {s : VoteSet} {v : Vote} (hv : ¬ Verified s v) :
    (addVote s (some v)).1 = s ∧ ∃ e, (addVote s (some v)).2 = .ret false e ∧ e ≠ some .conflict :=
  addVote_not_verified hv

/-- The first vote of a validator that passes the checks is added without error. -/
theorem first_vote_accepted {s : VoteSet} (hr : Reachable s) {v : Vote} (hv : Verified s v)
    (h : at? s.votes v.idx.toNat = none) : (addVote s (some v)).2 = .ret true none := by
  rcases verified_outcome (reachable_inv hr).1 (reachable_inv hr).2 hv with ⟨_, h1⟩ | ⟨e, he, _⟩
  · exact h1
  · rw [h] at he; cases he

/-- (6) A vote that passes the checks, from a validator whose canonical vote `e` is for another
block key, returns the conflict error; it is reported as added — and counted — iff a peer claimed
that key (`SetPeerMaj23`). -/
theorem conflict_reported_partial {s : VoteSet} (hr : Reachable s) {v e : Vote} (hv : Verified s v)
    (he : at? s.votes v.idx.toNat = some e) :
    e.block.key ≠ v.block.key ∧
    ∃ a, (addVote s (some v)).2 = .ret a (some .conflict) ∧ (a = true ↔ PeerClaimed s v.block.key) ∧
      (Tracked (addVote s (some v)).1 v.block.key v.idx.toNat v ↔ PeerClaimed s v.block.key) := by
  have hI := (reachable_inv hr).1
  have hP := (reachable_inv hr).2
  rcases verified_outcome hI hP hv with ⟨h1, _⟩ | ⟨e', he', hk, a, ho, ha⟩
  · rw [h1] at he; cases he
  · rw [he] at he'; cases he'
    refine ⟨hk, a, ho, ha, ?_⟩
    have sf := stepFacts hI hP (.vote (some v))
    have ht := sf.tracked v.block.key v.idx.toNat v
    change (Tracked (addVote s (some v)).1 _ _ _ ↔ _) at ht
    rw [ht, ← ha]
    have hnot : ¬ Tracked s v.block.key v.idx.toNat v := by
      rintro ⟨bv, hb, hw⟩
      rw [(getVote_none hv.2.2.2.2.2.1).2 bv hb] at hw; cases hw
    constructor
    · rintro (h | ⟨_, h, _⟩)
      · exact absurd h hnot
      · rw [ho] at h; exact h
    · intro h; right
      exact ⟨rfl, by rw [ho]; exact h, rfl, Int.toNat_of_nonneg hv.1⟩

/-- (6, converse) the conflict error is returned only for a checked vote of a validator whose
canonical vote is for a different block key. -/
theorem conflict_only_if_conflicting {s : VoteSet} (hr : Reachable s) {v : Vote} {a : Bool}
    (h : (addVote s (some v)).2 = .ret a (some .conflict)) :
    Verified s v ∧ ∃ e, at? s.votes v.idx.toNat = some e ∧ e.block.key ≠ v.block.key := by
  have hI := (reachable_inv hr).1
  have hP := (reachable_inv hr).2
  obtain ⟨hv, hs⟩ := (conflict_iff hI hP).mp ⟨a, h⟩
  refine ⟨hv, ?_⟩
  cases he : at? s.votes v.idx.toNat with
  | none => rw [he] at hs; cases hs
  | some e => exact ⟨e, rfl, (getVote_none hv.2.2.2.2.2.1).1 e he⟩

/-- `AddVote` never reaches one of its two panics. -/
theorem addVote_never_panics {s : VoteSet} (hr : Reachable s) (ov : Option Vote) (p : Panic) :
    (addVote s ov).2 ≠ .panic p :=
  addVote_no_panic (reachable_inv hr).1 (reachable_inv hr).2 ov p

/-- non-vacuity of (6): without a peer claim the conflicting vote is dropped, with one it is counted -/
example :
    let s := run fresh4 [.vote (some (mkVote 0 blkB))]
    let s' := run fresh4 [.peerMaj 1 blkA, .vote (some (mkVote 0 blkB))]
    (addVote s (some (mkVote 0 blkA))).2 = .ret false (some .conflict) ∧
    (addVote s' (some (mkVote 0 blkA))).2 = .ret true (some .conflict) ∧
    countedFor (addVote s' (some (mkVote 0 blkA))).1 blkA.key = 1 := by
  decide

/-- a vote with a bad signature is not `Verified` (hypothesis of `rejected_vote_no_effect`) -/
example : ¬ Verified fresh4 { mkVote 0 blkA with sigOk := false } := fun h => absurd h.2.2.2.2.2.2 (by decide)

/-- a first valid vote is `Verified` (hypotheses of `first_vote_accepted`) -/
example : Verified fresh4 (mkVote 0 blkA) ∧ at? fresh4.votes (mkVote 0 blkA).idx.toNat = none :=
  ⟨⟨by decide, by decide, by decide, by decide, ⟨1, by decide⟩, by decide, by decide⟩, by decide⟩

/-- a valid vote for A by a validator whose canonical vote is for B (hypotheses of
`conflict_reported_partial` and `conflict_reported_unless_key_collision`) -/
example :
    let s := run fresh4 [.vote (some (mkVote 0 blkB))]
    Verified s (mkVote 0 blkA) ∧ at? s.votes (mkVote 0 blkA).idx.toNat = some (mkVote 0 blkB) ∧
    PassesChecks s (mkVote 0 blkA) ∧ ∀ w ∈ knownVotes s (mkVote 0 blkA).idx.toNat, w.block.key ≠ (mkVote 0 blkA).block.key :=
  ⟨⟨by decide, by decide, by decide, by decide, ⟨1, by decide⟩, by decide, by decide⟩, by decide,
   ⟨by decide, by decide, by decide, by decide, ⟨1, by decide⟩, by decide⟩, by decide⟩

/-- The clause as the statement words it, with BlockIDs: a valid vote of a validator whose canonical
vote is for a DIFFERENT BlockID, none of whose known votes is for the same BlockID, is reported
as conflicting.  False — see `conflict_reported_counterexample`. -/
def conflict_reported_statement : Prop :=
  ∀ s, Reachable s → ∀ v e, PassesChecks s v → at? s.votes v.idx.toNat = some e → e.block ≠ v.block →
    (∀ w ∈ knownVotes s v.idx.toNat, w.block ≠ v.block) →
    ∃ a, (addVote s (some v)).2 = .ret a (some .conflict)

/-- Finding (BlockID.Key() is not injective): validator 0 votes X, then Y ≠ X with Key(Y) = Key(X);
the second vote is answered "non-deterministic signature", not "conflicting votes". -/
theorem conflict_reported_counterexample : ¬ conflict_reported_statement := by
  intro h
  have := h (run fresh4 [.vote (some (mkVote 0 blkX))]) ⟨_, _, _, _, _, rfl⟩ (mkVote 0 blkY) (mkVote 0 blkX)
    ⟨by decide, by decide, by decide, by decide, ⟨1, by decide⟩, by decide⟩ (by decide) (by decide) (by decide)
  obtain ⟨a, ha⟩ := this
  have h2 : (addVote (run fresh4 [.vote (some (mkVote 0 blkX))]) (some (mkVote 0 blkY))).2 = .ret false (some .nondet) := by
    decide
  rw [h2] at ha; cases ha

/-- The statement holds whenever the key does distinguish the new BlockID from the validator's known votes. -/
theorem conflict_reported_unless_key_collision {s : VoteSet} (hr : Reachable s) {v e : Vote}
    (hp : PassesChecks s v) (he : at? s.votes v.idx.toNat = some e)
    (hk : ∀ w ∈ knownVotes s v.idx.toNat, w.block.key ≠ v.block.key) :
    ∃ a, (addVote s (some v)).2 = .ret a (some .conflict) := by
  have hI := (reachable_inv hr).1
  obtain ⟨h0, h1, h2, h3, h4, h5⟩ := hp
  have hv : Verified s v := ⟨h0, h1, h2, h3, h4, getVote_none_of_known hI hk, h5⟩
  obtain ⟨_, a, ha, _⟩ := conflict_reported_partial hr hv he
  exact ⟨a, ha⟩

-- ---------------------------------------------------------------- (3, blocks) the key collision

/-- (3a) worded with BlockIDs: the reported majority block itself has more than two thirds.
False — see `maj23_block_counterexample`. -/
def maj23_block_statement : Prop :=
  ∀ s, Reachable s → ∀ b, s.maj23 = some b → 3 * countedForBlock s b > 2 * s.total

/-- Finding: X is reported as +2/3 majority with 2 of 4 voting X and 1 voting Y (same key). -/
theorem maj23_block_counterexample : ¬ maj23_block_statement := by
  intro h
  have := h (run fresh4 collisionEvents) ⟨_, _, _, _, _, rfl⟩ blkX (by decide)
  revert this; decide

/-- (3a) holds for the block itself whenever every vote counted under its key is for that block —
in particular for all complete BlockIDs (32-byte hash, non-empty parts header) and the nil block,
on which `Key()` is injective. -/
theorem maj23_block_partial {s : VoteSet} (hr : Reachable s) {b : BlockID} (h : s.maj23 = some b)
    (hinj : ∀ j w, Tracked s b.key j w → w.block = b) : 3 * countedForBlock s b > 2 * s.total := by
  rw [countedForBlock_eq hinj]; exact maj23_has_quorum hr h

/-- hypotheses of `maj23_block_partial`: every vote counted under A's key is for A -/
example : sStray.maj23 = some blkA ∧ ∀ j w, Tracked sStray blkA.key j w → w.block = blkA := by
  refine ⟨by decide, ?_⟩
  rintro j w ⟨bv, hb, hw⟩
  have h : alGet blkA.key sStray.vbb =
      some ⟨false, [some (mkVote 0 blkA), some (mkVote 1 blkA), some (mkVote 2 blkA), none], 3⟩ := rfl
  rw [h] at hb; cases hb
  match j with
  | 0 => cases hw; rfl
  | 1 => cases hw; rfl
  | 2 => cases hw; rfl
  | 3 => cases hw
  | j + 4 => simp [at?] at hw

-- ---------------------------------------------------------------- (7) MakeCommit

/-- `MakeCommit` panics exactly when the type is not precommit or there is no majority. -/
theorem makeCommit_panics_iff (s : VoteSet) :
    (∃ p, makeCommit s = .error p) ↔ s.type ≠ precommitType ∨ s.maj23 = none := by
  unfold makeCommit
  by_cases ht : s.type = precommitType
  · cases hm : s.maj23 <;> simp [ht]
  · simp [ht]

/-- The last clause of the statement: the commit contains only votes for the majority block.
False by design — see `makeCommit_counterexample`. -/
def makeCommit_statement : Prop :=
  ∀ s, Reachable s → ∀ b es, makeCommit s = .ok (b, es) → ∀ i v, at? es i = some v → v.block = b

/-- Finding: 4 validators of power 1; validator 3 precommits B, validators 0,1,2 precommit A.
The commit for A carries validator 3's precommit for B. -/
theorem makeCommit_counterexample : ¬ makeCommit_statement := by
  intro h
  have := h (run fresh4 strayEvents) ⟨_, _, _, _, _, rfl⟩ blkA
    [some (mkVote 0 blkA), some (mkVote 1 blkA), some (mkVote 2 blkA), some (mkVote 3 blkB)] (by rfl)
    3 (mkVote 3 blkB) (by decide)
  revert this; decide

/-- (7) What does hold of `MakeCommit`, for every history `evs` from a fresh vote set:
the commit is for the reported majority block and has one entry per validator; every non-nil
entry `i` is a precommit of validator `i` for this height and round with a valid signature that
the vote set stored during the history; the entries for the majority block's key are EXACTLY the
stored votes for that key (so every vote counted towards the majority is in the commit); and an
entry for another key (a stray precommit) is that validator's counted vote for that key. -/
theorem makeCommit_partial (h r : Int) (t : Nat) (vals : List (Nat × Nat)) (evs : List Event)
    {b : BlockID} {es : List (Option Vote)}
    (hc : makeCommit (run (newVoteSet h r t vals) evs) = .ok (b, es)) :
    (run (newVoteSet h r t vals) evs).maj23 = some b ∧ t = precommitType ∧ es.length = vals.length ∧
    (∀ i v, at? es i = some v →
      v.idx = i ∧ v.height = h ∧ v.round = r ∧ v.type = precommitType ∧ v.sigOk = true ∧
      (∃ p, vals[i]? = some (v.addr, p)) ∧
      ∃ e ∈ runLog (newVoteSet h r t vals) evs, e.vote = v ∧ e.stored) ∧
    (∀ i v, (at? es i = some v ∧ v.block.key = b.key) ↔
      ((∃ e ∈ runLog (newVoteSet h r t vals) evs, e.vote = v ∧ e.stored) ∧ v.block.key = b.key ∧ v.idx = i)) ∧
    (∀ i v, at? es i = some v → v.block.key ≠ b.key →
      Tracked (run (newVoteSet h r t vals) evs) v.block.key i v) := by
  have hI0 := inv_new h r t vals
  have hP0 := peerInv_new h r t vals
  obtain ⟨hI, hP, fv, fh, fr, ft⟩ := inv_run hI0 hP0 evs
  obtain ⟨ht, hm, hes⟩ := makeCommit_ok hc
  subst hes
  have ht' : t = precommitType := by rw [← ht, ft]; rfl
  have hnew_votes : ∀ j, at? (newVoteSet h r t vals).votes j = none := by
    intro j; simp [newVoteSet, at?_replicate]
  have hnew_tr : ∀ k j w, ¬ Tracked (newVoteSet h r t vals) k j w := by
    rintro k j w ⟨bv, hb, _⟩; simp [newVoteSet, alGet] at hb
  have hstored : ∀ i v, at? (run (newVoteSet h r t vals) evs).votes i = some v →
      ∃ e ∈ runLog (newVoteSet h r t vals) evs, e.vote = v ∧ e.stored ∧ (i : Int) = v.idx := by
    intro i v hv
    rcases votes_run hI0 hP0 evs i v hv with h1 | h1 | h1
    · rw [hnew_votes] at h1; cases h1
    · exact absurd h1 (hnew_tr _ _ _)
    · exact h1
  refine ⟨hm, ht', ?_, ?_, ?_, ?_⟩
  · rw [hI.lenVotes, fv]; rfl
  · intro i v hv
    have wf := hI.wfVotes i v hv
    obtain ⟨e, he, h1, h2, _⟩ := hstored i v hv
    refine ⟨wf.idx, by rw [wf.height, fh]; rfl, by rw [wf.round, fr]; rfl, by rw [wf.type, ft, ht']; rfl, wf.sigOk, ?_,
      e, he, h1, h2⟩
    obtain ⟨p, hp⟩ := wf.addr
    rw [fv] at hp; exact ⟨p, hp⟩
  · intro i v
    constructor
    · rintro ⟨hv, hk⟩
      obtain ⟨e, he, h1, h2, h3⟩ := hstored i v hv
      exact ⟨⟨e, he, h1, h2⟩, hk, h3.symm⟩
    · rintro ⟨⟨e, he, h1, h2⟩, hk, hi⟩
      refine ⟨?_, hk⟩
      rcases h2 with h2 | h2
      · have htr : Tracked (run (newVoteSet h r t vals) evs) b.key i v :=
          (tracked_run hI0 hP0 evs b.key i v).mpr (Or.inr ⟨e, he, h1, h2, hk.symm, hi.symm⟩)
        obtain ⟨bv, hb, hw⟩ := htr
        obtain ⟨bv', hb', _, hall⟩ := hI.majQuorum b hm
        rw [hb] at hb'; cases hb'
        exact hall i v hw
      · have := (late_run hI0 hP0 evs e he h2).1
        rw [h1] at this
        have hi' : v.idx.toNat = i := by omega
        rw [hi'] at this; exact this
  · intro i v hv hk
    rcases hI.canon i v hv with h1 | ⟨m, hm', hk'⟩ | h1
    · exact h1
    · rw [hm] at hm'; cases hm'; exact absurd hk'.symm hk
    · cases h1

/-- non-vacuity of (7): the stray-precommit history produces a commit -/
example : makeCommit (run fresh4 strayEvents) =
    .ok (blkA, [some (mkVote 0 blkA), some (mkVote 1 blkA), some (mkVote 2 blkA), some (mkVote 3 blkB)]) := by
  rfl

end GnoVerif.C35
