import GnoVerif.Model.C35
namespace GnoVerif.C35
end GnoVerif.C35
