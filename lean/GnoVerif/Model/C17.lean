/-
Model for C17 — the block gas price adjustment rule.

Source mirrored (read line by line; tm2/pkg/sdk/auth/keeper.go at the commit
"fix: gas price update leaves the price unchanged when there is no positive
target gas"):

  * `GasPriceKeeper.calcBlockGasPrice`  (keeper.go ~410)
  * `GasPriceKeeper.UpdateGasPrice`     (keeper.go ~361)
  * `GasPriceKeeper.SetGasPrice` / `LastGasPrice`
  * `Params.Validate`                   (params.go ~96), the three fields the
                                        price rule reads

The Go code computes with `math/big`, so unbounded `Int` *is* the code's
arithmetic.  `big.Int.Div` is Euclidean division, which is what `/` on `Int`
means in Lean 4 core (`Int.ediv`, `Int.instDivInt`).  The only place where
the int64 width matters is the final `IsInt64` test, which panics.

Quirks kept on purpose:
  * `maxBig(x, y)` returns `y` when `x < y`, else `x`  (= `max`).
  * when the last amount is below the initial amount and usage is below the
    target, the WHOLE `params.InitialGasPrice` struct is returned (gas and
    denom included), not only its amount;
  * the early returns compare in the order: amount = 0, ratio = 0,
    target ≤ 0, target = used;
  * division by the compressor happens only after those returns; a zero
    compressor would make `big.Int.Div` panic ("division by zero") —
    `Params.Validate` excludes it, the model keeps it as an explicit error;
  * `SetGasPrice` silently ignores the zero-valued `std.GasPrice{}`, and panics in the
    store on a price whose encoding is empty (`Gas = 0`, amount 0, denom ≠ "");
  * `UpdateGasPrice` returns early on a negative gas reading and skips the
    write when the price did not change.

Core-only (no Mathlib): links into `gvdrive_C17`.
-/
namespace GnoVerif.C17

/-- `math.MinInt64`. -/
def int64Min : Int := -9223372036854775808
/-- `math.MaxInt64`. -/
def int64Max : Int := 9223372036854775807

/-- `big.Int.IsInt64`. -/
def isInt64 (x : Int) : Bool := decide (int64Min ≤ x) && decide (x ≤ int64Max)

/-- a Go `int64` value. -/
def InRange (x : Int) : Prop := int64Min ≤ x ∧ x ≤ int64Max

instance (x : Int) : Decidable (InRange x) := by unfold InRange; infer_instance

/-- `std.GasPrice{Gas, Price: std.Coin{Denom, Amount}}`. -/
structure GasPrice where
  gas : Int
  denom : String
  amount : Int
deriving DecidableEq, Repr, Inhabited

/-- `std.GasPrice{}`. -/
def GasPrice.zero : GasPrice := ⟨0, "", 0⟩

/-- The fields of `auth.Params` that the price rule reads. -/
structure Params where
  compressor : Int      -- GasPricesChangeCompressor
  ratio : Int           -- TargetGasRatio
  initial : GasPrice    -- InitialGasPrice
deriving DecidableEq, Repr, Inhabited

/-- What `Params.Validate` enforces on those fields (params.go):
`GasPricesChangeCompressor <= 0` rejected, `TargetGasRatio < 0 || > 100`
rejected, `InitialGasPrice.Gas < 0` rejected, `InitialGasPrice.Price.Amount < 0`
rejected. -/
def Params.Valid (p : Params) : Prop :=
  1 ≤ p.compressor ∧ 0 ≤ p.ratio ∧ p.ratio ≤ 100 ∧ 0 ≤ p.initial.gas ∧ 0 ≤ p.initial.amount

instance (p : Params) : Decidable p.Valid := by unfold Params.Valid; infer_instance

/-- The two ways the Go function can panic. -/
inductive Panic where
  | range     -- "The min gas price is out of int64 range"
  | divzero   -- big.Int.Div by a zero compressor (excluded by Params.Validate)
  | decode    -- LastGasPrice: amino.Unmarshal fails on a negative coin amount
  | store     -- SetGasPrice: the encoding is empty and the store refuses it ("value is nil")
deriving DecidableEq, Repr

/-- `targetGas = maxGas*TargetGasRatio/100` (Euclidean quotient). -/
def targetGas (maxGas ratio : Int) : Int := maxGas * ratio / 100

/-- `((a) * last / target) / c` then `maxBig(·, 1)`: the step size of either branch,
`a` being the distance between usage and target. -/
def stepSize (a last target c : Int) : Int := max (a * last / target / c) 1

/-- The tail of the function: `if !num.IsInt64() { panic(..) }; lastGasPrice.Price.Amount = num.Int64()`. -/
def finish (last : GasPrice) (n : Int) : Except Panic GasPrice :=
  if isInt64 n then .ok { last with amount := n } else .error .range

/-- `calcBlockGasPrice(lastGasPrice, gasUsed, maxGas, params)`, statement by statement. -/
def calcPrice (last : GasPrice) (used maxGas : Int) (p : Params) : Except Panic GasPrice :=
  if last.amount = 0 then .ok last                 -- no block gas price set
  else if p.ratio = 0 then .ok last                -- TargetGasRatio == 0: disabled
  else
    let target := targetGas maxGas p.ratio
    if target ≤ 0 then .ok last                    -- no positive target (the fix)
    else if target = used then .ok last            -- right on target
    else if used > target then                     -- increase branch
      if p.compressor = 0 then .error .divzero
      else finish last (last.amount + stepSize (used - target) last.amount target p.compressor)
    else                                           -- decrease branch (used < target)
      if last.amount < p.initial.amount then .ok p.initial
      else if p.compressor = 0 then .error .divzero
      else finish last
        (max (last.amount - stepSize (target - used) last.amount target p.compressor) p.initial.amount)

/-! ### The keeper's store: one optional value under `GasPriceKey`.

The value is the amino encoding of the `std.GasPrice`.  `std.Coin` marshals as
its `String()`, which is `""` for a zero amount and `"<amount><denom>"`
otherwise, and unmarshals through `ParseCoin`, whose pattern has no sign.  So a
stored price reads back
  * with an EMPTY denom when its amount is 0 (the denom is lost),
  * not at all when its amount is negative: `LastGasPrice` panics.
Denominations are taken to be valid coin denominations (`ValidateDenom`); a
non-zero amount with an invalid denom cannot be read back either — the driver
and the harness only accept valid denominations, the theorems do not depend on
the denom. -/

abbrev Store := Option GasPrice

/-- amino round trip of a readable price. -/
def stored (gp : GasPrice) : GasPrice := if gp.amount = 0 then { gp with denom := "" } else gp

/-- `LastGasPrice`: the zero value when nothing is stored; panics on an unparsable coin. -/
def lastGasPrice (s : Store) : Except Panic GasPrice :=
  match s with
  | none => .ok GasPrice.zero
  | some gp => if gp.amount < 0 then .error .decode else .ok (stored gp)

/-- `SetGasPrice`: ignores `std.GasPrice{}`.  A price with `Gas = 0` and amount 0 but a
non-empty denom is not the zero value, yet amino encodes it to nothing (the coin
marshals as `""`), and `Store.Set` panics on the nil value. -/
def setGasPrice (s : Store) (gp : GasPrice) : Except Panic Store :=
  if gp = GasPrice.zero then .ok s
  else if gp.gas = 0 ∧ gp.amount = 0 then .error .store
  else .ok (some gp)

/-- `UpdateGasPrice` (the EndBlocker).  A panic leaves the store untouched
(it happens before the write). -/
def update (s : Store) (used maxGas : Int) (p : Params) : Except Panic Store :=
  if used < 0 then .ok s
  else
    match lastGasPrice s with
    | .error e => .error e
    | .ok lgp =>
      match calcPrice lgp used maxGas p with
      | .error e => .error e
      | .ok new => if new = lgp then .ok s else setGasPrice s new

end GnoVerif.C17
