/-
Model.C23BpTree — the in-memory B+ tree of tm2/pkg/bptree, function by function.

Source files mirrored (read line by line): search.go, insert.go, split.go,
remove.go, the helpers at the end of mutable_tree.go (treeLookup,
treeGetByIndex, treeGetWithIndex, iterateNodeResolved) and iterator.go.

Representation.  Go has two node structs with fixed arrays of `B` slots plus a
count; here a node carries the occupied prefix of each array as a list.  The
code keeps every leaf at the same depth and records the depth in
`InnerNode.height` (parent of leaves = 1); here the height is the index of the
type: `Node 0` is a leaf, `Node (h+1)` is an inner node whose children are
`Node h`.  The type therefore cannot express a tree with leaves at different
depths — the real code's `height` field and its `switch n := node.(type)` are
compared with the model on every run through the `shape` dump (heights of
all inner nodes, leaf boundaries, separators).

A leaf entry is `(key, value)`.  The real leaf stores `sha256(value)` and a
12-byte value key under which the value bytes live in the DB; value storage,
node keys, the node cache and lazy child loading are not modelled (see
Model.C23Versions for what that means for the versioning clauses).

Everything is parametric in the branching factor `B` (`const.go`: `B = 32`,
`MinKeys = B/2`).  Where Go would index out of range or hit a nil child
(unreachable on a well-formed tree) the model returns its input unchanged;
those branches are excluded by `WF` in the theorems.

Core-only.
-/
import GnoVerif.Base.Lex

namespace GnoVerif.C23

abbrev Key := Bytes
abbrev Val := Bytes
abbrev Entry := Key × Val

/-- `LeafNode`: the occupied slots `keys[i]`, value of `valueKeys[i]`, `i < numKeys`. -/
structure Leaf where
  es : List Entry

/-- `InnerNode`: `keys[0..numKeys)`, children `0..numKeys`, `childSizes[0..numKeys]`. -/
structure Inner (α : Type) where
  keys : List Key
  kids : List α
  sizes : List Nat

/-- a node of height `h` (`InnerNode.height`; leaves have height 0). -/
def Node : Nat → Type
  | 0 => Leaf
  | h + 1 => Inner (Node h)

/-- `MutableTree.root`: nil for the empty tree. -/
inductive Tree where
  | empty
  | node (h : Nat) (n : Node h)

/-- `MinKeys = B / 2` -/
def minKeys (B : Nat) : Nat := B / 2

/-! ## search.go -/

/-- `searchLeaf` (search.go:8-24): binary search for `key`; `(index, found)`.
`ks` are the leaf's keys, `lo hi` the loop variables. -/
def searchLeafGo (ks : List Key) (key : Key) (lo hi : Nat) : Nat × Bool :=
  if h : lo < hi then
    let mid := lo + (hi - lo) / 2
    match Lex.cmp (ks.getD mid []) key with
    | .eq => (mid, true)
    | .lt => searchLeafGo ks key (mid + 1) hi
    | .gt => searchLeafGo ks key lo mid
  else (lo, false)
termination_by hi - lo
decreasing_by
  all_goals simp_wf
  all_goals omega

def searchLeaf (l : Leaf) (key : Key) : Nat × Bool :=
  searchLeafGo (l.es.map (·.1)) key 0 l.es.length

/-- `searchInner` (search.go:32-42): the child index to descend into,
`keys[i-1] ≤ key < keys[i]`. -/
def searchInnerGo (ks : List Key) (key : Key) (lo hi : Nat) : Nat :=
  if h : lo < hi then
    let mid := lo + (hi - lo) / 2
    if Lex.cmp (ks.getD mid []) key ≠ .gt then searchInnerGo ks key (mid + 1) hi
    else searchInnerGo ks key lo mid
  else lo
termination_by hi - lo
decreasing_by
  all_goals simp_wf
  all_goals omega

def searchInner (ks : List Key) (key : Key) : Nat := searchInnerGo ks key 0 ks.length

/-! ## sizes -/

/-- `nodeSize` (insert.go:257-270): a leaf's key count; an inner node's sum of `childSizes`. -/
def nodeSize : (h : Nat) → Node h → Nat
  | 0, (l : Leaf) => l.es.length
  | _ + 1, (n : Inner _) => n.sizes.sum

/-! ## insert.go / split.go -/

/-- `insertResult` + the (possibly modified) node itself; `split = some (separator, right)`. -/
structure InsRes (α : Type) where
  node : α
  updated : Bool
  split : Option (Key × α)

/-- `splitLeaf` (split.go:16-47) on the overflowing `B+1` entries: 90/10 when the
new key was appended at position `B`, otherwise left gets `ceil((B+1)/2)`. -/
def splitLeaf (B : Nat) (all : List Entry) (insertPos : Nat) : Leaf × Key × Leaf :=
  let total := all.length
  let sp := if insertPos = B then total - 2 else (total + 1) / 2
  let right := all.drop sp
  (⟨all.take sp⟩, (right.headD ([], [])).1, ⟨right⟩)

/-- `leafInsert` (insert.go:66-125). -/
def leafInsert (B : Nat) (l : Leaf) (key : Key) (v : Val) : InsRes Leaf :=
  let (pos, found) := searchLeaf l key
  if found then
    -- the stored key slice is kept, only valueHash/valueKey are replaced
    ⟨⟨l.es.set pos ((l.es.getD pos (key, v)).1, v)⟩, true, none⟩
  else
    let all := l.es.take pos ++ (key, v) :: l.es.drop pos
    if l.es.length < B then ⟨⟨all⟩, false, none⟩
    else
      let (left, sep, right) := splitLeaf B all pos
      ⟨left, false, some (sep, right)⟩

/-- `splitInner` (split.go:54-88): `splitPoint = totalKeys/2`, the separator is consumed. -/
def splitInner {α : Type} (keys : List Key) (kids : List α) (sizes : List Nat) :
    Inner α × Key × Inner α :=
  let sp := keys.length / 2
  (⟨keys.take sp, kids.take (sp + 1), sizes.take (sp + 1)⟩,
   keys.getD sp [],
   ⟨keys.drop (sp + 1), kids.drop (sp + 1), sizes.drop (sp + 1)⟩)

/-- the part of `innerInsert` after the recursive call (insert.go:150-233):
`i` = `childIdx`, `r` = the result of inserting into the cloned child. -/
def innerAfterInsert (B : Nat) {h : Nat} (n : Inner (Node h)) (i : Nat) (r : InsRes (Node h)) :
    InsRes (Inner (Node h)) :=
  -- `if !res.updated { inner.childSizes[childIdx]++ }`
  let sizes1 := if r.updated then n.sizes else n.sizes.set i (n.sizes.getD i 0 + 1)
  match r.split with
  | none => ⟨⟨n.keys, n.kids.set i r.node, sizes1⟩, r.updated, none⟩
  | some (sep, right) =>
    let keys' := n.keys.take i ++ sep :: n.keys.drop i
    let kids' := n.kids.take i ++ r.node :: right :: n.kids.drop (i + 1)
    let sizes' := sizes1.take i ++ nodeSize h r.node :: nodeSize h right :: sizes1.drop (i + 1)
    if n.keys.length < B - 1 then ⟨⟨keys', kids', sizes'⟩, r.updated, none⟩
    else
      let (left, sep', right') := splitInner keys' kids' sizes'
      ⟨left, r.updated, some (sep', right')⟩

/-- `nodeInsert` / `innerInsert` (insert.go:53-64, 127-234). -/
def nodeInsert (B : Nat) : (h : Nat) → Node h → Key → Val → InsRes (Node h)
  | 0, (l : Leaf), key, v => leafInsert B l key v
  | h + 1, (n : Inner (Node h)), key, v =>
    let i := searchInner n.keys key
    match n.kids[i]? with
    | none => ⟨n, false, none⟩            -- Go: panic("inner node has nil child")
    | some child => innerAfterInsert B n i (nodeInsert B h child key v)

/-- `treeInsert` (insert.go:18-49) together with the empty-root branch of
`MutableTree.Set` (mutable_tree.go:117-143).  Returns the new root and `updated`. -/
def treeInsert (B : Nat) (t : Tree) (key : Key) (v : Val) : Tree × Bool :=
  match t with
  | .empty => (.node 0 (⟨[(key, v)]⟩ : Leaf), false)
  | .node h root =>
    let r := nodeInsert B h root key v
    match r.split with
    | none => (.node h r.node, r.updated)
    | some (sep, right) =>
      (.node (h + 1) (⟨[sep], [r.node, right], [nodeSize h r.node, nodeSize h right]⟩ : Inner (Node h)),
       r.updated)

/-! ## remove.go -/

/-- `removeResult` + the node. -/
structure RemRes (α : Type) where
  node : α
  found : Bool
  old : Val
  underflow : Bool

/-- `leafRemove` (remove.go:56-78). -/
def leafRemove (B : Nat) (l : Leaf) (key : Key) : RemRes Leaf :=
  let (pos, found) := searchLeaf l key
  if !found then ⟨l, false, [], false⟩
  else
    let es' := l.es.eraseIdx pos
    ⟨⟨es'⟩, true, (l.es.getD pos ([], [])).2, decide (es'.length < minKeys B)⟩

/-- `canSpare` (remove.go:177-186): leaf `numKeys > MinKeys`, inner `numKeys > MinKeys-1`. -/
def canSpare (B : Nat) : (h : Nat) → Node h → Bool
  | 0, (l : Leaf) => decide (l.es.length > minKeys B)
  | _ + 1, (n : Inner _) => decide (n.keys.length + 1 > minKeys B)

/-- the node-level half of `redistributeRight` (remove.go:192-257): move the last
entry/child of `l` to the front of `r`; `sep` is the parent's `keys[idx]`.
Returns `(l', r', new separator, moved size)`. -/
def shiftRight : (h : Nat) → Key → Node h → Node h → Node h × Node h × Key × Nat
  | 0, sep, (l : Leaf), (r : Leaf) =>
    match l.es.getLast? with
    | none => (l, r, sep, 0)
    | some e => ((⟨l.es.dropLast⟩ : Leaf), (⟨e :: r.es⟩ : Leaf), e.1, 1)
  | _ + 1, sep, (l : Inner _), (r : Inner _) =>
    match l.keys.getLast?, l.kids.getLast? with
    | some lk, some lc =>
      let moved := l.sizes.getLastD 0
      ((⟨l.keys.dropLast, l.kids.dropLast, l.sizes.dropLast⟩ : Inner _),
       (⟨sep :: r.keys, lc :: r.kids, moved :: r.sizes⟩ : Inner _), lk, moved)
    | _, _ => (l, r, sep, 0)

/-- the node-level half of `redistributeLeft` (remove.go:263-335): move the first
entry/child of `r` to the end of `l`. -/
def shiftLeft : (h : Nat) → Key → Node h → Node h → Node h × Node h × Key × Nat
  | 0, sep, (l : Leaf), (r : Leaf) =>
    match r.es with
    | [] => (l, r, sep, 0)
    | e :: rest =>
      -- `parent.keys[idx] = copyKey(r.keys[0])` after the shift
      ((⟨l.es ++ [e]⟩ : Leaf), (⟨rest⟩ : Leaf), (rest.headD ([], [])).1, 1)
  | _ + 1, sep, (l : Inner _), (r : Inner _) =>
    match r.keys, r.kids with
    | rk :: rks, rc :: rcs =>
      let moved := r.sizes.headD 0
      ((⟨l.keys ++ [sep], l.kids ++ [rc], l.sizes ++ [moved]⟩ : Inner _),
       (⟨rks, rcs, r.sizes.drop 1⟩ : Inner _), rk, moved)
    | _, _ => (l, r, sep, 0)

/-- the node-level half of `merge` (remove.go:341-372): append `r` to `l`
(inner nodes: with the parent's separator demoted in between). -/
def mergeNodes : (h : Nat) → Key → Node h → Node h → Node h
  | 0, _, (l : Leaf), (r : Leaf) => (⟨l.es ++ r.es⟩ : Leaf)
  | _ + 1, sep, (l : Inner _), (r : Inner _) =>
    (⟨l.keys ++ sep :: r.keys, l.kids ++ r.kids, l.sizes ++ r.sizes⟩ : Inner _)

/-- parent-level `redistributeRight(parent, idx)`: children `idx`, `idx+1`, separator `idx`. -/
def redistributeRight {h : Nat} (p : Inner (Node h)) (idx : Nat) : Inner (Node h) :=
  match p.kids[idx]?, p.kids[idx + 1]?, p.keys[idx]? with
  | some l, some r, some sep =>
    let (l', r', sep', moved) := shiftRight h sep l r
    ⟨p.keys.set idx sep', (p.kids.set idx l').set (idx + 1) r',
     (p.sizes.set idx (p.sizes.getD idx 0 - moved)).set (idx + 1) (p.sizes.getD (idx + 1) 0 + moved)⟩
  | _, _, _ => p

/-- parent-level `redistributeLeft(parent, idx)`. -/
def redistributeLeft {h : Nat} (p : Inner (Node h)) (idx : Nat) : Inner (Node h) :=
  match p.kids[idx]?, p.kids[idx + 1]?, p.keys[idx]? with
  | some l, some r, some sep =>
    let (l', r', sep', moved) := shiftLeft h sep l r
    ⟨p.keys.set idx sep', (p.kids.set idx l').set (idx + 1) r',
     (p.sizes.set idx (p.sizes.getD idx 0 + moved)).set (idx + 1) (p.sizes.getD (idx + 1) 0 - moved)⟩
  | _, _, _ => p

/-- parent-level `merge(parent, idx)`: child `idx+1` is merged into child `idx`,
separator `idx` and child slot `idx+1` are removed, `childSizes[idx]` is the sum. -/
def mergeAt {h : Nat} (p : Inner (Node h)) (idx : Nat) : Inner (Node h) :=
  match p.kids[idx]?, p.kids[idx + 1]?, p.keys[idx]? with
  | some l, some r, some sep =>
    ⟨p.keys.eraseIdx idx, (p.kids.set idx (mergeNodes h sep l r)).eraseIdx (idx + 1),
     (p.sizes.set idx (p.sizes.getD idx 0 + p.sizes.getD (idx + 1) 0)).eraseIdx (idx + 1)⟩
  | _, _, _ => p

/-- `canSpare(parent.getChild(j))` -/
def spareAt (B : Nat) {h : Nat} (p : Inner (Node h)) (j : Nat) : Bool :=
  match p.kids[j]? with
  | some c => canSpare B h c
  | none => false

/-- `fixUnderflow` (remove.go:121-175); returns the parent and `merged`. -/
def fixUnderflow (B : Nat) {h : Nat} (p : Inner (Node h)) (i : Nat) : Inner (Node h) × Bool :=
  if decide (i > 0) && spareAt B p (i - 1) then (redistributeRight p (i - 1), false)
  else if decide (i < p.keys.length) && spareAt B p (i + 1) then (redistributeLeft p i, false)
  else if i > 0 then (mergeAt p (i - 1), true)
  else (mergeAt p i, true)

/-- the part of `innerRemove` after the recursive call (remove.go:91-119):
`i` = `childIdx`, `r` = the result of removing from the cloned child (`r.found`). -/
def innerAfterRemove (B : Nat) {h : Nat} (n : Inner (Node h)) (i : Nat) (r : RemRes (Node h)) :
    RemRes (Inner (Node h)) :=
  -- `inner.childSizes[childIdx]--`, child replaced by its modified clone
  let n1 : Inner (Node h) := ⟨n.keys, n.kids.set i r.node, n.sizes.set i (n.sizes.getD i 0 - 1)⟩
  if !r.underflow then ⟨n1, true, r.old, false⟩
  else
    let (n2, merged) := fixUnderflow B n1 i
    ⟨n2, true, r.old, merged && decide (n2.keys.length + 1 < minKeys B)⟩

/-- `nodeRemove` / `innerRemove` (remove.go:45-119). -/
def nodeRemove (B : Nat) : (h : Nat) → Node h → Key → RemRes (Node h)
  | 0, (l : Leaf), key => leafRemove B l key
  | h + 1, (n : Inner (Node h)), key =>
    let i := searchInner n.keys key
    match n.kids[i]? with
    | none => ⟨n, false, [], false⟩       -- Go: panic("nil child in innerRemove")
    | some child =>
      let r := nodeRemove B h child key
      if !r.found then ⟨n, false, [], false⟩
      else innerAfterRemove B n i r

/-- `treeRemove` (remove.go:17-43): root collapse when an inner root is left
with a single child, `nil` root when the last key is removed.
Returns `(new root, old value, found)`. -/
def treeRemove (B : Nat) (t : Tree) (key : Key) : Tree × Val × Bool :=
  match t with
  | .empty => (.empty, [], false)
  | .node 0 (root : Leaf) =>
    let r := leafRemove B root key
    if !r.found then (t, [], false)
    else if r.node.es.length = 0 then (.empty, r.old, true)
    else (.node 0 r.node, r.old, true)
  | .node (h + 1) (root : Inner (Node h)) =>
    let r := nodeRemove B (h + 1) root key
    if !r.found then (t, [], false)
    else
      let n : Inner (Node h) := r.node
      if n.keys.length = 0 then
        match n.kids with
        | c :: _ => (.node h c, r.old, true)
        | [] => (.node (h + 1) n, r.old, true)
      else (.node (h + 1) n, r.old, true)

/-! ## reads (mutable_tree.go:891-1042) -/

/-- `treeLookup`: the value stored under `key`, if any. -/
def nodeLookup : (h : Nat) → Node h → Key → Option Val
  | 0, (l : Leaf), key =>
    let (pos, found) := searchLeaf l key
    if found then (l.es[pos]?).map (·.2) else none
  | h + 1, (n : Inner (Node h)), key =>
    match n.kids[searchInner n.keys key]? with
    | some c => nodeLookup h c key
    | none => none

/-- the `for i := 0; i < n.NumChildren(); i++` loop of `treeGetByIndex`:
the first child with `index < offset + childSize`, and the index relative to it. -/
def pickBySize {α : Type} : List Nat → List α → Nat → Option (α × Nat)
  | s :: ss, c :: cs, idx => if idx < s then some (c, idx) else pickBySize ss cs (idx - s)
  | _, _, _ => none                        -- Go: panic("index out of range in treeGetByIndex")

/-- `treeGetByIndex`. -/
def nodeGetByIndex : (h : Nat) → Node h → Nat → Option Entry
  | 0, (l : Leaf), idx => l.es[idx]?
  | h + 1, (n : Inner (Node h)), idx =>
    match pickBySize n.sizes n.kids idx with
    | some (c, idx') => nodeGetByIndex h c idx'
    | none => none

/-- `treeGetWithIndex`: `(index, value if found)`; the index of an absent key is
the position where it would be inserted. -/
def nodeGetWithIndex : (h : Nat) → Node h → Key → Nat × Option Val
  | 0, (l : Leaf), key =>
    let (pos, found) := searchLeaf l key
    (pos, if found then (l.es[pos]?).map (·.2) else none)
  | h + 1, (n : Inner (Node h)), key =>
    let i := searchInner n.keys key
    let offset := (n.sizes.take i).sum
    match n.kids[i]? with
    | some c => let (idx, v) := nodeGetWithIndex h c key; (offset + idx, v)
    | none => (0, none)                    -- Go: nil dereference

/-- `iterateNodeResolved` with a stateful callback `fn : σ → key → value → σ × stop`:
in-order walk with early termination.  Returns `(state, stopped)`. -/
def iterList {α σ : Type} (f : α → σ → σ × Bool) : List α → σ → σ × Bool
  | [], s => (s, false)
  | c :: cs, s =>
    let (s', stop) := f c s
    if stop then (s', true) else iterList f cs s'

def nodeIterate {σ : Type} (fn : σ → Key → Val → σ × Bool) : (h : Nat) → Node h → σ → σ × Bool
  | 0, (l : Leaf), s => iterList (fun (e : Entry) s => fn s e.1 e.2) l.es s
  | h + 1, (n : Inner (Node h)), s => iterList (nodeIterate fn h) n.kids s

/-! ## iterator.go — the stack iterator behind `IterateRange`

`Iterator.stack` holds `(inner node, childIdx)` pairs from the root (bottom)
to the parent of the current leaf (top).  `Stk k` is a stack whose top frame's
inner node has children of height `k`; the current leaf sits under a `Stk 0`. -/

inductive Stk : Nat → Type where
  | nil {k : Nat} : Stk k
  | push {k : Nat} (inner : Inner (Node k)) (childIdx : Nat) (rest : Stk (k + 1)) : Stk k

/-- `Iterator` state.  `leafIdx` is only meaningful while `valid` (Go lets it
reach -1 / numKeys on the way to the next leaf). -/
structure Iter where
  leaf : Leaf
  leafIdx : Nat
  stack : Stk 0
  valid : Bool

def Iter.invalid : Iter := ⟨⟨[]⟩, 0, .nil, false⟩

def Iter.key (it : Iter) : Key := (it.leaf.es.getD it.leafIdx ([], [])).1

/-- `checkEnd` (iterator.go:272-280). -/
def Iter.checkEnd (e : Option Key) (it : Iter) : Iter :=
  match e with
  | none => it
  | some e => if it.valid && decide (e ≤ it.key) then { it with valid := false } else it

/-- `checkStart` (iterator.go:283-291). -/
def Iter.checkStart (s : Option Key) (it : Iter) : Iter :=
  match s with
  | none => it
  | some s => if it.valid && decide (it.key < s) then { it with valid := false } else it

/-- `NumChildren() = numKeys + 1` -/
def Inner.numChildren {α : Type} (n : Inner α) : Nat := n.keys.length + 1

/-- `descendLeft` (iterator.go:218-241). -/
def descendLeft (e : Option Key) : (k : Nat) → Node k → Stk k → Iter
  | 0, (l : Leaf), stk => Iter.checkEnd e ⟨l, 0, stk, true⟩
  | k + 1, (n : Inner (Node k)), stk =>
    match n.kids[0]? with
    | some c => descendLeft e k c (.push n 0 stk)
    | none => Iter.invalid

/-- `descendRight` (iterator.go:244-268). -/
def descendRight (s : Option Key) : (k : Nat) → Node k → Stk k → Iter
  | 0, (l : Leaf), stk => Iter.checkStart s ⟨l, l.es.length - 1, stk, true⟩
  | k + 1, (n : Inner (Node k)), stk =>
    let idx := n.numChildren - 1
    match n.kids[idx]? with
    | some c => descendRight s k c (.push n idx stk)
    | none => Iter.invalid

/-- `nextLeaf` (iterator.go:170-191). -/
def nextLeaf (e : Option Key) : (k : Nat) → Stk k → Iter
  | _, .nil => Iter.invalid
  | k, .push n idx rest =>
    if idx + 1 < n.numChildren then
      match n.kids[idx + 1]? with
      | some c => descendLeft e k c (.push n (idx + 1) rest)
      | none => Iter.invalid
    else nextLeaf e (k + 1) rest

/-- `prevLeaf` (iterator.go:194-215). -/
def prevLeaf (s : Option Key) : (k : Nat) → Stk k → Iter
  | _, .nil => Iter.invalid
  | k, .push n idx rest =>
    if idx ≥ 1 then
      match n.kids[idx - 1]? with
      | some c => descendRight s k c (.push n (idx - 1) rest)
      | none => Iter.invalid
    else prevLeaf s (k + 1) rest

/-- `seekFirst`: the child to descend into (`searchInner(n, start)`, or 0 without a start). -/
def seekFirstChild {α : Type} (s : Option Key) (n : Inner α) : Nat :=
  match s with
  | some s => searchInner n.keys s
  | none => 0

/-- `seekFirst`: the position in the leaf (`searchLeaf(n, start)`, or 0 without a start). -/
def seekFirstIdx (s : Option Key) (l : Leaf) : Nat :=
  match s with
  | some s => (searchLeaf l s).1
  | none => 0

/-- `seekFirst` (iterator.go:80-118): position at the first key ≥ start. -/
def seekFirst (s e : Option Key) : (k : Nat) → Node k → Stk k → Iter
  | 0, (l : Leaf), stk =>
    let idx := seekFirstIdx s l
    if idx ≥ l.es.length then nextLeaf e 0 stk
    else Iter.checkEnd e ⟨l, idx, stk, true⟩
  | k + 1, (n : Inner (Node k)), stk =>
    let ci := seekFirstChild s n
    match n.kids[ci]? with
    | some c => seekFirst s e k c (.push n ci stk)
    | none => Iter.invalid

/-- `seekLast`: the child to descend into (`searchInner(n, end)` clamped to the last
child, or the last child without an end). -/
def seekLastChild {α : Type} (e : Option Key) (n : Inner α) : Nat :=
  match e with
  | some e =>
    let c := searchInner n.keys e
    if c ≥ n.numChildren then n.numChildren - 1 else c
  | none => n.numChildren - 1

/-- `seekLast`: the number of leaf entries in front of the position
(`searchLeaf(n, end)` — `leafIdx = pos - 1` whether or not `end` was found —
or all of them without an end). -/
def seekLastPos (e : Option Key) (l : Leaf) : Nat :=
  match e with
  | some e => (searchLeaf l e).1
  | none => l.es.length

/-- `seekLast` (iterator.go:121-167): position at the last key < end. -/
def seekLast (s e : Option Key) : (k : Nat) → Node k → Stk k → Iter
  | 0, (l : Leaf), stk =>
    let pos := seekLastPos e l
    if pos = 0 then prevLeaf s 0 stk
    else Iter.checkStart s ⟨l, pos - 1, stk, true⟩
  | k + 1, (n : Inner (Node k)), stk =>
    let ci := seekLastChild e n
    match n.kids[ci]? with
    | some c => seekLast s e k c (.push n ci stk)
    | none => Iter.invalid

/-- `Iterator.Next` (iterator.go:303-322). -/
def Iter.next (s e : Option Key) (asc : Bool) (it : Iter) : Iter :=
  if !it.valid then it
  else if asc then
    if it.leafIdx + 1 ≥ it.leaf.es.length then nextLeaf e 0 it.stack
    else Iter.checkEnd e { it with leafIdx := it.leafIdx + 1 }
  else
    if it.leafIdx = 0 then prevLeaf s 0 it.stack
    else Iter.checkStart s { it with leafIdx := it.leafIdx - 1 }

/-- `newIterator` (iterator.go:52-77). -/
def newIterator (s e : Option Key) (asc : Bool) : Tree → Iter
  | .empty => Iter.invalid
  | .node h root => if asc then seekFirst s e h root .nil else seekLast s e h root .nil

/-- the `for itr.Valid() { …; itr.Next() }` loop of `IterateRange`
(iterator.go:444-463), with `fuel` bounding the number of steps. -/
def iterLoop {σ : Type} (s e : Option Key) (asc : Bool) (fn : σ → Key → Val → σ × Bool) :
    Nat → Iter → σ → σ × Bool
  | 0, _, st => (st, false)
  | fuel + 1, it, st =>
    if !it.valid then (st, false)
    else
      let en := it.leaf.es.getD it.leafIdx ([], [])
      let (st', stop) := fn st en.1 en.2
      if stop then (st', true) else iterLoop s e asc fn fuel (it.next s e asc) st'

/-! ## Tree-level API of MutableTree / ImmutableTree (in-memory part) -/

namespace Tree

def size : Tree → Nat
  | .empty => 0
  | .node h n => nodeSize h n

def get : Tree → Key → Option Val
  | .empty, _ => none
  | .node h n, key => nodeLookup h n key

def has (t : Tree) (key : Key) : Bool := (t.get key).isSome

/-- `GetByIndex` (mutable_tree.go:840-850): `ErrKeyDoesNotExist` unless `0 ≤ index < size`. -/
def getByIndex : Tree → Int → Option Entry
  | .empty, _ => none
  | .node h n, idx =>
    if idx < 0 ∨ idx ≥ (nodeSize h n : Int) then none else nodeGetByIndex h n idx.toNat

/-- `GetWithIndex` (mutable_tree.go:853-866). -/
def getWithIndex : Tree → Key → Nat × Option Val
  | .empty, _ => (0, none)
  | .node h n, key => nodeGetWithIndex h n key

/-- `Iterate` (mutable_tree.go:870-887). -/
def iterate {σ : Type} (fn : σ → Key → Val → σ × Bool) : Tree → σ → σ × Bool
  | .empty, s => (s, false)
  | .node h n, s => nodeIterate fn h n s

def height : Tree → Nat
  | .empty => 0
  | .node h _ => h

/-- `IterateRange` (iterator.go:444-463); every step consumes one entry, so
`size + 1` steps of fuel are enough (theorem `iterateRange_refines`). -/
def iterateRange {σ : Type} (t : Tree) (s e : Option Key) (asc : Bool)
    (fn : σ → Key → Val → σ × Bool) (st : σ) : σ × Bool :=
  iterLoop s e asc fn (t.size + 1) (newIterator s e asc t) st

end Tree

end GnoVerif.C23
