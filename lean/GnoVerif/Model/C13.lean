/-
Model for C13 — chain parameters can be written only by their owners.

Mirrors, line by line:
  * gnovm/stdlibs/chain/params/params.go      `pkey`
  * gnovm/stdlibs/sys/params/params.go        `prmkey`, `assertSysParamsRealm`
  * gno.land/pkg/sdk/vm/builtins.go           `SDKParams.mustHaveModuleKeeper`, `setWithCheck`, `UpdateStrings`
  * tm2/pkg/sdk/params/keeper.go              `parsePrefix`, `validate`, `set`
  * gno.land/pkg/sdk/vm/params.go             `VMKeeper.WillSetParam` (+ the modelled part of `Params.Validate`)
  * gno.land/pkg/sdk/vm/params_deposit.go     `realmFromKey`
  * gnovm/pkg/gnolang/mempackage.go           `Re_gnoUserPkgPath`, `IsUserlib`, `IsRealmPath`

Go strings are byte strings.  Here a string is a `List Char`, one `Char` per
byte (the driver maps byte b to `Char.ofNat b`).  All separators involved
(`:`, `/`, `.`, `_`, `-`) are ASCII, so byte-wise and char-wise search agree.

Core Lean only.
-/
namespace GnoVerif.C13

abbrev Str := List Char

/-- string literal → model string (runtime conversion; proofs use `L!"…"`) -/
def lit (s : String) : Str := s.toList

/- `L!"abc"` expands AT ELABORATION TIME to the explicit list `['a','b','c']`,
    so that definitions and examples never make the kernel evaluate
    `String.toList` (UTF-8 decoding by well-founded recursion). -/
open Lean in
macro "L!" s:str : term => do
  let elems : Array (TSyntax `term) := s.getString.toList.toArray.map fun c => ⟨Syntax.mkCharLit c⟩
  `([$elems,*])

def colon : Char := ':'

/-- `strings.Contains(s, ":")` -/
def hasColon (s : Str) : Bool := s.any (· == ':')

/-- canonical error classes (the harness maps Go panic messages onto these) -/
inductive Err
  | emptyKey      -- pkey: "empty param key"
  | colonKey      -- pkey: "invalid param key: …"
  | gate          -- assertSysParamsRealm: `"sys/params" can only be used from "gno.land/r/sys/params"`
  | colonName     -- prmkey: "invalid param name: …"
  | emptySub      -- prmkey: "submodule cannot be empty"
  | badKey        -- SDKParams.mustHaveModuleKeeper: idx <= 0
  | unregistered  -- module name not registered (adapter or keeper)
  | unknownParam  -- module keeper: unknown <module> param key
  | badType       -- MustParamString / MustParamInt64 / MustParamStrings
  | invalid       -- "invalid param: …" (module Validate failed / fake module rejected)
  | unmarshal     -- UpdateStrings read a stored value that is not a string list
  | depositUnknownRealm -- processStorageDeposit: params storage diff for unknown realm
  deriving DecidableEq, Repr

def Err.token : Err → String
  | .emptyKey => "panic:empty-key"
  | .colonKey => "panic:colon-key"
  | .gate => "panic:gate"
  | .colonName => "panic:colon-name"
  | .emptySub => "panic:empty-sub"
  | .badKey => "panic:badkey"
  | .unregistered => "panic:unregistered"
  | .unknownParam => "panic:unknown-param"
  | .badType => "panic:badtype"
  | .invalid => "panic:invalid"
  | .unmarshal => "panic:unmarshal"
  | .depositUnknownRealm => "err:deposit-unknown-realm"

/-! ## chain/params: `pkey` -/

/-- `pkey(m, key)` with `rlmPath` = the machine's current realm path.
    `fmt.Sprintf("vm:%s:%s", rlmPath, key)`. -/
def pkey (rlmPath key : Str) : Except Err Str :=
  if key.isEmpty then .error .emptyKey
  else if hasColon key then .error .colonKey
  else .ok (L!"vm:" ++ rlmPath ++ colon :: key)

/-! ## sys/params: `assertSysParamsRealm`, `prmkey` -/

def sysParamsRealm : Str := L!"gno.land/r/sys/params"

/-- `prmkey(module, submodule, name)`: only `name` is checked for ':' and only
    `submodule` for emptiness — in that order. -/
def prmkey (module submodule name : Str) : Except Err Str :=
  if hasColon name then .error .colonName
  else if submodule.isEmpty then .error .emptySub
  else .ok (module ++ colon :: submodule ++ colon :: name)

/-- `X_setSysParam*`: the gate (calling package must be exactly
    gno.land/r/sys/params), then `prmkey`. -/
def sysKey (callerPkg module submodule name : Str) : Except Err Str :=
  if callerPkg ≠ sysParamsRealm then .error .gate
  else prmkey module submodule name

/-! ## key parsing -/

/-- `strings.Cut(s, ":")` -/
def cut : Str → Option (Str × Str)
  | [] => none
  | c :: cs =>
    if c == ':' then some ([], cs)
    else match cut cs with
      | some (b, a) => some (c :: b, a)
      | none => none

/-- keeper.go `parsePrefix` -/
def parsePrefix (key : Str) : Str × Str :=
  match cut key with
  | some (b, a) => (b, a)
  | none => ([], key)

/-- `strings.LastIndex(s, ":")` as a split: (before, after) the LAST colon -/
def cutLast : Str → Option (Str × Str)
  | [] => none
  | c :: cs =>
    match cutLast cs with
    | some (b, a) => some (c :: b, a)
    | none => if c == ':' then some ([], cs) else none

/-- params_deposit.go `realmFromKey` -/
def realmFromKey (key : Str) : Option Str :=
  match key with
  | 'v' :: 'm' :: ':' :: rest =>
    match cutLast rest with
    | none => none
    | some (rlm, _) => if rlm.any (· == '/') then some rlm else none
  | _ => none

/-! ## values and the store -/

inductive Value
  | str (s : Str)
  | int (i : Int)          -- int64
  | uint (n : Nat)         -- uint64
  | bool (b : Bool)
  | bytes (b : Option Str) -- nil deletes
  | strs (l : List Str)
  deriving DecidableEq

/-- the params store, keys without the "/pv/" prefix -/
abbrev Store := Str → Option Value

def Store.empty : Store := fun _ => none

/-- `stor.Set` (or `stor.Delete` for nil bytes) -/
def Store.put (st : Store) (k : Str) (v : Value) : Store :=
  fun k' => if k' = k then (match v with | .bytes none => none | _ => some v) else st k'

/-! ## module keepers -/

/-- a registered module keeper: `WillSetParam(ctx, rawKey, value)` either
    returns or panics with a class -/
abbrev WillSet := Str → Value → Except Err Unit

/-- `ParamsKeeper.kprs` -/
abbrev Registry := Str → Option WillSet

/-- record of one `WillSetParam` call that returned: (module, rawKey) -/
abbrev Will := Str × Str

/-- keeper.go `validate`: no prefix → nothing; unknown module → panic;
    otherwise the module's `WillSetParam` on the raw key. -/
def validate (reg : Registry) (key : Str) (v : Value) : Except Err (Option Will) :=
  let (module, rawKey) := parsePrefix key
  if module.isEmpty then .ok none
  else match reg module with
    | none => .error .unregistered
    | some w => do w rawKey v; .ok (some (module, rawKey))

/-- keeper.go `set` / `SetBytes`: validate, THEN write. -/
def keeperSet (reg : Registry) (st : Store) (key : Str) (v : Value) : Except Err (Store × Option Will) := do
  let w ← validate reg key v
  .ok (st.put key v, w)

/-- builtins.go `mustHaveModuleKeeper`: `idx := strings.Index(key, ":"); idx <= 0 → panic`;
    `IsRegistered(key[:idx])`. -/
def mustHaveModuleKeeper (reg : Registry) (key : Str) : Except Err Unit :=
  match cut key with
  | none => .error .badKey
  | some (m, _) =>
    if m.isEmpty then .error .badKey
    else if (reg m).isSome then .ok () else .error .unregistered

/-- builtins.go `SDKParams.Set*` = `setWithCheck` -/
def sdkSet (reg : Registry) (st : Store) (key : Str) (v : Value) : Except Err (Store × Option Will) := do
  mustHaveModuleKeeper reg key
  keeperSet reg st key v

/-- duplicate-free append / removal of `UpdateStrings` -/
def addStrings (old vals : List Str) : List Str :=
  vals.foldl (fun acc v => if acc.contains v then acc else acc ++ [v]) old

def delStrings (old vals : List Str) : List Str :=
  old.filter (fun s => !vals.contains s)

/-- builtins.go `SDKParams.UpdateStrings` -/
def sdkUpdate (reg : Registry) (st : Store) (key : Str) (vals : List Str) (add : Bool) :
    Except Err (Store × Option Will) := do
  mustHaveModuleKeeper reg key
  let old ← match st key with
    | none => pure []
    | some (.strs l) => pure l
    | some _ => .error .unmarshal
  sdkSet reg st key (.strs (if add then addStrings old vals else delStrings old vals))

/-! ## realm-path grammar (mempackage.go) -/

def isLower (c : Char) : Bool := 'a' ≤ c && c ≤ 'z'
def isUpper (c : Char) : Bool := 'A' ≤ c && c ≤ 'Z'
def isDigit (c : Char) : Bool := '0' ≤ c && c ≤ '9'
def isLowerNum (c : Char) : Bool := isLower c || isDigit c
def isSep (c : Char) : Bool := c == '_' || c == '-'

/-- rest of `Re_name` after an alphanumeric: `[a-z0-9]*([_-][a-z0-9]+)*` -/
def nameTail : Str → Bool
  | [] => true
  | c :: rest =>
    if isLowerNum c then nameTail rest
    else if isSep c then
      match rest with
      | d :: ds => isLowerNum d && nameTail ds
      | [] => false
    else false

/-- `Re_name = [a-z][a-z0-9]*([_-][a-z0-9]+)*` (whole-string match) -/
def isName : Str → Bool
  | [] => false
  | c :: cs => isLower c && nameTail cs

/-- `strings.Split(s, sep)` for a one-byte separator -/
def splitBy (sep : Char) : Str → List Str
  | [] => [[]]
  | c :: cs =>
    if c == sep then [] :: splitBy sep cs
    else match splitBy sep cs with
      | [] => [[c]]
      | h :: t => (c :: h) :: t

/-- `Re_domain = ([a-z0-9-]+\.)+[a-z]{2,63}` -/
def isDomain (d : Str) : Bool :=
  match (splitBy '.' d).reverse with
  | tld :: l :: ls =>
    decide (2 ≤ tld.length) && decide (tld.length ≤ 63) && tld.all isLower &&
    (l :: ls).all (fun x => !x.isEmpty && x.all (fun c => isLowerNum c || c == '-'))
  | _ => false

/-- `IsUserlib`: whole-string match of `Re_gnoUserPkgPath`
    = DOMAIN "/" LETTER "/" USER ( "/" REPO )?,  REPO = name("/"name)*. -/
def isUserlib (p : Str) : Bool :=
  match splitBy '/' p with
  | dom :: letter :: user :: repo =>
    isDomain dom && (match letter with | [c] => isLower c | _ => false) && isName user && repo.all isName
  | _ => false

def endsWith (s suf : Str) : Bool := suf.reverse.isPrefixOf s.reverse

/-- `IsRealmPath`: LETTER = "r" and REPO (only REPO — not USER) does not end in "_test". -/
def isRealmPath (p : Str) : Bool :=
  isUserlib p &&
  match splitBy '/' p with
  | _ :: letter :: _ :: repo =>
    letter == ['r'] &&
    (match repo.getLast? with
     | some last => !endsWith last (L!"_test")
     | none => true)
  | _ => false

/-! ## vm module: `VMKeeper.WillSetParam` -/

/-- `ASCIIDomain = ^([A-Za-z0-9]([A-Za-z0-9-]{0,61}[A-Za-z0-9])?\.)+[A-Za-z]{2,}$` -/
def isAlnum (c : Char) : Bool := isLower c || isUpper c || isDigit c

def isAsciiLabel (l : Str) : Bool :=
  match l, l.getLast? with
  | c :: _, some e =>
    isAlnum c && isAlnum e && decide (l.length ≤ 63) && l.all (fun x => isAlnum x || x == '-')
  | _, _ => false

def isAsciiDomain (d : Str) : Bool :=
  match (splitBy '.' d).reverse with
  | tld :: l :: ls =>
    decide (2 ≤ tld.length) && tld.all (fun c => isLower c || isUpper c) && (l :: ls).all isAsciiLabel
  | _ => false

/-- kinds of the vm module's struct fields -/
inductive VmField
  | pkgPath      -- sysnames_pkgpath, syscla_pkgpath: "" or IsUserlib
  | chainDomain  -- chain_domain: "" or ASCIIDomain
  | ext          -- default_deposit, storage_price, storage_fee_collector: coin / address syntax (not modelled here)
  | depth        -- six *_depth_100 fields: 0 ≤ v ≤ 10000
  | positive     -- iter_next_cost_flat, preprocess_gas_per_byte: 0 < v ≤ 100000
  deriving DecidableEq

/-- the `switch key` of `WillSetParam`: raw key (after "vm:") ↦ field kind -/
def vmField (rawKey : Str) : Option VmField :=
  if rawKey = L!"p:sysnames_pkgpath" then some .pkgPath
  else if rawKey = L!"p:syscla_pkgpath" then some .pkgPath
  else if rawKey = L!"p:chain_domain" then some .chainDomain
  else if rawKey = L!"p:default_deposit" then some .ext
  else if rawKey = L!"p:storage_price" then some .ext
  else if rawKey = L!"p:storage_fee_collector" then some .ext
  else if rawKey = L!"p:min_get_read_depth_100" then some .depth
  else if rawKey = L!"p:min_set_read_depth_100" then some .depth
  else if rawKey = L!"p:min_write_depth_100" then some .depth
  else if rawKey = L!"p:fixed_get_read_depth_100" then some .depth
  else if rawKey = L!"p:fixed_set_read_depth_100" then some .depth
  else if rawKey = L!"p:fixed_write_depth_100" then some .depth
  else if rawKey = L!"p:iter_next_cost_flat" then some .positive
  else if rawKey = L!"p:preprocess_gas_per_byte" then some .positive
  else none

/-- per-field part of `Params.Validate` (the other fields keep their already
    valid stored values, and `Validate` has no cross-field rule).  `ext` is
    the validation of the coin/address fields, a parameter of the model. -/
def vmFieldValid (ext : Str → Str → Bool) (rawKey : Str) : VmField → Value → Except Err Unit
  | .pkgPath, .str s => if s.isEmpty || isUserlib s then .ok () else .error .invalid
  | .chainDomain, .str s => if s.isEmpty || isAsciiDomain s then .ok () else .error .invalid
  | .ext, .str s => if ext rawKey s then .ok () else .error .invalid
  | .depth, .int v => if 0 ≤ v ∧ v ≤ 10000 then .ok () else .error .invalid
  | .positive, .int v => if 0 < v ∧ v ≤ 100000 then .ok () else .error .invalid
  | _, _ => .error .badType

/-- which branch of `WillSetParam` a raw key takes -/
inductive VmBranch
  | moduleParam (f : VmField)  -- a `case "p:…"`: validated
  | unknownModuleParam         -- default + HasPrefix "p:": panic
  | realmParam                 -- default: "Allow realm-scoped params through without validation."
  deriving DecidableEq

def vmBranch (rawKey : Str) : VmBranch :=
  match vmField rawKey with
  | some f => .moduleParam f
  | none => if (L!"p:").isPrefixOf rawKey then .unknownModuleParam else .realmParam

/-- gno.land/pkg/sdk/vm/params.go `WillSetParam` -/
def vmWillSet (ext : Str → Str → Bool) : WillSet := fun rawKey v =>
  match vmBranch rawKey with
  | .moduleParam f => vmFieldValid ext rawKey f v
  | .unknownModuleParam => .error .unknownParam
  | .realmParam => .ok ()

/-! ## the two write routes a gno program has -/

/-- `chain/params.Set*` executed while the current realm is `rlmPath` -/
def realmWrite (reg : Registry) (st : Store) (rlmPath key : Str) (v : Value) :
    Except Err (Store × Option Will) := do
  let pk ← pkey rlmPath key
  sdkSet reg st pk v

/-- `chain/params.UpdateParamStrings` -/
def realmUpdate (reg : Registry) (st : Store) (rlmPath key : Str) (vals : List Str) (add : Bool) :
    Except Err (Store × Option Will) := do
  let pk ← pkey rlmPath key
  sdkUpdate reg st pk vals add

/-- `sys/params.SetSysParam*` called from code of package `callerPkg` -/
def sysWrite (reg : Registry) (st : Store) (callerPkg module submodule name : Str) (v : Value) :
    Except Err (Store × Option Will) := do
  let pk ← sysKey callerPkg module submodule name
  sdkSet reg st pk v

end GnoVerif.C13
