/-
Model.C25 — tm2/pkg/crypto/merkle: simple Merkle trees, proofs and maps.

Mirrors, function by function:
  simple_tree.go   getSplitPoint, SimpleHashFromByteSlices (recursive),
                   SimpleHashFromByteSlicesIterative, SimpleHashFromMap
  hash.go          leafHash (0x00 ‖ leaf), innerHash (0x01 ‖ left ‖ right)
  simple_proof.go  SimpleProofsFromByteSlices (trails → Total/Index/LeafHash/Aunts),
                   SimpleProofsFromMap, SimpleProof.Verify, ComputeRootHash,
                   computeHashFromAunts, ValidateBasic (maxAunts, tmhash.Size)
  simple_map.go    simpleMap.Set/Sort/Hash, KVPair.Bytes (amino length prefixes)
  std/kvpair.go    KVPairs.Less (key, then value; bytes.Compare)

Everything is parametric in the hash `H : Bytes → Bytes` (the code uses
tmhash.Sum = SHA-256; the driver instantiates `H := Sha256.sha256`).

Go's `[]byte` distinguishes nil from empty in exactly three places that matter
here, and the model keeps that distinction with `Option Bytes` there:
  * SimpleHashFromByteSlices returns nil for zero items;
  * computeHashFromAunts returns nil for "shape does not fit" and tests
    `leftHash == nil` on the value coming back from the recursion (which at
    total = 1 is the caller-supplied LeafHash itself);
  * bytes.Equal treats nil and empty as equal (`bytesEqual`), and `Verify` tests
    `computedHash == nil` explicitly;
Everywhere else a nil slice is only appended or measured, i.e. behaves as [].
Core-only.
-/
namespace GnoVerif.C25

abbrev Bytes := List UInt8

/-! ## simple_tree.go / hash.go -/

/-- `getSplitPoint`: `bitlen := bits.Len(uint(length)); k := 1 << (bitlen-1);
if k == length { k >>= 1 }` — the largest power of two strictly below
`length` (for `length ≥ 2`).  The code panics for `length < 1`; every caller in
the package guards that (the model functions below call it only for `≥ 2`).
`bits.Len n = Nat.log2 n + 1` for `n > 0`.  No overflow for any positive
64-bit `int` (`k ≤ 2^62`). -/
def getSplitPoint (length : Nat) : Nat :=
  let k := 2 ^ Nat.log2 length
  if k = length then k / 2 else k

theorem getSplitPoint_pos {n : Nat} (h : 2 ≤ n) : 0 < getSplitPoint n := by
  unfold getSplitPoint
  have hn : n ≠ 0 := by omega
  have h1 : 2 ^ Nat.log2 n ≤ n := Nat.log2_self_le hn
  have h2 : 1 ≤ Nat.log2 n := (Nat.le_log2 hn).2 (by simpa using h)
  have h3 : 2 ^ 1 ≤ 2 ^ Nat.log2 n := Nat.pow_le_pow_right (by decide) h2
  simp only []
  split <;> omega

theorem getSplitPoint_lt {n : Nat} (h : 2 ≤ n) : getSplitPoint n < n := by
  unfold getSplitPoint
  have hn : n ≠ 0 := by omega
  have h1 : 2 ^ Nat.log2 n ≤ n := Nat.log2_self_le hn
  simp only []
  split <;> omega

def leafHash (H : Bytes → Bytes) (leaf : Bytes) : Bytes := H (0 :: leaf)

def innerHash (H : Bytes → Bytes) (left right : Bytes) : Bytes := H (1 :: (left ++ right))

/-- The recursion of `SimpleHashFromByteSlices`, with Go's nil result for zero
items read as the empty byte string (it is only ever appended). -/
def treeHash (H : Bytes → Bytes) (items : List Bytes) : Bytes :=
  match items with
  | [] => []
  | [x] => leafHash H x
  | x :: y :: rest =>
    let k := getSplitPoint (x :: y :: rest).length
    innerHash H (treeHash H ((x :: y :: rest).take k)) (treeHash H ((x :: y :: rest).drop k))
termination_by items.length
decreasing_by
  · have := getSplitPoint_lt (n := (x :: y :: rest).length) (by simp)
    simp only [List.length_take, List.length_cons] at *; omega
  · have := getSplitPoint_pos (n := (x :: y :: rest).length) (by simp)
    simp only [List.length_drop, List.length_cons] at *; omega

/-- `SimpleHashFromByteSlices`: nil (`none`) for zero items. -/
def simpleHashFromByteSlices (H : Bytes → Bytes) (items : List Bytes) : Option Bytes :=
  if items.isEmpty then none else some (treeHash H items)

/-- one pass of the inner `for rp < size` loop of the iterative version -/
def iterLevel (H : Bytes → Bytes) : List Bytes → List Bytes
  | a :: b :: rest => innerHash H a b :: iterLevel H rest
  | [a] => [a]
  | [] => []

theorem iterLevel_length (H : Bytes → Bytes) : ∀ l : List Bytes, (iterLevel H l).length = (l.length + 1) / 2
  | a :: b :: rest => by simp [iterLevel, iterLevel_length H rest]; omega
  | [a] => by simp [iterLevel]
  | [] => by simp [iterLevel]

/-- the outer `for { switch size … }` loop -/
def iterLoop (H : Bytes → Bytes) (items : List Bytes) : Option Bytes :=
  match items with
  | [] => none
  | [x] => some x
  | x :: y :: rest => iterLoop H (iterLevel H (x :: y :: rest))
termination_by items.length
decreasing_by
  rw [iterLevel_length]; simp only [List.length_cons]; omega

/-- `SimpleHashFromByteSlicesIterative` -/
def simpleHashFromByteSlicesIterative (H : Bytes → Bytes) (input : List Bytes) : Option Bytes :=
  iterLoop H (input.map (leafHash H))

/-! ## simple_proof.go -/

structure SimpleProof where
  total : Int
  index : Int
  leafHash : Option Bytes     -- nil is representable (it matters to ComputeRootHash)
  aunts : List Bytes
deriving Repr, DecidableEq

/-- `trailsFromByteSlices` + `FlattenAunts` for leaf `i`: the sibling hashes from
the leaf's sibling up to the root's child (leaf-to-root order). -/
def auntsFor (H : Bytes → Bytes) (items : List Bytes) (i : Nat) : List Bytes :=
  match items with
  | [] => []
  | [_] => []
  | x :: y :: rest =>
    let k := getSplitPoint (x :: y :: rest).length
    if i < k then auntsFor H ((x :: y :: rest).take k) i ++ [treeHash H ((x :: y :: rest).drop k)]
    else auntsFor H ((x :: y :: rest).drop k) (i - k) ++ [treeHash H ((x :: y :: rest).take k)]
termination_by items.length
decreasing_by
  · have := getSplitPoint_lt (n := (x :: y :: rest).length) (by simp)
    simp only [List.length_take, List.length_cons] at *; omega
  · have := getSplitPoint_pos (n := (x :: y :: rest).length) (by simp)
    simp only [List.length_drop, List.length_cons] at *; omega

/-- the proof `SimpleProofsFromByteSlices(items)` puts at position `i` -/
def proofFor (H : Bytes → Bytes) (items : List Bytes) (i : Nat) : SimpleProof :=
  { total := items.length, index := i,
    leafHash := some (leafHash H (items.getD i [])), aunts := auntsFor H items i }

/-- `SimpleProofsFromByteSlices`.  For zero items `trailsFromByteSlices` returns a
nil root trail and `rootSPN.Hash` dereferences it: the real function panics
(`none` here).  Otherwise: the root and one proof per item. -/
def simpleProofsFromByteSlices (H : Bytes → Bytes) (items : List Bytes) :
    Option (Option Bytes × List SimpleProof) :=
  if items.isEmpty then none
  else some (simpleHashFromByteSlices H items, (List.range items.length).map (proofFor H items))

/-- `computeHashFromAunts` on naturals (after the sign checks), consuming the
aunts from the LAST one (`innerHashes[len-1]`), so the argument here is the
reversed aunt list.  Mirrors every branch, including the re-checked guard, the
`len(innerHashes)` tests and the `== nil` tests on the recursive result. -/
def chfa (H : Bytes → Bytes) (index total : Nat) (leafHash : Option Bytes) : List Bytes → Option Bytes
  | [] =>
    if index ≥ total ∨ total = 0 then none
    else if total = 1 then leafHash
    else none                                   -- len(innerHashes) == 0
  | a :: rest =>
    if index ≥ total ∨ total = 0 then none
    else if total = 1 then none                 -- len(innerHashes) != 0
    else
      let numLeft := getSplitPoint total
      if index < numLeft then
        match chfa H index numLeft leafHash rest with
        | none => none
        | some l => some (innerHash H l a)
      else
        match chfa H (index - numLeft) (total - numLeft) leafHash rest with
        | none => none
        | some r => some (innerHash H a r)

/-- `computeHashFromAunts(index, total int, leafHash, innerHashes)` -/
def computeHashFromAunts (H : Bytes → Bytes) (index total : Int) (leafHash : Option Bytes)
    (aunts : List Bytes) : Option Bytes :=
  if index ≥ total ∨ index < 0 ∨ total ≤ 0 then none
  else chfa H index.toNat total.toNat leafHash aunts.reverse

def SimpleProof.computeRootHash (H : Bytes → Bytes) (sp : SimpleProof) : Option Bytes :=
  computeHashFromAunts H sp.index sp.total sp.leafHash sp.aunts

/-- `bytes.Equal`: nil and empty are equal -/
def bytesEqual (a b : Option Bytes) : Bool := a.getD [] == b.getD []

inductive VerifyErr where
  | total | index | leafHash | root
deriving Repr, DecidableEq

/-- `SimpleProof.Verify(rootHash, leaf)` with its checks in order.  Since /repo
commit 96b4d2262f the last check is
`if computedHash == nil || !bytes.Equal(computedHash, rootHash)`: a nil computed
hash (Index/Total/Aunts are not a position) never verifies, not even against a
nil/empty root. -/
def SimpleProof.verify (H : Bytes → Bytes) (sp : SimpleProof) (rootHash : Option Bytes) (leaf : Bytes) :
    Except VerifyErr Unit :=
  let lh := C25.leafHash H leaf
  if sp.total < 0 then .error .total
  else if sp.index < 0 then .error .index
  else if ¬ bytesEqual sp.leafHash (some lh) then .error .leafHash
  else
    let computedHash := sp.computeRootHash H
    if computedHash.isNone ∨ ¬ bytesEqual computedHash rootHash then .error .root
    else .ok ()

def maxAunts : Nat := 100
def hashSize : Nat := 32   -- tmhash.Size

inductive BasicErr where
  | total | index | leafSize | tooManyAunts | auntSize
deriving Repr, DecidableEq

/-- `SimpleProof.ValidateBasic` -/
def SimpleProof.validateBasic (sp : SimpleProof) : Except BasicErr Unit :=
  if sp.total < 0 then .error .total
  else if sp.index < 0 then .error .index
  else if (sp.leafHash.getD []).length ≠ hashSize then .error .leafSize
  else if sp.aunts.length > maxAunts then .error .tooManyAunts
  else if sp.aunts.any (fun a => a.length ≠ hashSize) then .error .auntSize
  else .ok ()

/-! ## simple_map.go -/

/-- `binary.PutUvarint` (amino.EncodeUvarint) -/
def uvarint (n : Nat) : Bytes :=
  if n < 128 then [UInt8.ofNat n] else UInt8.ofNat (n % 128 + 128) :: uvarint (n / 128)
termination_by n
decreasing_by omega

/-- `amino.EncodeByteSlice`: uvarint length, then the bytes -/
def encodeByteSlice (b : Bytes) : Bytes := uvarint b.length ++ b

structure KV where
  key : Bytes
  value : Bytes
deriving Repr, DecidableEq

/-- `KVPair.Bytes` -/
def KV.bytes (kv : KV) : Bytes := encodeByteSlice kv.key ++ encodeByteSlice kv.value

/-- `bytes.Compare` -/
def cmpBytes : Bytes → Bytes → Ordering
  | [], [] => .eq
  | [], _ :: _ => .lt
  | _ :: _, [] => .gt
  | a :: as, b :: bs => if a < b then .lt else if b < a then .gt else cmpBytes as bs

/-- `KVPairs.Less` -/
def kvLess (a b : KV) : Bool :=
  match cmpBytes a.key b.key with
  | .lt => true
  | .eq => cmpBytes a.value b.value == .lt
  | .gt => false

/-- `¬ Less b a` — the order `sort.Sort` establishes -/
def kvLe (a b : KV) : Bool := !kvLess b a

/-- `simpleMap.Set`: append (key, tmhash(value)) -/
def smSet (H : Bytes → Bytes) (kvs : List KV) (key value : Bytes) : List KV :=
  kvs ++ [⟨key, H value⟩]

/-- `simpleMap.Sort` (`sort.Sort` is not stable, but `Less` is a strict total
order on (key, value) pairs, so the sorted result is unique — proved in
Proofs/C25Map). -/
def smSort (kvs : List KV) : List KV := kvs.mergeSort kvLe

/-- `hashKVPairs` -/
def hashKVPairs (H : Bytes → Bytes) (kvs : List KV) : Option Bytes :=
  simpleHashFromByteSlices H (kvs.map KV.bytes)

/-- the kv list after `for k, v := range m { sm.Set(k, v) }` in the given
insertion order -/
def smFromEntries (H : Bytes → Bytes) (entries : List (Bytes × Bytes)) : List KV :=
  entries.foldl (fun kvs e => smSet H kvs e.1 e.2) []

/-- `SimpleHashFromMap`, as a function of the insertion order Go's map
iteration happened to produce -/
def simpleHashFromMap (H : Bytes → Bytes) (entries : List (Bytes × Bytes)) : Option Bytes :=
  hashKVPairs H (smSort (smFromEntries H entries))

/-- `SimpleProofsFromMap`: root, the proofs in sorted-key order, the sorted keys
(`none`: the panic of `SimpleProofsFromByteSlices` on an empty map) -/
def simpleProofsFromMap (H : Bytes → Bytes) (entries : List (Bytes × Bytes)) :
    Option (Option Bytes × List SimpleProof × List Bytes) :=
  let kvs := smSort (smFromEntries H entries)
  match simpleProofsFromByteSlices H (kvs.map KV.bytes) with
  | none => none
  | some (root, proofs) => some (root, proofs, kvs.map KV.key)

/-- the leaf a verifier of a map entry hashes (`SimpleValueOp.Run`):
`KVPair{key, tmhash(value)}.Bytes()` -/
def mapLeaf (H : Bytes → Bytes) (key value : Bytes) : Bytes := KV.bytes ⟨key, H value⟩

inductive ValueOpErr where
  | leafHash | invalidProof | root
deriving Repr, DecidableEq

/-- `SimpleValueOp.Run([value])` (proof_simple_value.go) followed by the root
comparison of `ProofOperators.Verify`: hash the value, wrap `<key, vhash>` as a
KVPair leaf, compare its leaf hash with the proof's, compute the root — since
/repo 4d9045b816 a nil computed root (Index/Total/Aunts not a position) is an
error of `Run` — and compare it with the expected root (`bytes.Equal`). -/
def valueOpVerify (H : Bytes → Bytes) (key value : Bytes) (root : Option Bytes) (p : SimpleProof) :
    Except ValueOpErr Unit :=
  if ¬ bytesEqual (some (leafHash H (mapLeaf H key value))) p.leafHash then .error .leafHash
  else
    match p.computeRootHash H with
    | none => .error .invalidProof
    | some rootHash => if ¬ bytesEqual root (some rootHash) then .error .root else .ok ()

end GnoVerif.C25
