import GnoVerif.Model.C15
/-! The predicates in which the C15 statement is phrased (core-only). -/
namespace GnoVerif.C15

variable {π σ β : Type}

/-- `P` holds pointwise over two lists of the same length. -/
inductive All2 {α γ : Type} (P : α → γ → Prop) : List α → List γ → Prop where
  | nil : All2 P [] []
  | cons {a b as bs} : P a b → All2 P as bs → All2 P (a :: as) (b :: bs)

/-- Signer `a` provided, with `g`, a valid signature over the chain id and the
    CURRENT account number and sequence of its signing account in state `s`
    (the account at `a`, or the unexpired session `a`/`g.session`), under the
    key stored there — or, if none is stored yet, under the key supplied in `g`,
    which for a master account must hash to `a`. -/
def SigOk (cr : Crypto π σ β) (cfg : Config) (s : State π) (tx : Tx π σ) (a : Addr) (g : Sig π σ) : Prop :=
  match g.session with
  | none =>
    ∃ acc pk, s.accounts a = some acc ∧
      (acc.pubKey = some pk ∨ (acc.pubKey = none ∧ g.pubKey = some pk ∧ cr.addrOf pk = a)) ∧
      cr.verify pk (cr.signBytes ⟨cfg.chain, acc.accNum, acc.seq, tx.body⟩) g.sig = true
  | some sa =>
    ∃ acc ss pk, s.accounts a = some acc ∧ s.sessions a sa = some ss ∧
      ¬ (ss.expiresAt > 0 ∧ s.time ≥ ss.expiresAt) ∧
      (ss.pubKey = some pk ∨ (ss.pubKey = none ∧ g.pubKey = some pk)) ∧
      cr.verify pk (cr.signBytes ⟨cfg.chain, ss.accNum, ss.seq, tx.body⟩) g.sig = true

/-- the ante handler let the transaction through (its writes are kept) -/
def Accepted : Res → Prop
  | .ok => True
  | .failed _ => True
  | .rejected _ => False

/-- address `x` signs `tx` with its master key -/
def MasterSigner (tx : Tx π σ) (x : Addr) : Prop :=
  ∃ g, (x, g) ∈ (signersOf tx.msgs).zip tx.sigs ∧ g.session = none

/-- session `k` of master `m` signs `tx` -/
def SessionSigner (tx : Tx π σ) (m k : Addr) : Prop :=
  ∃ g, (m, g) ∈ (signersOf tx.msgs).zip tx.sigs ∧ g.session = some k

/-- What an accepted transaction's ante does to sequences, account numbers and
    keys: every master-key signer's sequence +1, every signing session's
    sequence +1, nothing else moves; account numbers never change; a key is
    only ever filled in where there was none. -/
structure SeqEffect (cr : Crypto π σ β) (cfg : Config) (tx : Tx π σ) (s s' : State π) : Prop where
  accounts : ∀ x acc, s.accounts x = some acc →
    ∃ acc', s'.accounts x = some acc' ∧ acc'.accNum = acc.accNum ∧
      ((MasterSigner tx x ∧ acc'.seq = acc.seq + 1) ∨ (¬ MasterSigner tx x ∧ acc'.seq = acc.seq ∧ acc'.pubKey = acc.pubKey)) ∧
      (acc'.pubKey = acc.pubKey ∨ (acc.pubKey = none ∧ ∃ pk, acc'.pubKey = some pk ∧ cr.addrOf pk = x))
  created : ∀ x, s.accounts x = none →
    s'.accounts x = none ∨
    (x = cfg.collector ∧ ∃ acc', s'.accounts x = some acc' ∧ acc'.accNum = s.nextAccNum ∧ acc'.seq = 0 ∧
      acc'.pubKey = none ∧ s'.nextAccNum = s.nextAccNum + 1)
  sessions : ∀ m k, match s.sessions m k with
    | some ss => ∃ ss', s'.sessions m k = some ss' ∧ ss'.accNum = ss.accNum ∧
        ((SessionSigner tx m k ∧ ss'.seq = ss.seq + 1) ∨ (¬ SessionSigner tx m k ∧ ss'.seq = ss.seq)) ∧
        (ss'.pubKey = ss.pubKey ∨ ss.pubKey = none)
    | none => s'.sessions m k = none
  next : s'.nextAccNum = s.nextAccNum ∨ s'.nextAccNum = s.nextAccNum + 1
  height : s'.height = s.height
  time : s'.time = s.time


/-- Well-formedness of reachable states: account numbers are below the global
    counter; a stored master key hashes to its address; a session has a key and
    that key hashes to the session address. -/
structure Inv (cr : Crypto π σ β) (s : State π) : Prop where
  accLt : ∀ a acc, s.accounts a = some acc → acc.accNum < s.nextAccNum
  sessLt : ∀ m k ss, s.sessions m k = some ss → ss.accNum < s.nextAccNum
  accKey : ∀ a acc pk, s.accounts a = some acc → acc.pubKey = some pk → cr.addrOf pk = a
  sessKey : ∀ m k ss, s.sessions m k = some ss → ∃ key, ss.pubKey = some key ∧ cr.addrOf key = k

/-- The hypotheses about the cryptography under which replay protection is a theorem. -/
structure CryptoOk (cr : Crypto π σ β) : Prop where
  /-- a signature verifies for at most one byte string per key (unforgeability-style; NOT a theorem) -/
  unique : ∀ pk b b' sg, cr.verify pk b sg = true → cr.verify pk b' sg = true → b = b'
  /-- sign bytes determine account number and sequence (checked against the real
      `GetSignaturePayload` by the harness) -/
  inj : ∀ d d' : SignDoc π, cr.signBytes d = cr.signBytes d' → d.accNum = d'.accNum ∧ d.seq = d'.seq
  /-- distinct keys have distinct addresses (hash collision freeness) -/
  addr : ∀ p q, cr.addrOf p = cr.addrOf q → p = q

end GnoVerif.C15
