import GnoVerif.Model.C36
import GnoVerif.Gen.C32Params
import GnoVerif.Gen.C32Genesis
import GnoVerif.Gen.C32Tmhash
/-
C32 — model of block validation
  tm2/pkg/bft/state/validation.go : State.ValidateBlock
  tm2/pkg/bft/types/block.go      : Block.ValidateBasic, BlockID.ValidateBasic, (Commit.ValidateBasic = C36)
  tm2/pkg/bft/types/part_set.go   : PartSetHeader.ValidateBasic
  tm2/pkg/bft/types/validation.go : ValidateHash
  tm2/pkg/bft/types/validator_set.go : HasAddress (VerifyCommit = C36 model)
  tm2/pkg/bft/state/state.go      : MedianTime
  tm2/pkg/bft/types/time/time.go  : WeightedMedian

Every check of the code is one `if` of the model, in source order, with its own
error class.  Abstractions:
 * strings (`Version`, `AppVersion`, `ChainID`) and hashes are byte lists; Go's
   `!=` on strings and `bytes.Equal` (nil ≡ empty) are list equality;
 * an address is the big-endian number of its 20 bytes (`Compare` is `<`);
 * a `time.Time` is the exact number of nanoseconds since the Unix epoch (an
   unbounded `Int`); `After`/`Before`/`Equal` compare instants;
 * a BlockID is an id assigned by the harness (0 = zero BlockID, equal ids ⇔
   `Equals`), as in C36; the header's `LastBlockID` additionally carries the three
   quantities its `ValidateBasic` looks at;
 * the Merkle hashes the code recomputes (`LastCommit.Hash()`, `Data.Hash()`,
   `ConsensusParams.Hash()`, `Validators.Hash()`, `NextValidators.Hash()`) are
   inputs: the harness computes them with the real functions;
 * a signature is the Boolean `LastValidators[i].PubKey.VerifyBytes(commit.VoteSignBytes(chainID,i), sig)`
   (C36's abstraction), computed by the harness with real ed25519;
 * `sort.Slice` in `WeightedMedian` (comparison `Time.Before` since repo commit
   6794836d2f) is modelled by a stable insertion sort on the instant; Go's pdqsort
   is not stable, but the result of `WeightedMedian` does not depend on the order
   among equal instants.
Core-only.
-/
namespace GnoVerif.C32
open GnoVerif.C36 (ValSet Validator wrap64 sortSearch)

abbrev Bytes := List UInt8

def hashSize : Nat := GnoVerif.Gen.C32Tmhash.Size.toNat
def maxChainIDLen : Nat := GnoVerif.Gen.C32Genesis.MaxChainIDLen.toNat
def maxBlockPartsCount : Int := GnoVerif.Gen.C32Params.MaxBlockPartsCount

/-- `ValidateHash(h) == nil`: empty, or exactly `tmhash.Size` bytes. -/
def validHash (h : Bytes) : Bool := !(decide (h.length > 0) && decide (h.length ≠ hashSize))

/-- The header's `LastBlockID`: the harness-assigned id plus the shape
`BlockID.ValidateBasic` inspects. -/
structure LastBlockID where
  id           : Nat
  hashLen      : Nat
  total        : Int
  partsHashLen : Nat
deriving Repr, DecidableEq

/-- A non-nil precommit: C36's entry plus its timestamp (ns since the Unix epoch). -/
structure Precommit where
  e  : C36.Entry
  ts : Int
deriving Repr, DecidableEq

structure Commit where
  blockID    : Nat
  precommits : List (Option Precommit)
deriving Repr, DecidableEq

def Commit.toC36 (c : Commit) : C36.Commit :=
  { blockID := c.blockID, precommits := c.precommits.map (Option.map (·.e)) }

structure Header where
  version            : Bytes
  chainID            : Bytes
  height             : Int
  time               : Int
  numTxs             : Int
  totalTxs           : Int
  appVersion         : Bytes
  lastBlockID        : LastBlockID
  lastCommitHash     : Bytes
  dataHash           : Bytes
  validatorsHash     : Bytes
  nextValidatorsHash : Bytes
  consensusHash      : Bytes
  appHash            : Bytes
  lastResultsHash    : Bytes
  proposer           : Nat
deriving Repr, DecidableEq

structure Block where
  header          : Header
  nTxs            : Nat            -- len(block.Data.Txs)
  dataHashC       : Bytes          -- block.Data.Hash(), computed by the real code
  lastCommit      : Option Commit  -- nil pointer = none
  lastCommitHashC : Bytes          -- block.LastCommit.Hash(), computed by the real code
deriving Repr, DecidableEq

structure State where
  blockVersion       : Bytes
  appVersion         : Bytes
  chainID            : Bytes
  initialHeight      : Int
  lastBlockHeight    : Int
  lastBlockTotalTx   : Int
  lastBlockID        : Nat
  lastBlockTime      : Int
  validators         : ValSet
  lastValidators     : ValSet
  appHash            : Bytes
  lastResultsHash    : Bytes
  consensusHashC     : Bytes       -- state.ConsensusParams.Hash()
  validatorsHashC    : Bytes       -- state.Validators.Hash()
  nextValidatorsHashC : Bytes      -- state.NextValidators.Hash()
deriving Repr, DecidableEq

/-- Error sites of `ValidateBlock` (and of what it calls), in source order. -/
inductive Err where
  | belowInitial        -- ValidateBlock: block.Height < state.InitialHeight
  -- Block.ValidateBasic
  | chainIDLen          -- "ChainID is too long"
  | heightNeg           -- "Negative Header.Height"
  | heightZero          -- "Zero Header.Height"
  | numTxs              -- "wrong Header.NumTxs"
  | totalLtNum          -- "Header.TotalTxs (..) is less than Header.NumTxs"
  | totalNeg            -- "Negative Header.TotalTxs"
  | lbidHash            -- "wrong Header.LastBlockID: wrong Hash"
  | lbidNegTotal        -- "... wrong PartsHeader: Negative Total"
  | lbidTooBig          -- "... PartSetHeader total is too big"
  | lbidPartsHash       -- "... wrong PartsHeader: Wrong Hash"
  | nilLastCommit       -- "nil LastCommit"
  | wrongLastCommit     -- "wrong LastCommit" (Commit.ValidateBasic failed; its reason is dropped by the code)
  | lastCommitHashLen   -- "wrong Header.LastCommitHash: expected size"
  | lastCommitHash      -- "wrong Header.LastCommitHash. Expected"
  | dataHashLen         -- "wrong Header.DataHash: expected size"
  | dataHash            -- "wrong Header.DataHash. Expected"
  | validatorsHashLen | nextValidatorsHashLen | consensusHashLen | lastResultsHashLen
  -- ValidateBlock
  | version | appVersion | chainID | height | lastBlockID | totalTxs
  | appHash | consensusHash | lastResultsHash | validatorsHash | nextValidatorsHash
  | genesisPrecommits   -- "genesis block can't have LastCommit precommits"
  | commitSize          -- InvalidCommitPrecommitsError from ValidateBlock itself
  | commit (e : C36.Err) -- error of LastValidators.VerifyCommit
  | timeNotAfter        -- "block time … not greater than last block time"
  | timeNotMedian       -- "invalid block time. Expected"
  | timeNotGenesis      -- "block time … is not equal to genesis time"
  | proposer            -- "Block.Header.ProposerAddress … is not a validator"
deriving Repr, DecidableEq

/-- class name of a `VerifyCommit` error inside `err:commit/…`. -/
def c36Name (e : C36.Err) : String :=
  let s := e.toString
  if s.startsWith "err:" then (s.drop 4).toString else "panic-" ++ (s.drop 6).toString

def Err.toString : Err → String
  | .belowInitial => "err:belowinitial"
  | .chainIDLen => "err:chainidlen" | .heightNeg => "err:heightneg" | .heightZero => "err:heightzero"
  | .numTxs => "err:numtxs" | .totalLtNum => "err:totalltnum" | .totalNeg => "err:totalneg"
  | .lbidHash => "err:lbidhash" | .lbidNegTotal => "err:lbidnegtotal" | .lbidTooBig => "err:lbidtoobig"
  | .lbidPartsHash => "err:lbidpartshash"
  | .nilLastCommit => "err:nillastcommit" | .wrongLastCommit => "err:wronglastcommit"
  | .lastCommitHashLen => "err:lastcommithashlen" | .lastCommitHash => "err:lastcommithash"
  | .dataHashLen => "err:datahashlen" | .dataHash => "err:datahash"
  | .validatorsHashLen => "err:validatorshashlen" | .nextValidatorsHashLen => "err:nextvalidatorshashlen"
  | .consensusHashLen => "err:consensushashlen" | .lastResultsHashLen => "err:lastresultshashlen"
  | .version => "err:version" | .appVersion => "err:appversion" | .chainID => "err:chainid"
  | .height => "err:height" | .lastBlockID => "err:lastblockid" | .totalTxs => "err:totaltxs"
  | .appHash => "err:apphash" | .consensusHash => "err:consensushash"
  | .lastResultsHash => "err:lastresultshash" | .validatorsHash => "err:validatorshash"
  | .nextValidatorsHash => "err:nextvalidatorshash"
  | .genesisPrecommits => "err:genesisprecommits" | .commitSize => "err:commitsize"
  | .commit e => "err:commit/" ++ c36Name e
  | .timeNotAfter => "err:timenotafter" | .timeNotMedian => "err:timenotmedian"
  | .timeNotGenesis => "err:timenotgenesis" | .proposer => "err:proposer"

abbrev Res := Except Err Unit

def Res.toString : Res → String
  | .ok _ => "ok"
  | .error e => e.toString

/-! ### Block.ValidateBasic -/

/-- `BlockID.ValidateBasic` (with `PartSetHeader.ValidateBasic` inlined). -/
def lastBlockIDBasic (l : LastBlockID) : Res :=
  if decide (l.hashLen > 0) && decide (l.hashLen ≠ hashSize) then .error .lbidHash
  else if l.total < 0 then .error .lbidNegTotal
  else if l.total > maxBlockPartsCount then .error .lbidTooBig
  else if decide (l.partsHashLen > 0) && decide (l.partsHashLen ≠ hashSize) then .error .lbidPartsHash
  else .ok ()

/-- `Block.ValidateBasic` on a non-nil block. -/
def validateBasic (b : Block) : Res :=
  let h := b.header
  if h.chainID.length > maxChainIDLen then .error .chainIDLen
  else if h.height < 0 then .error .heightNeg
  else if h.height = 0 then .error .heightZero
  else if h.numTxs ≠ (b.nTxs : Int) then .error .numTxs
  else if h.totalTxs < h.numTxs then .error .totalLtNum
  else if h.totalTxs < 0 then .error .totalNeg
  else match lastBlockIDBasic h.lastBlockID with
  | .error e => .error e
  | .ok _ =>
    match b.lastCommit with
    | none => .error .nilLastCommit
    | some c =>
      match C36.validateBasic c.toC36 with
      | .error _ => .error .wrongLastCommit
      | .ok _ =>
        if !validHash h.lastCommitHash then .error .lastCommitHashLen
        else if h.lastCommitHash ≠ b.lastCommitHashC then .error .lastCommitHash
        else if !validHash h.dataHash then .error .dataHashLen
        else if h.dataHash ≠ b.dataHashC then .error .dataHash
        else if !validHash h.validatorsHash then .error .validatorsHashLen
        else if !validHash h.nextValidatorsHash then .error .nextValidatorsHashLen
        else if !validHash h.consensusHash then .error .consensusHashLen
        else if !validHash h.lastResultsHash then .error .lastResultsHashLen
        else .ok ()

/-! ### MedianTime / WeightedMedian -/

/-- `time.Time{}` (January 1, year 1, 00:00 UTC) in ns since the Unix epoch. -/
def zeroTime : Int := -62135596800 * 1000000000

/-- a `*WeightedTime`. -/
structure WT where
  time   : Int
  weight : Int
deriving Repr, DecidableEq

/-- The loop of `MedianTime`: the precommit in slot `i` is weighted with the power of
validator `i` (`validators.GetByIndex(i)`; the validator list advances in step with
the slots); a slot beyond the set (`validator == nil`) is skipped; the total is an
int64 sum. -/
def medianCollect : List Validator → List (Option Precommit) → Int → List WT → Int × List WT
  | _, [], total, acc => (total, acc.reverse)
  | [], none :: ps, total, acc => medianCollect [] ps total acc
  | _ :: vs, none :: ps, total, acc => medianCollect vs ps total acc
  | [], some _ :: ps, total, acc => medianCollect [] ps total acc
  | v :: vs, some p :: ps, total, acc =>
    medianCollect vs ps (wrap64 (total + v.power)) (⟨p.ts, v.power⟩ :: acc)

/-- The same loop as it was before repo commit cbe9f9a39b: the validator was looked up
BY THE VOTE'S OWN `ValidatorIndex` FIELD; `GetByIndex` returns a nil validator for an
index outside `[0, len)`, which the next line dereferenced (`none` = that panic).
Kept only to state what the fix removed (`Props/C32.lean`). -/
def medianCollectByField (vals : ValSet) : List (Option Precommit) → Int → List WT → Option (Int × List WT)
  | [], total, acc => some (total, acc.reverse)
  | none :: ps, total, acc => medianCollectByField vals ps total acc
  | some p :: ps, total, acc =>
    if p.e.valIndex < 0 then none
    else match vals[p.e.valIndex.toNat]? with
      | none => none
      | some v => medianCollectByField vals ps (wrap64 (total + v.power)) (⟨p.ts, v.power⟩ :: acc)

/-- insertion of an element that originally preceded all of the list into a list
sorted by instant (`Time.Before`): before the first element that is not earlier (stable). -/
def insertWT (x : WT) : List WT → List WT
  | [] => [x]
  | y :: ys => if y.time < x.time then y :: insertWT x ys else x :: y :: ys

def sortWT : List WT → List WT
  | [] => []
  | x :: xs => insertWT x (sortWT xs)

/-- the selection loop of `WeightedMedian`. -/
def pickMedian : List WT → Int → Int
  | [], _ => zeroTime
  | w :: ws, median => if median ≤ w.weight then w.time else pickMedian ws (median - w.weight)

/-- `WeightedMedian` on the non-nil entries (nil entries sort last and are skipped). -/
def weightedMedian (wts : List WT) (total : Int) : Int :=
  pickMedian (sortWT wts) (Int.tdiv total 2)

/-- `MedianTime(commit, validators)`. -/
def medianTime (c : Commit) (vals : ValSet) : Int :=
  let (total, wts) := medianCollect vals c.precommits 0 []
  weightedMedian wts total

/-- `WeightedMedian` as it was before repo commit 6794836d2f: sorted by `UnixNano()`,
i.e. by the instant WRAPPED into int64 (Go documents the result as undefined outside
the years 1678–2262; the implementation is exactly the wrapped product).  Kept only to
state what the fix removed. -/
def insertWTByUnixNano (x : WT) : List WT → List WT
  | [] => [x]
  | y :: ys => if wrap64 y.time < wrap64 x.time then y :: insertWTByUnixNano x ys else x :: y :: ys

def sortWTByUnixNano : List WT → List WT
  | [] => []
  | x :: xs => insertWTByUnixNano x (sortWTByUnixNano xs)

def weightedMedianByUnixNano (wts : List WT) (total : Int) : Int :=
  pickMedian (sortWTByUnixNano wts) (Int.tdiv total 2)

/-- `MedianTime` before repo commit 6794836d2f (slot weights, `UnixNano()` order). -/
def medianTimeByUnixNano (c : Commit) (vals : ValSet) : Int :=
  let (total, wts) := medianCollect vals c.precommits 0 []
  weightedMedianByUnixNano wts total

/-- `MedianTime` before repo commit cbe9f9a39b (`none` = nil-pointer panic). -/
def medianTimeByField (c : Commit) (vals : ValSet) : Option Int :=
  (medianCollectByField vals c.precommits 0 []).map fun (total, wts) => weightedMedianByUnixNano wts total

/-! ### ValidatorSet.HasAddress -/

def hasAddress (vals : ValSet) (a : Nat) : Bool :=
  let idx := sortSearch (fun i => match vals[i]? with
                                   | some v => decide (a ≤ v.addr)
                                   | none => true) 0 vals.length
  match vals[idx]? with
  | some v => decide (v.addr = a)
  | none => false

/-! ### State.ValidateBlock -/

/-- The LastCommit / time part (needs a non-nil commit, which `ValidateBasic` established). -/
def validateCommitAndTime (s : State) (b : Block) (c : Commit) : Res :=
  let h := b.header
  let isGenesis := decide (h.height = s.initialHeight)
  let r1 : Res :=
    if isGenesis then
      if c.precommits.length ≠ 0 then .error .genesisPrecommits else .ok ()
    else
      if c.precommits.length ≠ s.lastValidators.length then .error .commitSize
      else match C36.verifyCommit s.lastValidators s.lastBlockID (wrap64 (h.height - 1)) c.toC36 with
        | .error e => .error (.commit e)
        | .ok _ => .ok ()
  match r1 with
  | .error e => .error e
  | .ok _ =>
    if !isGenesis then
      if ¬ (h.time > s.lastBlockTime) then .error .timeNotAfter
      else if h.time ≠ medianTime c s.lastValidators then .error .timeNotMedian
      else .ok ()
    else
      if h.time ≠ s.lastBlockTime then .error .timeNotGenesis else .ok ()

def validateBlock (s : State) (b : Block) : Res :=
  let h := b.header
  if h.height < s.initialHeight then .error .belowInitial
  else match validateBasic b with
  | .error e => .error e
  | .ok _ =>
    if h.version ≠ s.blockVersion then .error .version
    else if h.appVersion ≠ s.appVersion then .error .appVersion
    else if h.chainID ≠ s.chainID then .error .chainID
    else if h.height ≠ wrap64 (s.lastBlockHeight + 1) then .error .height
    else if h.lastBlockID.id ≠ s.lastBlockID then .error .lastBlockID
    else if h.totalTxs ≠ wrap64 (s.lastBlockTotalTx + (b.nTxs : Int)) then .error .totalTxs
    else if h.appHash ≠ s.appHash then .error .appHash
    else if h.consensusHash ≠ s.consensusHashC then .error .consensusHash
    else if h.lastResultsHash ≠ s.lastResultsHash then .error .lastResultsHash
    else if h.validatorsHash ≠ s.validatorsHashC then .error .validatorsHash
    else if h.nextValidatorsHash ≠ s.nextValidatorsHashC then .error .nextValidatorsHash
    else match b.lastCommit with
    | none => .error .nilLastCommit      -- unreachable: ValidateBasic rejected a nil LastCommit
    | some c =>
      match validateCommitAndTime s b c with
      | .error e => .error e
      | .ok _ =>
        if !hasAddress s.validators h.proposer then .error .proposer else .ok ()

end GnoVerif.C32
