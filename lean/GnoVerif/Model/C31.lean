import GnoVerif.Model.C35
import GnoVerif.Spec.C31
/-!
Executable model of ONE consensus node: `tm2/pkg/bft/consensus/state.go`
(`ConsensusState`: handleMsg / handleTimeout and every `enter*` function),
`consensus/types/height_vote_set.go` (`HeightVoteSet`) and the replacement rule of
`consensus/ticker.go`, written function by function after the Go code.  The vote
sets are the C35 model of `types/vote_set.go` (`Model/C35.lean`).  Core Lean only.

What is abstract / fixed:
* a block is an id (`Block = Nat`, standing for its `BlockID` = hash + parts header
  of the same block) plus `valid` = `state.ValidateBlock(block) == nil`; blocks have
  ONE part (kvstore blocks are far below 64 kB), so `ProposalBlockParts` is the id its
  header names, and it is complete iff `ProposalBlock` is set.  A `BlockID` whose hash
  and parts header belong to different blocks is not modelled.
* signatures: a peer message carries `sigOk`; a proposal's signature verifies iff it
  was signed by `proposer height round` (`cs.Validators.GetProposer()`, an input table:
  proposer selection is property C37).
* the node's own proposal block is `ownBlock height` (`createProposalBlock` is
  deterministic for a fixed mempool and LastCommit) and is valid.
* configuration: `CreateEmptyBlocks = true`, `CreateEmptyBlocksInterval = 0`
  (`WaitForTxs() = false`), `SkipTimeoutCommit = false`; the node is a validator with a
  working signer.  `LastCommit` (precommits of the previous height arriving during
  `NewHeight`) only feeds the content of the next proposal and is not modelled.
* time: durations are dropped; the ticker keeps the single pending timeout.
* ghost field `sent`: every vote this node ever signed, in order (never read by the model).
-/
namespace GnoVerif.C31

inductive Step | newHeight | newRound | propose | prevote | prevoteWait | precommit | precommitWait | commit
deriving DecidableEq, Repr

/-- `cstypes.RoundStepType` values -/
def Step.toNat : Step → Nat
  | .newHeight => 1 | .newRound => 2 | .propose => 3 | .prevote => 4
  | .prevoteWait => 5 | .precommit => 6 | .precommitWait => 7 | .commit => 8

instance : LE Step := ⟨fun a b => a.toNat ≤ b.toNat⟩
instance : LT Step := ⟨fun a b => a.toNat < b.toNat⟩
instance (a b : Step) : Decidable (a ≤ b) := inferInstanceAs (Decidable (a.toNat ≤ b.toNat))
instance (a b : Step) : Decidable (a < b) := inferInstanceAs (Decidable (a.toNat < b.toNat))

/-- a block: id and `ValidateBlock == nil` -/
structure Blk where
  id : Block
  valid : Bool
deriving DecidableEq, Repr

structure Proposal where
  height : Nat
  round : Nat
  polRound : Int
  block : Block
  signer : Val
deriving DecidableEq, Repr

inductive Msg
  | proposal (p : Proposal)
  | blockPart (height round : Nat) (b : Blk)
  | vote (v : Vote)
deriving DecidableEq, Repr

/-- static data of the node -/
structure NodeCfg where
  me : Val
  vals : List (Nat × Nat)            -- (address = index, power), C35's `vals`
  proposer : Nat → Nat → Val         -- height → round → index of `Validators.GetProposer()`

-- ---------------------------------------------------------------- HeightVoteSet

structure RoundVotes where
  prevotes : C35.VoteSet
  precommits : C35.VoteSet

/-- `cstypes.HeightVoteSet` -/
structure HVS where
  height : Nat
  vals : List (Nat × Nat)
  round : Nat                              -- max tracked round
  sets : List (Nat × RoundVotes)           -- roundVoteSets
  peerCatchup : List (Nat × List Nat)      -- peerCatchupRounds (peer 0 = "" = self)

def newRoundVotes (height : Nat) (vals : List (Nat × Nat)) (round : Nat) : RoundVotes :=
  { prevotes := C35.newVoteSet height round C35.prevoteType vals,
    precommits := C35.newVoteSet height round C35.precommitType vals }

/-- `addRound` (callers guarantee the round is absent) -/
def HVS.addRound (h : HVS) (round : Nat) : HVS :=
  { h with sets := C35.alSet round (newRoundVotes h.height h.vals round) h.sets }

/-- `NewHeightVoteSet` / `Reset` -/
def HVS.new (height : Nat) (vals : List (Nat × Nat)) : HVS :=
  ({ height, vals, round := 0, sets := [], peerCatchup := [] } : HVS).addRound 0

/-- the loop of `SetRound`: create rounds `from .. from+n-1` that do not exist yet -/
def HVS.addRounds (h : HVS) (from_ : Nat) : Nat → HVS
  | 0 => h
  | n + 1 =>
    let h' := match C35.alGet from_ h.sets with
      | some _ => h
      | none => h.addRound from_
    HVS.addRounds h' (from_ + 1) n

/-- `SetRound(round)`.  Its panic (`hvs.round != 0 && round < hvs.round+1`) is not modelled: the
only caller is `enterNewRound(r)` with `SetRound(r+1)`, which runs only for `r` above the round
whose `SetRound` set `hvs.round` (or for round 0 while `hvs.round = 0`), so `r+1 ≥ hvs.round+1`;
the correspondence run would show a `panic:` line otherwise. -/
def HVS.setRound (h : HVS) (round : Nat) : HVS :=
  { (HVS.addRounds h (h.round + 1) (round - h.round)) with round := round }

def typeNat : VType → Nat
  | .prevote => C35.prevoteType
  | .precommit => C35.precommitType

/-- `BlockID.Key()` of nil / of block `b` -/
def blockKey : Option Block → Nat
  | none => 0
  | some b => b + 1

def keyBlock (k : Nat) : Option Block := if k = 0 then none else some (k - 1)

def toC35 (v : Vote) (sigOk : Bool) : C35.Vote :=
  { idx := v.sender, addr := v.sender, height := v.height, round := v.round, type := typeNat v.type,
    block := ⟨blockKey v.block, 0⟩, sig := 0, sigOk := sigOk }

/-- `getVoteSet(round, type)`; `none` = nil -/
def HVS.getVoteSet (h : HVS) (round : Nat) (t : VType) : Option C35.VoteSet :=
  match C35.alGet round h.sets with
  | none => none
  | some rv => some (match t with | .prevote => rv.prevotes | .precommit => rv.precommits)

def HVS.putVoteSet (h : HVS) (round : Nat) (t : VType) (vs : C35.VoteSet) : HVS :=
  match C35.alGet round h.sets with
  | none => h
  | some rv =>
    let rv' : RoundVotes := match t with
      | .prevote => { rv with prevotes := vs }
      | .precommit => { rv with precommits := vs }
    { h with sets := C35.alSet round rv' h.sets }

/-- the tail of `HeightVoteSet.AddVote`: `voteSet.AddVote(vote)` on the set of the vote's round -/
def HVS.addVoteTo (h1 : HVS) (v : Vote) (sigOk : Bool) : HVS × Bool :=
  match h1.getVoteSet v.round v.type with
  | none => (h1, false)
  | some vs =>
    let r := C35.addVote vs (some (toC35 v sigOk))
    (h1.putVoteSet v.round v.type r.1, r.2.added)

/-- `HeightVoteSet.AddVote(vote, peerID)`: returns the new sets and `added` -/
def HVS.addVote (h : HVS) (v : Vote) (peer : Nat) (sigOk : Bool) : HVS × Bool :=
  match h.getVoteSet v.round v.type with
  | some _ => h.addVoteTo v sigOk
  | none =>
    -- a round we do not track: each peer may open two "catch-up" rounds
    let rndz := (C35.alGet peer h.peerCatchup).getD []
    if rndz.length < 2 then
      HVS.addVoteTo { (h.addRound v.round) with peerCatchup := C35.alSet peer (rndz ++ [v.round]) h.peerCatchup }
        v sigOk
    else (h, false)                       -- ErrGotVoteFromUnwantedRoundError

/-- `SetPeerMaj23(round, type, peerID, blockID)` -/
def HVS.setPeerMaj23 (h : HVS) (round : Nat) (t : VType) (peer : Nat) (b : Option Block) : HVS :=
  match h.getVoteSet round t with
  | none => h
  | some vs => h.putVoteSet round t (C35.setPeerMaj23 vs peer ⟨blockKey b, 0⟩).1

/-- `Prevotes(round).TwoThirdsMajority()` / `Precommits(..)`: `none` = not ok,
`some none` = +2/3 for nil, `some (some b)` = +2/3 for block `b` -/
def HVS.maj23 (h : HVS) (round : Nat) (t : VType) : Option (Option Block) :=
  match h.getVoteSet round t with
  | none => none
  | some vs => (C35.twoThirdsMajority vs).map fun b => keyBlock b.key

def HVS.hasTwoThirdsAny (h : HVS) (round : Nat) (t : VType) : Bool :=
  match h.getVoteSet round t with
  | none => false
  | some vs => C35.hasTwoThirdsAny vs

/-- `voteSet.GetByAddress(addr)`: the canonical vote of validator `i` -/
def HVS.getByIndex (h : HVS) (round : Nat) (t : VType) (i : Nat) : Option C35.Vote :=
  match h.getVoteSet round t with
  | none => none
  | some vs => C35.at? vs.votes i

-- ---------------------------------------------------------------- the node

/-- `timeoutInfo` without the duration -/
structure Tick where
  height : Nat
  round : Nat
  step : Nat          -- RoundStepType value; 0 in the ticker's initial `ti`
deriving DecidableEq, Repr

structure Node where
  height : Nat
  round : Nat
  step : Step
  proposal : Option Proposal
  proposalBlock : Option Blk
  proposalBlockParts : Option Block
  lockedRound : Int
  lockedBlock : Option Blk
  validRound : Int
  validBlock : Option Blk
  votes : HVS
  commitRound : Int
  triggeredTimeoutPrecommit : Bool
  tickLast : Tick                  -- `ti` of timeoutRoutine
  tickArmed : Bool                 -- timer running
  queue : List Msg                 -- internalMsgQueue
  decided : List (Nat × Block)     -- blocks finalised (SaveBlock + ApplyBlock), newest first
  halted : Bool                    -- a panic stopped the receive routine
  sent : List Vote                 -- ghost: votes signed so far

/-- the node's own proposal block at a height -/
def ownBlock (height : Nat) : Block := 1000000 + height

/-- `NewConsensusState` → `updateToState(genesis state)` at `InitialHeight = 1` -/
def Node.init (k : NodeCfg) : Node :=
  { height := 1, round := 0, step := .newHeight, proposal := none, proposalBlock := none,
    proposalBlockParts := none, lockedRound := -1, lockedBlock := none, validRound := -1,
    validBlock := none, votes := HVS.new 1 k.vals, commitRound := -1,
    triggeredTimeoutPrecommit := false, tickLast := ⟨0, 0, 0⟩, tickArmed := false, queue := [],
    decided := [], halted := false, sent := [] }

/-- `scheduleTimeout` → the `newti := <-tickChan` case of `timeoutRoutine` -/
def schedule (s : Node) (height round : Nat) (step : Step) : Node :=
  let ti := s.tickLast
  if height < ti.height then s
  else if height = ti.height ∧ round < ti.round then s
  else if height = ti.height ∧ round = ti.round ∧ 0 < ti.step ∧ step.toNat ≤ ti.step then s
  else { s with tickLast := ⟨height, round, step.toNat⟩, tickArmed := true }

/-- `Block.HashesTo(hash)` with `hash` = the hash of block `id` -/
def hashesTo (b : Option Blk) (id : Block) : Bool :=
  match b with
  | some x => x.id == id
  | none => false

/-- `isProposalComplete` -/
def isProposalComplete (s : Node) : Bool :=
  match s.proposal, s.proposalBlock with
  | some p, some _ =>
    if p.polRound < 0 then true
    else (s.votes.maj23 p.polRound.toNat .prevote).isSome
  | _, _ => false

/-- `signAddVote(type, hash, header)` (the node is a validator; the signer works) -/
def signAddVote (k : NodeCfg) (s : Node) (t : VType) (b : Option Block) : Node :=
  match s.votes.getByIndex s.round t k.me with
  | some _ => s          -- reuse the known self vote, or refuse to sign a conflicting one
  | none =>
    let v : Vote := ⟨k.me, s.height, s.round, t, b⟩
    { s with queue := s.queue ++ [.vote v], sent := s.sent ++ [v] }

/-- `defaultDoPrevote` -/
def doPrevote (k : NodeCfg) (s : Node) : Node :=
  match s.lockedBlock with
  | some lb => signAddVote k s .prevote (some lb.id)          -- If a block is locked, prevote that.
  | none =>
    match s.proposalBlock with
    | none => signAddVote k s .prevote none                   -- ProposalBlock is nil
    | some pb =>
      if !pb.valid then signAddVote k s .prevote none         -- ProposalBlock is invalid
      else signAddVote k s .prevote (some pb.id)

/-- `enterPrevote(height, round)` -/
def enterPrevote (k : NodeCfg) (s : Node) (height round : Nat) : Node :=
  if s.height ≠ height ∨ round < s.round ∨ (s.round = round ∧ Step.prevote ≤ s.step) then s else
  let s1 := doPrevote k s
  { s1 with round := round, step := .prevote }

/-- `defaultDecideProposal` -/
def decideProposal (k : NodeCfg) (s : Node) (height round : Nat) : Node :=
  let blk : Blk := match s.validBlock with
    | some b => b
    | none => ⟨ownBlock s.height, true⟩
  let p : Proposal := ⟨height, round, s.validRound, blk.id, k.me⟩
  { s with queue := s.queue ++ [.proposal p, .blockPart s.height s.round blk] }

/-- `enterPropose(height, round)` -/
def enterPropose (k : NodeCfg) (s : Node) (height round : Nat) : Node :=
  if s.height ≠ height ∨ round < s.round ∨ (s.round = round ∧ Step.propose ≤ s.step) then s else
  let s1 := schedule s height round .propose
  let s2 := if k.proposer s1.height round = k.me then decideProposal k s1 height round else s1
  -- deferred: Done enterPropose
  let s3 := { s2 with round := round, step := .propose }
  if isProposalComplete s3 then enterPrevote k s3 height s3.round else s3

/-- `enterNewRound(height, round)` -/
def enterNewRound (k : NodeCfg) (s : Node) (height round : Nat) : Node :=
  if s.height ≠ height ∨ round < s.round ∨ (s.round = round ∧ s.step ≠ .newHeight) then s else
  let s1 := { s with round := round, step := .newRound }
  let s2 := if round = 0 then s1
            else { s1 with proposal := none, proposalBlock := none, proposalBlockParts := none }
  let s3 := { s2 with votes := s2.votes.setRound (round + 1), triggeredTimeoutPrecommit := false }
  enterPropose k s3 height round

/-- `enterPrevoteWait(height, round)` (callers have checked `HasTwoThirdsAny`) -/
def enterPrevoteWait (s : Node) (height round : Nat) : Node :=
  if s.height ≠ height ∨ round < s.round ∨ (s.round = round ∧ Step.prevoteWait ≤ s.step) then s else
  let s1 := schedule s height round .prevoteWait
  { s1 with round := round, step := .prevoteWait }

/-- `enterPrecommit(height, round)` -/
def enterPrecommit (k : NodeCfg) (s : Node) (height round : Nat) : Node :=
  if s.height ≠ height ∨ round < s.round ∨ (s.round = round ∧ Step.precommit ≤ s.step) then s else
  let done (x : Node) : Node := { x with round := round, step := .precommit }
  match s.votes.maj23 round .prevote with
  | none =>
    -- no polka: precommit nil (the lock, if any, stays)
    done (signAddVote k s .precommit none)
  | some none =>
    -- +2/3 prevoted nil: unlock and precommit nil
    let s1 := match s.lockedBlock with
      | none => s
      | some _ => { s with lockedRound := -1, lockedBlock := none }
    done (signAddVote k s1 .precommit none)
  | some (some id) =>
    -- a polka for a block we do not have: unlock, fetch it, precommit nil
    let unknown : Node :=
      let s1 := { s with lockedRound := -1, lockedBlock := none }
      let s2 := if s1.proposalBlockParts = some id then s1
                else { s1 with proposalBlock := none, proposalBlockParts := some id }
      done (signAddVote k s2 .precommit none)
    if hashesTo s.lockedBlock id then
      -- relock
      done (signAddVote k { s with lockedRound := round } .precommit (some id))
    else
      match s.proposalBlock with
      | none => unknown
      | some pb =>
        if pb.id ≠ id then unknown
        else if !pb.valid then
          -- panic("enterPrecommit: +2/3 prevoted for an invalid block"); the deferred step update still runs
          { (done s) with halted := true }
        else
          -- lock the proposal block
          done (signAddVote k { s with lockedRound := round, lockedBlock := some pb } .precommit (some id))

/-- `enterPrecommitWait(height, round)` (callers have checked `HasTwoThirdsAny`) -/
def enterPrecommitWait (s : Node) (height round : Nat) : Node :=
  if s.height ≠ height ∨ round < s.round ∨ (s.round = round ∧ s.triggeredTimeoutPrecommit) then s else
  let s1 := schedule s height round .precommitWait
  { s1 with triggeredTimeoutPrecommit := true, step := .precommitWait }

/-- `updateToState` after `ApplyBlock` + `scheduleRound0` -/
def newHeight (k : NodeCfg) (s : Node) (id : Block) : Node :=
  let s1 : Node :=
    { s with height := s.height + 1, round := 0, step := .newHeight, proposal := none,
             proposalBlock := none, proposalBlockParts := none, lockedRound := -1, lockedBlock := none,
             validRound := -1, validBlock := none, votes := HVS.new (s.height + 1) k.vals,
             commitRound := -1, triggeredTimeoutPrecommit := false,
             decided := (s.height, id) :: s.decided }
  schedule s1 s1.height 0 .newHeight

/-- `finalizeCommit(height)` -/
def finalizeCommit (k : NodeCfg) (s : Node) (height : Nat) : Node :=
  if s.height ≠ height ∨ s.step ≠ .commit then s else
  match s.proposalBlock with
  | none => s
  | some pb =>
    if !pb.valid then { s with halted := true }    -- panic("+2/3 committed an invalid block")
    else newHeight k s pb.id

/-- `tryFinalizeCommit(height)` -/
def tryFinalizeCommit (k : NodeCfg) (s : Node) (height : Nat) : Node :=
  match (if s.commitRound < 0 then none else s.votes.maj23 s.commitRound.toNat .precommit) with
  | some (some id) =>
    if hashesTo s.proposalBlock id then finalizeCommit k s height else s
  | _ => s

/-- `enterCommit(height, commitRound)` (callers have +2/3 precommits for a block at `commitRound`) -/
def enterCommit (k : NodeCfg) (s : Node) (height commitRound : Nat) : Node :=
  if s.height ≠ height ∨ Step.commit ≤ s.step then s else
  match s.votes.maj23 commitRound .precommit with
  | some (some id) =>
    let s1 := if hashesTo s.lockedBlock id then
                { s with proposalBlock := s.lockedBlock, proposalBlockParts := some id }
              else s
    let s2 := if !hashesTo s1.proposalBlock id ∧ s1.proposalBlockParts ≠ some id then
                { s1 with proposalBlock := none, proposalBlockParts := some id }
              else s1
    let s3 := { s2 with step := .commit, commitRound := commitRound }
    tryFinalizeCommit k s3 height
  | _ => s

/-- `defaultSetProposal` -/
def setProposal (k : NodeCfg) (s : Node) (p : Proposal) (sigOk : Bool) : Node :=
  if s.proposal.isSome then s else
  if p.height ≠ s.height ∨ p.round ≠ s.round then s else
  if p.polRound < -1 ∨ (p.polRound ≥ 0 ∧ p.polRound ≥ p.round) then s else
  if !(sigOk && p.signer == k.proposer s.height s.round) then s else
  { s with proposal := some p,
           proposalBlockParts := match s.proposalBlockParts with
             | some h => some h
             | none => some p.block }

/-- `addProposalBlockPart` for the single part of block `b` -/
def addProposalBlockPart (k : NodeCfg) (s : Node) (height _round : Nat) (b : Blk) : Node :=
  if s.height ≠ height then s else
  match s.proposalBlockParts with
  | none => s                                   -- not expecting a block part
  | some hdr =>
    if hdr ≠ b.id then s                        -- ErrPartSetInvalidProof
    else if s.proposalBlock.isSome then s       -- part already there
    else
      let s1 := { s with proposalBlock := some b }
      let maj := s1.votes.maj23 s1.round .prevote
      let s2 := match maj with
        | some (some id) =>
          if s1.validRound < s1.round ∧ b.id = id then
            { s1 with validRound := s1.round, validBlock := some b }
          else s1
        | _ => s1
      if s2.step ≤ Step.propose ∧ isProposalComplete s2 then
        let s3 := enterPrevote k s2 height s2.round
        if maj.isSome then enterPrecommit k s3 height s3.round else s3
      else if s2.step = .commit then tryFinalizeCommit k s2 height
      else s2

/-- `addVote`, prevote branch, after the vote was added -/
def afterPrevote (k : NodeCfg) (s : Node) (v : Vote) : Node :=
  let height := s.height
  let maj := s.votes.maj23 v.round .prevote
  let s2 := match maj with
    | none => s
    | some bid =>
      -- Unlock if `cs.LockedRound < vote.Round <= cs.Round`
      let s1 :=
        if s.lockedBlock.isSome ∧ s.lockedRound < v.round ∧ v.round ≤ s.round ∧
           !(match bid with | some id => hashesTo s.lockedBlock id | none => false) then
          { s with lockedRound := -1, lockedBlock := none }
        else s
      -- Update Valid* if we can.
      match bid with
      | some id =>
        if s1.validRound < v.round ∧ v.round = s1.round then
          let s1a := if hashesTo s1.proposalBlock id then
                       { s1 with validRound := v.round, validBlock := s1.proposalBlock }
                     else { s1 with proposalBlock := none }
          if s1a.proposalBlockParts = some id then s1a
          else { s1a with proposalBlockParts := some id }
        else s1
      | none => s1
  if s2.round < v.round ∧ s2.votes.hasTwoThirdsAny v.round .prevote then
    enterNewRound k s2 height v.round
  else if s2.round = v.round ∧ Step.prevote ≤ s2.step then
    if maj.isSome ∧ (isProposalComplete s2 ∨ maj = some none) then enterPrecommit k s2 height v.round
    else if s2.votes.hasTwoThirdsAny v.round .prevote then enterPrevoteWait s2 height v.round
    else s2
  else if (match s2.proposal with
           | some p => decide (0 ≤ p.polRound ∧ p.polRound = v.round)
           | none => false) then
    if isProposalComplete s2 then enterPrevote k s2 height s2.round else s2
  else s2

/-- `addVote`, precommit branch, after the vote was added -/
def afterPrecommit (k : NodeCfg) (s : Node) (v : Vote) : Node :=
  let height := s.height
  match s.votes.maj23 v.round .precommit with
  | some bid =>
    let s1 := enterNewRound k s height v.round
    let s2 := enterPrecommit k s1 height v.round
    if s2.halted then s2 else
    match bid with
    | some _ => enterCommit k s2 height v.round
    | none => enterPrecommitWait s2 height v.round
  | none =>
    if s.round ≤ v.round ∧ s.votes.hasTwoThirdsAny v.round .precommit then
      enterPrecommitWait (enterNewRound k s height v.round) height v.round
    else s

/-- `tryAddVote` / `addVote` -/
def addVote (k : NodeCfg) (s : Node) (v : Vote) (peer : Nat) (sigOk : Bool) : Node :=
  if v.height + 1 = s.height then
    -- A precommit for the previous height while waiting in NewHeight goes to `cs.LastCommit.AddVote`
    -- (not modelled: it only feeds the next proposal); anything else, and — since the fix
    -- "addVote ignores a previous-height precommit when there is no last commit" — everything at the
    -- initial height, where `cs.LastCommit` is nil, is ErrVoteHeightMismatch.  No modelled effect.
    s
  else if v.height ≠ s.height then s       -- ErrVoteHeightMismatch
  else
    let r := s.votes.addVote v peer sigOk
    let s1 := { s with votes := r.1 }
    if !r.2 then s1 else
    match v.type with
    | .prevote => afterPrevote k s1 v
    | .precommit => afterPrecommit k s1 v

/-- `handleMsg` -/
def handleMsg (k : NodeCfg) (s : Node) (m : Msg) (peer : Nat) (sigOk : Bool) : Node :=
  match m with
  | .proposal p => setProposal k s p sigOk
  | .blockPart h r b => addProposalBlockPart k s h r b
  | .vote v => addVote k s v peer sigOk

def stepOfNat : Nat → Option Step
  | 1 => some .newHeight | 2 => some .newRound | 3 => some .propose | 4 => some .prevote
  | 5 => some .prevoteWait | 6 => some .precommit | 7 => some .precommitWait | 8 => some .commit
  | _ => none

/-- `handleTimeout(ti, rs)` -/
def handleTimeout (k : NodeCfg) (s : Node) (ti : Tick) : Node :=
  if ti.height ≠ s.height ∨ ti.round < s.round ∨ (ti.round = s.round ∧ ti.step < s.step.toNat) then s else
  match stepOfNat ti.step with
  | some .newHeight => enterNewRound k s ti.height 0
  | some .newRound => enterPropose k s ti.height 0
  | some .propose => enterPrevote k s ti.height ti.round
  | some .prevoteWait => enterPrecommit k s ti.height ti.round
  | some .precommitWait =>
    let s1 := enterPrecommit k s ti.height ti.round
    if s1.halted then s1 else enterNewRound k s1 ti.height (ti.round + 1)
  | _ => { s with halted := true }      -- panic("Invalid timeout step") — never scheduled

/-- what the environment can do to a node -/
inductive Input
  | start                                                     -- OnStart: scheduleRound0
  | peer (m : Msg) (peer : Nat) (sigOk : Bool)                -- a message from the peer queue
  | internal                                                  -- the oldest message of the internal queue
  | timeout                                                   -- the pending timeout fires
  | maj23 (peer round : Nat) (t : VType) (b : Option Block)   -- VoteSetMaj23Message (reactor)
deriving Repr

/-- one iteration of `receiveRoutine` (or one reactor call) -/
def handle (k : NodeCfg) (s : Node) (i : Input) : Node :=
  if s.halted then s else
  match i with
  | .start => schedule s s.height 0 .newHeight
  | .peer m p ok => handleMsg k s m p ok
  | .internal =>
    match s.queue with
    | [] => s
    | m :: q => handleMsg k { s with queue := q } m 0 true
  | .timeout =>
    if !s.tickArmed then s else handleTimeout k { s with tickArmed := false } s.tickLast
  | .maj23 p r t b => { s with votes := s.votes.setPeerMaj23 r t p b }

end GnoVerif.C31
