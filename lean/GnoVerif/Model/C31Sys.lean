import GnoVerif.Model.C31
/-!
The SYSTEM built from the executable node model (`Model/C31.lean`): one `Node` per honest
validator, each running `handle`, and the monotone set of all signed votes.  Core Lean only.

A schedule is a sequence of `SysStep`s:
* a faulty validator signs any vote with its own index, at any time;
* an honest validator `p` runs one iteration of its receive routine on ANY input: a proposal or a
  block part with arbitrary content (proposals and blocks are not even required to have been sent
  by anybody — safety does not depend on them), a vote that verifies only if it really was signed
  (`v ∈ votes`) — delivered in any order, any number of times, or never —, a vote with a bad
  signature, its own oldest internal message, its pending timeout, or a peer's +2/3 claim with
  arbitrary content.
The votes it signs (the new suffix of the ghost field `sent`) join the vote set.
-/
namespace GnoVerif.C31

structure SysCfg where
  powers : List Nat
  byz : Val → Bool
  proposer : Nat → Nat → Val

/-- `(index, power)` pairs: C35's `vals`, address = index -/
def SysCfg.vals (c : SysCfg) : List (Nat × Nat) := (List.range c.powers.length).zip c.powers
def SysCfg.node (c : SysCfg) (p : Val) : NodeCfg := { me := p, vals := c.vals, proposer := c.proposer }
def SysCfg.abs (c : SysCfg) : Cfg := { powers := c.powers, byz := c.byz }

structure SysState where
  nodes : Val → Node
  votes : List Vote

def SysState.init (c : SysCfg) : SysState := { nodes := fun p => Node.init (c.node p), votes := [] }

/-- a vote that is claimed to verify must have been signed -/
def InputOK (votes : List Vote) : Input → Prop
  | .peer (.vote v) _ true => v ∈ votes
  | _ => True

def updN (f : Val → Node) (p : Val) (s : Node) : Val → Node := fun q => if q = p then s else f q

inductive SysStep (c : SysCfg) : SysState → SysState → Prop
  | byz (σ : SysState) (v : Vote) (h : ¬ c.abs.honest v.sender) :
      SysStep c σ { σ with votes := σ.votes ++ [v] }
  | node (σ : SysState) (p : Val) (i : Input) (hp : c.abs.honest p) (hi : InputOK σ.votes i) :
      SysStep c σ
        { nodes := updN σ.nodes p (handle (c.node p) (σ.nodes p) i),
          votes := σ.votes ++ (handle (c.node p) (σ.nodes p) i).sent.drop (σ.nodes p).sent.length }

inductive SysReach (c : SysCfg) : SysState → Prop
  | init : SysReach c (SysState.init c)
  | step {σ σ' : SysState} : SysReach c σ → SysStep c σ σ' → SysReach c σ'

/-- the abstract image of a node -/
def absNode (s : Node) : ANode :=
  { height := s.height, round := s.round,
    pvDone := decide (Step.prevote ≤ s.step), pcDone := decide (Step.precommit ≤ s.step),
    lockedRound := s.lockedRound, lockedBlock := s.lockedBlock.map (·.id), decided := s.decided }

end GnoVerif.C31
