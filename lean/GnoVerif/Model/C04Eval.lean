import GnoVerif.Model.C04Ast
/-!
C04 — MiniGo evaluator: fuelled big-step semantics.  Every function of the
mutual block recurses structurally on the fuel (each nested evaluation step,
loop iteration and call consumes one unit on its path), so the evaluator is a
total function; `Err.oof` is the out-of-fuel outcome.

Order of evaluation (Go spec + what GnoVM's op stack does; the generator keeps
programs inside the part where both are specified):
* operands left to right; a run-time panic stops evaluation at that operand;
* assignment: operands of the left side (including nested index / selector
  steps, with their panics) first, then the right side, then the store with
  the check of the LAST index / dereference step;
* `defer`: function value and arguments evaluated at the `defer` statement;
  deferred calls run LIFO at function exit, also while panicking; `recover()`
  returns the pending panic only when called directly by a deferred function.
* `for i := …` has a fresh `i` per iteration (Go ≥ 1.22; the GnoVM does the
  same: a closure capturing `i` sees the iteration's value).
-/
namespace GnoVerif.C04

inductive Ctl
  | norm | brk (l : Option String) | cont (l : Option String) | ret | fall | goto (l : String)
  deriving Repr, Inhabited, DecidableEq

structure Ctx where
  env : Env
  genv : Env
  /-- the frame is a deferred call started by `runDefers` -/
  cr : Bool
  /-- names of the current function's result cells -/
  results : List String
  deriving Inhabited

inductive Loc
  | cell (a : Nat) (path : List Nat)
  | arrElem (a : Nat) (path : List Nat) (i : Int) (n : Nat)
  | sliceElem (a : Option Nat) (off len : Nat) (i : Int)
  | mapSlot (vt : Ty) (m : Option Nat) (k : Val)
  | nilPtr
  | blank
  deriving Inhabited

def lookupVar (ctx : Ctx) (x : String) : Option Nat :=
  match ctx.env.lookup x with
  | some a => some a
  | none => ctx.genv.lookup x

/-- perform the pending check of a location (non-map) -/
def resolve : Loc → M (Nat × List Nat)
  | .cell a p => pure (a, p)
  | .arrElem a p i n => if 0 ≤ i ∧ i < n then pure (a, p ++ [i.toNat]) else rtPanic .index
  | .sliceElem a off len i =>
    if 0 ≤ i ∧ i < len then
      match a with
      | some a => pure (a, [off + i.toNat])
      | none => rtPanic .index
    else rtPanic .index
  | .nilPtr => rtPanic .nilderef
  | .mapSlot _ _ _ => stuck "map element is not addressable"
  | .blank => stuck "blank is not addressable"

def loadLoc (tt : TypeTable) : Loc → M Val
  | .mapSlot vt m k =>
    match m with
    | none => pure (zero tt zeroFuel vt)
    | some a => do
      let kvs ← readMap a
      pure ((mapLookup kvs k).getD (zero tt zeroFuel vt))
  | .blank => stuck "read of blank"
  | l => do
    let (a, p) ← resolve l
    readAt a p

def storeLoc : Loc → Val → M Unit
  | .mapSlot _ m k, v =>
    match m with
    | none => rtPanic .nilmap
    | some a => do
      let kvs ← readMap a
      writeCell a (.mapobj (mapSet kvs k v))
  | .blank, _ => pure ()
  | l, v => do
    let (a, p) ← resolve l
    writeAt a p v

/-- an outcome that does not depend on the store -/
def liftE {α} : Except Err α → M α
  | .ok a => pure a
  | .error e => throwE e

def rtE {α} (f : α → Val) : Except RtErr α → Except Err Val
  | .ok a => .ok (f a)
  | .error e => .error (.panic (.rt e))

/-- binary operators on values (store-independent; used by the evaluator and
by the constant folder) -/
def binopE (op : BinOp) (a b : Val) : Except Err Val :=
  match op, a, b with
  | .ar o, .int t x, .int t' y =>
    if t = t' then rtE (Val.int t) (arith t o x y) else .error (.stuck "mixed integer types")
  | .ar .add, .str x, .str y => .ok (.str (x ++ y))
  | .concat, .str x, .str y => .ok (.str (x ++ y))
  | .cmp o, .int t x, .int t' y =>
    if t = t' then .ok (.bool (cmpInt t o x y)) else .error (.stuck "mixed integer types")
  | .cmp o, .str x, .str y => .ok (.bool (cmpOrd o (cmpBytes x y)))
  | .cmp .eq, x, y => match valEq eqFuel x y with
    | some r => .ok (.bool r) | none => .error (.stuck "== on uncomparable values")
  | .cmp .ne, x, y => match valEq eqFuel x y with
    | some r => .ok (.bool !r) | none => .error (.stuck "!= on uncomparable values")
  | .shl, .int t x, .int tn n => rtE (Val.int t) (shift t true x tn n)
  | .shr, .int t x, .int tn n => rtE (Val.int t) (shift t false x tn n)
  | _, _, _ => .error (.stuck "bad operands")

def binop (op : BinOp) (a b : Val) : M Val := liftE (binopE op a b)

def unopE (op : UnOp) (a : Val) : Except Err Val :=
  match op, a with
  | .not, .bool b => .ok (.bool !b)
  | .neg, .int t x => .ok (.int t (unInt t .neg x))
  | .compl, .int t x => .ok (.int t (unInt t .compl x))
  | .pos, .int t x => .ok (.int t x)
  | _, _ => .error (.stuck "bad operand")

def unop (op : UnOp) (a : Val) : M Val := liftE (unopE op a)

/-! untyped constant expressions: exact integers; bitwise operators through a
two's-complement window far wider than any constant the generator emits -/
def cwin : Nat := 1024
def CExpr.eval : CExpr → Option Int
  | .lit v => some v
  | .bin op a b =>
    match a.eval, b.eval with
    | some x, some y =>
      match op with
      | .add => some (x + y) | .sub => some (x - y) | .mul => some (x * y)
      | .quo => if y == 0 then none else some (Int.tdiv x y)
      | .rem => if y == 0 then none else some (Int.tmod x y)
      | .and => some (BitVec.ofInt cwin x &&& BitVec.ofInt cwin y).toInt
      | .or => some (BitVec.ofInt cwin x ||| BitVec.ofInt cwin y).toInt
      | .xor => some (BitVec.ofInt cwin x ^^^ BitVec.ofInt cwin y).toInt
      | .andnot => some (BitVec.ofInt cwin x &&& ~~~(BitVec.ofInt cwin y)).toInt
    | _, _ => none
  | .shl a n => a.eval.map fun x => x * 2 ^ n
  | .shr a n => a.eval.map fun x => x / 2 ^ n          -- floor division = arithmetic shift
  | .neg a => a.eval.map fun x => -x
  | .compl a => a.eval.map fun x => -x - 1

def litVal : Lit → Val
  | .int t v => .int t v
  | .bool b => .bool b
  | .str s => .str s

def pvalToAny : PVal → Val
  | .user v => v
  | .rt e => .anyV .rterr (.str e.name.toUTF8.toList)

def bindCells : List String → List Val → Env → M Env
  | x :: xs, v :: vs, env => do
    let a ← alloc v
    bindCells xs vs (if x == "_" then env else (x, a) :: env)
  | [], [], env => pure env
  | _, _, _ => stuck "arity mismatch"

def findLabel (l : String) : List Stmt → Option (List Stmt)
  | [] => none
  | s :: rest =>
    match s with
    | .labeled l' _ => if l == l' then some (s :: rest) else findLabel l rest
    | _ => findLabel l rest

def labelMatches (own : Option String) (l : Option String) : Bool :=
  match l with
  | none => true
  | some x => own == some x

def strVals (s : List UInt8) : List Val := s.map fun b => .int .u8 b.toNat

/-- re-bind the per-iteration loop variables to fresh cells holding the current values -/
def freshen : List String → Env → M Env
  | [], env => pure env
  | x :: xs, env =>
    match env.lookup x with
    | some a => do
      let v ← readCell a
      let b ← alloc v
      freshen xs ((x, b) :: env)
    | none => freshen xs env

def popDefers : M (List DCall) := fun s =>
  match s.defers with
  | ds :: rest => .ok ds { s with defers := rest }
  | [] => .err (.stuck "defer stack underflow") s

def pushDefer (d : DCall) : M Unit := fun s =>
  match s.defers with
  | ds :: rest => .ok () { s with defers := (d :: ds) :: rest }
  | [] => .err (.stuck "defer outside a function") s

def tupleOf : List Val → Val
  | [v] => v
  | vs => .tuple vs

def untuple (n : Nat) (v : Val) : M (List Val) :=
  if n == 1 then pure [v]
  else match v with
    | .tuple vs => if vs.length == n then pure vs else stuck "tuple arity"
    | _ => stuck "tuple expected"

def typeMatches (xv : Val) : Option Ty → Bool
  | none => match xv with | .anyNil => true | _ => false
  | some t => match xv with | .anyV t' _ => t == t' | _ => false

variable (P : Program)

def topFunc (x : String) : Option Nat :=
  P.funcs.toList.findIdx? (fun d => d.name == x)

mutual

def evalE : Nat → Ctx → Expr → M Val
  | 0, _, _ => throwE .oof
  | n+1, ctx, e =>
    match e with
    | .lit l => pure (litVal l)
    | .cexpr t c =>
      match c.eval with
      | some v => if t.inRange v then pure (.int t v) else stuck "constant overflows"
      | none => stuck "constant division by zero"
    | .var x =>
      match lookupVar ctx x with
      | some a => readCell a
      | none => match topFunc P x with
        | some i => pure (.fn (some i) [])
        | none => stuck ("unbound " ++ x)
    | .bin op a b => do
      let x ← evalE n ctx a
      let y ← evalE n ctx b
      binop op x y
    | .land a b => do
      match (← evalE n ctx a) with
      | .bool false => pure (.bool false)
      | .bool true => evalE n ctx b
      | _ => stuck "&& operand"
    | .lor a b => do
      match (← evalE n ctx a) with
      | .bool true => pure (.bool true)
      | .bool false => evalE n ctx b
      | _ => stuck "|| operand"
    | .un op a => do
      let x ← evalE n ctx a
      unop op x
    | .conv to a => do
      let x ← evalE n ctx a
      convert P.types to x
    | .box t a => do
      let x ← evalE n ctx a
      match t with
      | .any => pure x
      | _ => pure (.anyV t x)
    | .call f args => do
      let fv ← evalE n ctx f
      let vs ← evalEs n ctx args
      let rs ← callFn n ctx.genv fv vs false
      pure (tupleOf rs)
    | .index k a i =>
      match k with
      | .arr => do
        let av ← evalE n ctx a
        let iv ← toIdx (← evalE n ctx i)
        match av with
        | .arr es => if 0 ≤ iv ∧ iv < es.length then pure (es.getD iv.toNat default) else rtPanic .index
        | _ => stuck "index of non-array"
      | .ptrArr => do
        let pv ← evalE n ctx a
        let iv ← toIdx (← evalE n ctx i)
        match pv with
        | .ptr none _ => rtPanic .nilderef
        | .ptr (some c) p => do
          match (← readAt c p) with
          | .arr es => if 0 ≤ iv ∧ iv < es.length then pure (es.getD iv.toNat default) else rtPanic .index
          | _ => stuck "index of non-array"
        | _ => stuck "index of non-pointer"
      | .slice => do
        let sv ← evalE n ctx a
        let iv ← toIdx (← evalE n ctx i)
        match sv with
        | .slice b off len _ => do
          let (c, p) ← resolve (.sliceElem b off len iv)
          readAt c p
        | _ => stuck "index of non-slice"
      | .str => do
        let sv ← evalE n ctx a
        let iv ← toIdx (← evalE n ctx i)
        match sv with
        | .str s => if 0 ≤ iv ∧ iv < s.length then pure (.int .u8 (s.getD iv.toNat 0).toNat) else rtPanic .index
        | _ => stuck "index of non-string"
      | .map => do
        let mv ← evalE n ctx a
        let kv ← evalE n ctx i
        match mv with
        | .map vt m => loadLoc P.types (.mapSlot vt m kv)
        | _ => stuck "index of non-map"
    | .indexOk a i => do
      let mv ← evalE n ctx a
      let kv ← evalE n ctx i
      match mv with
      | .map vt none => pure (.tuple [zero P.types zeroFuel vt, .bool false])
      | .map vt (some c) => do
        let kvs ← readMap c
        match mapLookup kvs kv with
        | some v => pure (.tuple [v, .bool true])
        | none => pure (.tuple [zero P.types zeroFuel vt, .bool false])
      | _ => stuck "index of non-map"
    | .sliceE k a lo hi mx => do
      match k with
      | .slice => do
        let sv ← evalE n ctx a
        let lo' ← evalOptIdx n ctx lo
        let hi' ← evalOptIdx n ctx hi
        let mx' ← evalOptIdx n ctx mx
        match sv with
        | .slice b off len cap => resliceSlice b off len cap (lo'.getD 0) (hi'.getD len) mx'
        | _ => stuck "slice of non-slice"
      | .str => do
        let sv ← evalE n ctx a
        let lo' ← evalOptIdx n ctx lo
        let hi' ← evalOptIdx n ctx hi
        match sv with
        | .str s => resliceStr s (lo'.getD 0) (hi'.getD s.length)
        | _ => stuck "slice of non-string"
      | .arr => do
        let l ← evalLoc n ctx a
        let (c, p) ← resolve l
        let lo' ← evalOptIdx n ctx lo
        let hi' ← evalOptIdx n ctx hi
        let mx' ← evalOptIdx n ctx mx
        match p, (← readAt c p) with
        | [], .arr es => resliceArr c es.length (lo'.getD 0) (hi'.getD es.length) mx'
        | _, _ => stuck "slice of an array that is not a whole variable"
      | .ptrArr => do
        let pv ← evalE n ctx a
        let lo' ← evalOptIdx n ctx lo
        let hi' ← evalOptIdx n ctx hi
        let mx' ← evalOptIdx n ctx mx
        match pv with
        | .ptr none _ => rtPanic .nilderef
        | .ptr (some c) [] => do
          match (← readCell c) with
          | .arr es => resliceArr c es.length (lo'.getD 0) (hi'.getD es.length) mx'
          | _ => stuck "slice of non-array"
        | _ => stuck "slice of an array that is not a whole variable"
      | .map => stuck "slice of map"
    | .field viaPtr a i => do
      let av ← evalE n ctx a
      if viaPtr then
        match av with
        | .ptr none _ => rtPanic .nilderef
        | .ptr (some c) p => readAt c (p ++ [i])
        | _ => stuck "selector on non-pointer"
      else
        match av with
        | .struct fs => match fs[i]? with
          | some v => pure v
          | none => stuck "no such field"
        | _ => stuck "selector on non-struct"
    | .deref a => do
      match (← evalE n ctx a) with
      | .ptr none _ => rtPanic .nilderef
      | .ptr (some c) p => readAt c p
      | _ => stuck "deref of non-pointer"
    | .addr a => do
      let l ← evalLoc n ctx a
      let (c, p) ← resolve l
      pure (.ptr (some c) p)
    | .newE t => do
      let c ← alloc (zero P.types zeroFuel t)
      pure (.ptr (some c) [])
    | .nilE t => pure (zero P.types zeroFuel t)
    | .structLit _ fs => do
      let vs ← evalEs n ctx fs
      pure (.struct vs)
    | .arrLit t k es => do
      let vs ← evalEs n ctx es
      pure (.arr (vs ++ List.replicate (k - vs.length) (zero P.types zeroFuel t)))
    | .sliceLit _ es => do
      let vs ← evalEs n ctx es
      let c ← alloc (.arr vs)
      pure (.slice (some c) 0 vs.length vs.length)
    | .mapLit _ vt kvs => do
      let ps ← evalKVs n ctx kvs
      let c ← alloc (.mapobj (ps.foldl (fun acc kv => mapSet acc kv.1 kv.2) []))
      pure (.map vt (some c))
    | .addrLit a => do
      let v ← evalE n ctx a
      let c ← alloc v
      pure (.ptr (some c) [])
    | .len a => do
      match (← evalE n ctx a) with
      | .str s => pure (.int .int s.length)
      | .slice _ _ len _ => pure (.int .int len)
      | .arr es => pure (.int .int es.length)
      | .map _ none => pure (.int .int 0)
      | .map _ (some c) => do
        let kvs ← readMap c
        pure (.int .int kvs.length)
      | _ => stuck "len"
    | .cap a => do
      match (← evalE n ctx a) with
      | .slice _ _ _ cap => pure (.int .int cap)
      | .arr es => pure (.int .int es.length)
      | _ => stuck "cap"
    | .append s xs => do
      let sv ← evalE n ctx s
      let vs ← evalEs n ctx xs
      appendVals sv vs
    | .appendSl s t => do
      let sv ← evalE n ctx s
      match (← evalE n ctx t) with
      | .slice b off len _ => do
        let vs ← sliceElems b off len
        appendVals sv vs
      | .str bs => appendVals sv (strVals bs)
      | _ => stuck "append spread"
    | .copy d s => do
      let dv ← evalE n ctx d
      match (← evalE n ctx s) with
      | .slice b off len _ => do
        let vs ← sliceElems b off len
        let k ← copyVals dv vs
        pure (.int .int k)
      | .str bs => do
        let k ← copyVals dv (strVals bs)
        pure (.int .int k)
      | _ => stuck "copy source"
    | .makeSlice t ln cp => do
      let lv ← toIdx (← evalE n ctx ln)
      let cv ← match cp with
        | some c => do let v ← toIdx (← evalE n ctx c); pure v
        | none => pure lv
      if lv < 0 ∨ cv < 0 ∨ cv < lv then rtPanic .makeslice
      else do
        let c ← alloc (.arr (List.replicate cv.toNat (zero P.types zeroFuel t)))
        pure (.slice (some c) 0 lv.toNat cv.toNat)
    | .makeMap _ vt => do
      let c ← alloc (.mapobj [])
      pure (.map vt (some c))
    | .funcLit id => pure (.fn (some id) ctx.env)
    | .recover =>
      if ctx.cr then fun s =>
        match s.pslot with
        | some p => .ok (pvalToAny p) { s with pslot := none }
        | none => .ok .anyNil s
      else pure .anyNil
    | .assert a t => do
      match (← evalE n ctx a) with
      | .anyV t' v => if t = t' then pure v else rtPanic .typeassert
      | .anyNil => rtPanic .typeassert
      | _ => stuck "type assertion on non-interface"
    | .assertOk a t => do
      match (← evalE n ctx a) with
      | .anyV t' v => if t = t' then pure (.tuple [v, .bool true])
                      else pure (.tuple [zero P.types zeroFuel t, .bool false])
      | .anyNil => pure (.tuple [zero P.types zeroFuel t, .bool false])
      | _ => stuck "type assertion on non-interface"

def evalOptIdx : Nat → Ctx → Option Expr → M (Option Int)
  | 0, _, _ => throwE .oof
  | _+1, _, none => pure none
  | n+1, ctx, some e => do
    let v ← toIdx (← evalE n ctx e)
    pure (some v)

def evalEs : Nat → Ctx → List Expr → M (List Val)
  | 0, _, _ => throwE .oof
  | _+1, _, [] => pure []
  | n+1, ctx, e :: es => do
    let v ← evalE n ctx e
    let vs ← evalEs n ctx es
    pure (v :: vs)

def evalKVs : Nat → Ctx → List (Expr × Expr) → M (List (Val × Val))
  | 0, _, _ => throwE .oof
  | _+1, _, [] => pure []
  | n+1, ctx, (k, v) :: es => do
    let kv ← evalE n ctx k
    let vv ← evalE n ctx v
    let rest ← evalKVs n ctx es
    pure ((kv, vv) :: rest)

def evalLoc : Nat → Ctx → Expr → M Loc
  | 0, _, _ => throwE .oof
  | n+1, ctx, e =>
    match e with
    | .var x =>
      if x == "_" then pure .blank
      else match lookupVar ctx x with
        | some a => pure (.cell a [])
        | none => stuck ("unbound " ++ x)
    | .index .arr a i => do
      let l ← evalLoc n ctx a
      let (c, p) ← resolve l
      let iv ← toIdx (← evalE n ctx i)
      match (← readAt c p) with
      | .arr es => pure (.arrElem c p iv es.length)
      | _ => stuck "index of non-array"
    | .index .ptrArr a i => do
      let pv ← evalE n ctx a
      let iv ← toIdx (← evalE n ctx i)
      match pv with
      | .ptr none _ => rtPanic .nilderef
      | .ptr (some c) p => do
        match (← readAt c p) with
        | .arr es => pure (.arrElem c p iv es.length)
        | _ => stuck "index of non-array"
      | _ => stuck "index of non-pointer"
    | .index .slice a i => do
      let sv ← evalE n ctx a
      let iv ← toIdx (← evalE n ctx i)
      match sv with
      | .slice b off len _ => pure (.sliceElem b off len iv)
      | _ => stuck "index of non-slice"
    | .index .map a i => do
      let mv ← evalE n ctx a
      let kv ← evalE n ctx i
      match mv with
      | .map vt m => pure (.mapSlot vt m kv)
      | _ => stuck "index of non-map"
    | .field false a i => do
      let l ← evalLoc n ctx a
      let (c, p) ← resolve l
      pure (.cell c (p ++ [i]))
    | .field true a i => do
      match (← evalE n ctx a) with
      | .ptr none _ => pure .nilPtr
      | .ptr (some c) p => pure (.cell c (p ++ [i]))
      | _ => stuck "selector on non-pointer"
    | .deref a => do
      match (← evalE n ctx a) with
      | .ptr none _ => pure .nilPtr
      | .ptr (some c) p => pure (.cell c p)
      | _ => stuck "deref of non-pointer"
    | _ => stuck "not an lvalue"

def evalLocs : Nat → Ctx → List Expr → M (List Loc)
  | 0, _, _ => throwE .oof
  | _+1, _, [] => pure []
  | n+1, ctx, e :: es => do
    let l ← evalLoc n ctx e
    let ls ← evalLocs n ctx es
    pure (l :: ls)

/-- call a function value; `cr` = it is a deferred call run while unwinding -/
def callFn : Nat → Env → Val → List Val → Bool → M (List Val)
  | 0, _, _, _, _ => throwE .oof
  | n+1, genv, f, args, cr =>
    match f with
    | .fn none _ => rtPanic .nilfunc
    | .fn (some id) env =>
      match P.funcs[id]? with
      | none => stuck "no such function"
      | some d => do
        let env1 ← bindCells (d.params.map (·.1)) args env
        let env2 ← bindCells (d.results.map (·.1)) (d.results.map fun r => zero P.types zeroFuel r.2) env1
        modifySt fun s => { s with defers := [] :: s.defers }
        let ctx : Ctx := { env := env2, genv := genv, cr := cr, results := d.results.map (·.1) }
        let finish : Option PVal → M (List Val) := fun pend => do
          let ds ← popDefers
          let pend' ← runDefers n genv ds pend
          match pend' with
          | some p => throwE (.panic p)
          | none =>
            (d.results.map (·.1)).mapM fun r =>
              match env2.lookup r with
              | some a => readCell a
              | none => stuck "result cell"
        fun s =>
          match execL n ctx d.body d.body s with
          | .ok _ s1 => finish none s1
          | .err (.panic p) s1 => finish (some p) s1
          | .err e s1 => .err e s1
    | _ => stuck "call of non-function"

def runDefers : Nat → Env → List DCall → Option PVal → M (Option PVal)
  | 0, _, _, _ => throwE .oof
  | _+1, _, [], pend => pure pend
  | n+1, genv, d :: rest, pend => fun s =>
    let saved := s.pslot
    match callFn n genv d.fn d.args true { s with pslot := pend } with
    | .ok _ s2 => runDefers n genv rest s2.pslot { s2 with pslot := saved }
    | .err (.panic p) s2 => runDefers n genv rest (some p) { s2 with pslot := saved }
    | .err e s2 => .err e s2

/-- statement list of one block; `all` is the whole list (for `goto`) -/
def execL : Nat → Ctx → List Stmt → List Stmt → M (Ctl × Env)
  | 0, _, _, _ => throwE .oof
  | _+1, ctx, _, [] => pure (.norm, ctx.env)
  | n+1, ctx, all, s :: rest => do
    let (c, env') ← execS n ctx s
    match c with
    | .norm => execL n { ctx with env := env' } all rest
    | .goto l =>
      match findLabel l all with
      | some suffix => execL n { ctx with env := env' } all suffix
      | none => pure (c, env')
    | _ => pure (c, env')

/-- a nested block: bindings made inside are dropped at the end -/
def execBlock : Nat → Ctx → List Stmt → M Ctl
  | 0, _, _ => throwE .oof
  | n+1, ctx, ss => do
    let (c, _) ← execL n ctx ss ss
    pure c

def execS : Nat → Ctx → Stmt → M (Ctl × Env)
  | 0, _, _ => throwE .oof
  | n+1, ctx, s =>
    match s with
    | .varDecl x t e => do
      let v ← match e with
        | some e => evalE n ctx e
        | none => pure (zero P.types zeroFuel t)
      let env ← bindCells [x] [v] ctx.env
      pure (.norm, env)
    | .define xs e => do
      let v ← evalE n ctx e
      let vs ← untuple xs.length v
      let env ← bindCells xs vs ctx.env
      pure (.norm, env)
    | .assign lvs es => do
      let ls ← evalLocs n ctx lvs
      let vs ← (match es with
        | [e] => do let v ← evalE n ctx e; untuple lvs.length v
        | _ => evalEs n ctx es)
      if ls.length != vs.length then stuck "assignment arity"
      else do
        let _ ← (ls.zip vs).mapM fun lv => storeLoc lv.1 lv.2
        pure (.norm, ctx.env)
    | .opAssign op lv e => do
      let l ← evalLoc n ctx lv
      let v ← evalE n ctx e
      let old ← loadLoc P.types l
      let nv ← binop op old v
      storeLoc l nv
      pure (.norm, ctx.env)
    | .incDec inc lv => do
      let l ← evalLoc n ctx lv
      let old ← loadLoc P.types l
      match old with
      | .int t x => do
        let r ← liftRt (arith t (if inc then .add else .sub) x 1)
        storeLoc l (.int t r)
        pure (.norm, ctx.env)
      | _ => stuck "++ on non-integer"
    | .exprS e => do
      let _ ← evalE n ctx e
      pure (.norm, ctx.env)
    | .print es => do
      let vs ← evalEs n ctx es
      printLine vs
      pure (.norm, ctx.env)
    | .deleteS m k => do
      let mv ← evalE n ctx m
      let kv ← evalE n ctx k
      match mv with
      | .map _ none => pure (.norm, ctx.env)
      | .map _ (some c) => do
        let kvs ← readMap c
        writeCell c (.mapobj (mapDel kvs kv))
        pure (.norm, ctx.env)
      | _ => stuck "delete on non-map"
    | .ifS init c th el => do
      let env1 ← match init with
        | some i => do let (_, e1) ← execS n ctx i; pure e1
        | none => pure ctx.env
      let ctx1 := { ctx with env := env1 }
      match (← evalE n ctx1 c) with
      | .bool true => do let r ← execBlock n ctx1 th; pure (r, ctx.env)
      | .bool false => do let r ← execBlock n ctx1 el; pure (r, ctx.env)
      | _ => stuck "if condition"
    | .forS label init cond post body => do
      let env1 ← match init with
        | some i => do let (_, e1) ← execS n ctx i; pure e1
        | none => pure ctx.env
      let vars := match init with
        | some (.define xs _) => xs
        | _ => []
      let c ← loopFor n { ctx with env := env1 } label vars cond post body
      pure (c, ctx.env)
    | .rangeS label kind k v e body => do
      let ev ← evalE n ctx e
      let c ← match kind, ev with
        | .slice, .slice b off len _ => loopRangeSl n ctx label k v b off len 0 body
        | .arr, .arr es => loopRangeL n ctx label k v ((List.range es.length).map (fun (i : Nat) => Val.int .int (Int.ofNat i))) es body
        | .str, .str s =>
          let rs := decodeAll s.length 0 s
          loopRangeL n ctx label k v (rs.map fun p => Val.int .int p.1) (rs.map fun p => Val.int .i32 p.2) body
        | _, _ => stuck "range operand"
      pure (c, ctx.env)
    | .switchS label init tag clauses => do
      let env1 ← match init with
        | some i => do let (_, e1) ← execS n ctx i; pure e1
        | none => pure ctx.env
      let ctx1 := { ctx with env := env1 }
      let tv ← match tag with
        | some t => evalE n ctx1 t
        | none => pure (.bool true)
      let idx ← findClause n ctx1 tv clauses 0
      let start := match idx with
        | some i => some i
        | none => clauses.findIdx? (fun (c : Option (List Expr) × List Stmt) => c.1.isNone)
      match start with
      | none => pure (.norm, ctx.env)
      | some i => do
        let c ← runClauses n ctx1 ((clauses.drop i).map (fun (c : Option (List Expr) × List Stmt) => c.2))
        match c with
        | .brk l => if labelMatches label l then pure (.norm, ctx.env) else pure (c, ctx.env)
        | .fall => pure (.norm, ctx.env)
        | _ => pure (c, ctx.env)
    | .typeSwitch label bind x clauses => do
      let xv ← evalE n ctx x
      let pick := clauses.find? fun (c : Option (List (Option Ty)) × List Stmt) => match c.1 with
        | some tys => tys.any (typeMatches xv)
        | none => false
      let chosen := match pick with
        | some c => some c
        | none => clauses.find? (fun (c : Option (List (Option Ty)) × List Stmt) => c.1.isNone)
      match chosen with
      | none => pure (.norm, ctx.env)
      | some (tys, body) => do
        let bv := match tys, xv with
          | some [some _], .anyV _ v => v
          | _, _ => xv
        let env1 ← match bind with
          | some b => bindCells [b] [bv] ctx.env
          | none => pure ctx.env
        let c ← execBlock n { ctx with env := env1 } body
        match c with
        | .brk l => if labelMatches label l then pure (.norm, ctx.env) else pure (c, ctx.env)
        | _ => pure (c, ctx.env)
    | .block ss => do
      let c ← execBlock n ctx ss
      pure (c, ctx.env)
    | .labeled _ s => execS n ctx s
    | .breakS l => pure (.brk l, ctx.env)
    | .continueS l => pure (.cont l, ctx.env)
    | .gotoS l => pure (.goto l, ctx.env)
    | .fallthroughS => pure (.fall, ctx.env)
    | .ret es => do
      match es with
      | [] => pure (.ret, ctx.env)
      | _ => do
        let vs ← (match es with
          | [e] => do let v ← evalE n ctx e; untuple ctx.results.length v
          | _ => evalEs n ctx es)
        if vs.length != ctx.results.length then stuck "return arity"
        else do
          let _ ← (ctx.results.zip vs).mapM fun rv =>
            match ctx.env.lookup rv.1 with
            | some a => writeCell a rv.2
            | none => stuck "result cell"
          pure (.ret, ctx.env)
    | .deferS f args => do
      let fv ← evalE n ctx f
      let vs ← evalEs n ctx args
      pushDefer { fn := fv, args := vs }
      pure (.norm, ctx.env)
    | .panicS e => do
      let v ← evalE n ctx e
      throwE (.panic (.user v))

def loopFor : Nat → Ctx → Option String → List String → Option Expr → Option Stmt → List Stmt → M Ctl
  | 0, _, _, _, _, _, _ => throwE .oof
  | n+1, ctx, label, vars, cond, post, body => do
    let go ← match cond with
      | some c => do
        match (← evalE n ctx c) with
        | .bool b => pure b
        | _ => stuck "for condition"
      | none => pure true
    if !go then pure .norm
    else do
      let c ← execBlock n ctx body
      let continue_ : Bool := match c with
        | .norm => true
        | .cont l => labelMatches label l
        | _ => false
      if continue_ then do
        let env' ← freshen vars ctx.env
        let ctx' := { ctx with env := env' }
        match post with
        | some p => do let _ ← execS n ctx' p; pure ()
        | none => pure ()
        loopFor n ctx' label vars cond post body
      else match c with
        | .brk l => if labelMatches label l then pure .norm else pure c
        | _ => pure c

/-- range over a slice: the header is fixed, elements are read at each iteration -/
def loopRangeSl : Nat → Ctx → Option String → Option String → Option String →
    Option Nat → Nat → Nat → Nat → List Stmt → M Ctl
  | 0, _, _, _, _, _, _, _, _, _ => throwE .oof
  | n+1, ctx, label, k, v, b, off, len, i, body =>
    if i ≥ len then pure .norm
    else do
      let ev ← match b with
        | some c => readAt c [off + i]
        | none => stuck "nil slice element"
      let env1 ← bindCells [k.getD "_", v.getD "_"] [.int .int i, ev] ctx.env
      let c ← execBlock n { ctx with env := env1 } body
      match c with
      | .norm => loopRangeSl n ctx label k v b off len (i + 1) body
      | .cont l => if labelMatches label l then loopRangeSl n ctx label k v b off len (i + 1) body else pure c
      | .brk l => if labelMatches label l then pure .norm else pure c
      | _ => pure c

/-- range over precomputed (key, value) lists (array copy, string runes) -/
def loopRangeL : Nat → Ctx → Option String → Option String → Option String →
    List Val → List Val → List Stmt → M Ctl
  | 0, _, _, _, _, _, _, _ => throwE .oof
  | n+1, ctx, label, k, v, kv :: ks, vv :: vs, body => do
    let env1 ← bindCells [k.getD "_", v.getD "_"] [kv, vv] ctx.env
    let c ← execBlock n { ctx with env := env1 } body
    match c with
    | .norm => loopRangeL n ctx label k v ks vs body
    | .cont l => if labelMatches label l then loopRangeL n ctx label k v ks vs body else pure c
    | .brk l => if labelMatches label l then pure .norm else pure c
    | _ => pure c
  | _+1, _, _, _, _, _, _, _ => pure .norm

/-- index of the first clause one of whose expressions equals the tag -/
def findClause : Nat → Ctx → Val → List (Option (List Expr) × List Stmt) → Nat → M (Option Nat)
  | 0, _, _, _, _ => throwE .oof
  | _+1, _, _, [], _ => pure none
  | n+1, ctx, tv, (ces, _) :: rest, i => do
    let hit ← match ces with
      | some es => anyEq n ctx tv es
      | none => pure false
    if hit then pure (some i) else findClause n ctx tv rest (i + 1)

def anyEq : Nat → Ctx → Val → List Expr → M Bool
  | 0, _, _, _ => throwE .oof
  | _+1, _, _, [] => pure false
  | n+1, ctx, tv, e :: es => do
    let v ← evalE n ctx e
    match valEq eqFuel tv v with
    | some true => pure true
    | some false => anyEq n ctx tv es
    | none => stuck "switch on uncomparable values"

/-- run clause bodies from the selected one, following `fallthrough` -/
def runClauses : Nat → Ctx → List (List Stmt) → M Ctl
  | 0, _, _ => throwE .oof
  | _+1, _, [] => pure .norm
  | n+1, ctx, b :: rest => do
    let c ← execBlock n ctx b
    match c with
    | .fall => runClauses n ctx rest
    | _ => pure c

end

/-- outcome of a whole program -/
inductive Outcome
  | ok | panic (p : PVal) | oof | stuck (msg : String)
  deriving Repr, Inhabited

def initGlobals : Nat → Ctx → List (String × Ty × Option Expr) → M Unit
  | _, _, [] => pure ()
  | fuel, ctx, (x, _, e) :: rest => do
    match e with
    | some e => do
      let v ← evalE P fuel ctx e
      match ctx.genv.lookup x with
      | some a => writeCell a v
      | none => stuck "global cell"
    | none => pure ()
    initGlobals fuel ctx rest

def runProgram (fuel : Nat) : Outcome × Array String :=
  let m : M Unit := do
    let genv ← bindCells (P.globals.map (·.1)) (P.globals.map fun g => zero P.types zeroFuel g.2.1) []
    let ctx : Ctx := { env := [], genv := genv, cr := false, results := [] }
    initGlobals P fuel ctx P.globals
    let _ ← callFn P fuel genv (.fn (some P.entry) []) [] false
    pure ()
  match m {} with
  | .ok _ s => (.ok, s.out)
  | .err (.panic p) s => (.panic p, s.out)
  | .err .oof s => (.oof, s.out)
  | .err (.stuck msg) s => (.stuck msg, s.out)

end GnoVerif.C04
