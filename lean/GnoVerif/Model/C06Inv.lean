import GnoVerif.Model.C06Machine
/-
C06 — the property statement as an executable predicate on a model state
(the persisted view between transactions): one decidable clause per clause of
the statement, and `verdict`, which names the first clause that fails in the
same visiting order as the harness oracle (objects in id order; dangling
references first, then per object ref-count and owner, then reachability).

The package block stands for the package: the two references it receives
from the PackageValue and from the file block are outside the model heap
(`pinned`).
-/
namespace GnoVerif.C06
open State

/-- present in the store -/
def live (s : State) (a : Nat) : Bool := decide (a < s.heap.length) && !(s.get a).dead

def liveAddrs (s : State) : List Nat := (List.range s.heap.length).filter (live s)

/-- number of persisted references to `a` -/
def refsTo (s : State) (a : Nat) : Nat :=
  ((liveAddrs s).map fun p => (s.get p).kids.count (some a)).sum

/-- references from outside the model heap (PackageValue.Block and the file block's Parent) -/
def pinned (o : Obj) : Int := if o.kind = .block then 2 else 0

def holds (s : State) (p a : Nat) : Bool := live s p && (s.get p).kids.contains (some a)

/-! ### clauses -/

def refCountOK (s : State) (a : Nat) : Bool := (s.get a).rc == (refsTo s a : Int) + pinned (s.get a)

def single (o : Obj) : Bool := o.rc == 1 && !o.escaped

/-- an owner is recorded exactly when singly referenced and never escaped -/
def ownerIffOK (s : State) (a : Nat) : Bool := (s.get a).owner.isSome == single (s.get a)

/-- … and that owner holds the reference -/
def ownerHoldsOK (s : State) (a : Nat) : Bool :=
  match (s.get a).owner with
  | some p => !single (s.get a) || holds s p a
  | none => true

def noDanglingOK (s : State) (a : Nat) : Bool := (s.children a).all (live s)

/-- one breadth-first step closure with fuel -/
def reachFrom : Nat → State → List Nat → List Nat → List Nat
  | 0, _, _, seen => seen
  | fuel + 1, s, frontier, seen =>
    let next := (frontier.flatMap (s.children ·)).eraseDups.filter fun c => !seen.contains c
    if next.isEmpty then seen else reachFrom fuel s next (seen ++ next)

def reachable (s : State) (roots : List Nat) : List Nat :=
  reachFrom s.heap.length s roots roots

/-- `a` lies on a reference cycle -/
def onCycle (s : State) (a : Nat) : Bool :=
  let kids := (s.children a).eraseDups
  kids.contains a || (reachable s kids).contains a

/-- reachable from a package, or kept alive by a reference cycle -/
def aliveSet (s : State) : List Nat :=
  let la := liveAddrs s
  let roots := la.filter fun a => (s.get a).kind == .block
  let cyc := la.filter (onCycle s)
  reachable s (roots ++ cyc).eraseDups

inductive Viol where
  | dangling | refcount | ownerMissing | ownerOnEscaped | ownerExtra | ownerStale | unreachable
  deriving DecidableEq, Repr

def Viol.str : Viol → String
  | .dangling => "dangling" | .refcount => "refcount" | .ownerMissing => "owner-missing"
  | .ownerOnEscaped => "owner-on-escaped" | .ownerExtra => "owner-extra" | .ownerStale => "owner-stale" | .unreachable => "unreachable"

/-- insertion sort (structural, so that the kernel can evaluate `verdict`) -/
def insertSorted (le : Nat → Nat → Bool) (a : Nat) : List Nat → List Nat
  | [] => [a]
  | b :: bs => if le a b then a :: b :: bs else b :: insertSorted le a bs

def sortBy (le : Nat → Nat → Bool) (l : List Nat) : List Nat := l.foldr (insertSorted le) []

/-- live addresses in id order: realm, then NewTime -/
def idOrder (s : State) : List Nat :=
  sortBy (fun a b =>
    let x := s.get a
    let y := s.get b
    x.pkg < y.pkg || (x.pkg == y.pkg && x.time ≤ y.time)) (liveAddrs s)

def objViol (s : State) (a : Nat) : Option Viol :=
  let o := s.get a
  if !refCountOK s a then some .refcount
  else if single o && o.owner.isNone then some .ownerMissing
  else if !single o && o.owner.isSome then (if o.rc == 1 then some .ownerOnEscaped else some .ownerExtra)
  else if !ownerHoldsOK s a then some .ownerStale
  else none

def verdict (s : State) : Option Viol :=
  let ids := idOrder s
  if ids.any fun a => !noDanglingOK s a then some .dangling
  else match ids.findSome? (objViol s) with
    | some v => some v
    | none =>
      let alive := aliveSet s
      if ids.any fun a => !alive.contains a then some .unreachable else none

/-- the statement of C06 on one persisted state -/
def Inv (s : State) : Prop := verdict s = none

instance (s : State) : Decidable (Inv s) := inferInstanceAs (Decidable (verdict s = none))

end GnoVerif.C06
