/-
Model for C15: the auth ante handler and the part of `BaseApp.runTx` that
decides whether a transaction's writes reach the deliver state.

Read line by line (unchanged tree):
* `tm2/pkg/sdk/auth/ante.go`   `NewAnteHandler` (l.42-302), `ValidateSigCount`
  (l.315), `ValidateMemo` (l.332), `DeductFees` (l.392), `GetSignerAcc` (l.306);
* `tm2/pkg/sdk/auth/spend.go`  `CheckSessionSpend`, `DeductSessionSpend`;
* `tm2/pkg/sdk/auth/handler.go` `handleMsgCreateSession/RevokeSession/RevokeAllSessions`;
* `tm2/pkg/sdk/auth/keeper.go` `NewAccountWithAddress`, `GetNextAccountNumber`,
  `NewSessionAccount`, `Set/Get/RemoveSessionAccount`;
* `tm2/pkg/std/tx.go`          `Tx.ValidateBasic`, `GetSigners` (first-occurrence
  de-duplication), `GetSignBytes`;
* `tm2/pkg/sdk/baseapp.go`     `runTx` (l.773-993): one cache wrap for ante+msgs;
  ante abort ⇒ `return result` before any `MultiWrite` (l.914-916); msgs fail ⇒
  `WriteCheckpoint` (ante writes only); success ⇒ `MultiWrite`;
* `tm2/pkg/sdk/bank/keeper.go` `SendCoinsUnrestricted` = `subtract` + `AddCoins`
  (`ensureAccount` creates the recipient with a fresh account number).

Quirks mirrored on purpose:
* fees are deducted (phase 2) BEFORE signatures are verified (phase 3); only the
  dropped cache makes a bad signature free of charge;
* `signerAccs[i]` are snapshots taken in phase 1; only `signerAccs[0]` is
  reloaded after the fee transfer; phase 3 writes the snapshots back;
* a session signature is checked against the SESSION account's number and
  sequence, and only that sequence advances (the master's does not);
* with both `sig.PubKey` and a stored key present they must be equal, else
  `unauthorized`; a first-time key of a master account must hash to the signer
  address (`invalidPubKey`), a session's need not;
* at height 0 the sign doc uses account number 0 and sequence 0, and with
  `VerifyGenesisSignatures = false` phase 3 is skipped entirely (no sequence
  increment either);
* the sig-gas consumer runs before verification: an unrecognised key type is
  `invalidPubKey`, a panic inside it (undecodable multisignature, index out of
  range) surfaces as `internal` through `runTx`'s recover;
* the fee collector account is created on first credit and consumes an account
  number.

Abstractions (named in props/C15.json):
* cryptography is a parameter (`Crypto`): `addrOf`, `signBytes`, `verify`,
  `sigGas`, `subKeys`; theorems are for every instance;
* gas: only the first charge (`txSize`) is modelled: at height > 0 a tx whose
  `gasWanted < smallGas` runs out of gas there, otherwise gas is assumed
  sufficient (the harness uses `gasWanted < 500` or `≥ 10^10`); block gas is
  not modelled (MaxGas is huge or −1);
* balances: one account-tier denom (`ugnot`, kept in the account object) and
  "another denom nobody holds"; amounts are naturals (harness keeps < 2^62);
* sequences are naturals (no uint64 wrap);
* `MaxSessionsPerAccount` is not modelled (the harness ring has < 16 keys);
* CheckTx / Simulate modes and `GenesisReplayKey` are not modelled.
Core-only (no Mathlib).
-/
namespace GnoVerif.C15

abbrev Addr := Nat

/-- `std.BaseAccount` (coins = the account-tier gas denom only). -/
structure Account (π : Type) where
  accNum : Nat
  seq : Nat
  pubKey : Option π
  coins : Nat

/-- `std.BaseSessionAccount`; `limit = none` is the empty SpendLimit,
    `some L` is `L ugnot`; `used` is SpendUsed in ugnot. -/
structure Session (π : Type) where
  accNum : Nat
  seq : Nat
  pubKey : Option π
  expiresAt : Int
  limit : Option Nat
  period : Int
  used : Nat
  reset : Int

structure State (π : Type) where
  accounts : Addr → Option (Account π)          -- /a/<addr>
  sessions : Addr → Addr → Option (Session π)   -- /a/<master>/s/<session>
  nextAccNum : Nat                              -- globalAccountNumber
  notes : Nat → Nat                             -- effect counters of the test message
  height : Nat
  time : Int

def upd {α : Type} (f : Addr → α) (a : Addr) (v : α) : Addr → α :=
  fun x => if x = a then v else f x

def upd2 {α : Type} (f : Addr → Addr → α) (a b : Addr) (v : α) : Addr → Addr → α :=
  fun x y => if x = a ∧ y = b then v else f x y

/-- `tx.Fee.GasFee` as it arrives on the wire: the empty coin (a zero amount
    marshals to ""), or `amt` of the gas denom / of another denom. -/
inductive Fee where
  | empty
  | coin (gas : Bool) (amt : Nat)
  deriving DecidableEq, Repr

inductive Msg (π : Type) where
  | note (signers : List Addr) (tag : Nat) (fail : Bool)
  | createSession (creator : Addr) (key : π) (expiresAt : Int) (limit : Option Nat) (period : Int)
  | revokeSession (creator : Addr) (key : π)
  | revokeAll (creator : Addr)
  deriving DecidableEq, Repr

/-- What the signers sign besides chain id, account number and sequence. -/
structure Body (π : Type) where
  msgs : List (Msg π)
  gasWanted : Int
  fee : Fee
  memo : Nat × Nat          -- identity of the memo string
  deriving DecidableEq, Repr

/-- `std.SignDoc`. -/
structure SignDoc (π : Type) where
  chain : Nat
  accNum : Nat
  seq : Nat
  body : Body π
  deriving DecidableEq, Repr

/-- `std.Signature`. -/
structure Sig (π σ : Type) where
  pubKey : Option π
  sig : σ
  session : Option Addr     -- SessionAddr (none = zero address)

structure Tx (π σ : Type) where
  msgs : List (Msg π)
  gasWanted : Int
  fee : Fee
  sigs : List (Sig π σ)
  memo : Nat × Nat
  memoLen : Nat

/-- A zero coin and the empty coin both marshal to "" in the sign doc. -/
def Fee.norm : Fee → Fee
  | .coin _ 0 => .empty
  | f => f

def Tx.body {π σ : Type} (tx : Tx π σ) : Body π :=
  { msgs := tx.msgs, gasWanted := tx.gasWanted, fee := tx.fee.norm, memo := tx.memo }

inductive GasRes where
  | ok | invalidPubKey | panic
  deriving DecidableEq, Repr

/-- The cryptographic primitives the ante relies on, as parameters.
    `β` is the type of sign bytes. -/
structure Crypto (π σ β : Type) where
  addrOf : π → Addr                 -- PubKey.Address()
  signBytes : SignDoc π → β         -- std.GetSignaturePayload
  verify : π → β → σ → Bool         -- PubKey.VerifyBytes
  sigGas : π → σ → GasRes           -- DefaultSigVerificationGasConsumer
  subKeys : π → Nat                 -- std.CountSubKeys

structure Config where
  chain : Nat
  collector : Addr
  maxGas : Int            -- consensus Block.MaxGas
  sigLimit : Nat          -- params.TxSigLimit
  maxMemo : Nat           -- params.MaxMemoBytes
  verifyGenesis : Bool    -- AnteOptions.VerifyGenesisSignatures
  smallGas : Int          -- below this the txSize charge runs out of gas
  deriving DecidableEq, Repr

inductive Err where
  | unknownRequest | invalidGasWanted | tooManySigs | gasOverflow | insufficientFee
  | noSignatures | unauthorized | outOfGas | memoTooLarge | unknownAddress
  | sessionExpired | sessionNotAllowed | insufficientFunds | invalidPubKey
  | internal | sessionNotFound
  deriving DecidableEq, Repr

/-- `rejected`: ante abort, nothing written. `failed`: a message failed, only the
    ante's writes are kept. -/
inductive Res where
  | ok
  | rejected (e : Err)
  | failed (e : Err)
  deriving DecidableEq, Repr

def maxGasWanted : Int := 2 ^ 60 - 1
def maxSessionDuration : Int := 4 * 365 * 24 * 60 * 60
def maxSpendPeriod : Int := 30 * 24 * 60 * 60

/-! ### signers -/

def Msg.signers {π : Type} : Msg π → List Addr
  | .note ss _ _ => ss
  | .createSession c _ _ _ _ => [c]
  | .revokeSession c _ => [c]
  | .revokeAll c => [c]

/-- `Tx.GetSigners`: accumulate in order, omitting addresses already seen.
    `acc` is the reversed result so far. -/
def dedupAux : List Addr → List Addr → List Addr
  | [], acc => acc.reverse
  | a :: r, acc => if a ∈ acc then dedupAux r acc else dedupAux r (a :: acc)

def signersOf {π : Type} (msgs : List (Msg π)) : List Addr :=
  dedupAux (msgs.flatMap Msg.signers) []

/-! ### checks before phase 1 -/

/-- `ValidateSigCount`: the running sum of `CountSubKeys` exceeds the limit. -/
def sigCountExceeds {π σ β : Type} (cr : Crypto π σ β) (limit : Nat) : List (Sig π σ) → Nat → Bool
  | [], _ => false
  | g :: gs, acc =>
    let c := acc + (match g.pubKey with | none => 1 | some p => cr.subKeys p)
    if c > limit then true else sigCountExceeds cr limit gs c

def Fee.isValid : Fee → Bool
  | .empty => false
  | .coin _ _ => true

def Fee.amount : Fee → Nat
  | .empty => 0
  | .coin _ a => a

def Fee.gas : Fee → Bool
  | .empty => false
  | .coin g _ => g

/-! ### phase 1 -/

structure Resolved (π : Type) where
  addr : Addr
  acc : Account π
  sess : Option (Addr × Session π)

def resolveOne {π σ : Type} (s : State π) (a : Addr) (g : Sig π σ) : Except Err (Resolved π) :=
  match s.accounts a with
  | none => .error .unknownAddress
  | some acc =>
    match g.session with
    | none => .ok ⟨a, acc, none⟩
    | some sa =>
      match s.sessions a sa with
      | none => .error .unauthorized                         -- "unknown session"
      | some ss =>
        if ss.expiresAt > 0 ∧ s.time ≥ ss.expiresAt then .error .sessionExpired
        else .ok ⟨a, acc, some (sa, ss)⟩

def resolveAll {π σ : Type} (s : State π) : List Addr → List (Sig π σ) → Except Err (List (Resolved π))
  | a :: as, g :: gs =>
    match resolveOne s a g with
    | .error e => .error e
    | .ok r =>
      match resolveAll s as gs with
      | .error e => .error e
      | .ok rs => .ok (r :: rs)
  | _, _ => .ok []

/-! ### phase 2 -/

def Session.periodOver {π : Type} (ss : Session π) (now : Int) : Bool :=
  decide (ss.period > 0 ∧ now ≥ ss.reset + ss.period)

/-- `CheckSessionSpend` for `amt` of one denom (`gas` = it is ugnot); true = allowed. -/
def checkSessionSpend {π : Type} (ss : Session π) (gas : Bool) (amt : Nat) (now : Int) : Bool :=
  if amt = 0 then true else
  match ss.limit with
  | none => false
  | some L => gas && decide ((if ss.periodOver now then 0 else ss.used) + amt ≤ L)

/-- `DeductSessionSpend`; `none` = error. -/
def deductSessionSpend {π : Type} (ss : Session π) (gas : Bool) (amt : Nat) (now : Int) : Option (Session π) :=
  if amt = 0 then some ss else
  match ss.limit with
  | none => none
  | some L =>
    -- an elapsed period first resets SpendUsed / SpendReset (in memory)
    if gas && decide ((if ss.periodOver now then 0 else ss.used) + amt ≤ L) then
      some { ss with used := (if ss.periodOver now then 0 else ss.used) + amt,
                     reset := if ss.periodOver now then now else ss.reset }
    else none

/-- `bank.AddCoins` of the gas denom: `ensureAccount`, then add. -/
def credit {π : Type} (s : State π) (a : Addr) (amt : Nat) : State π :=
  match s.accounts a with
  | some acc => { s with accounts := upd s.accounts a (some { acc with coins := acc.coins + amt }) }
  | none =>
    let acc : Account π := ⟨s.nextAccNum, 0, none, amt⟩
    { s with accounts := upd s.accounts a (some acc), nextAccNum := s.nextAccNum + 1 }

/-- `DeductFees` for a non-zero fee. -/
def deductFees {π : Type} (cfg : Config) (s : State π) (payer : Addr) (gas : Bool) (amt : Nat) :
    Except Err (State π) :=
  match s.accounts payer with
  | none => .error .insufficientFunds
  | some a =>
    let bal := if gas then a.coins else 0                       -- bank.GetCoin
    if bal < amt then .error .insufficientFunds else
    let s1 := { s with accounts := upd s.accounts payer (some { a with coins := a.coins - amt }) }
    .ok (credit s1 cfg.collector amt)

/-- Phase 2 (2a pre-check, 2b deduction, reload of `signerAccs[0]`): the new
    state and the updated first resolved signer. -/
def phase2 {π σ : Type} (cfg : Config) (s : State π) (tx : Tx π σ) (r0 : Resolved π) :
    Except Err (State π × Resolved π) :=
  let amt := tx.fee.amount
  let gas := tx.fee.gas
  -- 2a
  match (match r0.sess with
         | some (_, ss) => if checkSessionSpend ss gas amt s.time then none else some Err.sessionNotAllowed
         | none => none) with
  | some e => .error e
  | none =>
  -- 2b
  if amt = 0 then .ok (s, r0) else
  match (match r0.sess with
         | some (sa, ss) =>
           match deductSessionSpend ss gas amt s.time with
           | none => Except.error Err.sessionNotAllowed
           | some ss' => Except.ok (some (sa, ss'))
         | none => Except.ok none) with
  | .error e => .error e
  | .ok sess' =>
    match deductFees cfg s r0.addr gas amt with
    | .error e => .error e
    | .ok s1 =>
      match s1.accounts r0.addr with
      | none => .error .internal        -- unreachable: the payer was just written
      | some acc' => .ok (s1, { r0 with acc := acc', sess := sess' })

/-! ### phase 3 -/

/-- Which key verifies and what is stored afterwards. -/
def resolvePubKey {π σ β : Type} [DecidableEq π] (cr : Crypto π σ β) (isSession : Bool) (addr : Addr)
    (stored given : Option π) : Except Err π :=
  match given, stored with
  | none, none => .error .invalidPubKey                       -- "PubKey not found"
  | none, some p => .ok p
  | some g, none =>
    if !isSession && decide (cr.addrOf g ≠ addr) then .error .invalidPubKey else .ok g
  | some g, some p => if g = p then .ok p else .error .unauthorized

def sigCheck {π σ β : Type} (cr : Crypto π σ β) (pk : π) (doc : SignDoc π) (sg : σ) : Except Err Unit :=
  match cr.sigGas pk sg with
  | .invalidPubKey => .error .invalidPubKey
  | .panic => .error .internal
  | .ok => if cr.verify pk (cr.signBytes doc) sg then .ok () else .error .unauthorized

def docFor {π σ : Type} (cfg : Config) (genesis : Bool) (tx : Tx π σ) (accNum seq : Nat) : SignDoc π :=
  { chain := cfg.chain, accNum := if genesis then 0 else accNum, seq := if genesis then 0 else seq,
    body := tx.body }

def sigStep {π σ β : Type} [DecidableEq π] (cr : Crypto π σ β) (cfg : Config) (genesis : Bool)
    (tx : Tx π σ) (s : State π) (r : Resolved π) (g : Sig π σ) : Except Err (State π) :=
  match r.sess with
  | none =>
    match resolvePubKey cr false r.addr r.acc.pubKey g.pubKey with
    | .error e => .error e
    | .ok pk =>
      match sigCheck cr pk (docFor cfg genesis tx r.acc.accNum r.acc.seq) g.sig with
      | .error e => .error e
      | .ok _ =>
        let acc' : Account π := { r.acc with pubKey := some pk, seq := r.acc.seq + 1 }
        .ok { s with accounts := upd s.accounts r.addr (some acc') }
  | some (sa, ss) =>
    match resolvePubKey cr true r.addr ss.pubKey g.pubKey with
    | .error e => .error e
    | .ok pk =>
      match sigCheck cr pk (docFor cfg genesis tx ss.accNum ss.seq) g.sig with
      | .error e => .error e
      | .ok _ =>
        let ss' : Session π := { ss with pubKey := some pk, seq := ss.seq + 1 }
        .ok { s with sessions := upd2 s.sessions r.addr sa (some ss') }

def sigLoop {π σ β : Type} [DecidableEq π] (cr : Crypto π σ β) (cfg : Config) (genesis : Bool)
    (tx : Tx π σ) : State π → List (Resolved π) → List (Sig π σ) → Except Err (State π)
  | s, r :: rs, g :: gs =>
    match sigStep cr cfg genesis tx s r g with
    | .error e => .error e
    | .ok s1 => sigLoop cr cfg genesis tx s1 rs gs
  | s, _, _ => .ok s

/-! ### the ante handler -/

def ante {π σ β : Type} [DecidableEq π] (cr : Crypto π σ β) (cfg : Config) (s : State π) (tx : Tx π σ) :
    Except Err (State π) :=
  if cfg.maxGas ≠ -1 ∧ cfg.maxGas < tx.gasWanted then .error .invalidGasWanted else
  -- SetGasMeter: store.NewGasMeter panics on a negative limit, before the ante's own recover is installed
  if s.height ≠ 0 ∧ tx.gasWanted < 0 then .error .internal else
  if sigCountExceeds cr cfg.sigLimit tx.sigs 0 then .error .tooManySigs else
  -- Tx.ValidateBasic
  if tx.gasWanted > maxGasWanted then .error .gasOverflow else
  if !tx.fee.isValid then .error .insufficientFee else
  if tx.sigs.length = 0 then .error .noSignatures else
  let signers := signersOf tx.msgs
  if tx.sigs.length ≠ signers.length then .error .unauthorized else
  -- ConsumeGas(txSize) on a meter limited to gasWanted (infinite at height 0)
  if s.height ≠ 0 ∧ tx.gasWanted < cfg.smallGas then .error .outOfGas else
  if tx.memoLen > cfg.maxMemo then .error .memoTooLarge else
  match resolveAll s signers tx.sigs with
  | .error e => .error e
  | .ok [] => .error .internal                         -- unreachable: sigs ≠ []
  | .ok (r0 :: rs) =>
    match phase2 cfg s tx r0 with
    | .error e => .error e
    | .ok (s1, r0') =>
      let genesis := s.height = 0
      if genesis ∧ ¬ cfg.verifyGenesis then .ok s1
      else sigLoop cr cfg genesis tx s1 (r0' :: rs) tx.sigs

/-! ### messages -/

def Msg.validateBasic {π : Type} : Msg π → Option Err
  | .createSession _ _ exp _ period =>
    if exp < 0 then some .unauthorized else if period < 0 then some .unauthorized else none
  | _ => none

def validateMsgs {π : Type} : List (Msg π) → Option Err
  | [] => none
  | m :: ms => match m.validateBasic with | some e => some e | none => validateMsgs ms

def runMsg {π σ β : Type} (cr : Crypto π σ β) (s : State π) : Msg π → Except Err (State π)
  | .note _ tag fail =>
    -- the handler writes first, then fails
    if fail then .error .internal else .ok { s with notes := upd s.notes tag (s.notes tag + 1) }
  | .createSession creator key exp limit period =>
    match s.accounts creator with
    | none => .error .unknownAddress
    | some _ =>
      if exp ≠ 0 ∧ exp ≤ s.time then .error .unauthorized else
      if exp ≠ 0 ∧ exp > s.time + maxSessionDuration then .error .unauthorized else
      let sa := cr.addrOf key
      if (s.accounts sa).isSome then .error .unauthorized else
      if (s.sessions creator sa).isSome then .error .unauthorized else
      if period > maxSpendPeriod then .error .unauthorized else
      let ss : Session π := ⟨s.nextAccNum, 0, some key, exp, limit, period, 0, s.time⟩
      .ok { s with sessions := upd2 s.sessions creator sa (some ss), nextAccNum := s.nextAccNum + 1 }
  | .revokeSession creator key =>
    let sa := cr.addrOf key
    if (s.sessions creator sa).isNone then .error .sessionNotFound
    else .ok { s with sessions := upd2 s.sessions creator sa none }
  | .revokeAll creator =>
    .ok { s with sessions := fun m k => if m = creator then none else s.sessions m k }

def runMsgs {π σ β : Type} (cr : Crypto π σ β) : State π → List (Msg π) → Except Err (State π)
  | s, [] => .ok s
  | s, m :: ms =>
    match runMsg cr s m with
    | .error e => .error e
    | .ok s1 => runMsgs cr s1 ms

/-! ### runTx in deliver mode, from the decoded tx on -/

def deliver {π σ β : Type} [DecidableEq π] (cr : Crypto π σ β) (cfg : Config) (s : State π) (tx : Tx π σ) :
    State π × Res :=
  if tx.msgs.isEmpty then (s, .rejected .unknownRequest) else
  match validateMsgs tx.msgs with
  | some e => (s, .rejected e)
  | none =>
    match ante cr cfg s tx with
    | .error e => (s, .rejected e)              -- abort: the cache `s1` is dropped
    | .ok s1 =>
      match runMsgs cr s1 tx.msgs with
      | .error e => (s1, .failed e)             -- WriteCheckpoint: ante writes only
      | .ok s2 => (s2, .ok)                     -- MultiWrite

/-! ### the other steps of a history -/

def beginBlock {π : Type} (s : State π) (dt : Nat) : State π :=
  { s with height := s.height + 1, time := s.time + dt }

inductive Op (π σ : Type) where
  | tx (t : Tx π σ)
  | block (dt : Nat)
  | fund (a : Addr) (amt : Nat)

def step {π σ β : Type} [DecidableEq π] (cr : Crypto π σ β) (cfg : Config) (s : State π) : Op π σ → State π
  | .tx t => (deliver cr cfg s t).1
  | .block dt => beginBlock s dt
  | .fund a amt => credit s a amt

def run {π σ β : Type} [DecidableEq π] (cr : Crypto π σ β) (cfg : Config) (s : State π) : List (Op π σ) → State π
  | [] => s
  | o :: os => run cr cfg (step cr cfg s o) os

def init {π : Type} (time : Int) : State π :=
  { accounts := fun _ => none, sessions := fun _ _ => none, nextAccNum := 0,
    notes := fun _ => 0, height := 0, time := time }

end GnoVerif.C15
