/-
Model.C26 — the B+ tree fast index (tm2/pkg/bptree/fast_index.go, mutable_tree.go,
immutable_tree.go), at the level of the public `MutableTree` / `ImmutableTree`
API.  Tree internals (nodes, splits, hashes) are NOT modelled (C23/C24): the
authoritative tree of a version is an ordered map `key ↦ (w, value)` where `w`
is the version of the leaf's valueKey, i.e. the version the value was written
at (`allocValueKey` uses `WorkingVersion`).

Persistent state (`DB`, what lives in the key-value store):
  * `vers`  : the retained versions ('R' root records with everything they reference),
  * `fast`  : the 'F' records  key ↦ (w, value)   (`setFastIndex`: version(8) ‖ value),
  * `stamp` : the 'M'‖"fastidx" record (`setFastIndexVersion`).
A batch `Write` is ONE atomic update of `DB` (trusted storage-engine property);
everything `Set`/`Remove`/`SaveVersion` stage rides in that one update.

Volatile state: handles (`MutableTree` values: working root, lastSaved,
version, staged fast-index batch ops, poison flag, the nodeDB's first/latest
counters) and views (`ImmutableTree` snapshots with their `fast` flag).
Several handles share one DB (slot 0 is the single live writer; other slots
are query-style handles), so an op script IS an interleaving of read-only
loads with commits at API-call granularity.  `skew` models the Load TOCTOU of
the ADR: `discoverVersions` ran before the newest `skew` commits landed, every
later read after them.

Core-only (links into the driver).
-/
import GnoVerif.Spec.OMap

namespace GnoVerif.C26
open GnoVerif

abbrev Ver := Nat
/-- a leaf entry / fast-index record: (version the value was written at, value). -/
abbrev Rec := Ver × Bytes
abbrev Tree := OMapOf Rec

structure DB where
  vers  : List (Ver × Tree)
  fast  : OMapOf Rec
  stamp : Option Ver

def DB.empty : DB := { vers := [], fast := [], stamp := none }

def DB.versions (db : DB) : List Ver := db.vers.map (·.1)
def DB.tree (db : DB) (v : Ver) : Option Tree := db.vers.lookup v

def maxOf (l : List Ver) : Ver := l.foldl max 0
def minOf : List Ver → Ver
  | [] => 0
  | v :: vs => vs.foldl min v

/-- what a `discoverVersions` scan that ran before the newest `skew` commits sees. -/
def DB.visible (db : DB) (skew : Nat) : List Ver :=
  db.versions.filter (fun v => decide (skew ≤ (db.versions.filter (fun u => decide (v < u))).length))

/-- staged fast-index batch operations (`setFastIndex` / `deleteFastIndex`). -/
inductive BOp
  | setF (k : Bytes) (r : Rec)
  | delF (k : Bytes)

def applyFast (f : OMapOf Rec) : List BOp → OMapOf Rec
  | [] => f
  | .setF k r :: b => applyFast (OMap.set f k r) b
  | .delF k :: b => applyFast (OMap.del f k) b

/-- `fastGet(key, s)`: a hit only when the entry is no newer than the snapshot. -/
def fastGet (db : DB) (k : Bytes) (s : Ver) : Option Bytes :=
  match OMap.get db.fast k with
  | some (w, val) => if s < w then none else some val
  | none => none

/-- the authoritative tree walk (`treeLookup` + value resolution). -/
def walk (t : Tree) (k : Bytes) : Option Bytes := (OMap.get t k).map (·.2)

/-- keys and values only — what the root hash commits to (valueKeys are not hashed). -/
def strip (t : Tree) : List (Bytes × Bytes) := t.map (fun p => (p.1, p.2.2))

/-- a `MutableTree`. `ensured` is history, not code state: the handle was opened
through `Load()` and `ensureFastIndex` returned nil (the documented trust contract). -/
structure Handle where
  fastOpt  : Bool
  ensured  : Bool
  version  : Ver
  work     : Tree          -- contents of t.root
  saved    : Tree          -- contents of t.lastSaved
  touched  : Bool          -- a mutation was published since the last session reset
  batch    : List BOp      -- staged fast-index ops (ndb.batch), oldest first
  poisoned : Bool
  first    : Ver           -- ndb.firstVersion
  latest   : Ver           -- ndb.latestVersion

/-- `t.root == t.lastSaved` (pointer identity: every published mutation clones the
root; the only other way to be equal is nil == nil). -/
def Handle.clean (h : Handle) : Bool := !h.touched || (h.work.isEmpty && h.saved.isEmpty)

/-- `MutableTree.Get`. -/
def Handle.get (db : DB) (h : Handle) (k : Bytes) : Option Bytes :=
  if h.work.isEmpty then none
  else if h.fastOpt && h.clean then
    match fastGet db k h.version with
    | some v => some v
    | none => walk h.work k
  else walk h.work k

/-- an `ImmutableTree` from `getImmutable`. -/
structure View where
  version : Ver
  root    : Tree
  fast    : Bool

/-- `ImmutableTree.Get`. -/
def View.get (db : DB) (v : View) (k : Bytes) : Option Bytes :=
  if v.root.isEmpty then none
  else if v.fast then
    match fastGet db k v.version with
    | some x => some x
    | none => walk v.root k
  else walk v.root k

/-- `getImmutable`: root of `ver`, fast flag = option ∧ stamp ≥ ver (empty roots never consult the index). -/
def getImmutable (db : DB) (fastOpt : Bool) (ver : Ver) : Option View :=
  match db.tree ver with
  | none => none
  | some m =>
    if m.isEmpty then some { version := ver, root := m, fast := false }
    else some { version := ver, root := m,
                fast := fastOpt && (match db.stamp with | some s => decide (ver ≤ s) | none => false) }

structure State where
  db : DB
  hs : Nat → Option Handle
  vs : Nat → Option View

def State.init : State := { db := DB.empty, hs := fun _ => none, vs := fun _ => none }

def upd {α : Type} (f : Nat → Option α) (i : Nat) (x : Option α) : Nat → Option α :=
  fun j => if j = i then x else f j

inductive Mode
  | load                 -- t.Load()
  | ro                   -- t.LoadReadonly()
  | lv (v : Ver)         -- bare t.LoadVersion(v)
  | loadlv (v : Ver)     -- store.LoadVersion(v): t.Load() then t.LoadVersion(v); the handle counts as
                         -- `ensured` only when v is not newer than the version Load() verified

inductive Op
  | open_ (slot : Nat) (fast : Bool) (mode : Mode) (skew : Nat)
  | set (slot : Nat) (k : Bytes) (v : Option Bytes)
  | remove (slot : Nat) (k : Bytes)
  | save (slot : Nat)
  | failsave (slot : Nat)           -- SaveVersion whose batch Write returns an error
  | rollback (slot : Nat)
  | prune (slot : Nat) (to : Ver)
  | get (slot : Nat) (k : Bytes)
  | getv (slot : Nat) (k : Bytes) (v : Ver)
  | imm (slot vslot : Nat) (v : Ver)
  | vget (vslot : Nat) (k : Bytes)
  | crashsave                       -- SaveVersion whose batch Write is lost; the process dies
  | crashprune (to : Ver)           -- PruneVersionsTo whose batch Write is lost; the process dies
  | crashopen (fast : Bool) (n : Nat) -- Load() on a fresh handle; only the first n batch Writes land; the process dies
  | delstamp                        -- the ADR's operator remediation: node down, stamp key deleted by hand
  | crashimport (n : Nat)           -- Import(latest+1) on a fresh fast-on handle (dropFastIndex: stamp delete, then the
                                    -- clear chunk); only the first n batch Writes land; abandoned, the process dies
  | dump
  | stress

inductive Out
  | ok
  | okN (n : Nat)
  | okB (b : Bool)
  | adopt (n : Nat)
  | removed (v : Option Bytes) (found : Bool)
  | read (served walked : Option Bytes)
  | err (e : String)
  | stampAhead (v : Ver)
  | crashed
  | dumped (db : DB)
  | stress

/-! ### loading -/

def emptyHandle (fastOpt : Bool) (first latest : Ver) : Handle :=
  { fastOpt := fastOpt, ensured := false, version := 0, work := [], saved := [], touched := false,
    batch := [], poisoned := false, first := first, latest := latest }

/-- `loadVersionDiscovered` on a fresh handle. -/
def loadAt (db : DB) (fastOpt : Bool) (first latest v : Ver) : Option Handle :=
  match db.tree v with
  | none => none
  | some m => some { fastOpt := fastOpt, ensured := false, version := v, work := m, saved := m,
                     touched := false, batch := [], poisoned := false, first := first, latest := latest }

/-- `LoadReadonly` on a fresh handle: (handle, returned version), or none = ErrVersionDoesNotExist. -/
def loadReadonly (db : DB) (fastOpt : Bool) (skew : Nat) : Option (Handle × Ver) :=
  let vis := db.visible skew
  let first := minOf vis
  let latest := maxOf vis
  if latest = 0 then some (emptyHandle fastOpt first latest, 0)
  else match loadAt db fastOpt first latest latest with
    | none => none
    | some h => some (h, latest)

inductive Ensure
  | noop | rebuild | ahead
  deriving DecidableEq

/-- the decision of `ensureFastIndex`. -/
def ensureDecision (db : DB) (h : Handle) : Ensure :=
  if !h.fastOpt then .noop
  else match db.stamp with
    | none => .rebuild
    | some s => if s < h.version then .rebuild else if h.version < s then .ahead else .noop

/-- the PRE-FIX rule of gno#6011 (ADR pr6018): rebuild whenever the stamp differs. -/
def ensureDecisionPreFix (db : DB) (h : Handle) : Ensure :=
  if !h.fastOpt then .noop
  else match db.stamp with
    | none => .rebuild
    | some s => if s = h.version then .noop else .rebuild

/-- `clearFastIndex`'s chunk commit: every 'F' record deleted. -/
def clearW (d : DB) : DB := { d with fast := [] }

/-- `rebuildFastIndex`'s final commit: one entry per leaf of the loaded root + the stamp. -/
def fillW (h : Handle) (d : DB) : DB := { d with fast := h.work, stamp := some h.version }

/-- the batch Writes of `rebuildFastIndex`, in order: the clear chunk (only when
there is something to clear), then all entries of the loaded root + the stamp. -/
def rebuildWrites (db : DB) (h : Handle) : List (DB → DB) :=
  (if db.fast.isEmpty then [] else [clearW]) ++ [fillW h]

/-- `dropFastIndex`'s first commit (and the operator's manual remediation): the stamp is gone,
the entries are still there. -/
def delStampW (d : DB) : DB := { d with stamp := none }

/-- the batch Writes of `dropFastIndex`: the stamp delete, then the clear chunk (when non-empty). -/
def dropWrites (db : DB) : List (DB → DB) :=
  [delStampW] ++ (if db.fast.isEmpty then [] else [clearW])

def applyWrites (db : DB) (ws : List (DB → DB)) : DB := ws.foldl (fun d w => w d) db

def rebuild (db : DB) (h : Handle) : DB := applyWrites db (rebuildWrites db h)

/-- `Load()` on a fresh handle with a given ensure rule. -/
def loadWith (rule : DB → Handle → Ensure) (db : DB) (fastOpt : Bool) (skew : Nat) :
    DB × Option Handle × Out :=
  match loadReadonly db fastOpt skew with
  | none => (db, none, .err "nover")
  | some (h, v) =>
    if v = 0 then (db, some { h with ensured := true }, .okN 0)
    else match rule db h with
      | .noop => (db, some { h with ensured := true }, .okN v)
      | .rebuild => (rebuild db h, some { h with ensured := true }, .okN v)
      | .ahead => (db, some h, .stampAhead v)

/-- bare `LoadVersion(v)` (v > 0) on a fresh handle. -/
def loadVersion (db : DB) (fastOpt : Bool) (skew : Nat) (v : Ver) : Option Handle × Out :=
  let vis := db.visible skew
  match loadAt db fastOpt (minOf vis) (maxOf vis) v with
  | none => (none, .err "nover")
  | some h => (some h, .okN (maxOf vis))

def openHandle (rule : DB → Handle → Ensure) (db : DB) (fast : Bool) (mode : Mode) (skew : Nat) :
    DB × Option Handle × Out :=
  match mode with
  | .load => loadWith rule db fast skew
  | .ro =>
    match loadReadonly db fast skew with
    | none => (db, none, .err "nover")
    | some (h, v) => (db, some h, .okN v)
  | .lv v =>
    if v = 0 then loadWith rule db fast skew
    else let (h, o) := loadVersion db fast skew v; (db, h, o)
  | .loadlv v =>
    match loadWith rule db fast skew with
    | (db', some h, .okN lv) =>
      if lv = v then (db', some h, .okN lv)
      else match loadVersion db' fast skew v with
        | (some h', _) => (db', some { h' with ensured := h.ensured && decide (v ≤ lv) }, .okN lv)
        | (none, o) => (db', none, o)
    | (db', _, o) => (db', none, o)

/-! ### the working session -/

def Handle.set (h : Handle) (k val : Bytes) : Handle × Bool :=
  let r : Rec := (h.version + 1, val)
  ({ h with work := OMap.set h.work k r, touched := true,
            batch := if h.fastOpt then h.batch ++ [.setF k r] else h.batch },
   (OMap.get h.work k).isSome)

def Handle.remove (h : Handle) (k : Bytes) : Handle × Option Bytes × Bool :=
  match OMap.get h.work k with
  | none => (h, none, false)
  | some r =>
    ({ h with work := OMap.del h.work k, touched := true,
              batch := if h.fastOpt then h.batch ++ [.delF k] else h.batch },
     some r.2, true)

inductive SaveKind
  | normal | fail

/-- `SaveVersion`. -/
def save (db : DB) (h : Handle) (kind : SaveKind) : DB × Handle × Out :=
  if h.poisoned then (db, h, .err "poisoned") else
  let n := h.version + 1
  match db.tree n with
  | some ex =>
    if strip ex = strip h.work then
      (db, { h with work := ex, saved := ex, version := n, touched := false, batch := [] }, .adopt n)
    else (db, { h with poisoned := true, batch := [] }, .err "exists")
  | none =>
    match kind with
    | .fail => (db, { h with poisoned := true, batch := [] }, .err "write")
    | .normal =>
      ({ vers := (n, h.work) :: db.vers,
         fast := applyFast db.fast h.batch,
         stamp := if h.fastOpt then some n else db.stamp },
       { h with version := n, saved := h.work, touched := false, batch := [],
                latest := n, first := if h.first = 0 then n else h.first },
       .okN n)

def Handle.rollback (h : Handle) : Handle :=
  { h with batch := [], work := h.saved, touched := false, poisoned := false }

/-- `PruneVersionsTo`; `none` = refused. (`to < first` returns nil without touching anything.) -/
def prune (db : DB) (h : Handle) (to : Ver) : Option (DB × Handle) × Out :=
  if h.latest ≤ to then (none, .err "prunelatest")
  else if to < h.first then (some (db, h), .ok)
  else if h.touched then (none, .err "uncommitted")
  else if h.version ≤ to then (none, .err "activereaders")
  else (some ({ db with vers := db.vers.filter (fun p => decide (p.1 < h.first ∨ to < p.1)) },
              { h with first := to + 1 }), .ok)

/-! ### the step function -/

def dropAll (st : State) : State := { st with hs := fun _ => none, vs := fun _ => none }

/-- one operation; `rule` is the decision procedure of `ensureFastIndex`. -/
def stepWith (rule : DB → Handle → Ensure) (st : State) : Op → State × Out
  | .open_ slot fast mode skew =>
    if slot = 0 ∧ skew ≠ 0 then (st, .err "badop") else
    let (db', h, o) := openHandle rule st.db fast mode skew
    ({ st with db := db', hs := upd st.hs slot h }, o)
  | .set slot k v =>
    if slot ≠ 0 then (st, .err "badop") else
    match st.hs slot with
    | none => (st, .err "nohandle")
    | some h =>
      if h.poisoned then (st, .err "poisoned")
      else if k.isEmpty then (st, .err "emptykey")
      else match v with
        | none => (st, .err "nilvalue")
        | some val =>
          let (h', u) := h.set k val
          ({ st with hs := upd st.hs slot (some h') }, .okB u)
  | .remove slot k =>
    if slot ≠ 0 then (st, .err "badop") else
    match st.hs slot with
    | none => (st, .err "nohandle")
    | some h =>
      if h.poisoned then (st, .err "poisoned")
      else
        let (h', v, f) := h.remove k
        ({ st with hs := upd st.hs slot (some h') }, .removed v f)
  | .save slot =>
    if slot ≠ 0 then (st, .err "badop") else
    match st.hs slot with
    | none => (st, .err "nohandle")
    | some h =>
      let (db', h', o) := save st.db h .normal
      ({ st with db := db', hs := upd st.hs slot (some h') }, o)
  | .failsave slot =>
    if slot ≠ 0 then (st, .err "badop") else
    match st.hs slot with
    | none => (st, .err "nohandle")
    | some h =>
      let (db', h', o) := save st.db h .fail
      ({ st with db := db', hs := upd st.hs slot (some h') }, o)
  | .rollback slot =>
    if slot ≠ 0 then (st, .err "badop") else
    match st.hs slot with
    | none => (st, .err "nohandle")
    | some h => ({ st with hs := upd st.hs slot (some h.rollback) }, .ok)
  | .prune slot to =>
    if slot ≠ 0 then (st, .err "badop") else
    match st.hs slot with
    | none => (st, .err "nohandle")
    | some h =>
      match prune st.db h to with
      | (none, o) => (st, o)
      | (some (db', h'), o) =>
        -- harness rule: a successful prune closes every OTHER handle and every view at a pruned version
        ({ db := db',
           hs := fun j => if j = slot then some h' else
                   match st.hs j with
                   | some g => if g.version ≤ to then none else some g
                   | none => none,
           vs := fun j => match st.vs j with
                   | some v => if v.version ≤ to then none else some v
                   | none => none }, o)
  | .get slot k =>
    match st.hs slot with
    | none => (st, .err "nohandle")
    | some h =>
      if h.poisoned then (st, .err "poisoned")   -- harness rule: no working reads on a poisoned session
      else (st, .read (h.get st.db k) (walk h.work k))
  | .getv slot k v =>
    match st.hs slot with
    | none => (st, .err "nohandle")
    | some h =>
      match getImmutable st.db h.fastOpt v with
      | none => (st, .err "nover")
      | some vw => (st, .read (vw.get st.db k) (walk vw.root k))
  | .imm slot vslot v =>
    match st.hs slot with
    | none => (st, .err "nohandle")
    | some h =>
      match getImmutable st.db h.fastOpt v with
      | none => ({ st with vs := upd st.vs vslot none }, .err "nover")
      | some vw => ({ st with vs := upd st.vs vslot (some vw) }, .ok)
  | .vget vslot k =>
    match st.vs vslot with
    | none => (st, .err "noview")
    | some vw => (st, .read (vw.get st.db k) (walk vw.root k))
  | .crashsave => (dropAll st, .crashed)
  | .crashprune _ => (dropAll st, .crashed)
  | .crashopen fast n =>
    match loadReadonly st.db fast 0 with
    | none => (dropAll st, .crashed)
    | some (h, v) =>
      if v = 0 then (dropAll st, .crashed)
      else match rule st.db h with
        | .rebuild => (dropAll { st with db := applyWrites st.db ((rebuildWrites st.db h).take n) }, .crashed)
        | _ => (dropAll st, .crashed)
  | .delstamp => (dropAll { st with db := delStampW st.db }, .crashed)
  | .crashimport n => (dropAll { st with db := applyWrites st.db ((dropWrites st.db).take n) }, .crashed)
  | .dump => (st, .dumped st.db)
  | .stress => (st, .stress)

def runWith (rule : DB → Handle → Ensure) (st : State) : List Op → State × List Out
  | [] => (st, [])
  | op :: ops =>
    let r := stepWith rule st op
    let rs := runWith rule r.1 ops
    (rs.1, r.2 :: rs.2)

/-- the code as it is. -/
def step := stepWith ensureDecision
def run := runWith ensureDecision

end GnoVerif.C26
