import GnoVerif.Model.C06Realm
/-
C06 — the "heap machine" programs of the correspondence harness
(harness/c06env/realms.go), on top of the finalizer model.

Two realms: 0 = `gno.land/r/c06/ha` (declares `type Node struct{L,R *Node; V int}`
and four root variables), 1 = `gno.land/r/c06/hb` (imports ha; four roots of
type `*ha.Node`).  A `*Node` value is the address of a HeapItemValue whose
only slot is the StructValue; the struct's slots are `L` and `R`.

Initial heap (what a deployment leaves in the store, restricted to what the
scripts can reach): per realm the package block (time 1) and the heap items
of the four root variables (times 2..5); the realm's `Time` is 5, so the k-th
object minted afterwards has time 5+k.
-/
namespace GnoVerif.C06
open State

def nRoots : Nat := 4
def baseTime : Nat := 5

def blockAddr (r : Nat) : Nat := r * 5
def rootAddr (r i : Nat) : Nat := r * 5 + 1 + i

def initRealm (r : Nat) : List Obj :=
  { kind := .block, pkg := r, time := 1, rc := 2, escaped := true,
    kids := (List.range nRoots).map fun i => some (rootAddr r i) } ::
  (List.range nRoots).map fun i =>
    { kind := .hiv, pkg := r, time := 2 + i, rc := 1, owner := some (blockAddr r), kids := [none] }

def initState : State :=
  { heap := initRealm 0 ++ initRealm 1, time := [baseTime, baseTime], marks := [{}, {}] }

/-- machine state inside one transaction -/
structure Tx where
  s : State
  regs : List (Option Nat) := List.replicate 8 none
  deriving Inhabited

def Tx.reg (m : Tx) (i : Nat) : Option Nat := (m.regs.getD i none)
def Tx.setReg (m : Tx) (i : Nat) (v : Option Nat) : Tx := { m with regs := m.regs.set i v }
def Tx.fail (m : Tx) : Tx := { m with s := m.s.fail }

/-- `&Node{}` evaluated while realm `cur` executes: the StructValue is stamped
with the realm that declares `Node` (0), the HeapItemValue with `cur`. -/
def allocNode (s : State) (cur : Nat) : State × Nat :=
  let sa := s.heap.length
  let ha := sa + 1
  ({ s with heap := s.heap ++ [{ kind := .struct, pkg := 0, kids := [none, none] },
                               { kind := .hiv, pkg := cur, kids := [some sa] }] }, ha)

/-- the StructValue behind a `*Node` (address of its heap item) -/
def structOf (s : State) (h : Nat) : Nat := ((s.get h).kids.headD none).getD 0

def slot (s : State) (a i : Nat) : Option Nat := (s.get a).kids.getD i none

def setSlot (s : State) (a i : Nat) (v : Option Nat) : State :=
  s.modify a fun o => { o with kids := o.kids.set i v }

/-- an assignment `po.slot[i] = v` followed by `DidUpdate(po, old, v)` in realm `cur` -/
def assign (s : State) (cur po i : Nat) (v : Option Nat) : State :=
  let xo := slot s po i
  didUpdate (setSlot s po i v) cur po xo v

/-- a crossing call into realm 0 and back: the callee's realm is finalized on return -/
def crossA (s : State) (f : State → State) : State := finalize (f s) 0

def operand (c : Char) : Nat := (c.toNat + 256 - 48) % 8

/-- one instruction of `Exec` of realm `cur` (0 = ha, 1 = hb) -/
def step (cur : Nat) (m : Tx) (op : Char) (a b : Nat) : Tx :=
  let fieldStore (i : Nat) : Tx :=
    match m.reg a with
    | none => m.fail
    | some h => { m with s := assign m.s 0 (structOf m.s h) i (m.reg b) }
  let fieldLoad (i : Nat) : Tx :=
    match m.reg b with
    | none => m.fail
    | some h => m.setReg a (slot m.s (structOf m.s h) i)
  match op with
  | 'M' => m.setReg a (m.reg b)
  | 'Z' => m.setReg a none
  | 'G' => m.setReg a (slot m.s (rootAddr cur (b % 4)) 0)
  | 'P' => { m with s := assign m.s cur (rootAddr cur (a % 4)) 0 (m.reg b) }
  | 'L' => fieldLoad 0
  | 'R' => fieldLoad 1
  | 'N' =>
    if cur = 0 then
      let (s, h) := allocNode m.s 0
      { m with s := s }.setReg a (some h)
    else
      -- ha.New(cross(cur))
      let (s, h) := allocNode m.s 0
      { m with s := crossA s id }.setReg a (some h)
  | 'l' =>
    if cur = 0 then fieldStore 0
    else
      -- ha.Link(cross(cur), t[a], t[b])
      match m.reg a with
      | none => m.fail
      | some h => { m with s := crossA m.s fun s => assign s 0 (structOf s h) 0 (m.reg b) }
  | 'r' => if cur = 0 then fieldStore 1 else m.fail
  | 'V' =>
    if cur = 0 then
      match m.reg a with
      | none => m.fail
      | some h => { m with s := didUpdate m.s 0 (structOf m.s h) none none }
    else m.fail
  | 'X' =>
    if cur = 1 then { m with s := crossA m.s id }.setReg a (slot m.s (rootAddr 0 (b % 4)) 0) else m.fail
  | 'Y' =>
    if cur = 1 then { m with s := crossA m.s fun s => assign s 0 (rootAddr 0 (a % 4)) 0 (m.reg b) } else m.fail
  | _ => m.fail

def runScript (cur : Nat) : List Char → Tx → Tx
  | op :: a :: b :: rest, m =>
    if m.s.err then m else runScript cur rest (step cur m op (operand a) (operand b))
  | _, m => m

/-- one transaction: MsgCall `Exec(script)` on realm `cur`; rolled back on a panic -/
def execTx (s : State) (cur : Nat) (script : List Char) : State × Bool :=
  let m := runScript cur script { s := s }
  let s' := if m.s.err then m.s else finalize m.s cur
  if s'.err then (s, false) else (endTx s', true)

end GnoVerif.C06
