import GnoVerif.Model.C41State
/-!
Model of the block store, tm2/pkg/bft/store/store.go: `SaveBlock`, `LoadBlock`,
`LoadBlockPart`, `LoadBlockMeta`, `LoadBlockCommit`, `LoadSeenCommit`, `Height`,
`NewBlockStore`/`BlockStoreStateJSON`, over one association list per key family
(`H:%v`, `P:%v:%v`, `C:%v`, `SC:%v`, `blockStore`).  Core-only, executable.

Blocks, parts and commits are opaque to the store except for what it reads:
`block.Height`, `block.LastCommit`, `blockParts.IsComplete/Total/GetPart`, and
`NewBlockMeta(block, blockParts)`.  A block is `(height, data, lastCommit)` where `data`
stands for everything else in it; the part set passed to `SaveBlock` is the block's own
(`MakePartSet`, the documented contract "blockParts: Must be parts of the block"), possibly
with one part missing.  That amino decoding of the concatenated parts gives back the block
(C39/C20's subject) is built into `decodeParts`.

Quirks mirrored:
* `amino.MustMarshal` of a nil `*Commit` panics — AFTER the meta and the parts (and, for a nil
  seen commit, the `C:` entry) have been written; the store height is not advanced.
* a commit that encodes to zero bytes (`&Commit{}`) is stored as an empty value and reads
  back as nil.
* while `Height() == 0` any block height is accepted (also 0 and negative ones).
-/
namespace GnoVerif.C41

/-- a `*types.Commit` as the store sees it -/
inductive CommitD
  | nil                -- nil pointer: cannot be marshalled
  | empty              -- encodes to zero bytes
  | tok (k : Nat)      -- any other commit, identified by `k`
deriving DecidableEq, Repr

structure Block where
  height : Int
  data : Nat
  lastCommit : CommitD
deriving DecidableEq, Repr

/-- `types.Part` of the part set `(src, total)` -/
structure Part where
  src : Block
  total : Nat
  index : Nat
deriving DecidableEq, Repr

/-- `types.BlockMeta = NewBlockMeta(block, blockParts)` -/
structure Meta where
  src : Block
  total : Nat
deriving DecidableEq, Repr

/-- the block store: database families, the persisted `BlockStoreStateJSON.Height`
(`none` = key absent) and the cached `bs.height` -/
structure BS where
  metas : List (Int × Meta)
  parts : List ((Int × Int) × Part)
  commits : List (Int × CommitD)
  seens : List (Int × CommitD)
  json : Option Int
  height : Int
deriving Repr

def BS.empty : BS := ⟨[], [], [], [], none, 0⟩

inductive SaveB
  | ok
  | panicNilBlock          -- "BlockStore can only save a non-nil block"
  | panicNonContiguous     -- "BlockStore can only save contiguous blocks"
  | panicIncomplete        -- "BlockStore can only save complete block part sets"
  | panicNilCommit         -- amino.MustMarshal on a nil *Commit
deriving DecidableEq, Repr

/-- the loop `for i := range blockParts.Total() { bs.saveBlockPart(height, i, part) }`
(its own contiguity check repeats the one already passed) -/
def saveParts (parts : List ((Int × Int) × Part)) (b : Block) (total : Nat) : Nat → List ((Int × Int) × Part)
  | 0 => parts
  | i + 1 => set (saveParts parts b total i) (b.height, (i : Int)) ⟨b, total, i⟩

/-- `SaveBlock(block, blockParts, seenCommit)`; the part set is `(block, total)` with part
`missing` absent (`none` = complete). -/
def saveBlock (s : BS) (blk : Option Block) (total : Nat) (missing : Option Nat) (seen : CommitD) : BS × SaveB :=
  match blk with
  | none => (s, .panicNilBlock)
  | some b =>
    if s.height ≠ 0 ∧ b.height ≠ s.height + 1 then (s, .panicNonContiguous)
    else if missing.isSome then (s, .panicIncomplete)
    else
      let s1 := { s with metas := set s.metas b.height ⟨b, total⟩,
                         parts := saveParts s.parts b total total }
      match b.lastCommit with
      | .nil => (s1, .panicNilCommit)
      | lc =>
        let s2 := { s1 with commits := set s1.commits (b.height - 1) lc }
        match seen with
        | .nil => (s2, .panicNilCommit)
        | sc => ({ s2 with seens := set s2.seens b.height sc, json := some b.height, height := b.height }, .ok)

/-- `NewBlockStore(db)` on the same database: the height comes from the persisted JSON -/
def reopen (s : BS) : BS := { s with height := s.json.getD 0 }

/-- `LoadBlockMeta` -/
def loadMeta (s : BS) (h : Int) : Option Meta := get s.metas h

/-- `LoadBlockPart` -/
def loadPart (s : BS) (h : Int) (i : Int) : Option Part := get s.parts (h, i)

/-- a stored commit value read back: the empty encoding is "not found" -/
def readCommit : Option CommitD → Option Nat
  | some (.tok k) => some k
  | _ => none

/-- `LoadBlockCommit` -/
def loadCommit (s : BS) (h : Int) : Option Nat := readCommit (get s.commits h)

/-- `LoadSeenCommit` -/
def loadSeen (s : BS) (h : Int) : Option Nat := readCommit (get s.seens h)

/-- parts `0 … n-1` of height `h`, or `none` as soon as one is missing -/
def collectParts (s : BS) (h : Int) : Nat → Option (List Part)
  | 0 => some []
  | i + 1 =>
    match collectParts s h i, loadPart s h (i : Int) with
    | some l, some p => some (l ++ [p])
    | _, _ => none

/-- do the collected parts form exactly the part set `(b, total)`? -/
def isPartSetOf (b : Block) (total : Nat) (l : List Part) : Bool :=
  l == (List.range total).map fun i => (⟨b, total, i⟩ : Part)

inductive LoadB
  | nil
  | ok (b : Block)
  | panicDecode            -- "Error reading block": the bytes do not decode
deriving DecidableEq, Repr

/-- `amino.UnmarshalSized(concatenated part bytes)`: the bytes of a block's complete part set
decode to that block; anything else is not a block encoding -/
def decodeParts (l : List Part) : LoadB :=
  match l with
  | [] => .panicDecode
  | p :: _ => if isPartSetOf p.src p.total l then .ok p.src else .panicDecode

/-- `LoadBlock` -/
def loadBlock (s : BS) (h : Int) : LoadB :=
  match loadMeta s h with
  | none => .nil
  | some m =>
    match collectParts s h m.total with
    | none => .nil
    | some l => decodeParts l

/-- raw `db.Delete` of a part / a meta key (used to reach `LoadBlock`'s missing-part branch) -/
def delPart (s : BS) (h i : Int) : BS := { s with parts := s.parts.filter fun e => e.1 ≠ (h, i) }
def delMeta (s : BS) (h : Int) : BS := { s with metas := s.metas.filter fun e => e.1 ≠ h }

/-- every loader returns the data handed to `SaveBlock(b, parts of b split in total, seen)`:
the meta, each part, the whole block, the block's `LastCommit` under `height - 1`, the seen commit
(a commit that encodes to nothing reads back as nil, see `readCommit`) -/
def Holds (s : BS) (b : Block) (total : Nat) (seen : CommitD) : Prop :=
  loadMeta s b.height = some ⟨b, total⟩ ∧
  (∀ i : Nat, i < total → loadPart s b.height (i : Int) = some ⟨b, total, i⟩) ∧
  loadBlock s b.height = .ok b ∧
  loadCommit s (b.height - 1) = readCommit (some b.lastCommit) ∧
  loadSeen s b.height = readCommit (some seen)

/-! ### histories of store operations (what a node does: `SaveBlock` calls and restarts) -/

inductive BOp
  | save (blk : Option Block) (total : Nat) (missing : Option Nat) (seen : CommitD)
  | reopen
deriving Repr

def applyB (s : BS) : BOp → BS
  | .save blk total missing seen => (saveBlock s blk total missing seen).1
  | .reopen => reopen s

def runB (s : BS) (ops : List BOp) : BS := ops.foldl applyB s

/-- every block handed to `SaveBlock` has a height ≥ `lo` (`Header.ValidateBasic` demands ≥ 1) -/
def heightsAtLeast (lo : Int) : List BOp → Prop
  | [] => True
  | .save (some b) _ _ _ :: r => lo ≤ b.height ∧ heightsAtLeast lo r
  | _ :: r => heightsAtLeast lo r

end GnoVerif.C41
