/-
C38 — how a WAL meta line `#…` is parsed: `amino.UnmarshalJSON(line[1:], &MetaMessage{})`
with `type MetaMessage struct { Height int64 `json:"h"` }`.

The result is classified the way a caller of `WALReader.ReadMessage` can see it:
  * `ok h`   – no error, `meta.Height = h`;
  * `eof`    – the returned error IS `io.EOF` (encoding/json's token reader ran
               out of input); callers treat this exactly like the end of the log;
  * `err`    – any other (non-DataCorruptionError) error.

Mirrors, in order: amino `JSONUnmarshal` (empty ⇒ error), `decodeReflectJSON`
(the bytes `null` ⇒ zero value), `decodeReflectJSONStruct` →
`unmarshalJSONObjectNoDuplicates` (a `json.Decoder` driven by `Token`/`More`/
`Decode(&raw)`; nothing after the closing `}` is looked at), the int64 field
rule (value must be a quoted JSON string, its inside is `json.Unmarshal`ed into
an int64, `null` ⇒ 0), and the unknown-key rejection.  The byte-level value
scanner is a transcription of encoding/json's `scanner` state machine.
Core-only.
-/
namespace GnoVerif.C38

abbrev Bytes := List UInt8

inductive MetaRes where
  | ok (h : Int)
  | eof
  | err
  deriving Repr, DecidableEq, Inhabited

/-! ### encoding/json scanner (scanner.go) -/

inductive PS where | objKey | objValue | arrValue
  deriving Repr, DecidableEq

inductive St where
  | beginValue | beginValueOrEmpty | beginStringOrEmpty | beginString
  | endValue | endTop
  | inString | inStringEsc | escU (k : Nat)
  | neg | zero | one | dot | dot0 | e | eSign | e0
  | lit (rest : List UInt8)          -- remaining bytes of true/false/null
  | error
  deriving Repr, DecidableEq

inductive Code where
  | continue_ | skipSpace | beginLiteral | beginObject | objectKey | objectValue
  | endObject | beginArray | arrayValue | endArray | end_ | error
  deriving Repr, DecidableEq

structure Scanner where
  st : St
  stack : List PS
  deriving Repr, DecidableEq

def isSpace (c : UInt8) : Bool := c ≤ 32 && (c == 32 || c == 9 || c == 13 || c == 10)

def isHex (c : UInt8) : Bool :=
  (48 ≤ c && c ≤ 57) || (97 ≤ c && c ≤ 102) || (65 ≤ c && c ≤ 70)

def isDigit (c : UInt8) : Bool := 48 ≤ c && c ≤ 57

def maxNestingDepth : Nat := 10000

def scanErr (s : Scanner) : Scanner × Code := ({ s with st := .error }, .error)

/-- `stateEndTop`: a non-space byte is only complained about on the next call. -/
def stepEndTop (s : Scanner) (_c : UInt8) : Scanner × Code := ({ s with st := .endTop }, .end_)

def pushPS (s : Scanner) (p : PS) (next : St) (ok : Code) : Scanner × Code :=
  if s.stack.length + 1 > maxNestingDepth then scanErr s
  else ({ st := next, stack := p :: s.stack }, ok)

/-- `popParseState` -/
def popPS (s : Scanner) : Scanner :=
  match s.stack with
  | _ :: [] => { st := .endTop, stack := [] }
  | _ :: rest => { st := .endValue, stack := rest }
  | [] => { st := .endTop, stack := [] }

/-- `stateEndValue` -/
def stepEndValue (s : Scanner) (c : UInt8) : Scanner × Code :=
  match s.stack with
  | [] => stepEndTop s c
  | ps :: rest =>
    if isSpace c then ({ s with st := .endValue }, .skipSpace) else
    match ps with
    | .objKey =>
        if c == 58 then ({ st := .beginValue, stack := .objValue :: rest }, .objectKey) else scanErr s
    | .objValue =>
        if c == 44 then ({ st := .beginString, stack := .objKey :: rest }, .objectValue)
        else if c == 125 then (popPS s, .endObject)
        else scanErr s
    | .arrValue =>
        if c == 44 then ({ s with st := .beginValue }, .arrayValue)
        else if c == 93 then (popPS s, .endArray)
        else scanErr s

/-- `stateBeginValue` -/
def stepBeginValue (s : Scanner) (c : UInt8) : Scanner × Code :=
  if isSpace c then (s, .skipSpace)
  else if c == 123 then pushPS s .objKey .beginStringOrEmpty .beginObject
  else if c == 91 then pushPS s .arrValue .beginValueOrEmpty .beginArray
  else if c == 34 then ({ s with st := .inString }, .beginLiteral)
  else if c == 45 then ({ s with st := .neg }, .beginLiteral)
  else if c == 48 then ({ s with st := .zero }, .beginLiteral)
  else if c == 116 then ({ s with st := .lit [114, 117, 101] }, .beginLiteral)        -- t rue
  else if c == 102 then ({ s with st := .lit [97, 108, 115, 101] }, .beginLiteral)    -- f alse
  else if c == 110 then ({ s with st := .lit [117, 108, 108] }, .beginLiteral)        -- n ull
  else if 49 ≤ c && c ≤ 57 then ({ s with st := .one }, .beginLiteral)
  else scanErr s

def stepBeginString (s : Scanner) (c : UInt8) : Scanner × Code :=
  if isSpace c then (s, .skipSpace)
  else if c == 34 then ({ s with st := .inString }, .beginLiteral)
  else scanErr s

/-- One byte of the scanner: `s.step(s, c)`. -/
def step (s : Scanner) (c : UInt8) : Scanner × Code :=
  match s.st with
  | .beginValue => stepBeginValue s c
  | .beginValueOrEmpty =>
      if isSpace c then (s, .skipSpace)
      else if c == 93 then stepEndValue s c
      else stepBeginValue s c
  | .beginStringOrEmpty =>
      if isSpace c then (s, .skipSpace)
      else if c == 125 then
        match s.stack with
        | _ :: rest => stepEndValue { s with stack := .objValue :: rest } c
        | [] => scanErr s
      else stepBeginString s c
  | .beginString => stepBeginString { s with st := .beginString } c
  | .endValue => stepEndValue s c
  | .endTop => stepEndTop s c
  | .inString =>
      if c == 34 then ({ s with st := .endValue }, .continue_)
      else if c == 92 then ({ s with st := .inStringEsc }, .continue_)
      else if c < 32 then scanErr s
      else (s, .continue_)
  | .inStringEsc =>
      if c == 98 || c == 102 || c == 110 || c == 114 || c == 116 || c == 92 || c == 47 || c == 34 then
        ({ s with st := .inString }, .continue_)
      else if c == 117 then ({ s with st := .escU 0 }, .continue_)
      else scanErr s
  | .escU k =>
      if isHex c then ({ s with st := if k ≥ 3 then .inString else .escU (k + 1) }, .continue_)
      else scanErr s
  | .neg =>
      if c == 48 then ({ s with st := .zero }, .continue_)
      else if 49 ≤ c && c ≤ 57 then ({ s with st := .one }, .continue_)
      else scanErr s
  | .one =>
      if isDigit c then (s, .continue_)
      else if c == 46 then ({ s with st := .dot }, .continue_)
      else if c == 101 || c == 69 then ({ s with st := .e }, .continue_)
      else stepEndValue s c
  | .zero =>
      if c == 46 then ({ s with st := .dot }, .continue_)
      else if c == 101 || c == 69 then ({ s with st := .e }, .continue_)
      else stepEndValue s c
  | .dot => if isDigit c then ({ s with st := .dot0 }, .continue_) else scanErr s
  | .dot0 =>
      if isDigit c then (s, .continue_)
      else if c == 101 || c == 69 then ({ s with st := .e }, .continue_)
      else stepEndValue s c
  | .e =>
      if c == 43 || c == 45 then ({ s with st := .eSign }, .continue_)
      else if isDigit c then ({ s with st := .e0 }, .continue_)
      else scanErr s
  | .eSign => if isDigit c then ({ s with st := .e0 }, .continue_) else scanErr s
  | .e0 => if isDigit c then (s, .continue_) else stepEndValue s c
  | .lit rest =>
      match rest with
      | [x] => if c == x then ({ s with st := .endValue }, .continue_) else scanErr s
      | x :: more => if c == x then ({ s with st := .lit more }, .continue_) else scanErr s
      | [] => scanErr s
  | .error => (s, .error)

/-! ### `Decoder.readValue` over a fully buffered input -/

inductive ValRes where
  | complete (n : Nat)     -- the value (with any leading white space) is the first n bytes
  | eof                    -- only white space was left: io.EOF
  | bad                    -- syntax error or io.ErrUnexpectedEOF
  deriving Repr, DecidableEq

def readValueAux (s : Scanner) (i : Nat) (nonSpace : Bool) : Bytes → ValRes
  | [] =>
      if (step s 32).2 == .end_ then .complete i
      else if nonSpace then .bad else .eof
  | c :: rest =>
      let (s', code) := step s c
      match code with
      | .end_ => .complete i
      | .error => .bad
      | .endObject | .endArray =>
          if (stepEndValue s' 32).2 == .end_ then .complete (i + 1)
          else readValueAux s' (i + 1) true rest
      | _ => readValueAux s' (i + 1) (nonSpace || !isSpace c) rest

def readValue (bs : Bytes) : ValRes :=
  readValueAux { st := .beginValue, stack := [] } 0 false bs

/-- `checkValid`: the whole input is exactly one JSON value (white space around it allowed). -/
def checkValidAux (s : Scanner) : Bytes → Bool
  | [] => (step s 32).2 == .end_
  | c :: rest =>
      let (s', code) := step s c
      if code == .error then false
      else if s'.st == .endTop && code == .end_ && !isSpace c then false
      else checkValidAux s' rest

def checkValid (bs : Bytes) : Bool :=
  checkValidAux { st := .beginValue, stack := [] } bs

/-! ### string unquoting (for object keys) -/

def hexVal (c : UInt8) : Nat :=
  if 48 ≤ c && c ≤ 57 then c.toNat - 48
  else if 97 ≤ c && c ≤ 102 then c.toNat - 87
  else if 65 ≤ c && c ≤ 70 then c.toNat - 55
  else 0

def utf8Enc (r : Nat) : Bytes :=
  let b (n : Nat) : UInt8 := UInt8.ofNat n
  if r < 0x80 then [b r]
  else if r < 0x800 then [b (0xC0 + r / 64), b (0x80 + r % 64)]
  else if r < 0x10000 then [b (0xE0 + r / 4096), b (0x80 + r / 64 % 64), b (0x80 + r % 64)]
  else [b (0xF0 + r / 262144), b (0x80 + r / 4096 % 64), b (0x80 + r / 64 % 64), b (0x80 + r % 64)]

def replacement : Bytes := [0xEF, 0xBF, 0xBD]

def isCont (c : UInt8) : Bool := 0x80 ≤ c && c ≤ 0xBF

/-- `utf8.DecodeRune` validity: number of bytes of a valid sequence at the head, or 0. -/
def utf8Len : Bytes → Nat
  | c0 :: rest =>
    if c0 < 0x80 then 1
    else if 0xC2 ≤ c0 && c0 ≤ 0xDF then
      match rest with | c1 :: _ => if isCont c1 then 2 else 0 | _ => 0
    else if 0xE0 ≤ c0 && c0 ≤ 0xEF then
      match rest with
      | c1 :: c2 :: _ =>
        let lo : UInt8 := if c0 == 0xE0 then 0xA0 else 0x80
        let hi : UInt8 := if c0 == 0xED then 0x9F else 0xBF
        if lo ≤ c1 && c1 ≤ hi && isCont c2 then 3 else 0
      | _ => 0
    else if 0xF0 ≤ c0 && c0 ≤ 0xF4 then
      match rest with
      | c1 :: c2 :: c3 :: _ =>
        let lo : UInt8 := if c0 == 0xF0 then 0x90 else 0x80
        let hi : UInt8 := if c0 == 0xF4 then 0x8F else 0xBF
        if lo ≤ c1 && c1 ≤ hi && isCont c2 && isCont c3 then 4 else 0
      | _ => 0
    else 0
  | [] => 0

def hex4 (a b c d : UInt8) : Nat := hexVal a * 4096 + hexVal b * 256 + hexVal c * 16 + hexVal d

/-- `unquote` of the inside of a scanner-validated string literal. -/
def unquoteAux : Nat → Bytes → Bytes
  | 0, _ => []
  | _, [] => []
  | fuel + 1, 92 :: c :: rest =>
      if c == 117 then
        match rest with
        | a :: b :: c2 :: d :: rest' =>
          let r := hex4 a b c2 d
          if 0xD800 ≤ r && r < 0xDC00 then
            match rest' with
            | 92 :: 117 :: a' :: b' :: c' :: d' :: rest'' =>
              let r2 := hex4 a' b' c' d'
              if 0xDC00 ≤ r2 && r2 < 0xE000 then
                utf8Enc (0x10000 + (r - 0xD800) * 1024 + (r2 - 0xDC00)) ++ unquoteAux fuel rest''
              else replacement ++ unquoteAux fuel rest'
            | _ => replacement ++ unquoteAux fuel rest'
          else if 0xDC00 ≤ r && r < 0xE000 then replacement ++ unquoteAux fuel rest'
          else utf8Enc r ++ unquoteAux fuel rest'
        | _ => []
      else
        let x : UInt8 :=
          if c == 98 then 8 else if c == 102 then 12 else if c == 110 then 10
          else if c == 114 then 13 else if c == 116 then 9 else c
        x :: unquoteAux fuel rest
  | fuel + 1, c :: rest =>
      if c < 0x80 then c :: unquoteAux fuel rest
      else
        let n := utf8Len (c :: rest)
        if n == 0 then replacement ++ unquoteAux fuel rest
        else (c :: rest).take n ++ unquoteAux fuel ((c :: rest).drop n)

def unquote (inner : Bytes) : Bytes := unquoteAux (inner.length + 1) inner

/-! ### the int64 field rule -/

def trimSpace (bs : Bytes) : Bytes :=
  ((bs.dropWhile isSpace).reverse.dropWhile isSpace).reverse

def digitsVal (ds : Bytes) : Nat := ds.foldl (fun acc d => acc * 10 + (d.toNat - 48)) 0

/-- the digits part of `parseInt64` (`negv`: a minus sign preceded it) -/
def parseDigits (negv : Bool) (ds : Bytes) : Option Int :=
  if ds.isEmpty || !ds.all isDigit then none
  else if ds.length > 1 && ds.head? == some 48 then none
  else
    let v := digitsVal ds
    if negv then (if v ≤ 9223372036854775808 then some (-(v : Int)) else none)
    else (if v ≤ 9223372036854775807 then some (v : Int) else none)

/-- `-?(0|[1-9][0-9]*)` as strconv.ParseInt(·,10,64) reads it, within int64. -/
def parseInt64 (bs : Bytes) : Option Int :=
  match bs with
  | 45 :: rest => parseDigits true rest
  | _ => parseDigits false bs

/-- value bytes of field `h` (already trimmed of leading space by the decoder). -/
def decodeHeight (raw : Bytes) : Option Int :=
  if raw == [110, 117, 108, 108] then some 0 else
  match raw with
  | 34 :: _ =>
    if raw.getLast? != some 34 || raw.length < 2 then none else
    let inner := (raw.drop 1).dropLast
    if !checkValid inner then none else
    let t := trimSpace inner
    if t == [110, 117, 108, 108] then some 0 else parseInt64 t
  | _ => none

/-! ### `unmarshalJSONObjectNoDuplicates` + struct decoding -/

def skipSpace (bs : Bytes) : Bytes := bs.dropWhile isSpace

inductive TokSt where | objStart | objComma | objKey
  deriving DecidableEq

/-- The key/value loop. `keys` = keys seen so far (unquoted) with their raw values. -/
def objLoop : Nat → TokSt → List (Bytes × Bytes) → Bytes → Except MetaRes (List (Bytes × Bytes))
  | 0, _, _, _ => .error .err
  | fuel + 1, ts, acc, bs =>
    match skipSpace bs with
    | [] => .error .eof                              -- More()=false, closing Token() hits io.EOF
    | c :: rest =>
      if ts != .objKey && c == 125 then .ok acc      -- '}' : done; nothing after it is read
      else if ts == .objComma && c == 44 then objLoop fuel .objKey acc rest
      else if c == 34 && (ts == .objStart || ts == .objKey) then
        match readValue (c :: rest) with
        | .complete n =>
          let key := unquote (((c :: rest).take n).drop 1).dropLast
          let after := (c :: rest).drop n
          if acc.any (fun kv => kv.1 == key) then .error .err   -- duplicate key
          else
            match skipSpace after with
            | [] => .error .eof                      -- tokenPrepareForDecode: peek hits io.EOF
            | c2 :: rest2 =>
              if c2 != 58 then .error .err else
              match readValue rest2 with
              | .eof => .error .eof
              | .bad => .error .err
              | .complete m =>
                let raw := skipSpace (rest2.take m)
                objLoop fuel .objComma (acc ++ [(key, raw)]) (rest2.drop m)
        | _ => .error .err
      else .error .err

def parseMeta (bz : Bytes) : MetaRes :=
  if bz.isEmpty then .err
  else if bz == [110, 117, 108, 108] then .ok 0
  else
    match skipSpace bz with
    | [] => .eof
    | c :: rest =>
      if c != 123 then .err else
      match objLoop (rest.length + 2) .objStart [] rest with
      | .error e => e
      | .ok kvs =>
        let hres : Option Int :=
          match kvs.find? (fun kv => kv.1 == [104]) with
          | none => some 0
          | some kv => decodeHeight kv.2
        match hres with
        | none => .err
        | some h => if kvs.all (fun kv => kv.1 == [104]) then .ok h else .err

end GnoVerif.C38
