import GnoVerif.Base.Crc32c
import GnoVerif.Base.Base64
import GnoVerif.Model.C38Meta
/-
C38 — the consensus write-ahead log: line format, writer, reader.

Mirrors tm2/pkg/bft/wal/wal.go:
  * `WALWriter.Write`      data line  = base64stdnp( be32(crc32c(p)) ‖ p ) ‖ '\n'
                           refused (nothing written) when `0 < maxSize < len p`;
  * `WALWriter.WriteMeta`  meta line  = '#' ‖ `{"h":"<decimal>"}` ‖ '\n'   (amino JSON of MetaMessage);
  * `WALReader.readline`   bytes up to and including '\n'; a final stretch WITHOUT '\n' is
                           returned together with io.EOF and therefore dropped;
  * `WALReader.ReadMessage` checks, in this order: empty line ⇒ corruption; first byte '#' ⇒
                           meta line (amino JSON; errors are NOT DataCorruptionError); base64
                           decode; ≥ 4 bytes; `maxSize < len payload` ⇒ corruption; empty payload
                           ⇒ corruption; CRC; `amino.UnmarshalSized` of the payload.

A payload `p` is the amino *sized* encoding of a TimedWALMessage (`twmBytes`).
Its inside is opaque here: the last check is the parameter `bodyOK`
(`Cfg.bodyOK p = true` iff `amino.UnmarshalSized(p, &TimedWALMessage{})`
succeeds).  The driver instantiates it with `sizedOK`, the byte-length-prefix
test `UnmarshalSized` performs first; decoding of the message body proper
(amino binary) is out of scope and the harness only ever presents bodies
produced by the real encoder.  Core-only.
-/
namespace GnoVerif.C38
open GnoVerif

/-- A thing in the log: a message payload or a height marker. -/
inductive Item where
  | msg (p : Bytes)
  | mark (h : Int)
  deriving Repr, DecidableEq, Inhabited

/-- How reading ended. `metaerr`: a non-corruption, non-EOF error (only meta lines produce it). -/
inductive End where
  | eof | corrupt | metaerr
  deriving Repr, DecidableEq, Inhabited

structure Cfg where
  maxSize : Int
  bodyOK : Bytes → Bool

/-! ### amino's byte-length prefix (`binary.Uvarint`, `Codec.UnmarshalSized`) -/

/-- `binary.Uvarint`: `some (value, bytesRead)`; `none` for "buffer too small" (n = 0) and overflow (n < 0). -/
def uvarintAux : Nat → Nat → Nat → Bytes → Option (Nat × Nat)
  | _, _, _, [] => none
  | i, x, s, b :: rest =>
    if i == 10 then none
    else if b < 0x80 then
      if i == 9 && b > 1 then none else some (x + b.toNat * 2 ^ s, i + 1)
    else uvarintAux (i + 1) (x + (b.toNat % 128) * 2 ^ s) (s + 7) rest

def uvarint (bs : Bytes) : Option (Nat × Nat) := uvarintAux 0 0 0 bs

/-- The length checks of `amino.UnmarshalSized` (before the body is decoded). -/
def sizedOK (p : Bytes) : Bool :=
  match uvarint p with
  | some (v, n) => v == p.length - n
  | none => false

/-! ### writer -/

def be32 (c : BitVec 32) : Bytes :=
  [UInt8.ofNat (c.toNat / 16777216), UInt8.ofNat (c.toNat / 65536 % 256),
   UInt8.ofNat (c.toNat / 256 % 256), UInt8.ofNat (c.toNat % 256)]

def ofBe32 (a b c d : UInt8) : BitVec 32 :=
  BitVec.ofNat 32 (a.toNat * 16777216 + b.toNat * 65536 + c.toNat * 256 + d.toNat)

/-- A data line, including its newline. -/
def encodeMsg (p : Bytes) : Bytes :=
  Base64.encode (be32 (Crc32c.crc32c p) ++ p) ++ [10]

/-- decimal digits, most significant first (`acc` collects the less significant ones). -/
def natDigitsAux : Nat → Nat → Bytes → Bytes
  | 0, _, acc => acc
  | fuel + 1, n, acc =>
    if n < 10 then UInt8.ofNat (48 + n) :: acc
    else natDigitsAux fuel (n / 10) (UInt8.ofNat (48 + n % 10) :: acc)

def natDigits (n : Nat) : Bytes := natDigitsAux (n + 1) n []

/-- decimal text of an integer (`strconv.FormatInt(h, 10)`). -/
def intDigits (h : Int) : Bytes :=
  if h < 0 then 45 :: natDigits h.natAbs else natDigits h.natAbs

/-- `#{"h":"<h>"}` + newline. -/
def encodeMeta (h : Int) : Bytes :=
  [35, 123, 34, 104, 34, 58, 34] ++ intDigits h ++ [34, 125, 10]

def encodeItem : Item → Bytes
  | .msg p => encodeMsg p
  | .mark h => encodeMeta h

/-- The log after writing `items` in order (every write accepted). -/
def encodeAll (items : List Item) : Bytes := items.flatMap encodeItem

/-- `WALWriter.Write`'s size test: `0 < maxSize && maxSize < len` ⇒ refused. -/
def writerAccepts (maxSize : Int) (p : Bytes) : Bool := !(0 < maxSize && maxSize < (p.length : Int))

/-- What really reaches the log: refused messages are skipped. -/
def written (maxSize : Int) (items : List Item) : List Item :=
  items.filter fun
    | .msg p => writerAccepts maxSize p
    | .mark _ => true

/-! ### reader -/

inductive LineRes where
  | msg (p : Bytes)
  | mark (h : Int)
  | corrupt
  | metaEof            -- meta line whose JSON error is io.EOF
  | metaErr
  deriving Repr, DecidableEq, Inhabited

/-- `ReadMessage` on one line (without its '\n'). -/
def readLine (cfg : Cfg) (line : Bytes) : LineRes :=
  match line with
  | [] => .corrupt                                           -- "found empty line"
  | c :: rest =>
    if c == 35 then
      match parseMeta rest with
      | .ok h => .mark h
      | .eof => .metaEof
      | .err => .metaErr
    else
      match Base64.decode line with
      | none => .corrupt                                     -- "failed to decode base64"
      | some (a :: b :: c2 :: d :: p) =>
        if cfg.maxSize < (p.length : Int) then .corrupt      -- "length … exceeded maximum"
        else if p.isEmpty then .corrupt                      -- "failed to read amino sized bytes"
        else if Crc32c.crc32c p != ofBe32 a b c2 d then .corrupt   -- "checksums do not match"
        else if !cfg.bodyOK p then .corrupt                  -- "failed to decode twmBytes"
        else .msg p
      | some _ => .corrupt                                   -- "failed to read checksum"

/-- The '\n'-terminated lines of a byte string; an unterminated tail is dropped
(`readline` returns it with io.EOF and `ReadMessage` passes the EOF on). -/
def completeLinesAux (cur : Bytes) : Bytes → List Bytes
  | [] => []
  | b :: bs => if b == 10 then cur.reverse :: completeLinesAux [] bs else completeLinesAux (b :: cur) bs

def completeLines (bs : Bytes) : List Bytes := completeLinesAux [] bs

/-- Repeated `ReadMessage`, stopping at the first error. -/
def readLines (cfg : Cfg) : List Bytes → List Item × End
  | [] => ([], .eof)
  | l :: ls =>
    match readLine cfg l with
    | .msg p => let (is, e) := readLines cfg ls; (.msg p :: is, e)
    | .mark h => let (is, e) := readLines cfg ls; (.mark h :: is, e)
    | .corrupt => ([], .corrupt)
    | .metaEof => ([], .eof)
    | .metaErr => ([], .metaerr)

def readAll (cfg : Cfg) (bs : Bytes) : List Item × End := readLines cfg (completeLines bs)

/-- An event of skip-mode reading: an item, or a skipped corrupt line. -/
inductive Event where
  | item (i : Item)
  | skipped
  deriving Repr, DecidableEq

/-- Repeated `ReadMessage`, continuing past DataCorruptionError lines (what
`SearchForHeight` does with `IgnoreDataCorruptionErrors`). -/
def readLinesSkip (cfg : Cfg) : List Bytes → List Event × End
  | [] => ([], .eof)
  | l :: ls =>
    match readLine cfg l with
    | .msg p => let (es, e) := readLinesSkip cfg ls; (.item (.msg p) :: es, e)
    | .mark h => let (es, e) := readLinesSkip cfg ls; (.item (.mark h) :: es, e)
    | .corrupt => let (es, e) := readLinesSkip cfg ls; (.skipped :: es, e)
    | .metaEof => ([], .eof)
    | .metaErr => ([], .metaerr)

def readAllSkip (cfg : Cfg) (bs : Bytes) : List Event × End := readLinesSkip cfg (completeLines bs)

/-! ### vocabulary of the property statements -/

/-- a height fits Go's `int64` (every `MetaMessage.Height` does) -/
def InI64 (h : Int) : Prop := -9223372036854775808 ≤ h ∧ h ≤ 9223372036854775807

/-- A payload the writer may have written and the reader must accept: non-empty
(an amino sized encoding has at least its length byte), within the reader's
limit, and decodable by amino. -/
structure GoodPayload (cfg : Cfg) (p : Bytes) : Prop where
  nonempty : p ≠ []
  fits : (p.length : Int) ≤ cfg.maxSize
  body : cfg.bodyOK p = true

def GoodItem (cfg : Cfg) : Item → Prop
  | .msg p => GoodPayload cfg p
  | .mark h => InI64 h

end GnoVerif.C38
