/-
Model.C23Step — the line-protocol interpreter shared by the C23 and C24 drivers.

Op lines (K, V, S, E hex: lowercase, `e` = empty, `-` = nil; N, I decimal):

  cfg CACHE FAST                 -> ok            (C23 only, first op of a case; ignored by the model)
  set K V                        -> true|false (updated) | err:poisoned | err:emptykey | err:nilvalue
  rm K                           -> <old V> true | - false | err:poisoned
  save                           -> <version> <root hash> | err:poisoned | err:hashmismatch
  rollback                       -> ok
  load N                         -> <latest version> | err:noversion
  prune N                        -> ok | err:latest | err:uncommitted | err:active       (C23 only)
  reopen                         -> <loaded version>                                     (C23 only)
  vers | ver | lhash | audit     -> [v,…] | <version> <working version> | hash of last saved | <#versions> <sum of sizes>
  get K | has K | size | idx I | gwi K | it asc|desc S E LIMIT | iter LIMIT | hash | shape
                                 reads of the working tree (err:poisoned after a failed save)
  at N <read>                    the same read on saved version N | err:noversion
  export N                       -> <hash> <size> of import(export(version N)) | err:noversion | err:emptytree   (C24 only)
  use N                          -> ok            (C24 only, first op of a case: number of harness configurations; ignored by the model)

Anything else: err:badop, state unchanged.  Long outputs are clipped (`clip`).
C24 accepts `load N` only for the latest two versions (every pruning
configuration of the C24 harness retains those).
-/
import GnoVerif.Base.Kit
import GnoVerif.Base.C24Sha256
import GnoVerif.Model.C23Versions
import GnoVerif.Model.C24Hash

namespace GnoVerif.C23.Step
open GnoVerif GnoVerif.Kit GnoVerif.C23 GnoVerif.C24

/-- the driver's state: the model plus "no op executed yet in this case". -/
structure St where
  m : MT := {}
  fresh : Bool := true

def H : Bytes → Bytes := C24Sha.sha256

def hashTree (B : Nat) (t : Tree) : Bytes := treeHash H B t

def fnv64 (s : String) : UInt64 :=
  s.toList.foldl (fun h c => (h ^^^ (UInt64.ofNat c.toNat)) * 1099511628211) 14695981039346656037

def hex16 (x : UInt64) : String :=
  String.ofList ((List.range 16).map fun i => nibble ((x >>> (UInt64.ofNat (4 * (15 - i)))).toNat % 16))

/-- outputs above 200 characters are printed as `#<len>:<fnv1a-64>:<first 96 chars>`
(the Go kit cuts lines at 300 bytes). -/
def clip (s : String) : String :=
  if s.length ≤ 200 then s else
  s!"#{s.length}:{hex16 (fnv64 s)}:{String.ofList (s.toList.take 96)}"

def parseUnsigned (s : String) (bound : Nat) : Option Nat :=
  let cs := s.toList
  if cs.isEmpty ∨ !(cs.all Char.isDigit) then none else
  let n : Nat := cs.foldl (fun a c => a * 10 + (c.toNat - '0'.toNat)) 0
  if n < bound then some n else none

def parseI64 (s : String) : Option Int :=
  let cs := s.toList
  let (neg, ds) := match cs with
    | '-' :: r => (true, r)
    | r => (false, r)
  if ds.isEmpty ∨ !(ds.all Char.isDigit) then none else
  let n : Nat := ds.foldl (fun a c => a * 10 + (c.toNat - '0'.toNat)) 0
  let v : Int := if neg then -(n : Int) else n
  if v < -9223372036854775808 ∨ v > 9223372036854775807 then none else some v

def errStr : Err → String
  | .poisoned => "err:poisoned" | .emptyKey => "err:emptykey" | .nilValue => "err:nilvalue"
  | .noVersion => "err:noversion" | .latest => "err:latest" | .uncommitted => "err:uncommitted"
  | .active => "err:active" | .hashMismatch => "err:hashmismatch" | .noKey => "err:nokey"

def fmtItems (items : List Entry) : String :=
  if items.isEmpty then "-" else
  String.intercalate "," (items.map fun (k, v) => bytesToHex k ++ "=" ++ bytesToHex v)

/-- callback of the iteration ops: collect, stop after `limit` items (0 = never). -/
def collect (limit : Nat) : List Entry → Key → Val → List Entry × Bool :=
  fun acc k v => ((k, v) :: acc, limit > 0 && acc.length + 1 ≥ limit)

def fmtIter (r : List Entry × Bool) : String :=
  clip (boolStr r.2 ++ " " ++ toString r.1.length ++ " " ++ fmtItems r.1.reverse)

/-- the `shape` dump: `E` | `L(k=v,…)` | `I<height>[sep,…](child child …)`. -/
def shapeNode : (h : Nat) → Node h → String
  | 0, (l : Leaf) => "L(" ++ fmtItems l.es ++ ")"
  | h + 1, (n : Inner (Node h)) =>
    "I" ++ toString (h + 1) ++ "[" ++ String.intercalate "," (n.keys.map bytesToHex) ++ "](" ++
      String.intercalate " " (n.kids.map (shapeNode h)) ++ ")"

def shapeTree : Tree → String
  | .empty => "E"
  | .node h n => shapeNode h n

def keyOf : Option Bytes → Bytes
  | some k => k
  | none => []

/-- a read op on a tree value; `none` = not a (well-formed) read op. -/
def readOp (B : Nat) (t : Tree) (toks : List String) : Option String :=
  match toks with
  | ["get", k] => (hexOpt k).map fun k => optBytesToHex (t.get (keyOf k))
  | ["has", k] => (hexOpt k).map fun k => boolStr (t.has (keyOf k))
  | ["size"] => some (toString t.size)
  | ["idx", i] => (parseI64 i).map fun i =>
      match t.getByIndex i with
      | some (k, v) => bytesToHex k ++ " " ++ bytesToHex v
      | none => "err:nokey"
  | ["gwi", k] => (hexOpt k).map fun k =>
      let (i, v) := t.getWithIndex (keyOf k)
      toString i ++ " " ++ optBytesToHex v
  | ["it", dir, s, e, lim] =>
      match (if dir == "asc" then some true else if dir == "desc" then some false else none),
            hexOpt s, hexOpt e, parseUnsigned lim 2147483648 with
      | some asc, some s, some e, some lim => some (fmtIter (t.iterateRange s e asc (collect lim) []))
      | _, _, _, _ => none
  | ["iter", lim] => (parseUnsigned lim 2147483648).map fun lim => fmtIter (t.iterate (collect lim) [])
  | ["hash"] => some (bytesToHex (hashTree B t))
  | ["shape"] => some (clip (shapeTree t))
  | _ => none

def exportOp (B : Nat) (m : MT) (v : Nat) : String :=
  match m.lookup v with
  | none => "err:noversion"
  | some t =>
    match exportTree t with
    | none => "err:emptytree"
    | some stream =>
      match importStream B stream with
      | none => "err:import"
      | some t' => bytesToHex (hashTree B t') ++ " " ++ toString t'.size

/-- one op; `c24 = true` selects the C24 protocol. -/
def step (B : Nat) (c24 : Bool) (st : St) (toks : List String) : St × String :=
  let bad := (st, "err:badop")
  let m := st.m
  let upd (m' : MT) (out : String) : St × String := ({ m := m', fresh := false }, out)
  match toks with
  | ["cfg", c, f] =>
    if c24 ∨ !st.fresh then bad else
    match parseUnsigned c 1048576 with
    | some _ => if f == "0" ∨ f == "1" then (st, "ok") else bad
    | none => bad
  | ["use", n] =>
    -- C24: the case runs on the first `n` of the harness's 54 configurations
    if !c24 ∨ !st.fresh then bad else
    match parseUnsigned n 2147483648 with
    | some n => if n < 1 ∨ n > 54 then bad else (st, "ok")
    | none => bad
  | ["set", k, v] =>
    match hexOpt k, hexOpt v with
    | some k, some v =>
      match m.set B (keyOf k) v with
      | .ok (m', updated) => upd m' (boolStr updated)
      | .error e => upd m (errStr e)
    | _, _ => bad
  | ["rm", k] =>
    match hexOpt k with
    | some k =>
      match m.remove B (keyOf k) with
      | .ok (m', some old) => upd m' (bytesToHex old ++ " true")
      | .ok (m', none) => upd m' "- false"
      | .error e => upd m (errStr e)
    | none => bad
  | ["save"] =>
    match m.saveVersion (hashTree B) with
    | (none, m') => upd m' (toString m'.version ++ " " ++ bytesToHex (hashTree B m'.root))
    | (some e, m') => upd m' (errStr e)
  | ["rollback"] => upd m.rollback "ok"
  | ["load", v] =>
    match parseUnsigned v 2147483648 with
    | some v =>
      if v = 0 then bad
      else if c24 ∧ (v > m.latest ∨ m.latest - v ≥ 2) then bad
      else match m.loadVersion v with
        | .ok (m', latest) => upd m' (toString latest)
        | .error e => upd m (errStr e)
    | none => bad
  | ["prune", v] =>
    if c24 then bad else
    match parseUnsigned v 2147483648 with
    | some v =>
      match m.prune v with
      | .ok m' => upd m' "ok"
      | .error e => upd m (errStr e)
    | none => bad
  | ["reopen"] =>
    if c24 then bad else
    let (m', v) := m.reopen
    upd m' (toString v)
  | ["vers"] =>
    if c24 then bad else
    upd m ("[" ++ String.intercalate "," (m.availableVersions.map toString) ++ "]")
  | ["ver"] => upd m (toString m.version ++ " " ++ toString (m.version + 1))
  | ["lhash"] => upd m (bytesToHex (hashTree B m.lastSaved))
  | ["audit"] =>
    if c24 then bad else
    upd m (toString m.saved.length ++ " " ++ toString ((m.saved.map (·.2.size)).sum))
  | ["export", v] =>
    if !c24 then bad else
    match parseUnsigned v 2147483648 with
    | some v => if v = 0 then bad else upd m (exportOp B m v)
    | none => bad
  | "at" :: v :: rest =>
    match parseUnsigned v 2147483648 with
    | some v =>
      if v = 0 then bad else
      match m.lookup v with
      | none =>
        -- the op must still be a well-formed read
        match readOp B .empty rest with
        | some _ => upd m "err:noversion"
        | none => bad
      | some t =>
        match readOp B t rest with
        | some out => upd m out
        | none => bad
    | none => bad
  | _ =>
    -- working-tree reads; `MutableTree.Size()` is the cached counter
    match toks with
    | ["size"] => if m.poisoned then upd m "err:poisoned" else upd m (toString m.size)
    | _ =>
      match readOp B (if m.poisoned then .empty else m.root) toks with
      | some out => if m.poisoned then upd m "err:poisoned" else upd m out
      | none => bad

end GnoVerif.C23.Step
