import GnoVerif.Model.C04Eval
/-!
C04 — the canonical outcome line of a program run: `<status>[ <output>]`, the
string the driver prints and the harness compares with the GnoVM's (see
harness/minigo/run.go `Outcome.Line`).  Long outputs are cut to 200 characters
plus an FNV-1a hash of the whole.
-/
namespace GnoVerif.C04

def fnv1a (s : String) : Nat :=
  s.toUTF8.toList.foldl (fun h b => ((h ^^^ b.toNat) * 16777619) % 4294967296) 2166136261

def bodyOf (out : Array String) : String :=
  let b := String.join out.toList
  if b.length ≤ 300 then b
  else (b.take 200).toString ++ "~" ++ toString (fnv1a b) ++ "~" ++ toString b.length

def statusOf : Outcome → String
  | .ok => "ok"
  | .oof => "oof"
  | .stuck msg => "stuck:" ++ msg.replace " " "_"
  | .panic (.rt e) => "panic:" ++ e.name
  | .panic (.user v) =>
    match v with
    | .anyV .str (.str s) => "panic:user s:" ++ escBytes s
    | .anyV (.int _) (.int _ i) => "panic:user i:" ++ toString i
    | .anyV .rterr (.str s) => "panic:" ++ escBytes s
    | _ => "panic:user o"

def outcomeLine (r : Outcome × Array String) : String :=
  let b := bodyOf r.2
  if b.isEmpty then statusOf r.1 else statusOf r.1 ++ " " ++ b

end GnoVerif.C04
