/-!
# C54 — gno fmt: the import-block rewriting

Executable model of what `gnovm/pkg/gnofmt/processor.go` does to the import
declarations of a file (`processAndFormat` = `collectUnresolved` →
`cleanupPreviousImports` → `resolve`), as a function on the LIST of import specs,
given three facts about the rest of the file:

* `used`    the names used as a qualifier `n.Sel` that the parser left unresolved
            (`file.Unresolved` minus the predeclared identifiers, kept only when a selector follows),
* `known`   which of them are package-level declarations of the package (all files),
* `resolve` for a name, the path of the first package the resolver offers under that
            name that exposes one of the selectors used with it.

Everything else — printing (`go/printer`), sorting and grouping of the specs
(`golang.org/x/tools/imports` in format-only mode), comments — is NOT modelled: it is
trusted and checked on the implementation by the harness (format twice, re-parse).

The quirks are mirrored:
* a blank import `_ "p"` is looked up under the PACKAGE NAME of p (`isNamedImport` is
  false for `_`), so it can take the place of a plain import of the same name; when the
  name is not wanted, `astutil.DeleteImport` then deletes the PLAIN imports of that path;
* a dot import is looked up under the name "." — never wanted — and always deleted;
* `astutil.DeleteNamedImport` deletes EVERY spec with the same name and path, including
  a copy that an earlier iteration decided to keep.
-/
namespace GnoVerif.C54

inductive Alias (ν : Type) where
  | none                 -- import "p"
  | blank                -- import _ "p"
  | dot                  -- import . "p"
  | named (n : ν)        -- import n "p"
deriving DecidableEq, Repr

structure Imp (ν : Type) where
  alias : Alias ν
  path : ν
  pkg : ν                -- default local name: the resolver's package name, else the last path element
deriving DecidableEq, Repr

structure Env (ν : Type) where
  used : List ν
  known : List ν
  resolve : ν → Option ν

variable {ν : Type} [DecidableEq ν]

/-- the key `cleanupPreviousImports` looks up in `unresolved` (`none`: the key ".") -/
def Imp.lookupName : Imp ν → Option ν
  | ⟨.named n, _, _⟩ => some n
  | ⟨.dot, _, _⟩ => Option.none
  | ⟨_, _, pkg⟩ => some pkg

/-- `i` was not wanted: which specs `DeleteNamedImport` / `DeleteImport` removes -/
def Imp.deletes (i s : Imp ν) : Bool :=
  decide (s.path = i.path) &&
  match i.alias with
  | .named n => decide (s.alias = .named n)
  | .dot => decide (s.alias = .dot)
  | _ => decide (s.alias = .none)

structure CState (ν : Type) where
  cur : List (Imp ν)        -- the import specs still in the file
  unres : List ν            -- the `unresolved` map (a set of names)

def wanted (st : CState ν) (i : Imp ν) : Bool :=
  match i.lookupName with
  | some n => decide (n ∈ st.unres)
  | Option.none => false

def cleanupStep (st : CState ν) (i : Imp ν) : CState ν :=
  if wanted st i then
    { st with unres := st.unres.filter (fun m => ¬ (some m = i.lookupName)) }
  else
    { st with cur := st.cur.filter (fun s => ! i.deletes s) }

/-- the loop over `astutil.Imports(fset, node)` — a snapshot taken before any deletion -/
def cleanup (env : Env ν) (imps : List (Imp ν)) : CState ν :=
  imps.foldl cleanupStep ⟨imps, env.used⟩

/-- `astutil.AddImport(path)`: nothing happens when a plain import of the path exists -/
def addStep (env : Env ν) (cur : List (Imp ν)) (n : ν) : List (Imp ν) :=
  match env.resolve n with
  | some p => if cur.any (fun s => decide (s.alias = .none) && decide (s.path = p)) then cur
              else cur ++ [⟨.none, p, n⟩]
  | Option.none => cur

def rewrite (env : Env ν) (imps : List (Imp ν)) : List (Imp ν) :=
  let st := cleanup env imps
  (st.unres.filter (fun n => ¬ n ∈ env.known)).foldl (addStep env) st.cur

end GnoVerif.C54
