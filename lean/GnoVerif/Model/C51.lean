/-
Model for C51: examples/gno.land/p/demo/tokens/grc20/token.gno — the
`PrivateLedger` (Mint, Burn, Transfer, Approve, TransferFrom, SpendAllowance)
and the query methods of `Token` (TotalSupply, BalanceOf, Allowance,
KnownAccounts), read line by line; statement order is kept, including the
places where the code mutates before it could still panic.

What is mirrored (and where):
* `int64` values are mathematical integers kept in the int64 range; the two
  places where Go arithmetic can wrap are explicit: `wrap64` for the unchecked
  `led.totalSupply += amount` in `Mint`, and `add64`/`sub64` =
  `math/overflow.Add64/Sub64` (`c := a + b; return c, (c > a) == (b > 0)`,
  `c := a - b; return c, (c < a) == (b > 0)`) whose panicking variants
  `Add64p/Sub64p` are `Option` (`none` = Gno panic "addition/subtraction
  overflow").
* `avl.Tree` (`balances`, `allowances`) is an association list with the map
  operations the ledger uses: `Get` (`find`), `Set` (`set`), `Remove`
  (`erase`), `Size` (`length`).  The tree itself is C50's subject.
* `balances.Set(k, 0)` DOES store a zero entry (`Mint(a, 0)`, `Transfer` of 0
  to a fresh account: KnownAccounts grows), whereas a balance that DROPS to 0
  through `Transfer`/`Burn` is removed, and an allowance spent down to 0 is
  removed while `Approve(o, s, 0)` stores 0.
* `SpendAllowance`: address check, `amount < 0`, `amount == 0` (return nil
  BEFORE reading the allowance), `currentAllowance < amount`, `Sub64p`,
  Remove-or-Set.
* `Transfer`: from.IsValid, to.IsValid, `from == to`, `amount < 0`, reads of
  both balances (to first), `fromBalance < amount`, `Add64p` then `Sub64p`
  (both BEFORE any write), `Set(to)`, Remove-or-Set(from).
* `TransferFrom` (after the fix "validates owner != to before spending the
  allowance"): `amount < 0`, owner/to validity (the SPENDER's validity is
  checked only inside `SpendAllowance`), `owner == to`, balance check, then
  `SpendAllowance`, then `Transfer`; an error of either is returned as is, with
  whatever state the callee left.
  `transferFromPreFix` is the function as it was BEFORE that fix (no
  `owner == to` check), kept only for the counter-example theorem.
* `Approve`: owner/spender validity, `amount < 0`, `Set` (a 0 is stored).
* `Mint`: validity, `amount < 0`, `amount > Sub64p(MaxInt64, totalSupply)`
  (the Sub64p can itself panic when totalSupply < 0), then
  `totalSupply += amount` (wrapping) BEFORE `Add64p(currentBalance, amount)`,
  which could panic with the supply already raised — that partial state is what
  the model returns for the panic.
* `Burn`: validity, `amount < 0`, `currentBalance < amount`, then
  `totalSupply = Sub64p(totalSupply, amount)` BEFORE `Sub64p(currentBalance,
  amount)`; Remove-or-Set.

Abstractions: an address is an identity plus the verdict of `address.IsValid()`
on it (a bech32 string with prefix "g" and a 20-byte payload; equality of
addresses = equality of strings); the allowance key `owner + ":" + spender` is
the PAIR (owner, spender) — valid addresses contain no ':' (bech32 charset), and
only valid pairs are ever stored, so the concatenation is injective where it
matters.  `chain.Emit` events, the `Token` metadata and `NewToken`'s validation
are not modelled.  Core-only (no Mathlib).
-/
namespace GnoVerif.C51

/-! ### int64 arithmetic -/

def maxInt64 : Int := 9223372036854775807
def minInt64 : Int := -9223372036854775808

/-- `x` is a value of Go's `int64`. -/
def isI64 (x : Int) : Prop := minInt64 ≤ x ∧ x ≤ maxInt64

instance (x : Int) : Decidable (isI64 x) := by unfold isI64; infer_instance

/-- Go's wrapping of a mathematical result into `int64`. -/
def wrap64 (x : Int) : Int :=
  (x + 9223372036854775808) % 18446744073709551616 - 9223372036854775808

/-- `overflow.Add64`: `c := a + b; return c, (c > a) == (b > 0)`. -/
def add64 (a b : Int) : Int × Bool :=
  let c := wrap64 (a + b)
  (c, decide (c > a) == decide (b > 0))

/-- `overflow.Sub64`: `c := a - b; return c, (c < a) == (b > 0)`. -/
def sub64 (a b : Int) : Int × Bool :=
  let c := wrap64 (a - b)
  (c, decide (c < a) == decide (b > 0))

/-- `overflow.Add64p` (`none` = panic "addition overflow"). -/
def add64p (a b : Int) : Option Int :=
  let r := add64 a b
  if r.2 then some r.1 else none

/-- `overflow.Sub64p` (`none` = panic "subtraction overflow"). -/
def sub64p (a b : Int) : Option Int :=
  let r := sub64 a b
  if r.2 then some r.1 else none

/-! ### addresses and maps -/

/-- An address: its identity (the string) and what `IsValid()` answers on it. -/
structure Addr where
  id : Nat
  valid : Bool
  deriving DecidableEq, Repr

section Map
variable {κ : Type} [DecidableEq κ]

/-- `avl.Tree.Get` (none = nil). -/
def find : List (κ × Int) → κ → Option Int
  | [], _ => none
  | (k', v) :: m, k => if k' = k then some v else find m k

/-- `avl.Tree.Remove`. -/
def erase (m : List (κ × Int)) (k : κ) : List (κ × Int) := m.filter (fun e => e.1 ≠ k)

/-- `avl.Tree.Set`. -/
def set (m : List (κ × Int)) (k : κ) (v : Int) : List (κ × Int) := (k, v) :: erase m k

/-- `x := tree.Get(k); if x == nil { return 0 }; return x.(int64)`. -/
def getD0 (m : List (κ × Int)) (k : κ) : Int := (find m k).getD 0

/-- Σ of all stored values. -/
def total (m : List (κ × Int)) : Int := (m.map (·.2)).sum

def keys (m : List (κ × Int)) : List κ := m.map (·.1)

end Map

/-! ### the ledger -/

structure Ledger where
  totalSupply : Int := 0
  balances : List (Addr × Int) := []
  allowances : List ((Addr × Addr) × Int) := []
  deriving DecidableEq, Repr

inductive Err where
  | invalidAddress | invalidAmount | cannotTransferToSelf
  | insufficientBalance | insufficientAllowance | mintOverflow
  deriving DecidableEq, Repr

/-- Outcome of a ledger call: `nil`, one of the package's errors, or a Gno panic. -/
inductive Res where
  | ok
  | err (e : Err)
  | panic
  deriving DecidableEq, Repr

def init : Ledger := {}

/-- `led.balanceOf` / `Token.BalanceOf`. -/
def balanceOf (L : Ledger) (a : Addr) : Int := getD0 L.balances a

/-- `led.allowance` / `Token.Allowance`. -/
def allowance (L : Ledger) (o s : Addr) : Int := getD0 L.allowances (o, s)

/-- `Token.KnownAccounts` = `balances.Size()`. -/
def knownAccounts (L : Ledger) : Nat := L.balances.length

/-- Σ of all balances. -/
def sumBalances (L : Ledger) : Int := total L.balances

def spendAllowance (L : Ledger) (o s : Addr) (n : Int) : Ledger × Res :=
  if !o.valid || !s.valid then (L, .err .invalidAddress)
  else if n < 0 then (L, .err .invalidAmount)
  else if n == 0 then (L, .ok)
  else
    let cur := allowance L o s
    if cur < n then (L, .err .insufficientAllowance)
    else
      match sub64p cur n with
      | none => (L, .panic)
      | some na =>
        if na == 0 then ({ L with allowances := erase L.allowances (o, s) }, .ok)
        else ({ L with allowances := set L.allowances (o, s) na }, .ok)

def transfer (L : Ledger) (f t : Addr) (n : Int) : Ledger × Res :=
  if !f.valid then (L, .err .invalidAddress)
  else if !t.valid then (L, .err .invalidAddress)
  else if f = t then (L, .err .cannotTransferToSelf)
  else if n < 0 then (L, .err .invalidAmount)
  else
    let toBal := balanceOf L t
    let fromBal := balanceOf L f
    if fromBal < n then (L, .err .insufficientBalance)
    else
      match add64p toBal n with
      | none => (L, .panic)
      | some newTo =>
        match sub64p fromBal n with
        | none => (L, .panic)
        | some newFrom =>
          let b1 := set L.balances t newTo
          let b2 := if newFrom == 0 then erase b1 f else set b1 f newFrom
          ({ L with balances := b2 }, .ok)

def transferFrom (L : Ledger) (o s t : Addr) (n : Int) : Ledger × Res :=
  if n < 0 then (L, .err .invalidAmount)
  else if !o.valid || !t.valid then (L, .err .invalidAddress)
  else if o = t then (L, .err .cannotTransferToSelf)
  else if balanceOf L o < n then (L, .err .insufficientBalance)
  else
    match spendAllowance L o s n with
    | (L1, .ok) => transfer L1 o t n
    | r => r

/-- `TransferFrom` as it was before the fix (no `owner == to` check before the
allowance is spent).  Used only by the counter-example theorem. -/
def transferFromPreFix (L : Ledger) (o s t : Addr) (n : Int) : Ledger × Res :=
  if n < 0 then (L, .err .invalidAmount)
  else if !o.valid || !t.valid then (L, .err .invalidAddress)
  else if balanceOf L o < n then (L, .err .insufficientBalance)
  else
    match spendAllowance L o s n with
    | (L1, .ok) => transfer L1 o t n
    | r => r

def approve (L : Ledger) (o s : Addr) (n : Int) : Ledger × Res :=
  if !o.valid || !s.valid then (L, .err .invalidAddress)
  else if n < 0 then (L, .err .invalidAmount)
  else ({ L with allowances := set L.allowances (o, s) n }, .ok)

def mint (L : Ledger) (a : Addr) (n : Int) : Ledger × Res :=
  if !a.valid then (L, .err .invalidAddress)
  else if n < 0 then (L, .err .invalidAmount)
  else
    match sub64p maxInt64 L.totalSupply with
    | none => (L, .panic)
    | some room =>
      if n > room then (L, .err .mintOverflow)
      else
        let L1 := { L with totalSupply := wrap64 (L.totalSupply + n) }
        let cur := balanceOf L1 a
        match add64p cur n with
        | none => (L1, .panic)
        | some nb => ({ L1 with balances := set L1.balances a nb }, .ok)

def burn (L : Ledger) (a : Addr) (n : Int) : Ledger × Res :=
  if !a.valid then (L, .err .invalidAddress)
  else if n < 0 then (L, .err .invalidAmount)
  else
    let cur := balanceOf L a
    if cur < n then (L, .err .insufficientBalance)
    else
      match sub64p L.totalSupply n with
      | none => (L, .panic)
      | some ts =>
        let L1 := { L with totalSupply := ts }
        match sub64p cur n with
        | none => (L1, .panic)
        | some nb =>
          if nb == 0 then ({ L1 with balances := erase L1.balances a }, .ok)
          else ({ L1 with balances := set L1.balances a nb }, .ok)

/-! ### operations and histories -/

inductive Op where
  | mint (a : Addr) (n : Int)
  | burn (a : Addr) (n : Int)
  | transfer (f t : Addr) (n : Int)
  | approve (o s : Addr) (n : Int)
  | transferFrom (o s t : Addr) (n : Int)
  | spendAllowance (o s : Addr) (n : Int)
  deriving DecidableEq, Repr

/-- The `int64` argument of the call. -/
def Op.amount : Op → Int
  | .mint _ n | .burn _ n | .transfer _ _ n | .approve _ _ n
  | .transferFrom _ _ _ n | .spendAllowance _ _ n => n

def step (L : Ledger) : Op → Ledger × Res
  | .mint a n => mint L a n
  | .burn a n => burn L a n
  | .transfer f t n => transfer L f t n
  | .approve o s n => approve L o s n
  | .transferFrom o s t n => transferFrom L o s t n
  | .spendAllowance o s n => spendAllowance L o s n

/-- The ledger after a history of calls (results ignored). -/
def run (L : Ledger) : List Op → Ledger
  | [] => L
  | op :: ops => run (step L op).1 ops

end GnoVerif.C51
