/-
Model.C47Cipher — executable models of the symmetric primitives behind
tm2/pkg/crypto/xchacha20poly1305 and tm2/pkg/crypto/xsalsa20symmetric.
Core-only (links into the C47 and C42 drivers).

* `hChaCha20` mirrors `hChaCha20Generic` of xchachapoly.go (the one primitive
  implemented inside gno's tree): sixteen `UInt32` words, ten iterations of the
  unrolled column/diagonal quarter rounds, words 0-3 and 12-15 as output.
* ChaCha20 (RFC 8439 block function, 32-bit counter), Poly1305 (arithmetic mod
  2^130-5 on `Nat`), the ChaCha20-Poly1305 AEAD construction, Salsa20 / HSalsa20 /
  XSalsa20 and NaCl `secretbox` are third-party code for gno (golang.org/x/crypto).
  They are modelled here only so that the drivers can produce byte-identical
  ciphertexts; every one of them is compared with the Go implementation by the
  correspondence run of C47.

Byte strings are `List UInt8`.  Nothing here is proved about security; the
functional round-trip facts are in `Proofs/C47*.lean`.
-/
import GnoVerif.Gen.C47

namespace GnoVerif.C47

abbrev Bytes := List UInt8

/-! ### little-endian helpers -/

@[inline] def rotl (x : UInt32) (n : UInt32) : UInt32 := (x <<< n) ||| (x >>> (32 - n))

/-- little-endian `uint32` at byte offset `off` (missing bytes read as 0) -/
def le32At (bs : Bytes) (off : Nat) : UInt32 :=
  (bs.getD off 0).toUInt32 ||| ((bs.getD (off+1) 0).toUInt32 <<< 8) |||
  ((bs.getD (off+2) 0).toUInt32 <<< 16) ||| ((bs.getD (off+3) 0).toUInt32 <<< 24)

def le32Bytes (x : UInt32) : Bytes :=
  [x.toUInt8, (x >>> 8).toUInt8, (x >>> 16).toUInt8, (x >>> 24).toUInt8]

/-- `n` little-endian bytes of a natural number (truncating) -/
def leBytes (n : Nat) (x : Nat) : Bytes :=
  (List.range n).map fun i => UInt8.ofNat ((x >>> (8 * i)) % 256)

/-- little-endian value of a byte string -/
def leNat : Bytes → Nat
  | [] => 0
  | b :: bs => b.toNat + 256 * leNat bs

def xorBytes (a ks : Bytes) : Bytes := List.zipWith (· ^^^ ·) a ks

/-! ### ChaCha -/

/-- "expand 32-byte k", regenerated from the constants of xchachapoly.go -/
def sigma0 : UInt32 := UInt32.ofNat Gen.C47.sigma0.toNat
def sigma1 : UInt32 := UInt32.ofNat Gen.C47.sigma1.toNat
def sigma2 : UInt32 := UInt32.ofNat Gen.C47.sigma2.toNat
def sigma3 : UInt32 := UInt32.ofNat Gen.C47.sigma3.toNat

/-- One ChaCha quarter round, exactly the twelve statements of the Go source
    (`a += b; d ^= a; d = d<<<16; c += d; b ^= c; b = b<<<12; …`). -/
@[inline] def qr (a b c d : UInt32) : UInt32 × UInt32 × UInt32 × UInt32 :=
  let a := a + b
  let d := d ^^^ a
  let d := rotl d 16
  let c := c + d
  let b := b ^^^ c
  let b := rotl b 12
  let a := a + b
  let d := d ^^^ a
  let d := rotl d 8
  let c := c + d
  let b := b ^^^ c
  let b := rotl b 7
  (a, b, c, d)

/-- the sixteen state words -/
structure St where
  v00 : UInt32
  v01 : UInt32
  v02 : UInt32
  v03 : UInt32
  v04 : UInt32
  v05 : UInt32
  v06 : UInt32
  v07 : UInt32
  v08 : UInt32
  v09 : UInt32
  v10 : UInt32
  v11 : UInt32
  v12 : UInt32
  v13 : UInt32
  v14 : UInt32
  v15 : UInt32

/-- one iteration of the Go loop body: four column rounds, four diagonal rounds -/
def doubleRound (s : St) : St :=
  let (v00, v04, v08, v12) := qr s.v00 s.v04 s.v08 s.v12
  let (v01, v05, v09, v13) := qr s.v01 s.v05 s.v09 s.v13
  let (v02, v06, v10, v14) := qr s.v02 s.v06 s.v10 s.v14
  let (v03, v07, v11, v15) := qr s.v03 s.v07 s.v11 s.v15
  let (v00, v05, v10, v15) := qr v00 v05 v10 v15
  let (v01, v06, v11, v12) := qr v01 v06 v11 v12
  let (v02, v07, v08, v13) := qr v02 v07 v08 v13
  let (v03, v04, v09, v14) := qr v03 v04 v09 v14
  ⟨v00, v01, v02, v03, v04, v05, v06, v07, v08, v09, v10, v11, v12, v13, v14, v15⟩

def iter {α} (f : α → α) : Nat → α → α
  | 0, x => x
  | n+1, x => iter f n (f x)

/-- `for i := 0; i < 20; i += 2` — ten iterations -/
def rounds20 (s : St) : St := iter doubleRound 10 s

/-- `hChaCha20Generic(out, nonce, key)`: key 32 bytes, nonce 16 bytes. -/
def hChaCha20 (key nonce : Bytes) : Bytes :=
  let s : St := ⟨sigma0, sigma1, sigma2, sigma3,
    le32At key 0, le32At key 4, le32At key 8, le32At key 12,
    le32At key 16, le32At key 20, le32At key 24, le32At key 28,
    le32At nonce 0, le32At nonce 4, le32At nonce 8, le32At nonce 12⟩
  let r := rounds20 s
  le32Bytes r.v00 ++ le32Bytes r.v01 ++ le32Bytes r.v02 ++ le32Bytes r.v03 ++
  le32Bytes r.v12 ++ le32Bytes r.v13 ++ le32Bytes r.v14 ++ le32Bytes r.v15

/-- RFC 8439 block function: key 32 bytes, 32-bit block counter, nonce 12 bytes → 64 bytes -/
def chachaBlock (key : Bytes) (counter : UInt32) (nonce : Bytes) : Bytes :=
  let s : St := ⟨sigma0, sigma1, sigma2, sigma3,
    le32At key 0, le32At key 4, le32At key 8, le32At key 12,
    le32At key 16, le32At key 20, le32At key 24, le32At key 28,
    counter, le32At nonce 0, le32At nonce 4, le32At nonce 8⟩
  let r := rounds20 s
  le32Bytes (r.v00 + s.v00) ++ le32Bytes (r.v01 + s.v01) ++ le32Bytes (r.v02 + s.v02) ++
  le32Bytes (r.v03 + s.v03) ++ le32Bytes (r.v04 + s.v04) ++ le32Bytes (r.v05 + s.v05) ++
  le32Bytes (r.v06 + s.v06) ++ le32Bytes (r.v07 + s.v07) ++ le32Bytes (r.v08 + s.v08) ++
  le32Bytes (r.v09 + s.v09) ++ le32Bytes (r.v10 + s.v10) ++ le32Bytes (r.v11 + s.v11) ++
  le32Bytes (r.v12 + s.v12) ++ le32Bytes (r.v13 + s.v13) ++ le32Bytes (r.v14 + s.v14) ++
  le32Bytes (r.v15 + s.v15)

/-- `nblocks` consecutive 64-byte blocks starting at block `counter` -/
def chachaBlocks (key nonce : Bytes) : Nat → Nat → Bytes
  | _, 0 => []
  | counter, n+1 => chachaBlock key (UInt32.ofNat counter) nonce ++ chachaBlocks key nonce (counter+1) n

/-- the first `n` keystream bytes from block `counter` on -/
def chachaStream (key nonce : Bytes) (counter n : Nat) : Bytes :=
  (chachaBlocks key nonce counter ((n + 63) / 64)).take n

def chachaXor (key nonce : Bytes) (counter : Nat) (data : Bytes) : Bytes :=
  xorBytes data (chachaStream key nonce counter data.length)

/-! ### Poly1305 -/

def polyP : Nat := 2^130 - 5
def polyClamp : Nat := 0x0ffffffc0ffffffc0ffffffc0fffffff

/-- absorb the message sixteen bytes at a time -/
def polyAcc (r : Nat) : Nat → Bytes → Nat → Nat
  | 0, _, acc => acc
  | fuel+1, msg, acc =>
    match msg with
    | [] => acc
    | _ =>
      let blk := msg.take 16
      let n := leNat blk + 2^(8 * blk.length)
      polyAcc r fuel (msg.drop 16) (((acc + n) * r) % polyP)

/-- Poly1305 one-time authenticator: key 32 bytes → 16-byte tag -/
def poly1305 (key msg : Bytes) : Bytes :=
  let r := leNat (key.take 16) &&& polyClamp
  let s := leNat ((key.drop 16).take 16)
  let acc := polyAcc r (msg.length + 1) msg 0
  leBytes 16 ((acc + s) % 2^128)

/-! ### ChaCha20-Poly1305 (RFC 8439 AEAD), as golang.org/x/crypto/chacha20poly1305 -/

def pad16 (n : Nat) : Bytes := List.replicate ((16 - n % 16) % 16) 0

def macData (ad ct : Bytes) : Bytes :=
  ad ++ pad16 ad.length ++ ct ++ pad16 ct.length ++ leBytes 8 ad.length ++ leBytes 8 ct.length

def polyKey (key nonce : Bytes) : Bytes := (chachaBlock key 0 nonce).take 32

def tagSize : Nat := 16

/-- `Seal(nil, nonce, plaintext, ad)`; key 32 bytes, nonce 12 bytes -/
def chachaPolySeal (key nonce pt ad : Bytes) : Bytes :=
  let ct := chachaXor key nonce 1 pt
  ct ++ poly1305 (polyKey key nonce) (macData ad ct)

/-- `Open(nil, nonce, sealed, ad)`; `none` = "message authentication failed" -/
def chachaPolyOpen (key nonce sealed ad : Bytes) : Option Bytes :=
  if sealed.length < tagSize then none else
  let ct := sealed.take (sealed.length - tagSize)
  let tag := sealed.drop (sealed.length - tagSize)
  if poly1305 (polyKey key nonce) (macData ad ct) = tag then some (chachaXor key nonce 1 ct) else none

/-! ### Salsa20 family and NaCl secretbox (golang.org/x/crypto/salsa20/salsa, nacl/secretbox) -/

/-- Salsa20 quarter round on (y0,y1,y2,y3) -/
@[inline] def sqr (y0 y1 y2 y3 : UInt32) : UInt32 × UInt32 × UInt32 × UInt32 :=
  let y1 := y1 ^^^ rotl (y0 + y3) 7
  let y2 := y2 ^^^ rotl (y1 + y0) 9
  let y3 := y3 ^^^ rotl (y2 + y1) 13
  let y0 := y0 ^^^ rotl (y3 + y2) 18
  (y0, y1, y2, y3)

def salsaDoubleRound (s : St) : St :=
  -- column round
  let (x0, x4, x8, x12) := sqr s.v00 s.v04 s.v08 s.v12
  let (x5, x9, x13, x1) := sqr s.v05 s.v09 s.v13 s.v01
  let (x10, x14, x2, x6) := sqr s.v10 s.v14 s.v02 s.v06
  let (x15, x3, x7, x11) := sqr s.v15 s.v03 s.v07 s.v11
  -- row round
  let (x0, x1, x2, x3) := sqr x0 x1 x2 x3
  let (x5, x6, x7, x4) := sqr x5 x6 x7 x4
  let (x10, x11, x8, x9) := sqr x10 x11 x8 x9
  let (x15, x12, x13, x14) := sqr x15 x12 x13 x14
  ⟨x0, x1, x2, x3, x4, x5, x6, x7, x8, x9, x10, x11, x12, x13, x14, x15⟩

def salsaRounds20 (s : St) : St := iter salsaDoubleRound 10 s

/-- input block: 16 bytes `inp` (nonce‖counter or the HSalsa nonce), key 32 bytes -/
def salsaInit (key inp : Bytes) : St :=
  ⟨sigma0, le32At key 0, le32At key 4, le32At key 8,
   le32At key 12, sigma1, le32At inp 0, le32At inp 4,
   le32At inp 8, le32At inp 12, sigma2, le32At key 16,
   le32At key 20, le32At key 24, le32At key 28, sigma3⟩

def hSalsa20 (key nonce16 : Bytes) : Bytes :=
  let r := salsaRounds20 (salsaInit key nonce16)
  le32Bytes r.v00 ++ le32Bytes r.v05 ++ le32Bytes r.v10 ++ le32Bytes r.v15 ++
  le32Bytes r.v06 ++ le32Bytes r.v07 ++ le32Bytes r.v08 ++ le32Bytes r.v09

/-- Salsa20 block `ctr` (64-bit counter) for an 8-byte nonce -/
def salsaBlock (key nonce8 : Bytes) (ctr : Nat) : Bytes :=
  let s := salsaInit key (nonce8.take 8 ++ leBytes 8 ctr)
  let r := salsaRounds20 s
  le32Bytes (r.v00 + s.v00) ++ le32Bytes (r.v01 + s.v01) ++ le32Bytes (r.v02 + s.v02) ++
  le32Bytes (r.v03 + s.v03) ++ le32Bytes (r.v04 + s.v04) ++ le32Bytes (r.v05 + s.v05) ++
  le32Bytes (r.v06 + s.v06) ++ le32Bytes (r.v07 + s.v07) ++ le32Bytes (r.v08 + s.v08) ++
  le32Bytes (r.v09 + s.v09) ++ le32Bytes (r.v10 + s.v10) ++ le32Bytes (r.v11 + s.v11) ++
  le32Bytes (r.v12 + s.v12) ++ le32Bytes (r.v13 + s.v13) ++ le32Bytes (r.v14 + s.v14) ++
  le32Bytes (r.v15 + s.v15)

def salsaBlocks (key nonce8 : Bytes) : Nat → Nat → Bytes
  | _, 0 => []
  | ctr, n+1 => salsaBlock key nonce8 ctr ++ salsaBlocks key nonce8 (ctr+1) n

/-- XSalsa20 keystream, `n` bytes from stream offset 0; nonce 24 bytes -/
def xsalsaStream (key nonce24 : Bytes) (n : Nat) : Bytes :=
  let sub := hSalsa20 key (nonce24.take 16)
  (salsaBlocks sub (nonce24.drop 16) 0 ((n + 63) / 64)).take n

/-- `secretbox.Seal(nil, msg, nonce, key)` = tag ‖ ciphertext -/
def secretboxSeal (msg nonce24 key : Bytes) : Bytes :=
  let ks := xsalsaStream key nonce24 (32 + msg.length)
  let ct := xorBytes msg (ks.drop 32)
  poly1305 (ks.take 32) ct ++ ct

/-- `secretbox.Open(nil, box, nonce, key)` -/
def secretboxOpen (box nonce24 key : Bytes) : Option Bytes :=
  if box.length < tagSize then none else
  let tag := box.take tagSize
  let ct := box.drop tagSize
  let ks := xsalsaStream key nonce24 (32 + ct.length)
  if poly1305 (ks.take 32) ct = tag then some (xorBytes ct (ks.drop 32)) else none

end GnoVerif.C47
