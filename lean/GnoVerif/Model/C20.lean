import GnoVerif.Model.C20Wire
/-
Type-descriptor driven model of amino's REFLECTION binary codec
(tm2/pkg/amino/binary_encode.go, binary_decode.go, amino.go MarshalReflect /
UnmarshalReflect, wellknown.go time/duration) for property C20.

Hand-written, mirroring the Go code function by function, quirks included
(tie = correspondence, DESIGN.md §3 C).  Core-only.

* `TD`   — what amino's `TypeInfo` + `FieldOptions` say about a (dereferenced) type;
* `Def`  — an environment entry: a struct (fields with number / pointer / write_empty)
           or an alias for a registered non-struct type; `Env` maps the Any full
           name to its definition (and the interfaces it is assignable to);
* `Val`  — the amino-visible value (harness/cmd/c20/mv.go).

Quirks of the real decoder that are mirrored on purpose (each is a recorded
finding of C20, see Props/C20.lean):
* `decodeMaybeBare` adds `UvarintSize(len(buf))` — the CANONICAL size of the
  length prefix — to the consumed-byte count instead of the bytes really read,
  so a padded length prefix makes the caller resume too early;
* `decodeReflectBinaryByteSlice` accepts an empty remainder (no length byte);
* a non-bare slice stops at a larger field number and reports fewer bytes than
  its length prefix covers;
* an absent struct / an empty Any value is the Go zero value (times = year 1),
  while a present-but-empty struct gets amino's defaults (times = 1970).
-/
namespace GnoVerif.C20

inductive TD where
  | uvar (bits : Nat)        -- uint8/16/32/64, uint        (uvarint)
  | svar (bits : Nat)        -- int8/16/32/64, int          (zig-zag varint)
  | pvar (bits : Nat)        -- int32 / int64,int with binary:"varint"
  | fix32 (signed : Bool)    -- int32 / uint32 with binary:"fixed32"
  | fix64 (signed : Bool)    -- int64,int / uint64,uint with binary:"fixed64"
  | bool | str | bytes
  | barr (n : Nat)           -- [n]byte
  | time | dur
  | iface (id : Bytes)
  | list (ptr nilElems : Bool) (elem : TD)   -- slice; `ptr`: element type is a pointer
  | ref (name : Bytes)       -- a struct (or registered alias) defined in the environment
  | marsh (goStruct : Bool) (repr : TD)   -- AminoMarshaler (Go kind struct?): encoded as its repr
  | unsupported
deriving Repr, DecidableEq, Inhabited

structure FieldD where
  num : Nat
  ptr : Bool
  writeEmpty : Bool
  td : TD
deriving Repr, DecidableEq, Inhabited

inductive Def where
  | struct (fields : List FieldD) (reserved : List Nat)
  | alias (td : TD)
deriving Repr, Inhabited

/-- names (Any full names, interface ids) are byte strings: kernel-friendly. -/
structure Entry where
  name : Bytes
  ifaces : List Bytes
  defn : Def
deriving Repr, Inhabited

/-- the descriptor a registered name stands for: the alias, or a reference to the struct. -/
def ctdOf (ent : Entry) (name : Bytes) : TD :=
  match ent.defn with
  | .alias a => a
  | .struct _ _ => .ref name

abbrev Env := List Entry

def Env.find? (env : Env) (name : Bytes) : Option Entry :=
  List.find? (fun e => e.name == name) env

inductive Val where
  | u (n : Nat)
  | i (z : Int)
  | b (v : Bool)
  | x (bs : Bytes)
  | t (s ns : Int)
  | d (ns : Int)
  | nil
  | list (vs : List Val)
  | struct (vs : List Val)
  | any (name : Bytes) (v : Val)
  | m (goZero : Bool) (v : Val)
deriving Repr, Inhabited

mutual
/-- boolean equality of values (kernel-evaluable; `deriving DecidableEq` does not
cover nested inductives).  `Val.beq_refl` / `Val.eq_of_beq` are in Proofs/C20Val.lean. -/
def Val.beq : Val → Val → Bool
  | .u p, .u q => p == q
  | .i p, .i q => p == q
  | .b p, .b q => p == q
  | .x p, .x q => p == q
  | .t p1 p2, .t q1 q2 => p1 == q1 && p2 == q2
  | .d p, .d q => p == q
  | .nil, .nil => true
  | .list ps, .list qs => Val.beqList ps qs
  | .struct ps, .struct qs => Val.beqList ps qs
  | .any n1 p, .any n2 q => n1 == n2 && Val.beq p q
  | .m g1 p, .m g2 q => g1 == g2 && Val.beq p q
  | _, _ => false
def Val.beqList : List Val → List Val → Bool
  | [], [] => true
  | p :: ps, q :: qs => Val.beq p q && Val.beqList ps qs
  | _, _ => false
end

/-! ### typ3 and the struct-or-unpacked test -/

/-- The type a `ref` stands for, if it is an alias (registered non-struct type). -/
def aliasOf (env : Env) (name : Bytes) : Option TD :=
  match env.find? name with
  | some ⟨_, _, .alias td⟩ => some td
  | _ => none

/-- `typeToTyp3(info.ReprType.Type, fopts)`.  `fuel` bounds alias / marsh chains. -/
def typ3Of (env : Env) : Nat → TD → Typ3
  | _, .uvar _ | _, .svar _ | _, .pvar _ | _, .bool => .varint
  | _, .fix32 _ => .f32
  | _, .fix64 _ => .f64
  | k + 1, .marsh _ r => typ3Of env k r
  | k + 1, .ref n => match aliasOf env n with
    | some td => typ3Of env k td
    | none => .blen
  | _, _ => .blen

/-- strip `marsh` wrappers and aliases: the repr-level descriptor. -/
def reprOf (env : Env) : Nat → TD → TD
  | k + 1, .marsh _ r => reprOf env k r
  | k + 1, .ref n => match aliasOf env n with
    | some td => reprOf env k td
    | none => .ref n
  | _, td => td

def chainFuel : Nat := 8

def typ3 (env : Env) (td : TD) : Typ3 := typ3Of env chainFuel td
def repr (env : Env) (td : TD) : TD := reprOf env chainFuel td

/-- element repr kind is uint8 (`einfo.ReprType.Type.Kind() == reflect.Uint8`). -/
def isByteElem (env : Env) (e : TD) : Bool := repr env e == .uvar 8

/-- `TypeInfo.IsStructOrUnpacked`. -/
def isStructOrUnpacked (env : Env) (td : TD) : Bool :=
  match repr env td with
  | .ref _ => true                       -- a struct
  | .iface _ => true
  | .time => true                        -- time.Time is a struct kind
  | .list _ _ e => typ3 env e == .blen
  | _ => false

/-- `writeImplicit` of the list codecs: the element is itself a list whose
elements are neither bytes nor ByteLength things. -/
def writeImplicit (env : Env) (e : TD) : Bool :=
  match repr env e with
  | .list _ _ ee => !(isByteElem env ee) && typ3 env ee != .blen
  | _ => false

/-- field is an "unpacked list" (codec.go parseStructInfoWLocked). -/
def isUnpackedList (env : Env) (td : TD) : Bool :=
  match repr env td with
  | .list _ _ e => typ3 env e == .blen
  | _ => false

/-- the element is (a pointer to) a struct: `einfo.Type.Kind() == reflect.Struct`
(Go kind of the element type itself, AminoMarshaler structs included; time.Time too). -/
def isStructKind (env : Env) : TD → Bool
  | .ref n => (aliasOf env n).isNone
  | .time => true
  | .marsh gs _ => gs
  | _ => false

/-! ### default / zero values (reflect.go defaultValue, reflect.Zero) -/

def minTimeSeconds : Int := -62135596800
def maxTimeSeconds : Int := 253402300800

/-- `reflect.Zero(T)` as an amino-visible value (nil pointers to non-structs are
shown as the default they are identified with).  `k` bounds struct nesting. -/
def zeroVal (env : Env) : Nat → TD → Val
  | _, .uvar _ => .u 0
  | _, .svar _ | _, .pvar _ => .i 0
  | _, .fix32 s | _, .fix64 s => if s then .i 0 else .u 0
  | _, .bool => .b false
  | _, .str | _, .bytes => .x []
  | _, .barr n => .x (List.replicate n 0)
  | _, .time => .t minTimeSeconds 0
  | _, .dur => .d 0
  | _, .iface _ => .nil
  | _, .list _ _ _ => .list []
  | k + 1, .marsh gs r => .m (!gs) (zeroVal env k r)
  | k + 1, .ref n =>
    match env.find? n with
    | some ⟨_, _, .struct fs _⟩ =>
      .struct (fs.map fun f =>
        if f.ptr then
          (if f.td == .time then .t 0 0
           else if isStructKind env f.td then Val.nil
           else zeroVal env k f.td)
        else zeroVal env k f.td)
    | some ⟨_, _, .alias td⟩ => zeroVal env k td
    | none => .nil
  | _, _ => .nil

/-- enough fuel for any acyclic nesting of the env's struct types. -/
def zeroOf (env : Env) (td : TD) : Val := zeroVal env (env.length + 4) td

/-- `defaultValue(T)` for a slot (pointer-ness included). -/
def defaultSlot (env : Env) (ptr : Bool) (td : TD) : Val :=
  if td == .time then .t 0 0
  else if ptr && isStructKind env td then .nil
  else zeroOf env td

/-! ### encoding (binary_encode.go) -/

inductive EncErr where
  | badValue      -- value does not fit the descriptor (harness bug, not amino)
  | time          -- validateTimeValue / validateDurationValue
  | nilElem       -- "nil struct pointers in lists not supported unless nil_elements"
  | unregistered
  | unsupported
deriving Repr, DecidableEq

abbrev EncM := Except EncErr

/-- `writeMaybeBare`. -/
def writeMaybeBare (bz : Bytes) (bare : Bool) : Bytes :=
  if bz.isEmpty then (if bare then [] else [0])
  else if bare then bz else encBytes bz

/-- `EncodeTimeValue` body (bare). -/
def encTimeBody (s ns : Int) : EncM Bytes :=
  if s < minTimeSeconds ∨ s ≥ maxTimeSeconds then .error .time
  else if ns < 0 ∨ ns > 999999999 then .error .time
  else .ok ((if s ≠ 0 then encKey 1 .varint ++ encUvarint (toU64 s) else []) ++
            (if ns ≠ 0 then encKey 2 .varint ++ encUvarint (toU64 ns) else []))

def validDuration (s ns : Int) : Bool :=
  !((s > 0 && ns < 0) || (s < 0 && ns > 0)) &&
  decide (-315576000000 ≤ s ∧ s ≤ 315576000000) && decide (-999999999 ≤ ns ∧ ns ≤ 999999999)

/-- `EncodeDuration` body (bare): `s, ns := d/1e9, int32(d%1e9)` (truncated). -/
def encDurBody (d : Int) : EncM Bytes :=
  let s := Int.tdiv d 1000000000
  let ns := Int.tmod d 1000000000
  if !validDuration s ns then .error .time
  else .ok ((if s ≠ 0 then encKey 1 .varint ++ encUvarint (toU64 s) else []) ++
            (if ns ≠ 0 then encKey 2 .varint ++ encUvarint (toU64 ns) else []))

def inRangeU (bits n : Nat) : Bool := n < 2 ^ bits
def inRangeI (bits : Nat) (z : Int) : Bool := decide (-(2 ^ (bits - 1) : Int) ≤ z ∧ z < (2 ^ (bits - 1) : Int))

/-- `isNonstructDefaultValue(rv)` on the Go value behind a slot.  `v = .nil` is a
nil pointer / nil interface. -/
def isDefaultVal : Val → Bool
  | .nil => true
  | .u n => n == 0
  | .i z => z == 0
  | .b v => !v
  | .x _ => false   -- decided by the descriptor (string/slice vs array), see `isDefault`
  | .list vs => vs.isEmpty
  | .m gz _ => gz
  | _ => false

/-- descriptor-aware version: `[]byte` / string are default when empty, `[n]byte` never. -/
def isDefault (env : Env) (td : TD) (v : Val) : Bool :=
  match v with
  | .x bs => (match repr env td with | .barr _ => false | _ => bs.isEmpty)
  | .m gz _ => gz
  | _ => isDefaultVal v

/-- primitive encoders (`byteOpt` = beOptionByte, raw byte for uint8 list elements). -/
def encPrim (td : TD) (v : Val) (byteOpt : Bool) : Option (EncM Bytes) :=
  match td, v with
  | .uvar bits, .u n =>
    some (if !inRangeU bits n then .error .badValue
          else if byteOpt && bits == 8 then .ok [UInt8.ofNat n] else .ok (encUvarint n))
  | .svar bits, .i z => some (if inRangeI bits z then .ok (encVarint z) else .error .badValue)
  | .pvar bits, .i z => some (if inRangeI bits z then .ok (encPlainVarint z) else .error .badValue)
  | .fix32 true, .i z => some (if inRangeI 32 z then .ok (encFixed32 (toU32 z)) else .error .badValue)
  | .fix32 false, .u n => some (if inRangeU 32 n then .ok (encFixed32 n) else .error .badValue)
  | .fix64 true, .i z => some (if inRangeI 64 z then .ok (encFixed64 (toU64 z)) else .error .badValue)
  | .fix64 false, .u n => some (if inRangeU 64 n then .ok (encFixed64 n) else .error .badValue)
  | .bool, .b v => some (.ok (encBool v))
  | .str, .x bs => some (.ok (encBytes bs))
  | .bytes, .x bs => some (.ok (encBytes bs))
  | .barr n, .x bs => some (if bs.length == n then .ok (encBytes bs) else .error .badValue)
  | _, _ => none

/-- `writeFieldIfNotEmpty`'s final step: key ++ value, rolled back when the value is
the single byte 0x00 and the field is not write-empty. -/
def fieldBytes (num : Nat) (t : Typ3) (value : Bytes) (writeEmpty : Bool) : Bytes :=
  if !writeEmpty && value == [0] then [] else encKey num t ++ value

mutual
/-- `encodeReflectBinary(info, rv, fopts{BinFieldNum: fnum}, bare, options)`.
`rv` is never a pointer (callers dereference); `.nil` only for a nil interface. -/
def enc (env : Env) (td : TD) (v : Val) (fnum : Nat) (bare byteOpt : Bool) : EncM Bytes :=
  match v with
  | .u n => (encPrim td (.u n) byteOpt).getD (.error .badValue)
  | .i z => (encPrim td (.i z) byteOpt).getD (.error .badValue)
  | .b x => (encPrim td (.b x) byteOpt).getD (.error .badValue)
  | .x bs => (encPrim td (.x bs) byteOpt).getD (.error .badValue)
  | .t s ns =>
    match td with
    | .time => do
      let body ← encTimeBody s ns
      pure (if bare then body else encBytes body)
    | _ => .error .badValue
  | .d ns =>
    match td with
    | .dur => do
      let body ← encDurBody ns
      pure (if bare then body else encBytes body)
    | _ => .error .badValue
  | .m _ rv =>
    match td with
    | .marsh _ r => enc env r rv fnum bare byteOpt
    | _ => .error .badValue
  | .nil =>
    match td with
    | .iface _ => pure (writeMaybeBare [] bare)
    | _ => .error .badValue
  | .any name cv =>
    match td with
    | .iface _ =>
      match env.find? name with
      | none => .error .unregistered
      | some ent =>
        let ctd : TD := ctdOf ent name
        do
        let buf2 ←
          if !isStructOrUnpacked env ctd then do
            let value ← enc env ctd cv 0 false false
            pure (fieldBytes 1 (typ3 env ctd) value false)
          else enc env ctd cv 1 true false
        let buf := encKey 1 .blen ++ encBytes (47 :: name) ++
          (if buf2.isEmpty || buf2 == [0] then [] else encKey 2 .blen ++ encBytes buf2)
        pure (writeMaybeBare buf bare)
    | _ => .error .badValue
  | .list vs =>
    match td with
    | .list ptr nilElems e => do
      -- encodeReflectBinaryList
      let bo := isByteElem env e
      if typ3 env e != .blen || bo then
        let buf ← encPacked env e vs bo
        pure (writeMaybeBare buf bare)
      else
        let buf ← encUnpacked env e ptr nilElems (writeImplicit env e) fnum vs
        pure (writeMaybeBare buf bare)
    | _ => .error .badValue
  | .struct vs =>
    match td with
    | .ref name =>
      match env.find? name with
      | some ⟨_, _, .struct fs _⟩ => do
        let buf ← encFields env fs vs
        pure (writeMaybeBare buf bare)
      | _ => .error .badValue
    | _ => .error .badValue

/-- packed list body: every element with `bare=false`; a nil pointer element is
encoded as the zero value of its type. -/
def encPacked (env : Env) (e : TD) (vs : List Val) (bo : Bool) : EncM Bytes :=
  match vs with
  | [] => pure []
  | v :: rest => do
    let one ← match v with
      | .nil => (encPrim (repr env e) (zeroOf env (repr env e)) bo).getD (.error .badValue)
      | _ => enc env e v 0 false bo
    let more ← encPacked env e rest bo
    pure (one ++ more)

/-- unpacked list body: one `key(fnum, ByteLength)` per element. -/
def encUnpacked (env : Env) (e : TD) (ptr nilElems implicit : Bool) (fnum : Nat) (vs : List Val) : EncM Bytes :=
  match vs with
  | [] => pure []
  | v :: rest => do
    let one ←
      if isDefault env e v then
        if isStructKind env e && ptr && !nilElems then .error .nilElem
        else pure [0]
      else if implicit then do
        let inner ← enc env e v 0 false false
        pure (encBytes (encKey 1 .blen ++ inner))
      else enc env e v 1 false false
    let more ← encUnpacked env e ptr nilElems implicit fnum rest
    pure (encKey fnum .blen ++ one ++ more)

/-- `encodeReflectBinaryStruct` field loop. -/
def encFields (env : Env) (fs : List FieldD) (vs : List Val) : EncM Bytes :=
  match vs, fs with
  | [], [] => pure []
  | v :: vs', f :: fs' => do
    let one ←
      if !f.writeEmpty && isDefault env f.td v then pure []
      else if isUnpackedList env f.td then
        match v with
        | .list es =>
          match f.td with
          | .list ptr ne e => encUnpacked env e ptr ne (writeImplicit env e) f.num es
          | _ => .error .unsupported   -- AminoMarshaler with a list repr: not modelled
        | _ => .error .badValue
      else do
        let value ← enc env f.td v 0 false false
        pure (fieldBytes f.num (typ3 env f.td) value (f.writeEmpty || (f.ptr && !(v matches .nil))))
    let more ← encFields env fs' vs'
    pure (one ++ more)
  | _, _ => .error .badValue
end

/-- `Codec.MarshalReflect` for the registered type `name`. -/
def marshal (env : Env) (name : Bytes) (v : Val) : EncM Bytes :=
  match env.find? name with
  | none => .error .unregistered
  | some ent =>
    let td : TD := ctdOf ent name
    if !isStructOrUnpacked env td then do
      let value ← enc env td v 0 false false
      pure (fieldBytes 1 (typ3 env td) value false)
    else enc env td v 1 true false

/-! ### decoding (binary_decode.go) -/

/-- `decodeMaybeBare`: the payload, the bytes REALLY consumed by prefix+payload,
and the count the Go code adds to `n` for the prefix (canonical size). -/
def decMaybeBare (bz : Bytes) (bare : Bool) : Option (Bytes × Nat) :=
  if bare then some (bz, 0)
  else match decBytes bz with
    | none => none
    | some (buf, _) => some (buf, uvarintSize buf.length)

/-- `decodeSecondsAndNanos`. -/
def decSecNanos : Nat → Bytes → Bool → Bool → Int → Int → Nat → Option (Int × Int × Nat)
  | 0, _, _, _, _, _, _ => none
  | k + 1, bz, sawSec, sawNs, s, ns, n =>
    if bz.isEmpty then some (s, ns, n) else
    match decKeyRaw bz with
    | none => none
    | some (num, t, hn) =>
      if num = 1 ∧ t = 0 then
        if sawSec ∨ sawNs then none else
        match decUvarint (bz.drop hn) with
        | none => none
        | some (sec, vn) => decSecNanos k (bz.drop (hn + vn)) true sawNs (ofU64 sec) ns (n + hn + vn)
      else if num = 2 ∧ t = 0 then
        if sawNs then none else
        match decUvarint (bz.drop hn) with
        | none => none
        | some (nsec, vn) =>
          let nv := ofU64 nsec
          if nv ≥ 1000000000 ∨ nv ≤ -1000000000 then none
          else decSecNanos k (bz.drop (hn + vn)) sawSec true s nv (n + hn + vn)
      else none

/-- `DecodeTime` on the whole payload. -/
def decTimeBody (bz : Bytes) : Option (Val × Nat) :=
  match decSecNanos 3 bz false false 0 0 0 with
  | none => none
  | some (s, ns, n) =>
    if s < minTimeSeconds ∨ s ≥ maxTimeSeconds then none
    else if ns < 0 ∨ ns > 999999999 then none
    else some (.t s ns, n)

/-- `DecodeDuration` (with `validateDurationValueGo`, int64 wrap of `s*1e9+ns` included). -/
def decDurBody (bz : Bytes) : Option (Val × Nat) :=
  match decSecNanos 3 bz false false 0 0 0 with
  | none => none
  | some (s, ns, n) =>
    if !validDuration s ns then none
    else if s < -9223372036 ∨ s > 9223372036 then none
    else
      let sns := ofU64 (toU64 (s * 1000000000 + ns))
      if (sns > 0 ∧ s < 0) ∨ (sns < 0 ∧ s > 0) then none
      else some (.d sns, n)

/-- primitive decoders; `none` = not a primitive, `some none` = error. -/
def decPrim (td : TD) (bz : Bytes) (byteOpt : Bool) : Option (Option (Val × Nat)) :=
  match td with
  | .uvar bits =>
    some (if byteOpt && bits == 8 then
            (match bz with | [] => none | b :: _ => some (.u b.toNat, 1))
          else match decUvarint bz with
            | none => none
            | some (u, n) =>
              if bits == 8 ∨ bits == 16 then (if u < 2 ^ bits then some (.u u, n) else none)
              else some (.u (u % 2 ^ bits), n))
  | .svar bits =>
    some (match decVarint bz with
      | none => none
      | some (z, n) =>
        if bits == 8 ∨ bits == 16 then (if inRangeI bits z then some (.i z, n) else none)
        else if bits == 32 then some (.i (ofU32 (toU32 z)), n)
        else some (.i z, n))
  | .pvar bits =>
    some (match decPlainVarint bz with
      | none => none
      | some (z, n) => if bits == 32 then (if inRangeI 32 z then some (.i z, n) else none) else some (.i z, n))
  | .fix32 s => some ((decFixed 4 bz).map fun (u, n) => (if s then .i (ofU32 u) else .u u, n))
  | .fix64 s => some ((decFixed 8 bz).map fun (u, n) => (if s then .i (ofU64 u) else .u u, n))
  | .bool => some ((decBool bz).map fun (b, n) => (.b b, n))
  | .str => some ((decBytes bz).map fun (bs, n) => (.x bs, n))
  | .bytes =>
    -- decodeReflectBinaryByteSlice: `if len(bz) == 0 { zero; return 0, nil }`
    some (if bz.isEmpty then some (.x [], 0) else (decBytes bz).map fun (bs, n) => (.x bs, n))
  | .barr k =>
    some (if bz.length < k then none
          else match decBytes bz with
            | none => none
            | some (bs, n) => if bs.length = k then some (.x bs, n) else none)
  | _ => none

/-- `consumeAny`. -/
def consumeAny (t : Nat) (bz : Bytes) : Option Nat :=
  match t with
  | 0 => (decUvarint bz).map (·.2)
  | 1 => (decFixed 8 bz).map (·.2)
  | 2 => (decBytes bz).map (·.2)
  | 5 => (decFixed 4 bz).map (·.2)
  | _ => none

def maxAnyDepth : Nat := 64

/-- the next byte is 0x00 (the "empty element" marker of the list decoders). -/
def headZero : Bytes → Bool
  | b :: _ => b == 0
  | [] => false

/-- `IsASCIIText`. -/
def isASCIIText (bs : Bytes) : Bool := !bs.isEmpty && bs.all fun b => 32 ≤ b.toNat && b.toNat ≤ 126

/-- `typeURLtoFullname`: the part after the last '/', which must exist. -/
def fullnameOf (bs : Bytes) : Option Bytes :=
  if bs.contains 47 then some ((bs.reverse.takeWhile (· != 47)).reverse) else none

/-- the optional second field of an Any (`Value`, field 2, ByteLength), which must end
the envelope: the payload and the bytes the Go code adds to `n` for key + length prefix. -/
def decAnyValue (rest : Bytes) : Option (Bytes × Nat) :=
  if rest.isEmpty then some ([], 0) else
  match decKeyRaw rest with
  | none => none
  | some (num2, t2, kn2) =>
    if num2 ≠ 2 ∨ t2 ≠ 2 then none else
    match decBytes (rest.drop kn2) with
    | none => none
    | some (value, vn) =>
      if (rest.drop (kn2 + vn)).isEmpty then some (value, kn2 + (vn - value.length)) else none

/-- the implicit-struct key (`field 1`, the concrete type's typ3) in front of an Any value
whose concrete type is not a struct / unpacked list; its length. -/
def anyValueHdr (env : Env) (ctd : TD) (value : Bytes) : Option Nat :=
  if !isStructOrUnpacked env ctd then
    match decKeyRaw value with
    | none => none
    | some (n1, t1, k1) =>
      if n1 ≠ 1 then none
      else if t1 ≠ (typ3 env ctd).code then none else some k1
  else some 0

mutual
/-- `decodeReflectBinary(bz, info, rv, fopts{BinFieldNum: fnum}, bare, options, anyDepth)`
→ the decoded value and the count `n` the Go code reports (see the header for
how `n` can differ from the bytes really covered). -/
def dec (env : Env) : Nat → TD → Bytes → Nat → Bool → Bool → Nat → Option (Val × Nat)
  | 0, _, _, _, _, _, _ => none
  | k + 1, td, bz, fnum, bare, byteOpt, depth =>
    match decPrim td bz byteOpt with
    | some r => r
    | none =>
    match td with
    | .time =>
      match decMaybeBare bz bare with
      | none => none
      | some (buf, pn) => (decTimeBody buf).map fun (v, n) => (v, pn + n)
    | .dur =>
      match decMaybeBare bz bare with
      | none => none
      | some (buf, pn) => (decDurBody buf).map fun (v, n) => (v, pn + n)
    | .marsh _ r => (dec env k r bz fnum bare byteOpt depth).map fun (v, n) => (.m false v, n)
    | .iface id => decIface env k id bz bare (depth + 1)
    | .list ptr nilElems e =>
      match decMaybeBare bz bare with
      | none => none
      | some (buf, pn) =>
        let bo := isByteElem env e
        if typ3 env e != .blen || bo then
          (decPacked env k e buf bo depth [] 0).map fun (vs, n) => (.list vs, pn + n)
        else
          (decUnpacked env k e ptr nilElems (writeImplicit env e) fnum buf depth [] 0).map
            fun (vs, n) => (.list vs, pn + n)
    | .ref name =>
      match env.find? name with
      | some ⟨_, _, .struct fs _⟩ =>
        match decMaybeBare bz bare with
        | none => none
        | some (buf, pn) =>
          (decFields env k fs buf 0 depth [] 0).map fun (vs, n) => (.struct vs, pn + n)
      | some ⟨_, _, .alias a⟩ => dec env k a bz fnum bare byteOpt depth
      | none => none
    | _ => none

/-- `decodeReflectBinaryInterface` + `decodeReflectBinaryAny`. -/
def decIface (env : Env) : Nat → Bytes → Bytes → Bool → Nat → Option (Val × Nat)
  | 0, _, _, _, _ => none
  | k + 1, id, bz0, bare, depth =>
    if depth > maxAnyDepth then none else
    match decMaybeBare bz0 bare with
    | none => none
    | some (bz, pn) =>
      if bz.isEmpty then some (.nil, pn) else
      match decKeyRaw bz with
      | none => none
      | some (num, t, kn) =>
        if num ≠ 1 ∨ t ≠ 2 then none else
        match decBytes (bz.drop kn) with
        | none => none
        | some (url, un) =>
          let rest := bz.drop (kn + un)
          let valueR := decAnyValue rest
          match valueR with
          | none => none
          | some (value, n2) =>
            -- decodeReflectBinaryAny
            if !isASCIIText url then none else
            match fullnameOf url with
            | none => none
            | some name =>
                match env.find? name with
                | none => none
                | some ent =>
                  let ctd : TD := ctdOf ent name
                  if !(ent.ifaces.contains id) then none
                  else if value.isEmpty then
                    some (.any name (zeroOf env ctd), pn + kn + un + n2)
                  else
                    let wrapped := !isStructOrUnpacked env ctd
                    match anyValueHdr env ctd value with
                    | none => none
                    | some hn =>
                      match dec env k ctd (value.drop hn) 1 (!wrapped) false depth with
                      | none => none
                      | some (cv, cn) =>
                        if hn + cn < value.length then none   -- "bytes left over after reading Any.Value"
                        else some (.any name cv, pn + kn + un + n2 + hn + cn)

/-- packed list elements until the payload is exhausted. -/
def decPacked (env : Env) : Nat → TD → Bytes → Bool → Nat → List Val → Nat → Option (List Val × Nat)
  | 0, _, _, _, _, _, _ => none
  | k + 1, e, bz, bo, depth, acc, n =>
    if bz.isEmpty then some (acc.reverse, n) else
    match dec env k e bz 0 false bo depth with
    | none => none
    | some (v, vn) =>
      if vn = 0 then none   -- cannot happen for packed primitives; guards the loop
      else decPacked env k e (bz.drop vn) bo depth (v :: acc) (n + vn)

/-- unpacked list elements (`decodeReflectBinarySlice`, typ3 == ByteLength branch). -/
def decUnpacked (env : Env) : Nat → TD → Bool → Bool → Bool → Nat → Bytes → Nat → List Val → Nat
    → Option (List Val × Nat)
  | 0, _, _, _, _, _, _, _, _, _ => none
  | k + 1, e, ptr, nilElems, implicit, fnum, bz, depth, acc, n =>
    if bz.isEmpty then some (acc.reverse, n) else
    match decKeyRaw bz with
    | none => none     -- key error: `fnum` is 0, not `> BinFieldNum`, then the error returns
    | some (num, t, kn) =>
      if num > fnum then some (acc.reverse, n)   -- break before sliding
      else if num < fnum then none
      else if t ≠ 2 then none
      else
        let bz1 := bz.drop kn
        let isStructPtr := ptr && isStructKind env e
        if headZero bz1 && (!isStructPtr || nilElems) then
          let ev : Val :=
            if nilElems then (if ptr then .nil else zeroOf env e)
            else defaultSlot env ptr e
          decUnpacked env k e ptr nilElems implicit fnum (bz1.drop 1) depth (ev :: acc) (n + kn + 1)
        else if implicit then
          match decBytes bz1 with
          | none => none
          | some (ibz, inn) =>
            match decKeyRaw ibz with
            | none => none
            | some (n1, t1, k1) =>
              if n1 ≠ 1 ∨ t1 ≠ 2 then none else
              match dec env k e (ibz.drop k1) 0 false false depth with
              | none => none
              | some (v, vn) =>
                if k1 + vn < ibz.length then none
                else decUnpacked env k e ptr nilElems implicit fnum (bz1.drop inn) depth (v :: acc)
                       (n + kn + uvarintSize ibz.length + k1 + vn)
        else
          match dec env k e bz1 1 false false depth with
          | none => none
          | some (v, vn) =>
            decUnpacked env k e ptr nilElems implicit fnum (bz1.drop vn) depth (v :: acc) (n + kn + vn)

/-- `decodeReflectBinaryStruct` field loop; `last` = lastFieldNum. -/
def decFields (env : Env) : Nat → List FieldD → Bytes → Nat → Nat → List Val → Nat → Option (List Val × Nat)
  | 0, _, _, _, _, _, _ => none
  | _ + 1, [], bz, _, _, acc, n =>
    if bz.isEmpty then some (acc.reverse, n) else none   -- unknown trailing field (or bad key)
  | k + 1, f :: fs, bz, last, depth, acc, n =>
    let dflt := defaultSlot env f.ptr f.td
    if bz.isEmpty then decFields env k fs bz last depth (dflt :: acc) n
    else if isUnpackedList env f.td then
      match decKeyRaw bz with
      | none => none
      | some (num, _, _) =>
        if f.num < num then decFields env k fs bz last depth (zeroOf env f.td :: acc) n
        else
          match dec env k f.td bz f.num true false depth with
          | none => none
          | some (v, vn) => decFields env k fs (bz.drop vn) last depth (v :: acc) (n + vn)
    else
      match decKeyRaw bz with
      | none => none   -- fnum = 0 < field number: the skip loop slides and returns the error
      | some (num, t, kn) =>
        if f.num < num then decFields env k fs bz last depth (dflt :: acc) n
        else if num < f.num then
          -- consume a lower-numbered wire field (reserved / removed), then retry this field
          if num ≤ last then none else
          match consumeAny t (bz.drop kn) with
          | none => none
          | some cn => decFields env k (f :: fs) (bz.drop (kn + cn)) num depth acc (n + kn + cn)
        else
          if num ≤ last then none
          else if t ≠ (typ3 env f.td).code then none
          else
            match dec env k f.td (bz.drop kn) 0 false false depth with
            | none => none
            | some (v, vn) =>
              decFields env k fs (bz.drop (kn + vn)) num depth (v :: acc) (n + kn + vn)
end

/-- fuel that covers every loop of `dec` on `bz` (see DESIGN §7 C20). -/
def fuelFor (env : Env) (bz : Bytes) : Nat :=
  let fields := env.foldl (fun a e => a + (match e.defn with | .struct fs _ => fs.length | .alias _ => 1)) 0
  (bz.length + fields + 16) * (bz.length + 16)

/-- `Codec.UnmarshalReflect` into a fresh value of the registered type `name`,
with explicit recursion fuel. -/
def unmarshalF (fuel : Nat) (env : Env) (name : Bytes) (bz : Bytes) : Option Val :=
  match env.find? name with
  | none => none
  | some ent =>
    let td : TD := ctdOf ent name
    let su := isStructOrUnpacked env td
    if bz.isEmpty && !su then some (zeroOf env td)
    else
      let hdr : Option Nat :=
        if !su then
          match decKeyRaw bz with
          | none => none
          | some (n1, t1, k1) => if n1 ≠ 1 then none else if t1 ≠ (typ3 env td).code then none else some k1
        else some 0
      match hdr with
      | none => none
      | some hn =>
        let body := bz.drop hn
        match dec env fuel td body 1 su false 0 with
        | none => none
        | some (v, n) => if n = body.length then some v else none

/-- `Codec.UnmarshalReflect` (the fuel covers every loop, see `fuelFor`). -/
def unmarshal (env : Env) (name : Bytes) (bz : Bytes) : Option Val :=
  unmarshalF (fuelFor env bz) env name bz

end GnoVerif.C20
