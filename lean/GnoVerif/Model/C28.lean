/-
Model for C28: query isolation of the tm2 multistore, read line by line from
  tm2/pkg/store/rootmulti/store.go   (Commit, refreshQuerySnapshot, immutableAtVersion,
                                      MultiImmutableCacheWrapWithVersion, refSnapshot)
  tm2/pkg/sdk/baseapp.go             (Commit, setCheckState, handleQueryCustom, runTx)
  tm2/pkg/sdk/helpers.go             (Simulate)
  tm2/pkg/db/collecting.go           (BatchCollector / CollectingDB)
  tm2/pkg/bft/proxy/client.go        (separate mutex of the query connection)
at the granularity of ATOMIC EVENTS of two kinds of threads.

The consensus thread (one; serialised by the consensus mutex):
  begin, tx, endBlock                         BeginBlock / DeliverTx / EndBlock
  flush        BaseApp.Commit up to the atomic write: deliverState.ms.MultiWrite() (versioned writes
               go to the live trees, unversioned ones through CollectingDB into the collector), then
               rootmulti.Commit: version := lastCommitID.Version+1, commitStores (SaveVersion + pruning
               staged in the collector), metadata staged, collector drained into ONE real batch
  drain        realBatch.WriteSync(): the only write to the real DB, atomic
  snap         ms.db.NewSnapshot(): a frozen copy of the DB (refs = 1, the store's own)
  swap         snapshotMu.Lock; old := querySnapshot.Swap(new); old.release(); Unlock
  publishCid   ms.setLastCommitID(version)            (AFTER the swap)
  publishHdr   BaseApp.setCheckState: lastBlockHeader.Store(header); Commit returns
Query threads (any number; the query connection has its own mutex, and nothing in the model needs
them to be serialised among themselves):
  height       custom query: req.Height == 0 ? app.LastBlockHeight() (= lastCommitID) : req.Height
               Simulate:     header := app.getLastBlockHeader(); version := header.Height
  acquire      immutableAtVersion: RLock; rs := querySnapshot.Load(); rs.acquire(); RUnlock;
               then ims.LoadVersion(version) on the pinned snapshot (release on error)
  hdr          custom query only: ctx header := app.getLastBlockHeader()   (after the load)
  read/write   handler reads / writes through cachemulti(immut(store)) — writes stay in the query's cache
  release      the deferred release(): refs-1, Close at 0

WHAT IS PINNED, AND WHEN (the quirk this model keeps): a query pins a PAIR
(snapshot, version) — but the version is read in `height`, the snapshot in
`acquire`, two separate events, and the commit publishes the new snapshot (`swap`)
BEFORE the new version (`publishCid`) and the new header (`publishHdr`).  A
versioned store (bptree, iavl) is read at `version` inside the snapshot; the
unversioned store (dbadapter: `LoadVersion` is a no-op) is read at the
snapshot's own height.  So `version < snapshot height` mixes two heights.

Stores: a key is `(store, key)`; store 0 is the unversioned `base` store, every
other store is versioned.  `DB.vers` is the list of versions still present in
the versioned stores (pruning: `KeepRecent`; `KeepEvery` 0, or 1 = keep all).
`hasIavl`: an immutable iavl store refuses `LoadVersion(0)` ("version does not
exist"), the bptree store accepts it as the empty tree.

Ghost state: `Cons.hist` — the DB after each atomic write (`hist[0]` = the DB at
start).  "The state of a committed height" is an element of `hist`.

Core-only (no Mathlib).  No strings here: the kernel evaluates these functions
in the counterexample theorems.
-/
namespace GnoVerif.C28

abbrev Key := Nat × Nat
abbrev KV := List (Key × Nat)

def kvGet : KV → Key → Option Nat
  | [], _ => none
  | (k', v) :: m, k => if k' = k then some v else kvGet m k

/-- apply writes (oldest first; the latest write of a key wins). -/
def kvApply (m : KV) (ws : List (Key × Nat)) : KV := ws.reverse ++ m

def isVersioned (k : Key) : Bool := k.1 != 0

def versGet : List (Nat × KV) → Nat → Option KV
  | [], _ => none
  | (v', m) :: r, v => if v' = v then some m else versGet r v

/-- the real DB (and the content of a snapshot of it). -/
structure DB where
  flat : KV                    -- the unversioned store
  vers : List (Nat × KV)       -- versioned stores: the versions present, newest first
  latest : Nat                 -- "s/latest"
deriving DecidableEq, Repr

def DB.empty : DB := ⟨[], [], 0⟩

/-- bptree/iavl `Store.Commit`: after saving `V`, `previous := V-1; if KeepRecent < previous
{ DeleteVersionsTo(previous-KeepRecent) }` unless `KeepEvery = 1`. -/
def prune (keepAll : Bool) (keep V : Nat) (vs : List (Nat × KV)) : List (Nat × KV) :=
  if keepAll then vs
  else if keep < V - 1 then vs.filter (fun p => decide (V - 1 - keep < p.1))
  else vs

/-- what a store of an immutable multistore loaded at `v` over DB content `d` returns. -/
def viewGet (d : DB) (v : Nat) (k : Key) : Option Nat :=
  if isVersioned k then
    if v = 0 then none else (versGet d.vers v).bind (fun m => kvGet m k)
  else kvGet d.flat k

/-- the state of the committed height that `d` is: everything at `d.latest`. -/
def heightView (d : DB) (k : Key) : Option Nat := viewGet d d.latest k

/-- `ims.LoadVersion(v)` on content `d`. -/
def loadOK (hasIavl : Bool) (d : DB) (v : Nat) : Bool :=
  if v = 0 then !hasIavl else decide (v ≤ d.latest) && (versGet d.vers v).isSome

/-! ## consensus side -/

inductive Phase
  | idle | inBlock | ended | flushed | drained | snapped | swapped | published
deriving DecidableEq, Repr

inductive TxOp
  | w (k : Key) (v : Nat)
  | r (k : Key)
  | f
deriving DecidableEq, Repr

inductive Res
  | tx (ok : Bool) (reads : List (Option Nat))
  | commit (version : Nat) (tree : KV)       -- what the app hash is a function of
deriving DecidableEq, Repr

structure Cons where
  keepAll : Bool
  keep : Nat
  hasIavl : Bool
  db : DB
  tree : KV                        -- live versioned stores (working set = last saved version between blocks)
  coll : List (Key × Nat)          -- collector: pending unversioned writes, oldest first
  staged : Option (Nat × KV)       -- the version SaveVersion staged in the collector
  cid : Nat                        -- lastCommitID.Version as published
  hdr : Nat                        -- lastBlockHeader height as published
  height : Nat                     -- deliverState header height
  block : List (Key × Nat)         -- deliverState cache: writes of the successful txs, oldest first
  phase : Phase
  results : List Res
  hist : List DB                   -- ghost
deriving DecidableEq, Repr

def Cons.init (keepAll : Bool) (keep : Nat) (hasIavl : Bool) : Cons :=
  { keepAll, keep, hasIavl, db := DB.empty, tree := [], coll := [], staged := none, cid := 0, hdr := 0,
    height := 0, block := [], phase := .idle, results := [], hist := [DB.empty] }

/-- a deliver-state read below the tx's own cache: block cache, then the live stores
(versioned: the tree; unversioned: CollectingDB = collector first, then the real DB). -/
def Cons.liveGet (c : Cons) (k : Key) : Option Nat :=
  match kvGet (kvApply [] c.block) k with
  | some v => some v
  | none =>
    if isVersioned k then kvGet c.tree k
    else match kvGet (kvApply [] c.coll) k with
      | some v => some v
      | none => kvGet c.db.flat k

/-- run a tx script: (failed, own writes oldest first, reads oldest first). -/
def runTx (c : Cons) : List TxOp → List (Key × Nat) → List (Option Nat) → Bool × List (Key × Nat) × List (Option Nat)
  | [], ws, rs => (false, ws, rs)
  | .w k v :: r, ws, rs => runTx c r (ws ++ [(k, v)]) rs
  | .r k :: r, ws, rs =>
    let v := match kvGet (kvApply [] ws) k with
      | some v => some v
      | none => c.liveGet k
    runTx c r ws (rs ++ [v])
  | .f :: _, ws, rs => (true, ws, rs)

inductive CEv
  | begin | tx (ops : List TxOp) | endBlock | flush | drain | snap | swap | publishCid | publishHdr
deriving DecidableEq, Repr

def stepC (c : Cons) : CEv → Option Cons
  | .begin =>
    if c.phase = .idle then some { c with phase := .inBlock, height := c.cid + 1, block := [] } else none
  | .tx ops =>
    if c.phase = .inBlock then
      let (failed, ws, rs) := runTx c ops [] []
      some { c with block := if failed then c.block else c.block ++ ws,
                    results := c.results ++ [.tx (!failed) rs] }
    else none
  | .endBlock => if c.phase = .inBlock then some { c with phase := .ended } else none
  | .flush =>
    if c.phase = .ended then
      let tree' := kvApply c.tree (c.block.filter (fun w => isVersioned w.1))
      some { c with phase := .flushed, tree := tree',
                    coll := c.coll ++ c.block.filter (fun w => !isVersioned w.1),
                    staged := some (c.cid + 1, tree'), block := [] }
    else none
  | .drain =>
    match c.phase, c.staged with
    | .flushed, some (V, t) =>
      let db' : DB := { flat := kvApply c.db.flat c.coll,
                        vers := prune c.keepAll c.keep V ((V, t) :: c.db.vers), latest := V }
      some { c with phase := .drained, db := db', coll := [], staged := none, hist := c.hist ++ [db'] }
    | _, _ => none
  | .snap => if c.phase = .drained then some { c with phase := .snapped } else none
  | .swap => if c.phase = .snapped then some { c with phase := .swapped } else none
  | .publishCid => if c.phase = .swapped then some { c with phase := .published, cid := c.db.latest } else none
  | .publishHdr =>
    if c.phase = .published then
      some { c with phase := .idle, hdr := c.height, results := c.results ++ [.commit c.db.latest c.tree] }
    else none

/-! ## query side -/

structure Snap where
  content : DB
  refs : Nat
  closed : Bool
deriving DecidableEq, Repr

inductive QStatus
  | gotHeight     -- version read, nothing pinned yet
  | acquired      -- snapshot pinned and loaded (custom query: header not read yet)
  | ready         -- handler running
  | released      -- done
  | failed        -- load error (released)
deriving DecidableEq, Repr

structure Read where
  key : Key
  val : Option Nat
  own : Bool          -- served by the query's own cache (a key it wrote before)
deriving DecidableEq, Repr

structure Query where
  id : Nat
  sim : Bool
  explicit : Nat
  ver : Nat
  snap : Option Nat       -- index into `QS.snaps`
  hdr : Nat
  overlay : KV
  reads : List Read
  status : QStatus
deriving DecidableEq, Repr

structure QS where
  snaps : List Snap            -- every snapshot ever taken, in creation order
  cur : Option Nat             -- querySnapshot
  fresh : Option Nat           -- the commit thread's local `rs` between NewSnapshot and Swap
  queries : List Query
deriving DecidableEq, Repr

def QS.init : QS := { snaps := [⟨DB.empty, 1, false⟩], cur := some 0, fresh := none, queries := [] }

def relSnap (ss : List Snap) (i : Nat) : List Snap :=
  ss.modify i (fun s => { s with refs := s.refs - 1, closed := s.closed || s.refs - 1 == 0 })

def acqSnap (ss : List Snap) (i : Nat) : List Snap :=
  ss.modify i (fun s => { s with refs := s.refs + 1 })

/-- what the consensus events do to the query side. -/
def sideQ (c : Cons) (q : QS) : CEv → QS
  | .snap => { q with snaps := q.snaps ++ [⟨c.db, 1, false⟩], fresh := some q.snaps.length }
  | .swap =>
    let ss := match q.cur with
      | some i => relSnap q.snaps i
      | none => q.snaps
    { q with snaps := ss, cur := q.fresh, fresh := none }
  | _ => q

inductive QEv
  | height (id : Nat) (sim : Bool) (explicit : Nat)
  | acquire (id : Nat)
  | hdr (id : Nat)
  | read (id : Nat) (k : Key)
  | write (id : Nat) (k : Key) (v : Nat)
  | release (id : Nat)
deriving DecidableEq, Repr

def findQ (qs : List Query) (id : Nat) : Option Query := qs.find? (fun q => q.id == id)

/-- replace the (first) query with `q`'s id — the one `findQ` returns. -/
def setQ : List Query → Query → List Query
  | [], _ => []
  | x :: r, q => if x.id == q.id then q :: r else x :: setQ r q

def stepQ (c : Cons) (s : QS) : QEv → Option QS
  | .height id sim explicit =>
    if (findQ s.queries id).isSome then none
    else if sim then
      -- Simulate falls back to checkState when no block has been committed; not modelled
      if c.hdr < 1 ∨ explicit ≠ 0 then none
      else some { s with queries := s.queries ++
        [⟨id, true, 0, c.hdr, none, c.hdr, [], [], .gotHeight⟩] }
    else
      some { s with queries := s.queries ++
        [⟨id, false, explicit, if explicit = 0 then c.cid else explicit, none, 0, [], [], .gotHeight⟩] }
  | .acquire id =>
    match findQ s.queries id, s.cur with
    | some q, some i =>
      if q.status ≠ .gotHeight then none else
      match s.snaps[i]? with
      | none => none
      | some sn =>
        if loadOK c.hasIavl sn.content q.ver then
          some { s with snaps := acqSnap s.snaps i,
                        queries := setQ s.queries { q with snap := some i,
                                                            status := if q.sim then .ready else .acquired } }
        else
          -- acquire, failed LoadVersion, release
          some { s with snaps := relSnap (acqSnap s.snaps i) i,
                        queries := setQ s.queries { q with snap := some i, status := .failed } }
    | _, _ => none
  | .hdr id =>
    match findQ s.queries id with
    | some q => if q.status = .acquired then some { s with queries := setQ s.queries { q with hdr := c.hdr, status := .ready } } else none
    | none => none
  | .read id k =>
    match findQ s.queries id with
    | some q =>
      if q.status ≠ .ready then none else
      match q.snap with
      | none => none
      | some i =>
        match s.snaps[i]? with
        | none => none
        | some sn =>
          let r : Read := match kvGet q.overlay k with
            | some v => ⟨k, some v, true⟩
            | none => ⟨k, viewGet sn.content q.ver k, false⟩
          some { s with queries := setQ s.queries { q with reads := q.reads ++ [r] } }
    | none => none
  | .write id k v =>
    match findQ s.queries id with
    | some q => if q.status = .ready then some { s with queries := setQ s.queries { q with overlay := (k, v) :: q.overlay } } else none
    | none => none
  | .release id =>
    match findQ s.queries id with
    | some q =>
      if q.status ≠ .ready then none else
      match q.snap with
      | none => none
      | some i => some { s with snaps := relSnap s.snaps i, queries := setQ s.queries { q with status := .released } }
    | none => none

/-! ## the whole system -/

inductive Ev
  | c (e : CEv)
  | q (e : QEv)
deriving DecidableEq, Repr

structure State where
  cons : Cons
  qs : QS
deriving DecidableEq, Repr

def State.init (keepAll : Bool) (keep : Nat) (hasIavl : Bool) : State := ⟨Cons.init keepAll keep hasIavl, QS.init⟩

/-- one event; `none` = not enabled (the acceptor rejects the trace). -/
def step (s : State) : Ev → Option State
  | .c e => (stepC s.cons e).map (fun c' => ⟨c', sideQ s.cons s.qs e⟩)
  | .q e => (stepQ s.cons s.qs e).map (fun q' => ⟨s.cons, q'⟩)

def run (s : State) : List Ev → Option State
  | [] => some s
  | e :: r => (step s e).bind (fun s' => run s' r)

def runC (c : Cons) : List CEv → Option Cons
  | [] => some c
  | e :: r => (stepC c e).bind (fun c' => runC c' r)

def consEvents : List Ev → List CEv
  | [] => []
  | .c e :: r => e :: consEvents r
  | .q _ :: r => consEvents r

end GnoVerif.C28
