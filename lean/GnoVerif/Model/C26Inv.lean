/-
Model.C26Inv — the invariants and statements of C26 (definitions only; the
lemmas live in Proofs/C26*.lean, the theorems in Props/C26.lean).
-/
import GnoVerif.Model.C26

namespace GnoVerif.C26
open GnoVerif

/-- the authoritative history is consistent with its own version tags: an entry
`(w, val)` for `k` in version `s` was written at `w ≤ s` and every retained
version in `[w, s]` holds the very same entry. -/
def HistInv (db : DB) : Prop :=
  ∀ s m, (s, m) ∈ db.vers → ∀ k w val, OMap.get m k = some (w, val) →
    w ≤ s ∧ ∀ s' m', (s', m') ∈ db.vers → w ≤ s' → s' ≤ s → OMap.get m' k = some (w, val)

/-- THE fast-index invariant: every persisted entry `(w, val)` for `k` is what
every retained version between `w` and the stamp holds for `k`. -/
def FastInv (db : DB) : Prop :=
  ∀ S, db.stamp = some S → ∀ k w val, OMap.get db.fast k = some (w, val) →
    w ≤ S ∧ ∀ s m, (s, m) ∈ db.vers → w ≤ s → s ≤ S → OMap.get m k = some (w, val)

structure DBInv (db : DB) : Prop where
  nodup   : (db.vers.map (·.1)).Nodup
  pos     : ∀ p ∈ db.vers, 0 < p.1
  hist    : HistInv db
  fast    : FastInv db
  /-- nothing committed yet ⇒ no entries. (Entries WITHOUT a stamp can exist: the documented
  remediation "delete the stamp", or an Import aborted after `dropFastIndex`'s first commit.) -/
  emptyFast : db.vers = [] → db.fast = []
  /-- no stamp ahead of the latest version at rest. -/
  stampLe : ∀ S, db.stamp = some S → ∃ p ∈ db.vers, S ≤ p.1
  /-- retained versions form an interval. -/
  contig  : ∀ p ∈ db.vers, ∀ q ∈ db.vers, ∀ v, p.1 ≤ v → v ≤ q.1 → ∃ r ∈ db.vers, r.1 = v

/-- "stamp = latest at rest" (or nothing was ever committed). -/
def StampCurrent (db : DB) : Prop :=
  (db.vers = [] ∧ db.stamp = none) ∨ (∃ S, db.stamp = some S ∧ ∀ p ∈ db.vers, p.1 ≤ S)

/-- the net effect of a staged batch on one key: the LAST staged op for it. -/
def netFast : List BOp → Bytes → Option (Option Rec)
  | [], _ => none
  | .setF k' r :: b, k =>
    match netFast b k with
    | some x => some x
    | none => if k' = k then some (some r) else none
  | .delF k' :: b, k =>
    match netFast b k with
    | some x => some x
    | none => if k' = k then some none else none

structure HInv (db : DB) (h : Handle) : Prop where
  savedOk : if h.version = 0 then h.saved = [] else db.tree h.version = some h.saved
  cleanOk : h.touched = false → h.work = h.saved ∧ h.batch = []
  delta   : ∀ k, OMap.get h.work k = OMap.get h.saved k ∨ OMap.get h.work k = none ∨
              ∃ val, OMap.get h.work k = some (h.version + 1, val)
  stage   : h.poisoned = false → h.fastOpt = true → ∀ k,
              match netFast h.batch k with
              | none => OMap.get h.work k = OMap.get h.saved k
              | some r => OMap.get h.work k = r ∧ ∀ x, r = some x → x.1 = h.version + 1
  nostage : h.fastOpt = false → h.batch = []
  covered : h.fastOpt = true → h.ensured = true → h.version ≠ 0 →
              ∃ S, db.stamp = some S ∧ h.version ≤ S

/-- what only the single writer (slot 0) needs. -/
structure WInv (db : DB) (h : Handle) : Prop where
  zero      : h.version = 0 → db.vers = []
  firstLe   : ∀ p ∈ db.vers, h.first ≤ p.1
  firstZero : h.first = 0 → db.vers = []
  firstNext : h.first ≤ h.version + 1
  current   : h.fastOpt = true → h.ensured = true → StampCurrent db

structure VInv (db : DB) (v : View) : Prop where
  rootOk  : db.tree v.version = some v.root
  covered : v.fast = true → ∃ S, db.stamp = some S ∧ v.version ≤ S

structure Inv (st : State) : Prop where
  db : DBInv st.db
  hs : ∀ i h, st.hs i = some h → HInv st.db h
  w  : ∀ h, st.hs 0 = some h → WInv st.db h
  vs : ∀ i v, st.vs i = some v → VInv st.db v

/-- the documented trust contract (fast_index.go): a fast-index-enabled
`MutableTree` commits, and serves working-tree `Get`s, only when it was opened
through `Load()` and `Load` returned nil. -/
def inContract (h : Option Handle) : Bool :=
  match h with
  | none => true
  | some h => !h.fastOpt || h.ensured

def opOK (st : State) : Op → Bool
  | .get slot _ => inContract (st.hs slot)
  | .save slot => inContract (st.hs slot)
  | .failsave slot => inContract (st.hs slot)
  | _ => true

def Disciplined (rule : DB → Handle → Ensure) : State → List Op → Prop
  | _, [] => True
  | st, op :: ops => opOK st op = true ∧ Disciplined rule (stepWith rule st op).1 ops

/-- a read is consistent when the value served through the fast-path API is the
value of the authoritative tree walk on the same snapshot. -/
def Out.consistent : Out → Bool
  | .read a b => a == b
  | _ => true

/-- the full statement: every read of every history is consistent. -/
def reads_never_stale_statement : Prop :=
  ∀ ops : List Op, (run State.init ops).2.all Out.consistent = true

end GnoVerif.C26
