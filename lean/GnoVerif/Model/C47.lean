/-
Model.C47 — the two authenticated-cipher wrappers of gno's tree, as coded:

* tm2/pkg/crypto/xchacha20poly1305/xchachapoly.go: `New`, `Seal`, `Open`
  (HChaCha20 sub-key from the first 16 nonce bytes, inner ChaCha20-Poly1305 with
  the 12-byte nonce `00 00 00 00 ‖ nonce[16:24]`);
* tm2/pkg/crypto/xsalsa20symmetric/symmetric.go: `EncryptSymmetric`
  (`nonce ‖ secretbox.Seal`) and `DecryptSymmetric`.  Its length test is
  `len(ciphertext) < Overhead+nonceLen`; until the `fix:` commit recorded in
  known_findings/C47.json it was `<=`, which rejected the 40-byte encryption of the
  EMPTY plaintext as "too short" (`decryptSymmetricOld` keeps that variant for the
  regression theorem).

The wrappers are parametric in the inner primitive (a structure of plain
functions): the theorems of `Props/C47.lean` are stated for every inner cipher
satisfying the round-trip law, the driver instantiates it with the executable
ChaCha20-Poly1305 / secretbox models of `Model/C47Cipher.lean`.
Constants come from `Gen/C47.lean` / `Gen/C47Sym.lean` (regenerated from the Go
sources on every run).
-/
import GnoVerif.Model.C47Cipher
import GnoVerif.Gen.C47
import GnoVerif.Gen.C47Sym

namespace GnoVerif.C47

/-- Outcome of a Go call: value, returned `error` (by class), or panic (by class). -/
inductive Res (α : Type) where
  | ok (v : α)
  | err (cls : String)
  | panic (cls : String)
  deriving Repr, DecidableEq

/-- an AEAD with a 12-byte nonce, as `cipher.AEAD` of x/crypto/chacha20poly1305:
    `seal key nonce pt ad`, `open key nonce sealed ad` -/
structure Inner where
  doSeal : Bytes → Bytes → Bytes → Bytes → Bytes
  doOpen : Bytes → Bytes → Bytes → Bytes → Option Bytes

/-- the round-trip law of the inner AEAD (a hypothesis of theorems, never an axiom) -/
def Inner.RoundTrip (I : Inner) : Prop :=
  ∀ key nonce pt ad, I.doOpen key nonce (I.doSeal key nonce pt ad) ad = some pt

/-- the overhead law: sealing adds exactly `TagSize` bytes -/
def Inner.SealLen (I : Inner) : Prop :=
  ∀ key nonce pt ad, (I.doSeal key nonce pt ad).length = pt.length + Gen.C47.TagSize.toNat

def keySize : Nat := Gen.C47.KeySize.toNat
def nonceSize : Nat := Gen.C47.NonceSize.toNat
def maxPlaintextSize : Nat := Gen.C47.MaxPlaintextSize.toNat
def maxCiphertextSize : Nat := Gen.C47.MaxCiphertextSize.toNat

/-- `copy(hNonce[:], nonce[:16])` -/
def hNonce (nonce : Bytes) : Bytes := nonce.take 16
/-- `copy(subNonce[4:], nonce[16:])` into a zeroed 12-byte array -/
def subNonce (nonce : Bytes) : Bytes := [0, 0, 0, 0] ++ (nonce.drop 16).take 8

/-- `New(key)`: only the length is checked -/
def xNew (key : Bytes) : Res Bytes :=
  if key.length ≠ keySize then .err "keylen" else .ok key

/-- `(*xchacha20poly1305).Seal(nil, nonce, plaintext, ad)` -/
def xSeal (I : Inner) (key nonce pt ad : Bytes) : Res Bytes :=
  if nonce.length ≠ nonceSize then .panic "nonce"
  else if pt.length > maxPlaintextSize then .panic "toolarge"
  else .ok (I.doSeal (hChaCha20 key (hNonce nonce)) (subNonce nonce) pt ad)

/-- `(*xchacha20poly1305).Open(nil, nonce, ciphertext, ad)` -/
def xOpen (I : Inner) (key nonce ct ad : Bytes) : Res Bytes :=
  if nonce.length ≠ nonceSize then .err "nonce"
  else if ct.length > maxCiphertextSize then .err "toolarge"
  else match I.doOpen (hChaCha20 key (hNonce nonce)) (subNonce nonce) ct ad with
    | some pt => .ok pt
    | none => .err "auth"

/-! ### xsalsa20symmetric -/

/-- NaCl secretbox as seen by the wrapper: `seal msg nonce key`, `open box nonce key` -/
structure Box where
  doSeal : Bytes → Bytes → Bytes → Bytes
  doOpen : Bytes → Bytes → Bytes → Option Bytes

def Box.RoundTrip (B : Box) : Prop :=
  ∀ msg nonce key, B.doOpen (B.doSeal msg nonce key) nonce key = some msg

/-- `secretbox.Overhead` -/
def boxOverhead : Nat := 16

def Box.SealLen (B : Box) : Prop :=
  ∀ msg nonce key, (B.doSeal msg nonce key).length = msg.length + boxOverhead

def nonceLen : Nat := Gen.C47Sym.nonceLen.toNat
def secretLen : Nat := Gen.C47Sym.secretLen.toNat

/-- `EncryptSymmetric(plaintext, secret)`; `nonce` is what `crypto.CRandBytes(nonceLen)`
    returned (always `nonceLen` bytes). -/
def encryptSymmetric (B : Box) (nonce pt secret : Bytes) : Res Bytes :=
  if secret.length ≠ secretLen then .panic "secretlen"
  else .ok (nonce.take nonceLen ++ B.doSeal pt (nonce.take nonceLen) secret)

/-- `DecryptSymmetric(ciphertext, secret)` -/
def decryptSymmetric (B : Box) (ct secret : Bytes) : Res Bytes :=
  if secret.length ≠ secretLen then .panic "secretlen"
  else if ct.length < boxOverhead + nonceLen then .err "short"
  else match B.doOpen (ct.drop nonceLen) (ct.take nonceLen) secret with
    | some pt => .ok pt
    | none => .err "auth"

/-- `DecryptSymmetric` as it was before the fix (`<=` in the length test) -/
def decryptSymmetricOld (B : Box) (ct secret : Bytes) : Res Bytes :=
  if secret.length ≠ secretLen then .panic "secretlen"
  else if ct.length ≤ boxOverhead + nonceLen then .err "short"
  else match B.doOpen (ct.drop nonceLen) (ct.take nonceLen) secret with
    | some pt => .ok pt
    | none => .err "auth"

/-! ### the executable instances used by the driver -/

def chachaPoly : Inner := ⟨chachaPolySeal, chachaPolyOpen⟩
def secretbox : Box := ⟨secretboxSeal, secretboxOpen⟩

end GnoVerif.C47
