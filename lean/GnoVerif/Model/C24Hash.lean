/-
Model.C24Hash — the Merkle hash of the B+ tree, export and import
(tm2/pkg/bptree: hash.go, mini_merkle.go, the RebuildMiniMerkle methods of
node.go, export.go, import.go).

The hash function `H` (crypto/sha256 in the code) is a parameter; no theorem
looks inside it.  The drivers instantiate `H` with Base.C24Sha256.

What is mirrored and how:
* `HashLeafSlotFromValueHash`, `HashInner` with the sentinel short-circuit,
  `sentinelHash = H [0x02]`, `emptyTreeHash = H []` — literally.
* `MiniMerkle` is the heap array of `2*B` hashes of the code (index 0 unused,
  index 1 the root, `B..2B-1` the slots): `mmBuild` is the loop of `Build`,
  `mmSetSlot` the path recomputation of `SetSlot`.
* The real nodes CACHE their mini-merkle arrays and the hashes of their
  children (`childHashes`, also serialized) and update them incrementally
  (`SetSlot`, re-hash on the way up in insert/remove, `saveNode`).  The model
  has no caches: `nodeHash` recomputes the hash of a node from its contents
  (`RebuildMiniMerkle` at every node, bottom-up).  That the cached hashes of the
  real tree always equal this function of the tree is exactly what the
  correspondence check compares (root hash after every save, on the working
  tree, on every retained version, in every configuration).
* `exportNode` is the post-order stream of `Exporter.exportNode`;
  `Importer.Add` / `Commit` with all their structural validation is `impAdd` /
  `impCommit`.  Value keys, the staged value writes and the importer's
  lifecycle states are not modelled; `MaxKeyLen` (1 MiB) is not modelled.

Core-only.
-/
import GnoVerif.Model.C23BpTree

namespace GnoVerif.C24
open GnoVerif GnoVerif.C23

abbrev Hash := Bytes

/-- `binary.PutUvarint`. -/
def uvarint (n : Nat) : Bytes :=
  if h : n < 128 then [UInt8.ofNat n] else UInt8.ofNat (n % 128 + 128) :: uvarint (n / 128)
termination_by n
decreasing_by omega

section
variable (H : Bytes → Hash)

/-- `sentinelHash = SHA256(0x02)` (const.go) -/
def sentinel : Hash := H [0x02]
/-- `emptyTreeHash = SHA256("")` -/
def emptyTreeHash : Hash := H []

/-- `HashLeafSlot` (hash.go:13-35): `H(0x00 ‖ uvarint(len key) ‖ key ‖ 0x20 ‖ H(value))`. -/
def hashLeafSlot (key : Key) (value : Val) : Hash :=
  H (0x00 :: (uvarint key.length ++ key ++ 0x20 :: H value))

/-- `HashInner` (hash.go:37-50): sentinel if both children are the sentinel. -/
def hashInner (l r : Hash) : Hash :=
  if l = sentinel H ∧ r = sentinel H then sentinel H else H (0x01 :: (l ++ r))

/-! ### mini_merkle.go -/

/-- one step of `Build`: `tree[i] = HashInner(tree[2i], tree[2i+1])`. -/
def mmFix (t : List Hash) (i : Nat) : List Hash :=
  t.set i (hashInner H (t.getD (2 * i) []) (t.getD (2 * i + 1) []))

/-- `Build`: `for i := B-1; i >= 1; i-- { … }`; `n` = number of remaining iterations. -/
def mmBuildFrom : Nat → List Hash → List Hash
  | 0, t => t
  | i + 1, t => mmBuildFrom i (mmFix H t (i + 1))

def mmBuild (B : Nat) (t : List Hash) : List Hash := mmBuildFrom H (B - 1) t

/-- the `for pos > 1 { pos /= 2; … }` loop of `SetSlot`. -/
def mmWalkUp : Nat → Nat → List Hash → List Hash
  | 0, _, t => t
  | fuel + 1, pos, t =>
    if pos > 1 then mmWalkUp fuel (pos / 2) (mmFix H t (pos / 2)) else t

/-- `SetSlot(index, h)`. -/
def mmSetSlot (B : Nat) (t : List Hash) (index : Nat) (h : Hash) : List Hash :=
  mmWalkUp H (B + index) (B + index) (t.set (B + index) h)

/-- the slot array of `RebuildMiniMerkle`: occupied slots, then the sentinel. -/
def padSlots (B : Nat) (hs : List Hash) : List Hash :=
  hs ++ List.replicate (B - hs.length) (sentinel H)

/-- `RebuildMiniMerkle` followed by `Root()`. -/
def mmRoot (B : Nat) (slots : List Hash) : Hash :=
  (mmBuild H B (List.replicate B (sentinel H) ++ padSlots H B slots)).getD 1 []

/-- the hash of a node, recomputed from its contents. -/
def nodeHash (B : Nat) : (h : Nat) → Node h → Hash
  | 0, (l : Leaf) => mmRoot H B (l.es.map fun e => hashLeafSlot H e.1 e.2)
  | h + 1, (n : Inner (Node h)) => mmRoot H B (n.kids.map (nodeHash B h))

/-- `WorkingHash` / `ImmutableTree.Hash`. -/
def treeHash (B : Nat) : Tree → Hash
  | .empty => emptyTreeHash H
  | .node h n => nodeHash H B h n

end

/-! ### export.go -/

/-- `ExportNode`: `Height = 0` leaf entry, `-1` leaf boundary marker, `> 0` inner marker. -/
inductive ExportNode where
  | entry (key : Key) (value : Val)
  | leafEnd (numKeys : Nat)
  | innerEnd (height numKeys : Nat) (seps : List Key)

/-- `Exporter.exportNode`: depth-first post-order. -/
def exportNode : (h : Nat) → Node h → List ExportNode
  | 0, (l : Leaf) => l.es.map (fun e => ExportNode.entry e.1 e.2) ++ [.leafEnd l.es.length]
  | h + 1, (n : Inner (Node h)) =>
    (n.kids.map (exportNode h)).flatten ++ [.innerEnd (h + 1) n.keys.length n.keys]

/-- `ImmutableTree.Export` fails on the empty tree (`ErrNotInitializedTree`). -/
def exportTree : Tree → Option (List ExportNode)
  | .empty => none
  | .node h n => some (exportNode h n)

/-! ### import.go -/

/-- `importEntry`: a built subtree with its smallest and largest key. -/
structure ImpEntry where
  h : Nat
  node : Node h
  minKey : Key
  maxKey : Key

/-- `Importer` (the fields that matter for the tree being built). -/
structure Importer where
  kvBuffer : List Entry := []
  stack : List ImpEntry := []
  lastLeafKey : Option Key := none

def castNode (e : ImpEntry) (ch : Nat) : Option (Node ch) :=
  if h : e.h = ch then some (h ▸ e.node) else none

def castAll (ch : Nat) : List ImpEntry → Option (List (Node ch))
  | [] => some []
  | e :: es =>
    match castNode e ch, castAll ch es with
    | some n, some ns => some (n :: ns)
    | _, _ => none

/-- `max(left) < sep ≤ min(right)` for every separator. -/
def sepWindowsOK : List Key → List ImpEntry → Bool
  | [], _ => true
  | sk :: sks, l :: r :: rest => decide (l.maxKey < sk) && decide (sk ≤ r.minKey) && sepWindowsOK sks (r :: rest)
  | _ :: _, _ => false

/-- `imp.lastLeafKey != nil && bytes.Compare(node.Key, imp.lastLeafKey) <= 0` -/
def keyNotAfter (last : Option Key) (key : Key) : Bool :=
  match last with
  | some l => decide (key ≤ l)
  | none => false

/-- `Importer.Add`; `none` = the node is rejected with an error. -/
def impAdd (B : Nat) (imp : Importer) : ExportNode → Option Importer
  | .entry key value =>
    if key.length = 0 then none
    else if keyNotAfter imp.lastLeafKey key then none
    else some { imp with kvBuffer := imp.kvBuffer ++ [(key, value)], lastLeafKey := some key }
  | .leafEnd nk =>
    if nk < 1 ∨ nk > B then none
    else if imp.kvBuffer.length ≠ nk then none
    else
      let es := imp.kvBuffer
      let leaf : Leaf := ⟨es⟩
      some { imp with
        kvBuffer := [],
        stack := imp.stack ++ [⟨0, leaf, (es.headD ([], [])).1, (es.getLastD ([], [])).1⟩] }
  | .innerEnd height numKeys seps =>
    if numKeys < 1 ∨ numKeys > B - 1 then none
    else
      let numChildren := numKeys + 1
      if imp.stack.length < numChildren then none
      else if seps.length ≠ numKeys then none
      else if seps.any (fun sk => sk.length = 0) then none
      else
        let children := imp.stack.drop (imp.stack.length - numChildren)
        match children with
        | [] => none
        | c0 :: _ =>
          let childHeight := c0.h
          match castAll childHeight children with
          | none => none                  -- non-uniform child heights
          | some kids =>
            if height ≠ childHeight + 1 then none
            else if !sepWindowsOK seps children then none
            else
              let inner : Inner (Node childHeight) :=
                ⟨seps, kids, kids.map (nodeSize childHeight)⟩
              some { imp with
                stack := imp.stack.take (imp.stack.length - numChildren) ++
                  [⟨childHeight + 1, inner, c0.minKey, (children.getLastD c0).maxKey⟩] }

def impAddAll (B : Nat) : Importer → List ExportNode → Option Importer
  | imp, [] => some imp
  | imp, n :: ns =>
    match impAdd B imp n with
    | some imp' => impAddAll B imp' ns
    | none => none

/-- `Importer.Commit`: the root left on the stack (the empty stream gives the empty tree). -/
def impCommit (imp : Importer) : Option Tree :=
  if imp.kvBuffer.length > 0 then none
  else match imp.stack with
    | [] => some .empty
    | [e] => some (.node e.h e.node)
    | _ => none

/-- import a whole stream into a fresh importer. -/
def importStream (B : Nat) (ns : List ExportNode) : Option Tree :=
  match impAddAll B {} ns with
  | some imp => impCommit imp
  | none => none

end GnoVerif.C24
