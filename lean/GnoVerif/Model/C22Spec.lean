/-
Spec side of C22: the overlay view of a stack of stores, and the invariant
("coherence") under which the real stores agree with it.

* `view l`       — the ordered map a client of store `l` should see:
                   base = its map; cache = the parent's view with the cache's
                   *dirty* entries applied (set / delete); prefix = the parent's
                   keys that carry the prefix, with the prefix stripped.
* `Coherent l`   — well-formedness of every cache layer's bookkeeping
                   (`CacheWF`) plus: every *clean* (read-through) cache entry
                   still equals what the parent's view holds for that key.
                   Reads served from a clean entry are correct exactly under
                   this condition; it is preserved by every operation applied
                   to the top of the stack, and by `Write` at any depth, but
                   NOT by `Set`/`Delete`/`WriteCheckpoint` applied underneath a
                   cache store that has clean entries (see Props/C22.lean).
Core-only.
-/
import GnoVerif.Model.C22

namespace GnoVerif.C22
open GnoVerif GnoVerif.Lex GnoVerif.OMap

/-- what `Write` does with one cache entry, on an ordered map. -/
def applyEntry (m : OMap) (k : Bytes) (cv : CValue) : OMap :=
  if !cv.dirty then m
  else if cv.deleted then OMap.del m k
  else match cv.value with
    | none => m
    | some v => OMap.set m k v

/-- overlay: apply every dirty entry. -/
def applyDirty (es : List (Bytes × CValue)) (m : OMap) : OMap :=
  es.foldl (fun m e => applyEntry m e.1 e.2) m

/-- restriction to the keys with prefix `q`, prefix stripped. -/
def stripView (q : Bytes) (m : OMap) : OMap :=
  m.filterMap (fun e => if hasPrefix q e.1 then some (e.1.drop q.length, e.2) else none)

/-- the overlay view of a stack. -/
def view : Layer → OMap
  | .base m => m
  | .cache c p => applyDirty c.cache (view p)
  | .pfx q p => stripView q (view p)

/-- the value a dirty entry stands for in iteration (`some none` = delete marker). -/
def dirtyVal (c : CacheState) (k : Bytes) : Option (Option Bytes) :=
  match OMap.get c.cache k with
  | some cv => if cv.dirty then some cv.value else none
  | none => none

/-- bookkeeping invariant of a cacheStore. -/
structure CacheWF (c : CacheState) : Prop where
  cacheSorted : Sorted c.cache
  unsSorted : Sorted c.unsorted
  sortedSorted : Sorted c.sorted
  /-- a dirty entry is either a delete (nil value) or a set (non-nil value) -/
  dirtyShape : ∀ k cv, OMap.get c.cache k = some cv → cv.dirty = true →
    (cv.deleted = true ∧ cv.value = none) ∨ (cv.deleted = false ∧ cv.value.isSome = true)
  /-- every key of `unsortedCache` has a dirty cache entry -/
  unsDirty : ∀ k, OMap.get c.unsorted k = some () →
    ∃ cv, OMap.get c.cache k = some cv ∧ cv.dirty = true
  /-- an item of `sortedCache` is superseded (its key is in `unsortedCache`) or current -/
  sortedFresh : ∀ k v, OMap.get c.sorted k = some v →
    OMap.get c.unsorted k = some () ∨ dirtyVal c k = some v
  /-- every dirty entry is tracked by `unsortedCache` or `sortedCache` -/
  dirtyTracked : ∀ k v, dirtyVal c k = some v →
    OMap.get c.unsorted k = some () ∨ (OMap.get c.sorted k).isSome = true

/-- the invariant under which the stores agree with their overlay view. -/
def Coherent : Layer → Prop
  | .base m => Sorted m
  | .cache c p => Coherent p ∧ CacheWF c ∧
      ∀ k cv, OMap.get c.cache k = some cv → cv.dirty = false → cv.value = OMap.get (view p) k
  | .pfx _ p => Coherent p

/-- no cache store among the top `d` layers holds a clean (read-through) entry. -/
def NoCleanAbove : Nat → Layer → Prop
  | 0, _ => True
  | _ + 1, .base _ => True
  | d + 1, .cache c p => (∀ k cv, OMap.get c.cache k = some cv → cv.dirty = true) ∧ NoCleanAbove d p
  | d + 1, .pfx _ p => NoCleanAbove d p

/-- listing of an ordered map as iterator items. -/
def asItems (l : List (Bytes × Bytes)) : List Item := l.map (fun p => (p.1, some p.2))

/-! ## reference answers for histories -/

/-- the key a store actually uses for an API call: memdb (the base) reads a nil
key as the empty key; cache and prefix stores panic on a nil key (`none`). -/
def keyArg (x : Layer) (k : Option Bytes) : Option Bytes :=
  match x with
  | .base _ => some (k.getD [])
  | _ => k

/-- the reference answer of one operation: every *read* (`get`, `has`, `it`) is
answered from the overlay `view` of the addressed store alone; the other
operations answer `ok` / a panic class exactly as the model does. -/
def specOut (l : Layer) (op : Op) : Out :=
  match op with
  | .get d k =>
    match l.sub d with
    | none => .err "badlayer"
    | some x =>
      match keyArg x k with
      | none => .panic "nilkey"
      | some k => .val (OMap.get (view x) k)
  | .has d k =>
    match l.sub d with
    | none => .err "badlayer"
    | some x =>
      match keyArg x k with
      | none => .panic "nilkey"
      | some k => .bool (OMap.get (view x) k).isSome
  | .iter d asc s e =>
    match l.sub d with
    | none => .err "badlayer"
    | some x => .items (asItems (OMap.range (view x) s e asc))
  | op => (step l op).1

/-- reference outputs of a history (the states are the model's; the answers come from `view`). -/
def specRun (l : Layer) : List Op → List Out
  | [] => []
  | op :: ops => specOut l op :: specRun (step l op).2 ops

/-- the discipline under which clean cache entries cannot go stale: an operation
that changes the view of a store (`set`, `del`, `wcp`) is applied only where no
cache store above it holds read-through entries (in particular: at the top). -/
def Safe (l : Layer) : Op → Prop
  | .set d _ _ => NoCleanAbove d l
  | .del d _ => NoCleanAbove d l
  | .wcp d => NoCleanAbove d l
  | _ => True

def SafeRun : Layer → List Op → Prop
  | _, [] => True
  | l, op :: ops => Safe l op ∧ SafeRun (step l op).2 ops

/-- operations on the top store that neither flush nor touch the checkpoint. -/
def Op.topPlain : Op → Bool
  | .get 0 _ => true
  | .has 0 _ => true
  | .set 0 _ _ => true
  | .del 0 _ => true
  | .iter 0 _ _ _ => true
  | .hascp 0 => true
  | _ => false

end GnoVerif.C22
