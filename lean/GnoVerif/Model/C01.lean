/-
Model for C01 (chain replay is deterministic across runs, restarts, caches and
backends).  Three independent parts, each mirroring code that was read line by
line; core-only (no Mathlib).

PART 1 — one application instance with its RAM-only caches.
  The gno.land application keeps, besides the database, a BlockNode cache that
  is NEVER written to the database (`defaultStore.SetBlockNode`,
  gnovm/pkg/gnolang/store.go:931: the backend write is commented out) and is
  rebuilt after a restart from the stored mem-packages
  (`VMKeeper.Initialize` → `PreprocessAllFilesAndSaveBlockNodes`,
  gno.land/pkg/sdk/vm/keeper.go:139-192).  Every transaction runs on
  `BeginTransaction` (store.go:240): fresh object/type/realm caches, and a
  `txlog.Wrap` of the node cache which `transactionStore.Write` commits only
  when the transaction succeeded (gno.land/pkg/gnoland/app.go:221-229); the
  database writes of a failed transaction are dropped by `runTx`'s cache-wrap.
  The handlers consult BOTH stores:
    * `AddPackage` (keeper.go:617): `gnostore.GetPackage` (database) ⇒
      `PkgExistError`; `TypeCheckMemPackage` resolves imports through the
      database ⇒ `TypeCheckError`; `RunMemPackage` preprocesses the importing
      package and needs the imported packages' nodes from the NODE CACHE.
    * `Call` (keeper.go:828): `GetPackage` (database), then
      `gnostore.GetBlockNode(pl)` which PANICS outside `doRecover` when the
      node is not in the node cache ⇒ `InternalError` from `runTx`'s recover.
    * `Run` (keeper.go:1055): type check against the database, then
      `RunMemPackage(memPkg, save=false)`: the ephemeral package's nodes go
      into the node cache (and stay there after a successful transaction; a
      restarted instance does not have them — modelled as `runs`).
  The harness deploys five fixed realms (`Slot`): `a` (an avl tree: sorted by
  key), `b` (a Gno `map[string]int`: iteration = insertion order, a deleted and
  re-inserted key moves to the end), `c` (a sorted slice of structs), `h` (a hub
  importing `a` and `b`: `Both` mutates three realms, `Half` does and panics),
  `p` (a realm at gno.land/r/sys/params that rewrites an auth parameter).
  Behaviour in a state where database and node cache disagree cannot be
  observed on the real system (theorem `reachable_coherent`); the model labels
  it `Err.incoherent` instead of guessing.
  Not modelled: balances and gas (every account holds 10^15 ugnot, a transaction
  costs a fixed fee; the only gas outcome is `lo` = gas-wanted 1 ⇒ out of gas in
  the ante handler), signatures (the harness signs correctly), byte sizes
  (`max_deposit 1ugnot` is only used where the outcome is size-independent:
  `set` in realm `b` fails iff the key is new).

PART 2 — `settle`: the storage-deposit settlement loop of
  `VMKeeper.processStorageDeposit` (keeper.go:1795-1927) with the enumeration
  order of the Go map made an explicit argument.

PART 3 — `resultOf` / the projection the results hash is computed from
  (tm2/pkg/bft/types/results.go:14-45).
-/
namespace GnoVerif.C01

/-! ## Part 1 -/

inductive Slot | a | b | c | h | p
  deriving DecidableEq, Repr

abbrev KV := List (Nat × Int)

def kvGet (m : KV) (k : Nat) : Option Int := (m.find? (·.1 == k)).map (·.2)

def kvHas (m : KV) (k : Nat) : Bool := m.any (·.1 == k)

def kvDel (m : KV) (k : Nat) : KV := m.filter (·.1 != k)

/-- avl tree / sorted slice: replace in place, else insert before the first larger key. -/
def kvSetSorted : KV → Nat → Int → KV
  | [], k, v => [(k, v)]
  | (k', v') :: rest, k, v =>
    if k' == k then (k, v) :: rest
    else if k < k' then (k, v) :: (k', v') :: rest
    else (k', v') :: kvSetSorted rest k v

/-- Gno map: replace in place, else append (iteration is insertion-ordered). -/
def kvSetIns : KV → Nat → Int → KV
  | [], k, v => [(k, v)]
  | (k', v') :: rest, k, v =>
    if k' == k then (k, v) :: rest else (k', v') :: kvSetIns rest k v

/-- The database part that the four realms and the package index occupy. -/
structure Db where
  da : Bool := false
  db : Bool := false
  dc : Bool := false
  dh : Bool := false
  dp : Bool := false
  a : KV := []
  b : KV := []
  c : KV := []
  hn : Nat := 0
  pl : Nat := 0
  deriving DecidableEq, Repr

def Db.dep (d : Db) : Slot → Bool
  | .a => d.da | .b => d.db | .c => d.dc | .h => d.dh | .p => d.dp

def Db.setDep (d : Db) : Slot → Db
  | .a => { d with da := true } | .b => { d with db := true }
  | .c => { d with dc := true } | .h => { d with dh := true }
  | .p => { d with dp := true }

/-- What a transaction works on: the database overlay, the txlog-wrapped node
cache (`nodes` = package nodes of realms, `runs` = ephemeral run packages by
user). -/
structure TxSt where
  db : Db := {}
  nodes : List Slot := []
  runs : List Nat := []
  deriving DecidableEq, Repr

inductive Err
  | unknownAddress | outOfGas | insufficientCoins | pkgExist | typeCheck | internal | vmPanic
  | incoherent
  deriving DecidableEq, Repr

def Err.str : Err → String
  | .unknownAddress => "err:UnknownAddressError"
  | .outOfGas => "err:OutOfGasError"
  | .insufficientCoins => "err:InsufficientCoinsError"
  | .pkgExist => "err:PkgExistError"
  | .typeCheck => "err:TypeCheckError"
  | .internal => "err:InternalError"
  | .vmPanic => "err:StringError"
  | .incoherent => "err:incoherent"

inductive Fn | set | del | inc | fail | sum | both | half | grab
  deriving DecidableEq, Repr

inductive Script | ab | fail | noop | read
  deriving DecidableEq, Repr

inductive Msg
  | send (foreignDenom : Bool)
  | add (s : Slot)
  | call (s : Slot) (f : Fn) (k : Nat) (v : Int) (dep : Bool)
  | run (sc : Script) (k : Nat) (v : Int)
  deriving DecidableEq, Repr

/-- The realm function bodies (on the database overlay). -/
def realmFn (d : Db) (s : Slot) (f : Fn) (k : Nat) (v : Int) (dep : Bool) : Except Err Db :=
  match s, f with
  | .a, .set => .ok { d with a := kvSetSorted d.a k v }
  | .a, .del => .ok { d with a := kvDel d.a k }
  | .a, .inc => .ok { d with a := kvSetSorted d.a k ((kvGet d.a k).getD 0 + v) }
  | .b, .set =>
    -- max_deposit 1ugnot: a new map entry needs a deposit, an overwrite does not
    if dep && !kvHas d.b k then .error .vmPanic else .ok { d with b := kvSetIns d.b k v }
  | .b, .del => .ok { d with b := kvDel d.b k }
  | .b, .inc => .ok { d with b := kvSetIns d.b k ((kvGet d.b k).getD 0 + v) }
  | .c, .set => .ok { d with c := kvSetSorted d.c k v }
  | .c, .del => .ok { d with c := kvDel d.c k }
  | .c, .inc => .ok { d with c := kvSetSorted d.c k ((kvGet d.c k).getD 0 + v) }
  | .h, .both => .ok { d with hn := d.hn + 1, a := kvSetSorted d.a k v, b := kvSetIns d.b k v }
  | .h, .half => .error .vmPanic
  | .h, .grab => .ok d   -- stores two foreign-owned objects; nothing the dump shows
  -- `p` = a realm at gno.land/r/sys/params: `Set` records k and (k = 0, 1, 2) replaces the
  -- auth module's unrestricted-address list by nobody / u1,u2 / u0,u1,u2 — which only
  -- flips a flag inside those accounts
  | .p, .set => .ok { d with pl := k }
  | .p, .del => .ok d
  | .p, .inc => .ok d
  | _, .fail => .error .vmPanic
  | _, .sum => .ok d
  | _, _ => .error .vmPanic   -- not in the grammar (a function the realm does not have)

def Slot.isHub : Slot → Bool
  | .h => true
  | _ => false

def addNode (ns : List Slot) (s : Slot) : List Slot := if ns.contains s then ns else s :: ns

/-- One message on the transaction state (handler of the vm / bank route). -/
def applyMsg (who : Nat) (t : TxSt) : Msg → Except Err TxSt
  | .send foreign => if foreign then .error .insufficientCoins else .ok t
  | .add s =>
    if t.db.dep s then .error .pkgExist
    else if s.isHub && !(t.db.da && t.db.db) then .error .typeCheck
    else if s.isHub && !(t.nodes.contains .a && t.nodes.contains .b) then .error .incoherent
    else .ok { t with db := t.db.setDep s, nodes := addNode t.nodes s }
  | .call s f k v dep =>
    if !t.nodes.contains s then .error .internal
    else if !t.db.dep s then .error .incoherent
    else if s.isHub && !(t.db.da && t.db.db) then .error .incoherent
    else if s.isHub && !(t.nodes.contains .a && t.nodes.contains .b) then .error .incoherent
    else match realmFn t.db s f k v dep with
      | .ok d => .ok { t with db := d }
      | .error e => .error e
  | .run sc k v =>
    match sc with
    | .noop => .ok { t with runs := who :: t.runs }
    | .fail => .error .vmPanic
    | .read =>
      if !t.db.da then .error .typeCheck
      else if !t.nodes.contains .a then .error .incoherent
      else .ok { t with runs := who :: t.runs }
    | .ab =>
      if !(t.db.da && t.db.db) then .error .typeCheck
      else if !(t.nodes.contains .a && t.nodes.contains .b) then .error .incoherent
      else .ok { t with
        db := { t.db with a := kvSetSorted t.db.a k v,
                          b := kvSetIns t.db.b k ((kvGet t.db.b k).getD 0 + v) },
        runs := who :: t.runs }

def applyMsgs (who : Nat) : TxSt → List Msg → Except Err TxSt
  | t, [] => .ok t
  | t, m :: ms =>
    match applyMsg who t m with
    | .ok t' => applyMsgs who t' ms
    | .error e => .error e

/-- One transaction: ante (tx size gas, then the account lookup), then the messages
on an overlay that is written back — database AND node cache — only on success. -/
def applyTx (who : Nat) (lo : Bool) (msgs : List Msg) (t : TxSt) : TxSt × Option Err :=
  if lo then (t, some .outOfGas)
  else if who == 3 then (t, some .unknownAddress)
  else match applyMsgs who t msgs with
    | .ok t' => (t', none)
    | .error e => (t, some e)

def allSlots : List Slot := [.a, .b, .c, .h, .p]

/-- Restart: the database survives, the node cache is rebuilt from the stored
packages, the run packages' nodes are gone. -/
def restart (t : TxSt) : TxSt :=
  { db := t.db, nodes := allSlots.filter t.db.dep, runs := [] }

/-! ### The case-level machine the driver runs -/

inductive Op
  | openCfgs (n : Nat)
  | tx (who : Nat) (lo : Bool) (msgs : List Msg)
  | probe   -- a transaction with an arbitrary gas limit whose last message always fails: no effect

  | commit
  | restart
  | bad
  deriving DecidableEq, Repr

/-- How an instance is restarted: `follow` = at the `restart` ops of the history,
`after h` = additionally after the block of height `h`. -/
structure Pattern where
  follow : Bool
  after : Nat → Bool

structure World where
  st : TxSt := {}
  height : Nat := 1
  boundary : Bool := true
  opened : Bool := false
  deriving DecidableEq, Repr

/-- What one op line answers. -/
inductive Out
  | ok
  | probed
  | err (e : Err)
  | dump (height : Nat) (d : Db)
  | badop
  deriving DecidableEq, Repr

def showKV (m : KV) : String :=
  if m.isEmpty then "e" else ",".intercalate (m.map fun (k, v) => s!"{k}:{v}")

def showDb (d : Db) : String :=
  let f (dep : Bool) (s : String) := if dep then s else "-"
  s!"a={f d.da (showKV d.a)} b={f d.db (showKV d.b)} c={f d.dc (showKV d.c)} h={f d.dh (toString d.hn)} p={f d.dp (toString d.pl)}"

def Out.str : Out → String
  | .ok => "ok"
  | .probed => "probed"
  | .err e => e.str
  | .dump h d => s!"h={h} {showDb d}"
  | .badop => "err:badop"

abbrev TxFn := Nat → Bool → List Msg → TxSt → TxSt × Option Err

/-- One op on one instance; `txf` is the transaction function (`applyTx` for the code
as it is). -/
def stepG (txf : TxFn) (p : Pattern) (w : World) : Op → World × Out
  | .bad => (w, .badop)
  | .openCfgs _ =>
    if w.opened || !w.boundary || w.height != 1 then (w, .badop)
    else ({ w with opened := true }, .ok)
  | .restart =>
    if !w.boundary then (w, .badop)
    else ({ w with opened := true, st := if p.follow then restart w.st else w.st }, .ok)
  | .tx who lo msgs =>
    let r := txf who lo msgs w.st
    ({ w with st := r.1, boundary := false, opened := true },
      match r.2 with | none => .ok | some e => .err e)
  | .probe => ({ w with boundary := false, opened := true }, .probed)
  | .commit =>
    ({ w with st := if p.after w.height then restart w.st else w.st,
              height := w.height + 1, boundary := true, opened := true },
      .dump w.height w.st.db)

def runG (txf : TxFn) (p : Pattern) : World → List Op → List Out
  | _, [] => []
  | w, o :: os => (stepG txf p w o).2 :: runG txf p (stepG txf p w o).1 os

/-- The world after the ops. -/
def execG (txf : TxFn) (p : Pattern) : World → List Op → World
  | w, [] => w
  | w, o :: os => execG txf p (stepG txf p w o).1 os

def step : Pattern → World → Op → World × Out := stepG applyTx

def exec : Pattern → World → List Op → World := execG applyTx

def run : Pattern → World → List Op → List Out := runG applyTx

/-! ### The cache-free specification (database only) -/

def specMsg (d : Db) : Msg → Except Err Db
  | .send foreign => if foreign then .error .insufficientCoins else .ok d
  | .add s =>
    if d.dep s then .error .pkgExist
    else if s.isHub && !(d.da && d.db) then .error .typeCheck
    else .ok (d.setDep s)
  | .call s f k v dep =>
    if !d.dep s then .error .internal
    else match realmFn d s f k v dep with
      | .ok d' => .ok d'
      | .error e => .error e
  | .run sc k v =>
    match sc with
    | .noop => .ok d
    | .fail => .error .vmPanic
    | .read => if !d.da then .error .typeCheck else .ok d
    | .ab =>
      if !(d.da && d.db) then .error .typeCheck
      else .ok { d with a := kvSetSorted d.a k v, b := kvSetIns d.b k ((kvGet d.b k).getD 0 + v) }

def specMsgs : Db → List Msg → Except Err Db
  | d, [] => .ok d
  | d, m :: ms =>
    match specMsg d m with
    | .ok d' => specMsgs d' ms
    | .error e => .error e

def specTx (who : Nat) (lo : Bool) (msgs : List Msg) (d : Db) : Db × Option Err :=
  if lo then (d, some .outOfGas)
  else if who == 3 then (d, some .unknownAddress)
  else match specMsgs d msgs with
    | .ok d' => (d', none)
    | .error e => (d, some e)

/-- The cache-free machine: no node cache, no restarts. -/
structure SWorld where
  db : Db := {}
  height : Nat := 1
  boundary : Bool := true
  opened : Bool := false
  deriving DecidableEq, Repr

def specStep (w : SWorld) : Op → SWorld × Out
  | .bad => (w, .badop)
  | .openCfgs _ =>
    if w.opened || !w.boundary || w.height != 1 then (w, .badop)
    else ({ w with opened := true }, .ok)
  | .restart =>
    if !w.boundary then (w, .badop) else ({ w with opened := true }, .ok)
  | .tx who lo msgs =>
    let r := specTx who lo msgs w.db
    ({ w with db := r.1, boundary := false, opened := true },
      match r.2 with | none => .ok | some e => .err e)
  | .probe => ({ w with boundary := false, opened := true }, .probed)
  | .commit =>
    ({ w with height := w.height + 1, boundary := true, opened := true }, .dump w.height w.db)

def specRun : SWorld → List Op → List Out
  | _, [] => []
  | w, o :: os => (specStep w o).2 :: specRun (specStep w o).1 os

def World.abs (w : World) : SWorld :=
  { db := w.st.db, height := w.height, boundary := w.boundary, opened := w.opened }

/-- Database and node cache agree; `h` deployed implies `a`, `b` deployed. -/
def Coherent (t : TxSt) : Prop :=
  (∀ s, t.nodes.contains s = t.db.dep s) ∧ (t.db.dh = true → t.db.da = true ∧ t.db.db = true)

/-- The variant the code comment at app.go:217-229 warns about: the node cache of a
FAILED transaction is kept (the database overlay is still dropped). -/
def applyTxKeepNodes (who : Nat) (lo : Bool) (msgs : List Msg) (t : TxSt) : TxSt × Option Err :=
  if lo then (t, some .outOfGas)
  else if who == 3 then (t, some .unknownAddress)
  else
    let rec go : TxSt → List Msg → TxSt × Option Err
      | s, [] => (s, none)
      | s, m :: ms =>
        match applyMsg who s m with
        | .ok s' => go s' ms
        | .error e => ({ t with nodes := s.nodes, runs := s.runs }, some e)
    go t msgs

/-! ## Part 2 — storage-deposit settlement (keeper.go:1795-1927) -/

/-- A realm as the loop sees it. -/
structure RealmAcct where
  path : List Nat          -- the realm path (compared like `strings.Compare`: lexicographic on bytes)
  storage : Nat
  deposit : Nat
  deriving DecidableEq, Repr

inductive Ev
  | locked (path : List Nat) (bytes : Int) (amount : Int)
  | unlocked (path : List Nat) (bytes : Int) (amount : Int)
  | shortDeposit (path : List Nat) (required : Int)
  deriving DecidableEq, Repr

structure Settle where
  depositAmt : Int
  events : List Ev := []
  deriving DecidableEq, Repr

def pathLe : List Nat → List Nat → Bool
  | [], _ => true
  | _ :: _, [] => false
  | x :: xs, y :: ys => x < y || (x == y && pathLe xs ys)

/-- One iteration of `for _, rlmPath := range sortedRealm` for a realm whose record is
(`storage`, `deposit`).  The lock branch consumes `depositAmt` — this is what makes the
loop ORDER-SENSITIVE. -/
def settleOne (price : Int) (s : Settle) (e : RealmAcct × Int) : Settle :=
  let (r, diff) := e
  if diff == 0 then s
  else if diff > 0 then
    let required := diff * price
    if s.depositAmt < required then { s with events := s.events ++ [.shortDeposit r.path required] }
    else { depositAmt := s.depositAmt - required, events := s.events ++ [.locked r.path diff required] }
  else
    let released := (-diff).toNat
    let unlocked : Nat := if r.storage == released then r.deposit else r.deposit * released / r.storage
    { s with events := s.events ++ [.unlocked r.path diff unlocked] }

/-- `enum` is the order in which `for path := range realmDiffs` happened to enumerate
the map; the code sorts the paths before the fold. -/
def settle (price depositAmt : Int) (enum : List (RealmAcct × Int)) : Settle :=
  (enum.mergeSort fun x y => pathLe x.1.path y.1.path).foldl (settleOne price) { depositAmt }

/-- The same loop WITHOUT the sort (what the "Sort paths for determinism" comment prevents). -/
def settleUnsorted (price depositAmt : Int) (enum : List (RealmAcct × Int)) : Settle :=
  enum.foldl (settleOne price) { depositAmt }

/-- `for path, diff := range ParamsRealmDiffs(ctx) { realmDiffs[path] += diff }`
(keeper.go:1805): accumulation into a map, as a fold over the enumeration. -/
def mergeDiffs (base : List Nat → Int) (enum : List (List Nat × Int)) : List Nat → Int :=
  enum.foldl (fun m e => fun p => if p == e.1 then m p + e.2 else m p) base

/-- `cacheStore.writeLocked` (tm2/pkg/store/cache/store.go:258): the dirty keys are
collected from a map, sorted, and applied to the parent in key order (`none` = delete). -/
def flush {σ : Type} (apply : σ → List Nat × Option (List Nat) → σ) (parent : σ)
    (dirty : List (List Nat × Option (List Nat))) : σ :=
  (dirty.mergeSort fun x y => pathLe x.1 y.1).foldl apply parent

/-! ## Part 2b — gas charged inside a map range (realm.go:569)

`FinalizeRealmTransaction` ends with one `store.SetPackageRealm(fr)` per touched
foreign realm; `SetPackageRealm` charges amino-encode and store-write gas
proportional to the record's size.  `basicGasMeter.ConsumeGas`
(tm2/pkg/store/types/gas.go:214) adds the amount FIRST ("consume gas even if out of
gas") and then panics if the limit is exceeded; `runTx` reports
`GasUsed = GasConsumed()` and charges the block meter with `GasConsumedToLimit()`.
Until the fix "FinalizeRealmTransaction iterates the touched foreign realms in path
order" the loop ranged over the map `rlm.touchedForeignRealms` directly
(`chargeAll` on the enumeration); now the realms are collected, sorted by path and
then charged (`chargeSorted`). -/

structure Meter where
  limit : Nat
  consumed : Nat
  deriving DecidableEq, Repr

/-- `ConsumeGas`: `.error` = the out-of-gas panic, carrying the meter as it is left. -/
def Meter.consume (m : Meter) (g : Nat) : Except Meter Meter :=
  let m' := { m with consumed := m.consumed + g }
  if m'.consumed > m.limit then .error m' else .ok m'

/-- The loop: one charge per enumerated entry, stopping at the first panic. -/
def chargeAll : Meter → List Nat → Except Meter Meter
  | m, [] => .ok m
  | m, g :: gs =>
    match m.consume g with
    | .ok m' => chargeAll m' gs
    | .error m' => .error m'

def chargeStep (r : Except Meter Meter) (e : List Nat × Nat) : Except Meter Meter :=
  match r with
  | .ok m => m.consume e.2
  | .error m => .error m

/-- The loop as it is now: `enum` = (path, charge) in the order the map was enumerated;
collected, sorted by path, then charged until the first panic. -/
def chargeSorted (m : Meter) (enum : List (List Nat × Nat)) : Except Meter Meter :=
  (enum.mergeSort fun x y => pathLe x.1 y.1).foldl chargeStep (.ok m)

/-- `GasConsumed()` after the loop: what `ResponseDeliverTx.GasUsed` reports. -/
def gasUsed : Except Meter Meter → Nat
  | .ok m => m.consumed
  | .error m => m.consumed

/-- `GasConsumedToLimit()`: what the block gas meter is charged. -/
def gasToLimit : Except Meter Meter → Nat
  | .ok m => min m.consumed m.limit
  | .error m => min m.consumed m.limit

def isOutOfGas : Except Meter Meter → Bool
  | .ok _ => false
  | .error _ => true

/-! ## Part 3 — what the results hash covers (types/results.go) -/

structure DeliverTx where
  error : Option Nat       -- the abci.Error value (its registered type), `none` = ok
  data : List UInt8
  events : List (List UInt8)
  log : List UInt8
  gasWanted : Int
  gasUsed : Int
  deriving DecidableEq, Repr

/-- `ABCIResult`: "the deterministic component of a ResponseDeliverTx". -/
structure ABCIResult where
  error : Option Nat
  data : List UInt8
  events : List (List UInt8)
  deriving DecidableEq, Repr

/-- `NewResultFromResponse`. -/
def resultOf (r : DeliverTx) : ABCIResult := { error := r.error, data := r.data, events := r.events }

/-- `ABCIResults.Hash` for an encoding `enc` (amino) and a list hash `root`
(`merkle.SimpleHashFromByteSlices`): a function of the projected results only. -/
def resultsHash {β γ} (enc : ABCIResult → β) (root : List β → γ) (rs : List DeliverTx) : γ :=
  root ((rs.map resultOf).map enc)

end GnoVerif.C01
