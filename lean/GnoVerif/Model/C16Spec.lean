import GnoVerif.Model.C16
/-!
C16 — the vocabulary of the property statement, on top of the model (core only, no proofs).

* a transaction is *signed with session key `k` of master `m`* when `m` is one of its signers and
  authenticates through `k`;
* the *outflow* of an operation is what left `m`'s balance in a denom while it ran (only counted
  for operations signed with that session key; never negative);
* a run of operations lies *within one spend period* of the session when after each of them the
  session is stored with the same period start (`SpendReset`).
-/
namespace GnoVerif.C16

def Tx.signedBy (t : Tx) (m k : Nat) : Bool :=
  (signersOf t.msgs).contains m && (t.auth.lookup m == some k)

def Op.signedBy : Op → Nat → Nat → Bool
  | .tx t, m, k => t.signedBy m k
  | _, _, _ => false

/-- value that left master `m`'s account in denom `d` while `o` ran at `w`
    (0 unless `o` is signed with session key `k` of `m`) -/
def outflow (m k : Nat) (d : Denom) (w : World) (o : Op) : Int :=
  if o.signedBy m k then max 0 (w.bal (.m m) d - (step w o).bal (.m m) d) else 0

def totalOutflow (m k : Nat) (d : Denom) : World → List Op → Int
  | _, [] => 0
  | w, o :: r => outflow m k d w o + totalOutflow m k d (step w o) r

/-- the stored session record of `(m,k)` -/
def sessionOf (w : World) (m k : Nat) : Option Session := lookupSess w.sess (m, k)

/-- after every operation of the run the session exists and its spend period started at `r` -/
def SamePeriod (m k : Nat) (r : Int) : World → List Op → Prop
  | _, [] => True
  | w, o :: rest => (∃ s, sessionOf (step w o) m k = some s ∧ s.reset = r) ∧ SamePeriod m k r (step w o) rest

def Msg.creates : Msg → Nat → Nat → Bool
  | .create s key _ _ _ _, m, k => s == m && key == k
  | _, _, _ => false

def Op.creates : Op → Nat → Nat → Bool
  | .tx t, m, k => t.msgs.any fun msg => msg.creates m k
  | _, _, _ => false

/-- no operation of the run carries a `MsgCreateSession` for `(m,k)`: the run stays with one grant -/
def NoCreate (m k : Nat) (ops : List Op) : Prop := ∀ o ∈ ops, o.creates m k = false

/-- block times never go back -/
def Monotone : World → List Op → Prop
  | _, [] => True
  | w, o :: rest => w.now ≤ (step w o).now ∧ Monotone (step w o) rest

/-- a session is dead at block time `now`: never created / revoked, or expired -/
def deadAt (w : World) (m k : Nat) : Bool :=
  match sessionOf w m k with
  | none => true
  | some s => s.expiresAt > 0 && w.now ≥ s.expiresAt

/-- well-formed session record: valid coin sets, `used ≤ limit` denom by denom -/
structure WFS (s : Session) : Prop where
  used : validCoins s.used = true
  limit : validCoins s.limit = true
  le : ∀ d, amountOf s.used d ≤ amountOf s.limit d

/-- every stored session record is well-formed -/
def WF (w : World) : Prop := ∀ key s, lookupSess w.sess key = some s → WFS s

/-- the meaning of one parsed allow-list entry -/
def Entry.permits (e : Entry) (msg : Msg) : Prop :=
  e.wildcard = true ∨
  (e.route = msg.route ∧ e.type = msg.type ∧
    (e.path = "" ∨ ∃ p, msg.pkgPath = some p ∧ (p = e.path ∨ hasPrefix p (e.path ++ "/") = true)))

/-- a message is within a grant: never an auth message or `vm/add_package`, and permitted by
    one of the (well-formed) allow-list entries -/
def Granted (paths : List String) (msg : Msg) : Prop :=
  msg.route ≠ "auth" ∧ ¬ (msg.route = "vm" ∧ msg.type = "add_package") ∧
  ∃ es, parsePaths paths = some es ∧ ∃ e ∈ es, e.permits msg

/-- the transaction had an effect: some state was kept or it succeeded -/
def Tx.tookEffect (w : World) (t : Tx) : Prop := (runTx w t).1 ≠ w ∨ (runTx w t).2 = .ok ()

end GnoVerif.C16
