import GnoVerif.Model.C18Coins
/-!
Slices with identity (C18, the "never modify their operands" clause).

`Model/C18Coins.lean` works on immutable lists, where "the operand is not
modified" cannot even be said.  This file re-states the SAME Go functions
(`Coins.AddUnsafe`, `removeZeroCoins`, `negative`, `SubUnsafe`, `Add`, `Sub`)
over an explicit heap of backing arrays, with Go's slice semantics:

* a slice is a window `(allocation, offset, len, cap)`; `s[i:]` shares the allocation;
* `append(s, xs...)` writes IN PLACE when `len+n ≤ cap` and otherwise allocates
  a new array (the old one is left untouched); `append(s)` returns `s`;
* `make` allocates a zeroed array; `copy` writes into the destination's array.

So an in-place edit of an operand's backing array is expressible — the old
`removeZeroCoins` (`slices.Delete` on a sub-slice of the operand, fixed by /repo
commit 97032b3b5d) is kept here as `removeZeroOldH`, and
`Props/C18.lean: old_removeZero_mutates` shows it does change the operand.

The driver runs THIS model for `add/sub/addu/subu` (operands laid out like the
harness does: two sentinel-filled spare capacity slots), prints the operands as
read back from the final heap, and cross-checks the result against the list
model on every op.  Core-only.
-/
namespace GnoVerif.C18.Mem
open GnoVerif GnoVerif.C18

/-- one backing array per allocation; the allocation id is the index. -/
abbrev Heap := List (List Coin)

structure Slice where
  id : Nat
  off : Nat
  len : Nat
  cap : Nat
deriving Repr, DecidableEq, Inhabited

/-- Go's `nil` slice: no capacity, so every `append` to it allocates. -/
def nilSlice : Slice := ⟨0, 0, 0, 0⟩

/-- the zero value of `Coin`. -/
def zeroCoin : Coin := ⟨[], 0#64⟩

def arr (h : Heap) (id : Nat) : List Coin := h.getD id []

/-- the elements a slice shows. -/
def read (h : Heap) (s : Slice) : List Coin := ((arr h s.id).drop s.off).take s.len

/-- `s[i:]` -/
def Slice.from (s : Slice) (i : Nat) : Slice := ⟨s.id, s.off + i, s.len - i, s.cap - i⟩

/-- overwrite `xs` into array `a` starting at `pos` (callers stay inside the array). -/
def writeList (a : List Coin) (pos : Nat) (xs : List Coin) : List Coin :=
  a.take pos ++ xs ++ a.drop (pos + xs.length)

def write (h : Heap) (id pos : Nat) (xs : List Coin) : Heap :=
  h.set id (writeList (arr h id) pos xs)

/-- `append(s, xs...)` (`xs` already evaluated): in place if it fits, else a fresh array. -/
def appendMany (h : Heap) (s : Slice) (xs : List Coin) : Heap × Slice :=
  if xs.isEmpty then (h, s)
  else if s.len + xs.length ≤ s.cap then
    (write h s.id (s.off + s.len) xs, { s with len := s.len + xs.length })
  else
    let newcap := 2 * s.cap + xs.length          -- the growth policy is irrelevant here
    let a := read h s ++ xs ++ List.replicate (newcap - (s.len + xs.length)) zeroCoin
    (h ++ [a], ⟨h.length, 0, s.len + xs.length, newcap⟩)

/-- `for _, c := range cs { if !c.IsZero() { res = append(res, c) } }` -/
def appendNonZero (h : Heap) (res : Slice) (cs : List Coin) : Heap × Slice :=
  cs.foldl (fun (p : Heap × Slice) c => if c.isZero then p else appendMany p.1 p.2 [c]) (h, res)

/-- index of the first zero coin -/
def firstZero : List Coin → Option Nat
  | [] => none
  | c :: cs => if c.isZero then some 0 else (firstZero cs).map (· + 1)

/-- `removeZeroCoins` as it is NOW: returns the argument itself when it holds no zero coin,
otherwise copies into a fresh array (`make(Coins, i, len(coins)-1)`, `copy`, `append`s). -/
def removeZeroH (h : Heap) (s : Slice) : Heap × Slice :=
  let cs := read h s
  match firstZero cs with
  | none => (h, s)
  | some i =>
    let a := cs.take i ++ List.replicate (s.len - 1 - i) zeroCoin
    appendNonZero (h ++ [a]) ⟨h.length, 0, i, s.len - 1⟩ (cs.drop (i + 1))

/-- the loop of `Coins.AddUnsafe`; `sum` is the accumulator slice.  The heap is returned
also when the call panics. -/
def addLoop : Nat → Heap → Slice → Slice → Slice → Nat → Nat → Heap × Except Err Slice
  | 0, h, _, _, sum, _, _ => (h, .ok sum)      -- unreachable: fuel = lenA + lenB + 1
  | fuel + 1, h, A, B, sum, iA, iB =>
    if iA == A.len then
      if iB == B.len then (h, .ok sum)
      else
        let r := removeZeroH h (B.from iB)
        let r2 := appendMany r.1 sum (read r.1 r.2)
        (r2.1, .ok r2.2)
    else if iB == B.len then
      let r := removeZeroH h (A.from iA)
      let r2 := appendMany r.1 sum (read r.1 r.2)
      (r2.1, .ok r2.2)
    else
      let a := (read h A).getD iA zeroCoin
      let b := (read h B).getD iB zeroCoin
      match cmpBytes a.denom b.denom with
      | .lt =>
        let r := if a.isZero then (h, sum) else appendMany h sum [a]
        addLoop fuel r.1 A B r.2 (iA + 1) iB
      | .eq =>
        match a.addUnsafe b with
        | .error e => (h, .error e)
        | .ok res =>
          let r := if res.isZero then (h, sum) else appendMany h sum [res]
          addLoop fuel r.1 A B r.2 (iA + 1) (iB + 1)
      | .gt =>
        let r := if b.isZero then (h, sum) else appendMany h sum [b]
        addLoop fuel r.1 A B r.2 iA (iB + 1)

/-- `coins.AddUnsafe(coinsB)` -/
def addUnsafeH (h : Heap) (A B : Slice) : Heap × Except Err Slice :=
  addLoop (A.len + B.len + 1) h A B nilSlice 0 0

/-- `coins.negative()`: `res := make([]Coin, 0, len(coins))`, then one `append` per coin. -/
def negativeH (h : Heap) (B : Slice) : Heap × Slice :=
  (read h B).foldl
    (fun (p : Heap × Slice) c => appendMany p.1 p.2 [⟨c.denom, BitVec.ofInt 64 (-1) * c.amount⟩])
    (h ++ [List.replicate B.len zeroCoin], ⟨h.length, 0, 0, B.len⟩)

/-- `coins.SubUnsafe(coinsB)` -/
def subUnsafeH (h : Heap) (A B : Slice) : Heap × Except Err Slice :=
  let n := negativeH h B
  addUnsafeH n.1 A n.2

/-- the `validate` + panic of `Add`/`Sub` (it only reads). -/
def checkH (r : Heap × Except Err Slice) : Heap × Except Err Slice :=
  match r.2 with
  | .error e => (r.1, .error e)
  | .ok s => if validate (read r.1 s) then r else (r.1, .error .invalid)

def addH (h : Heap) (A B : Slice) : Heap × Except Err Slice := checkH (addUnsafeH h A B)
def subH (h : Heap) (A B : Slice) : Heap × Except Err Slice := checkH (subUnsafeH h A B)

/-! ### the OLD `removeZeroCoins` (before the fix), for the regression theorem -/

/-- `slices.Delete(s, i, i+1)`: shift the tail left in place, zero the vacated last slot. -/
def deleteAtH (h : Heap) (s : Slice) (i : Nat) : Heap × Slice :=
  let cs := read h s
  (write h s.id (s.off + i) (cs.drop (i + 1) ++ [zeroCoin]), { s with len := s.len - 1 })

/-- the old loop: `for i < l { if coins[i].IsZero() { coins = slices.Delete(coins, i, i+1); l-- } else { i++ } }` -/
def removeZeroOldLoop : Nat → Heap → Slice → Nat → Heap × Slice
  | 0, h, s, _ => (h, s)
  | fuel + 1, h, s, i =>
    if i < s.len then
      if ((read h s).getD i zeroCoin).isZero then
        let r := deleteAtH h s i
        removeZeroOldLoop fuel r.1 r.2 i
      else removeZeroOldLoop fuel h s (i + 1)
    else (h, s)

def removeZeroOldH (h : Heap) (s : Slice) : Heap × Slice := removeZeroOldLoop (2 * s.len + 1) h s 0

/-- lay an operand out the way the harness does: its coins followed by `spare` sentinel slots. -/
def sentinel : Coin := ⟨[126, 115, 126], 7777#64⟩

def mkOperand (h : Heap) (cs : List Coin) (spare : Nat) : Heap × Slice :=
  (h ++ [cs ++ List.replicate spare sentinel], ⟨h.length, 0, cs.length, cs.length + spare⟩)

end GnoVerif.C18.Mem
