import GnoVerif.Base.Lex
/-!
# C27 — commit atomicity: model of the write path of one block commit

What is mirrored (read line by line; the F tie pins these function bodies):

* `tm2/pkg/sdk/baseapp.go`  `InitChain` (consensus params written DIRECTLY into
  the main store, `SetInitialVersion`, the deliver state surviving until block
  1), `BeginBlock`, `DeliverTx` (a failed message's writes are dropped),
  `Commit` (header into the deliver cache, `MultiWrite`, `cms.Commit`);
* `tm2/pkg/store/cache`  `Write`: one op per dirty key in key order; for a
  dbadapter parent through a batch;
* `tm2/pkg/store/bptree/store.go`  `Commit` (SaveVersion, then the pruning rule
  with `KeepRecent`, `KeepEvery`, `initialVersion`), `LoadVersion`;
* `tm2/pkg/bptree`  `Set`/`Remove` (fast-index entry staged in the SAME batch
  as the tree's records, `Remove` of an absent key stages nothing),
  `SaveVersion` (existing-version check through the DB handle, root record,
  fast-index stamp, `ndb.Commit`), `PruneVersionsTo` (root records of every
  existing version `≤ toVersion`, own `ndb.Commit`), `Load` /
  `ensureFastIndex` (stamp behind → rebuild = WRITES at load time; stamp ahead
  → error), `discoverVersions` (an iterator: reads the real DB only);
* `tm2/pkg/db/collecting.go`  `CollectingDB`: every write (direct or batch
  `Write`) only appends to the collector; `Get`/`Has` consult the collector
  first (`look`), iterators do not; `Drain`;
* `tm2/pkg/store/rootmulti/store.go`  `Commit` (version choice, `commitStores`,
  metadata batch into the collector, drain into ONE real batch, `WriteSync`),
  `LoadVersion` (the recovery rule: `s/latest`, `s/<ver>`, every store loads
  `ver` and must report the commit id recorded in the commit info).

Abstractions (stated as assumptions in props/C27.json):

* the records of one tree version (nodes, values, orphan lists) are folded into
  the version's ROOT record, which carries the version's contents and history;
  that a B+tree version is readable iff its root record is present is the
  B+tree's own persistence contract (C23/C24) and is exercised by the
  correspondence run on real crash copies;
* the app hash is the "free" hash: the history of operations itself (`Hist`).
  Every real hash is a function of it, so equal histories give equal hashes;
* `ndb.firstVersion` is not modelled: `pruneRange` skips versions whose root
  record does not exist, so pruning "every existing version ≤ toVersion" is
  what the loop does for any `first` at or below the oldest existing version;
* Go map iteration order (`commitStores`, `MultiWrite`) is fixed to main, aux,
  base: the stores' key families are disjoint, the order only permutes ops of
  different families inside the one batch.

`Cfg.collected = false` is NOT the code: it is the hypothetical design without
the collector (every write site flushes by itself), kept to show that the
single-batch premise is load-bearing (`Props/C27.lean`, counterexamples).
-/
namespace GnoVerif.C27
open GnoVerif

/-! ## logical contents -/

abbrev KV := List (Bytes × Bytes)

/-- sorted insert / replace (Go iteration order = `bytes.Compare` order). -/
def KV.put : KV → Bytes → Bytes → KV
  | [], k, v => [(k, v)]
  | (k', v') :: r, k, v =>
    match Lex.cmp k k' with
    | .lt => (k, v) :: (k', v') :: r
    | .eq => (k, v) :: r
    | .gt => (k', v') :: KV.put r k v

def KV.del : KV → Bytes → KV
  | [], _ => []
  | (k', v') :: r, k => if k = k' then r else (k', v') :: KV.del r k

def KV.has (m : KV) (k : Bytes) : Bool := m.any (·.1 == k)

/-- a block-level cache: dirty keys in key order, `none` = deleted. -/
abbrev KVO := List (Bytes × Option Bytes)

def KVO.put : KVO → Bytes → Option Bytes → KVO
  | [], k, v => [(k, v)]
  | (k', v') :: r, k, v =>
    match Lex.cmp k k' with
    | .lt => (k, v) :: (k', v') :: r
    | .eq => (k, v) :: r
    | .gt => (k', v') :: KVO.put r k v

/-! ## script -/

inductive SName | main | aux | base
  deriving DecidableEq, Repr, Inhabited

structure Step where
  del : Bool
  store : SName
  key : Bytes
  val : Bytes
  deriving DecidableEq, Repr

structure Tx where
  ok : Bool
  steps : List Step
  deriving DecidableEq, Repr

/-! ## tree history = the free app hash -/

inductive TOp
  | set (k v : Bytes)
  | del (k : Bytes)
  deriving DecidableEq, Repr

/-- per saved version: the version number and the operations applied in it. -/
abbrev Hist := List (Nat × List TOp)

/-! ## the physical database -/

inductive PKey
  | latest
  | cinfo (v : Nat)
  | root (s : SName) (v : Nat)
  | fast (s : SName) (k : Bytes)
  | stamp (s : SName)
  | flat (k : Bytes)
  deriving DecidableEq, Repr

structure Snap where
  hist : Hist
  kv : KV
  deriving DecidableEq, Repr

/-- store name, commit-id version, commit-id hash. -/
abbrev StoreInfo := SName × Nat × Hist

inductive PVal
  | ver (v : Nat)
  | cinfo (l : List StoreInfo)
  | root (sn : Snap)
  | fastE (v : Nat) (val : Bytes)
  | stampV (v : Nat)
  | bytes (b : Bytes)
  deriving DecidableEq, Repr

abbrev PDB := List (PKey × PVal)

def PDB.get (d : PDB) (k : PKey) : Option PVal :=
  match d with
  | [] => none
  | (k', v) :: r => if k' = k then some v else PDB.get r k

def PDB.erase (d : PDB) (k : PKey) : PDB := d.filter (fun e => e.1 ≠ k)

def PDB.put (d : PDB) (k : PKey) (v : PVal) : PDB := (k, v) :: d.erase k

inductive WOp
  | set (k : PKey) (v : PVal)
  | del (k : PKey)
  deriving DecidableEq, Repr

def WOp.key : WOp → PKey
  | .set k _ => k
  | .del k => k

def applyOp (d : PDB) : WOp → PDB
  | .set k v => d.put k v
  | .del k => d.erase k

/-- one physical write: the whole batch, atomically. -/
def applyBatch (d : PDB) (b : List WOp) : PDB := b.foldl applyOp d

/-- the database after the given sequence of physical writes, from empty. -/
def replay (log : List (List WOp)) : PDB := log.foldl applyBatch []

/-- the last op on `k` in an op list: `some (some v)` set, `some none` delete. -/
def lastOp : List WOp → PKey → Option (Option PVal)
  | [], _ => none
  | op :: r, k =>
    match lastOp r k with
    | some x => some x
    | none =>
      match op with
      | .set k' v => if k' = k then some (some v) else none
      | .del k' => if k' = k then some none else none

/-! ## configuration and volatile state -/

structure Cfg where
  fastMain : Bool
  /-- `none`: no aux store; `some f`: a second tree store, `f` = fast index. -/
  aux : Option Bool
  keepRecent : Nat
  keepEvery : Nat
  initialHeight : Nat
  /-- `true` = the code (CollectingDB + one drain). -/
  collected : Bool := true
  deriving DecidableEq, Repr

structure Tree where
  name : SName
  fast : Bool
  /-- history through the last saved version (the last saved "hash"). -/
  hist : Hist
  /-- working contents. -/
  kv : KV
  /-- operations of the working session. -/
  pend : List TOp
  version : Nat
  initialVersion : Nat
  /-- `ndb.batch`: staged, not yet handed to the DB handle. -/
  staged : List WOp
  deriving DecidableEq, Repr

def Tree.empty (name : SName) (fast : Bool) : Tree :=
  { name, fast, hist := [], kv := [], pend := [], version := 0, initialVersion := 0, staged := [] }

/-- `MutableTree.WorkingVersion`. -/
def Tree.workingVersion (t : Tree) : Nat :=
  if t.version = 0 ∧ t.initialVersion > 0 then t.initialVersion else t.version + 1

/-- `MutableTree.Set` (+ `setFastIndex`). -/
def Tree.set (t : Tree) (k v : Bytes) : Tree :=
  { t with
    kv := t.kv.put k v
    pend := t.pend ++ [.set k v]
    staged := t.staged ++ (if t.fast then [.set (.fast t.name k) (.fastE t.workingVersion v)] else []) }

/-- `MutableTree.Remove` (+ `deleteFastIndex`): an absent key changes nothing. -/
def Tree.remove (t : Tree) (k : Bytes) : Tree :=
  if t.kv.has k then
    { t with
      kv := t.kv.del k
      pend := t.pend ++ [.del k]
      staged := t.staged ++ (if t.fast then [.del (.fast t.name k)] else []) }
  else t

/-- the deliver state's cache, one dirty map per store. -/
structure Cache where
  m : KVO := []
  a : KVO := []
  b : KVO := []
  deriving DecidableEq, Repr

def Cache.step (c : Cache) (s : Step) : Cache :=
  let v := if s.del then none else some s.val
  match s.store with
  | .main => { c with m := c.m.put s.key v }
  | .aux => { c with a := c.a.put s.key v }
  | .base => { c with b := c.b.put s.key v }

def Cache.steps (c : Cache) (l : List Step) : Cache := l.foldl Cache.step c

structure App where
  cfg : Cfg
  db : PDB
  /-- `BatchCollector.ops`. -/
  coll : List WOp
  main : Tree
  aux : Option Tree
  /-- `ms.lastCommitID`: version, and the store infos its hash is the Merkle root of. -/
  lastVer : Nat
  lastInfo : List StoreInfo
  /-- `ms.initialVersion`. -/
  msInitial : Nat
  /-- `app.deliverState`. -/
  deliver : Option Cache
  /-- ghost: every physical write so far, oldest first. -/
  log : List (List WOp)
  deriving DecidableEq, Repr

inductive Err
  | versionExists | corrupt | noCommitInfo | noRoot | wrongId | stampAhead | noDeliver
  deriving DecidableEq, Repr

def Err.cls : Err → String
  | .versionExists => "versionexists"
  | .corrupt => "corrupt"
  | .noCommitInfo => "nocommitinfo"
  | .noRoot => "noroot"
  | .wrongId => "wrongid"
  | .stampAhead => "stampahead"
  | .noDeliver => "nodeliver"

/-- one physical write. -/
def App.phys (a : App) (ops : List WOp) : App :=
  { a with db := applyBatch a.db ops, log := a.log ++ [ops] }

/-- a write site hands `ops` to its DB handle: into the collector (the code), or
straight to the database as its own physical write (the hypothetical design). -/
def App.emit (a : App) (ops : List WOp) : App :=
  if a.cfg.collected then { a with coll := a.coll ++ ops } else a.phys ops

/-- `CollectingDB.Get` / `Has`: the collector first, then the real DB. -/
def App.look (a : App) (k : PKey) : Option PVal :=
  match lastOp a.coll k with
  | some x => x
  | none => a.db.get k

/-! ## bptree: SaveVersion, pruning, store Commit -/

/-- versions of `s` with a root record in the REAL database (iterator view). -/
def rootVersions (d : PDB) (s : SName) : List Nat :=
  d.filterMap fun e => match e.1 with
    | .root s' v => if s' = s then some v else none
    | _ => none

/-- the history (free hash) the working tree has once saved. -/
def Tree.nextHist (t : Tree) : Hist := t.hist ++ [(t.workingVersion, t.pend)]

/-- what `SaveVersion` hands to the DB handle in one `ndb.Commit`: everything
staged by `Set`/`Remove`, the root record, the fast-index stamp. -/
def Tree.saveOps (t : Tree) : List WOp :=
  t.staged ++ [.set (.root t.name t.workingVersion) (.root ⟨t.nextHist, t.kv⟩)]
    ++ (if t.fast then [.set (.stamp t.name) (.stampV t.workingVersion)] else [])

def Tree.saved (t : Tree) : Tree :=
  { t with hist := t.nextHist, pend := [], version := t.workingVersion, staged := [] }

/-- `MutableTree.SaveVersion`. -/
def Tree.save (a : App) (t : Tree) : Except Err (App × Tree) :=
  match a.look (.root t.name t.workingVersion) with
  | some (.root sn) =>
    -- the version exists: same hash → adopt the persisted tree and drop the session; else fail
    if sn.hist = t.nextHist ∧ (sn.kv = [] ↔ t.kv = []) then
      .ok (a, { t with hist := sn.hist, kv := sn.kv, pend := [], version := t.workingVersion, staged := [] })
    else .error .versionExists
  | some _ => .error .corrupt
  | none => .ok (a.emit t.saveOps, t.saved)

/-- the deletes `PruneVersionsTo(to)` stages: the root record of every existing
version `≤ to` (existence through the DB handle). -/
def pruneDels (a : App) (s : SName) (to : Nat) : List WOp :=
  ((rootVersions a.db s).filter fun v => v ≤ to ∧ (a.look (.root s v)).isSome).map
    fun v => .del (.root s v)

/-- `PruneVersionsTo(to)`, with its own `ndb.Commit`. -/
def Tree.prune (a : App) (t : Tree) (to : Nat) : App :=
  let ds := pruneDels a t.name to
  if ds.isEmpty then a else a.emit ds

/-- the pruning rule of `bptree.Store.Commit` (the iavl store has the same one),
on the tree as saved: `some toRelease` when versions `≤ toRelease` are released. -/
def Tree.pruneTo (cfg : Cfg) (t : Tree) : Option Nat :=
  let previous := t.version - 1
  if cfg.keepRecent < previous then
    let toRelease := previous - cfg.keepRecent
    if toRelease ≥ t.initialVersion ∧ (cfg.keepEvery = 0 ∨ toRelease % cfg.keepEvery ≠ 0) then
      some toRelease
    else none
  else none

/-- `bptree.Store.Commit`. -/
def Tree.commit (a : App) (t : Tree) : Except Err (App × Tree) :=
  match Tree.save a t with
  | .error e => .error e
  | .ok (a, t) =>
    match t.pruneTo a.cfg with
    | some to => .ok (Tree.prune a t to, t)
    | none => .ok (a, t)

/-! ## rootmulti.Commit -/

def Tree.info (t : Tree) : StoreInfo := (t.name, t.version, t.hist)

/-- `commitStores` for main, aux. -/
def App.commitStores (a : App) : Except Err App :=
  match Tree.commit a a.main with
  | .error e => .error e
  | .ok (a, m) =>
    let a := { a with main := m }
    match a.aux with
    | none => .ok a
    | some x =>
      match Tree.commit a x with
      | .error e => .error e
      | .ok (a, x) => .ok { a with aux := some x }

def App.infos (a : App) : List StoreInfo :=
  [a.main.info] ++ (match a.aux with | none => [] | some x => [x.info]) ++ [(.base, 0, [])]

/-- `multiStore.Commit`. -/
def App.commitMS (a : App) : Except Err App :=
  let version := if a.lastVer = 0 ∧ a.msInitial > 0 then a.msInitial else a.lastVer + 1
  match a.commitStores with
  | .error e => .error e
  | .ok a =>
    let infos := a.infos
    -- metaBatch.Write(): commit info and latest version
    let a := a.emit [.set (.cinfo version) (.cinfo infos), .set .latest (.ver version)]
    -- Drain into one real batch, WriteSync
    let a := if a.cfg.collected then { a.phys a.coll with coll := [] } else a
    .ok { a with lastVer := version, lastInfo := infos }

/-! ## BaseApp -/

/-- "consensus_params" (explicit bytes: string literals do not reduce in the kernel). -/
def cpKey : Bytes := [99, 111, 110, 115, 101, 110, 115, 117, 115, 95, 112, 97, 114, 97, 109, 115]
/-- the stored consensus params, symbolically: "CP". -/
def cpVal : Bytes := [67, 80]
/-- "last_header" -/
def hdrKey : Bytes := [108, 97, 115, 116, 95, 104, 101, 97, 100, 101, 114]

/-- decimal digits of `n`, most significant first (fuel-structural, kernel friendly). -/
def decDigits (fuel n : Nat) (acc : Bytes) : Bytes :=
  match fuel with
  | 0 => acc
  | fuel + 1 =>
    let acc := (48 + (n % 10)).toUInt8 :: acc
    if n / 10 = 0 then acc else decDigits fuel (n / 10) acc

/-- the stored block header, symbolically: "H<height>". -/
def hdrVal (height : Nat) : Bytes := 72 :: decDigits (height + 1) height []

/-- `cache.Store.Write` onto a tree store. -/
def Tree.flush (t : Tree) (d : KVO) : Tree :=
  d.foldl (fun t e => match e.2 with | some v => t.set e.1 v | none => t.remove e.1) t

/-- `cache.Store.Write` onto the dbadapter store: one batch. -/
def flushBase (d : KVO) : List WOp :=
  d.map fun e => match e.2 with | some v => .set (.flat e.1) (.bytes v) | none => .del (.flat e.1)

def treeNew (cfg : Cfg) : Tree × Option Tree :=
  (Tree.empty .main cfg.fastMain, cfg.aux.map fun f => Tree.empty .aux f)

/-- a freshly constructed app over `db`, before any load. -/
def App.fresh (cfg : Cfg) (db : PDB) : App :=
  { cfg, db, coll := [], main := (treeNew cfg).1, aux := (treeNew cfg).2,
    lastVer := 0, lastInfo := [], msInitial := 0, deliver := none, log := [] }

/-- `BaseApp.InitChain` with consensus params and an InitChainer running `genesis`. -/
def App.initChain (a : App) (genesis : List Step) : App :=
  -- storeConsensusParams: directly into the main store, before SetInitialVersion
  let m := a.main.set cpKey cpVal
  let ih := a.cfg.initialHeight
  let (m, x, msi) :=
    if ih > 1 then
      ({ m with initialVersion := ih }, a.aux.map (fun x => { x with initialVersion := ih }), ih)
    else (m, a.aux, a.msInitial)
  { a with main := m, aux := x, msInitial := msi, deliver := some (Cache.steps {} genesis) }

def App.nextHeight (a : App) : Nat :=
  if a.lastVer > 0 then a.lastVer + 1 else if a.cfg.initialHeight > 1 then a.cfg.initialHeight else 1

/-- BeginBlock … DeliverTx* … EndBlock: the deliver cache after the block's transactions. -/
def App.deliverTxs (a : App) (txs : List Tx) : Cache :=
  txs.foldl (fun c tx => if tx.ok then c.steps tx.steps else c) (a.deliver.getD {})

/-- `BaseApp.Commit` for a deliver cache `c` of the block at `height`. -/
def App.commit (a : App) (c : Cache) (height : Nat) : Except Err App :=
  let c := { c with b := c.b.put hdrKey (some (hdrVal height)) }
  -- MultiWrite
  let a := { a with main := a.main.flush c.m, aux := a.aux.map (fun x => Tree.flush x c.a), deliver := none }
  let a := a.emit (flushBase c.b)
  a.commitMS

/-- one whole block. -/
def App.block (a : App) (txs : List Tx) : Except Err App :=
  a.commit (a.deliverTxs txs) a.nextHeight

/-! ## recovery: rootmulti.LoadLatestVersion on a reopened database -/

def latestRoot (d : PDB) (s : SName) : Nat := (rootVersions d s).foldl max 0

def fastKeys (d : PDB) (s : SName) : List Bytes :=
  d.filterMap fun e => match e.1 with
    | .fast s' k => if s' = s then some k else none
    | _ => none

/-- `rebuildFastIndex` for the tree loaded at `sn`/`v`: writes issued at LOAD time. -/
def rebuildOps (d : PDB) (s : SName) (sn : Snap) (v : Nat) : List WOp :=
  (fastKeys d s).map (fun k => WOp.del (.fast s k))
    ++ sn.kv.map (fun e => WOp.set (.fast s e.1) (.fastE v e.2))
    ++ [.set (.stamp s) (.stampV v)]

/-- `bptree.Store.LoadVersion(ver)`, `ver > 0`, on a live (mutable) store:
`Load()` = discover versions, load the latest, `ensureFastIndex` against the
LATEST; then, if the latest is not `ver`, `LoadVersion(ver)`. -/
def Tree.load (a : App) (t : Tree) (ver : Nat) : Except Err (App × Tree) :=
  let latest := latestRoot a.db t.name
  let getRoot (v : Nat) : Except Err Snap :=
    match a.db.get (.root t.name v) with
    | some (.root sn) => .ok sn
    | some _ => .error .corrupt
    | none => .error .noRoot
  let ensure (a : App) (sn : Snap) (v : Nat) : Except Err App :=
    if t.fast then
      match a.db.get (.stamp t.name) with
      | some (.stampV st) =>
        if st < v then .ok (a.emit (rebuildOps a.db t.name sn v))
        else if st > v then .error .stampAhead
        else .ok a
      | some _ => .error .corrupt
      | none => .ok (a.emit (rebuildOps a.db t.name sn v))
    else .ok a
  let mk (sn : Snap) (v : Nat) : Tree :=
    { t with hist := sn.hist, kv := sn.kv, pend := [], version := v, staged := [] }
  if latest = 0 then
    -- Load() found nothing; LoadVersion(ver) then fails on the missing root
    match getRoot ver with
    | .error e => .error e
    | .ok sn => .ok (a, mk sn ver)
  else
    match getRoot latest with
    | .error e => .error e
    | .ok snl =>
      match ensure a snl latest with
      | .error e => .error e
      | .ok a =>
        if latest = ver then .ok (a, mk snl ver)
        else
          match getRoot ver with
          | .error e => .error e
          | .ok sn => .ok (a, mk sn ver)

def infoOf (l : List StoreInfo) (s : SName) : Nat × Hist :=
  match l.find? (·.1 = s) with
  | some e => e.2
  | none => (0, [])

/-- the commit id a loaded tree reports must be the recorded one. -/
def Tree.checkId (t : Tree) (l : List StoreInfo) : Bool :=
  infoOf l t.name = (t.version, t.hist)

/-- reopen `db` (a crash copy): construct the app and `LoadLatestVersion`. -/
def recover (cfg : Cfg) (db : PDB) : Except Err App :=
  let a := App.fresh cfg db
  match db.get .latest with
  | none => .ok a           -- version 0: every store starts empty, no commit info is read
  | some (.ver 0) => .ok a
  | some (.ver ver) =>
    match db.get (.cinfo ver) with
    | some (.cinfo infos) =>
      match Tree.load a a.main ver with
      | .error e => .error e
      | .ok (a, m) =>
        if !m.checkId infos then .error .wrongId else
        let a := { a with main := m }
        match a.aux with
        | none => .ok { a with lastVer := ver, lastInfo := infos }
        | some x =>
          match Tree.load a x ver with
          | .error e => .error e
          | .ok (a, x) =>
            if !x.checkId infos then .error .wrongId else
            .ok { a with aux := some x, lastVer := ver, lastInfo := infos }
    | some _ => .error .corrupt
    | none => .error .noCommitInfo
  | some _ => .error .corrupt

/-! ## observations -/

/-- what the base store shows: its flat keys, in key order. -/
def baseContents (d : PDB) : KV :=
  d.foldl (fun m e => match e.1, e.2 with
    | .flat k, .bytes v => m.put k v
    | _, _ => m) []

structure Obs where
  ver : Nat
  hash : List StoreInfo
  main : KV
  aux : Option KV
  base : KV
  deriving DecidableEq, Repr

/-- version, app hash (free form) and the contents of every store. -/
def App.obs (a : App) : Obs :=
  { ver := a.lastVer, hash := a.lastInfo, main := a.main.kv, aux := a.aux.map (·.kv),
    base := baseContents a.db }

/-- run blocks, collecting the commit id (version, hash) of each. -/
def runBlocks (a : App) : List (List Tx) → Except Err (App × List (Nat × List StoreInfo))
  | [] => .ok (a, [])
  | b :: bs =>
    match a.block b with
    | .error e => .error e
    | .ok a =>
      match runBlocks a bs with
      | .error e => .error e
      | .ok (a', ids) => .ok (a', (a.lastVer, a.lastInfo) :: ids)

/-- the uncrashed chain: fresh empty database, InitChain, blocks. -/
def boot (cfg : Cfg) (genesis : List Step) : App := (App.fresh cfg []).initChain genesis

/-- what a node does with a reopened application: InitChain again when nothing
was committed (the handshake sees height 0), otherwise just continue. -/
def resume (r : App) (g : List Step) : App := if r.lastVer = 0 then r.initChain g else r

/-- what a state has COMMITTED: before the first commit that is nothing (the
working tree already holds the staged consensus params, but they are not
committed), afterwards the state's own observation. -/
def App.committedObs (a : App) : Obs :=
  if a.lastVer = 0 then (App.fresh a.cfg []).obs else a.obs

end GnoVerif.C27
