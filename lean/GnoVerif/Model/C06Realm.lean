/-
C06 — model of the GnoVM realm finalizer (gnovm/pkg/gnolang/realm.go,
ownership.go), written after the code, function by function.

A heap of objects addressed by `Nat` (the address plays the role of the Go
pointer; it is never printed).  An object carries what `ObjectInfo` carries —
`ID = (pkg, time)`, `RefCount`, `OwnerID` (kept as the owner's address; the
owner's id is read through it), `IsEscaped`, and the transient flags
`isDirty / isDeleted / isNewReal / isNewEscaped / isNewDeleted` — plus its
reference slots in `getChildObjects` order.

Per realm: the object-id counter `Time` and the mark lists `newCreated`,
`newDeleted`, `newEscaped`, `created`, `updated`, `deleted`.

Functions, with the Go they mirror:

  markNewReal / markDirty / markNewDeleted / markNewEscaped   Realm.Mark*
  didUpdate                                                   Realm.DidUpdate
  assignId                                                    Realm.assignNewObjectID
  incRef / processNewCreated                                  incRefCreatedDescendants / processNewCreatedMarks
  decRef / processNewDeleted                                  decRefDeletedDescendants / processNewDeletedMarks
  processNewEscaped                                           processNewEscapedMarks
  markDirtyAncestors                                          markDirtyAncestors
  saveObject / saveRec / saveUnsaved                          saveObject / saveUnsavedObjectRecursively / saveUnsavedObjects
  removeDeleted / clearMarks / finalize                       removeDeletedObjects / clearMarks / FinalizeRealmTransaction

Go panics (`panic(...)` in realm.go, "unexpected unreal object" in
toRefValue, nil dereference in the program) set the sticky `err` flag; a
transaction that ends with `err` is rolled back as a whole.

Recursive Go functions take a `fuel` argument here; `fuelFor` (heap size + 2)
always suffices: each recursive call of incRef finalizes one more object,
each recursive call of decRef deletes one more.

NOT modelled (store level; checked by the harness oracle on the raw store):
hashes, amino bytes, `ModTime`, storage sizes, lazy loading of objects
(`RefValue` resolution — the model heap is the fully loaded store),
packages of the immutable kind (stdlib, /p/) whose references are skipped.
-/
namespace GnoVerif.C06

inductive Kind where
  | block | hiv | struct
  deriving DecidableEq, Repr, Inhabited

structure Obj where
  kind : Kind := .struct
  /-- `ObjectID.PkgID`, stamped at allocation (index of the realm). -/
  pkg : Nat := 0
  /-- `ObjectID.NewTime`; 0 = allocated but not finalized (unreal). -/
  time : Nat := 0
  rc : Int := 0
  /-- `OwnerID` / in-memory owner pointer, as the owner's address. -/
  owner : Option Nat := none
  escaped : Bool := false
  dirty : Bool := false
  deleted : Bool := false
  newReal : Bool := false
  newEscaped : Bool := false
  newDeleted : Bool := false
  /-- not in the store any more (DelObject) or garbage of a finished transaction. -/
  dead : Bool := false
  /-- reference slots, in `getChildObjects` order; `none` = nil pointer. -/
  kids : List (Option Nat) := []
  deriving Repr, Inhabited

structure Marks where
  newCreated : List Nat := []
  newDeleted : List Nat := []
  newEscaped : List Nat := []
  created : List Nat := []
  updated : List Nat := []
  deleted : List Nat := []
  deriving Repr, Inhabited

structure State where
  heap : List Obj := []
  /-- `Realm.Time` per realm. -/
  time : List Nat := []
  marks : List Marks := []
  err : Bool := false
  deriving Repr, Inhabited

namespace State

def get (s : State) (a : Nat) : Obj := s.heap.getD a default

def modify (s : State) (a : Nat) (f : Obj → Obj) : State :=
  { s with heap := s.heap.set a (f (s.get a)) }

def marksOf (s : State) (r : Nat) : Marks := s.marks.getD r default

def modMarks (s : State) (r : Nat) (f : Marks → Marks) : State :=
  { s with marks := s.marks.set r (f (s.marksOf r)) }

def timeOf (s : State) (r : Nat) : Nat := s.time.getD r 0

def fail (s : State) : State := { s with err := true }

def isReal (s : State) (a : Nat) : Bool := (s.get a).time != 0

/-- every `Some` slot of `a`, in order (duplicates kept) — `getChildObjects2`. -/
def children (s : State) (a : Nat) : List Nat := (s.get a).kids.filterMap id

def fuelFor (s : State) : Nat := s.heap.length + 2

end State

open State

/-! ### marks -/

def markNewReal (s : State) (r a : Nat) : State :=
  if (s.get a).newReal then s
  else (s.modify a fun o => { o with newReal := true }).modMarks r fun m => { m with newCreated := m.newCreated ++ [a] }

def markDirty (s : State) (r a : Nat) : State :=
  if (s.get a).dirty then s
  else if (s.get a).newReal then s
  else (s.modify a fun o => { o with dirty := true }).modMarks r fun m => { m with updated := m.updated ++ [a] }

def markNewDeleted (s : State) (r a : Nat) : State :=
  if (s.get a).newDeleted then s
  else (s.modify a fun o => { o with newDeleted := true }).modMarks r fun m => { m with newDeleted := m.newDeleted ++ [a] }

def markNewEscaped (s : State) (r a : Nat) : State :=
  if (s.get a).newEscaped then s
  else (s.modify a fun o => { o with newEscaped := true }).modMarks r fun m => { m with newEscaped := m.newEscaped ++ [a] }

def incRc (s : State) (a : Nat) : State := s.modify a fun o => { o with rc := o.rc + 1 }
def decRc (s : State) (a : Nat) : State := s.modify a fun o => { o with rc := o.rc - 1 }
def setOwner (s : State) (a : Nat) (p : Option Nat) : State := s.modify a fun o => { o with owner := p }

/-! ### DidUpdate -/

/-- the `co != nil` half of `DidUpdate`. -/
def didUpdateCo (s : State) (r po c : Nat) : State :=
  let s := incRc s c
  let s := if (s.get c).rc > 1 ∧ ¬ (s.get c).escaped then markNewEscaped s r c else s
  if s.isReal c then markDirty s r c
  else markNewReal (setOwner s c (some po)) r c

/-- the `xo != nil` half of `DidUpdate`. -/
def didUpdateXo (s : State) (r x : Nat) : State :=
  let s := decRc s x
  if (s.get x).rc = 0 then
    if s.isReal x then markNewDeleted s r x else s
  else if s.isReal x then markDirty s r x else s

/-- `rlm.DidUpdate(po, xo, co)` for the realm `r` (never nil here). -/
def didUpdate (s : State) (r po : Nat) (xo co : Option Nat) : State :=
  if ¬ s.isReal po then s
  else if (s.get po).pkg ≠ r then s.fail   -- "DidUpdate called on external-realm object"
  else
    let s := markDirty s r po
    let s := match co with
      | some c => didUpdateCo s r po c
      | none => s
    match xo with
    | some x => didUpdateXo s r x
    | none => s

/-! ### object ids -/

/-- `assignNewObjectID`: the NewTime comes from the counter of the realm the
object is stamped with (`touchForeignRealm` when that is not `r`). -/
def assignId (s : State) (a : Nat) : State :=
  let p := (s.get a).pkg
  let t := s.timeOf p + 1
  { (s.modify a fun o => { o with time := t }) with time := s.time.set p t }

/-! ### processNewCreatedMarks -/

/-- the body of the `for _, child := range more` loop of incRefCreatedDescendants;
    `recur` is the recursive call. -/
def incRefChild (recur : State → Nat → State) (r a : Nat) (s : State) (c : Nat) : State :=
  let s := incRc s c
  let rc := (s.get c).rc
  if rc = 1 then
    if s.isReal c then
      -- a deleted real became undeleted
      markDirty (setOwner s c (some a)) r c
    else
      recur ((setOwner s c (some a)).modify c fun o => { o with newReal := true }) c
  else if rc > 1 then
    let s := markDirty s r c
    if (s.get c).escaped then s else markNewEscaped s r c
  else s.fail

def incRef : Nat → State → Nat → Nat → State
  | 0, s, _, _ => s.fail
  | fuel + 1, s, r, a =>
    if s.isReal a then s   -- recurse guard: already finalized in this pass
    else
      let s := assignId s a
      let s := s.modMarks r fun m => { m with created := m.created ++ [a] }
      (s.children a).foldl (incRefChild (fun s c => incRef fuel s r c) r a) s

def processNewCreated (s : State) (r : Nat) : State :=
  (s.marksOf r).newCreated.foldl (fun s a =>
    if (s.get a).rc = 0 then s else incRef s.fuelFor s r a) s

/-! ### processNewDeletedMarks -/

/-- the body of the child loop of decRefDeletedDescendants -/
def decRefChild (recur : State → Nat → State) (r : Nat) (s : State) (c : Nat) : State :=
  let s := decRc s c
  let rc := (s.get c).rc
  if rc = 0 then recur s c
  else if rc > 0 then markDirty s r c
  else s.fail

def decRef : Nat → State → Nat → Nat → State
  | 0, s, _, _ => s.fail
  | fuel + 1, s, r, a =>
    if (s.get a).deleted then s
    else
      let s := s.modify a fun o =>
        { o with newDeleted := false, newReal := false, newEscaped := false, deleted := true }
      let s := s.modMarks r fun m => { m with deleted := m.deleted ++ [a] }
      (s.children a).foldl (decRefChild (fun s c => decRef fuel s r c) r) s

def processNewDeleted (s : State) (r : Nat) : State :=
  (s.marksOf r).newDeleted.foldl (fun s a =>
    if (s.get a).rc > 0 then s.modify a fun o => { o with newDeleted := false }
    else decRef s.fuelFor s r a) s

/-! ### processNewEscapedMarks -/

/-- `getOwner`: the owner object, unless it is gone from the store. -/
def getOwner (s : State) (a : Nat) : Option Nat :=
  match (s.get a).owner with
  | some p => if (s.get p).dead then none else some p
  | none => none

/-- one iteration of the `for i := 0; i < len(rlm.newEscaped); i++` loop. -/
def escapeOne (s : State) (r e : Nat) : State :=
  if (s.get e).rc ≤ 1 then s.modify e fun o => { o with newEscaped := false }
  else
    match getOwner s e with
    | none => s
    | some po =>
      let s :=
        if (s.get po).rc = 0 then s
        else if (s.get po).newReal then s
        else markDirty s r po
      let s :=
        if ¬ s.isReal e then
          (incRef s.fuelFor s r e).modify e fun o => { o with newReal := true }
        else s
      setOwner s e none

/-- the loop re-reads `len(rlm.newEscaped)` at every step (the list may grow). -/
def processNewEscapedLoop : Nat → State → Nat → Nat → State
  | 0, s, _, _ => s.fail
  | fuel + 1, s, r, i =>
    match (s.marksOf r).newEscaped[i]? with
    | none => s
    | some e => processNewEscapedLoop fuel (escapeOne s r e) r (i + 1)

def processNewEscaped (s : State) (r : Nat) : State :=
  processNewEscapedLoop (s.fuelFor + (s.marksOf r).newEscaped.length) s r 0

/-! ### markDirtyAncestors -/

def markAncestors : Nat → State → Nat → Nat → State
  | 0, s, _, _ => s.fail
  | fuel + 1, s, r, a =>
    if (s.get a).rc > 1 then s
    else match getOwner s a with
      | none => s
      | some po =>
        if (s.get po).newReal then s
        else if (s.get po).dirty then s
        else if (s.get po).deleted then s
        else markAncestors fuel (markDirty s r po) r po

def markDirtyAncestors (s : State) (r : Nat) : State :=
  let step := fun (s : State) a => if (s.get a).deleted then s else markAncestors s.fuelFor s r a
  let s := (s.marksOf r).updated.foldl step s
  (s.marksOf r).created.foldl step s

/-! ### saveUnsavedObjects -/

/-- `saveObject` (+ the child checks of `copyValueWithRefs`/`toRefValue`). -/
def saveObject (s : State) (a : Nat) : State :=
  if ¬ s.isReal a then s.fail   -- "unexpected non-finalized object id at save"
  else
    let s := if (s.get a).newEscaped then
        s.modify a fun o => { o with newEscaped := false, escaped := true }
      else s
    if (s.children a).all fun c => s.isReal c then s
    else s.fail   -- toRefValue: "unexpected unreal object"

def saveRec : Nat → State → Nat → State
  | 0, s, _ => s.fail
  | fuel + 1, s, a =>
    let s := (s.children a).foldl (fun s c =>
      if (s.get c).newReal ∨ (s.get c).dirty then
        if (s.get c).escaped ∨ (s.get c).newEscaped then s else saveRec fuel s c
      else s) s
    let s := saveObject s a
    if (s.get a).newReal then s.modify a fun o => { o with newReal := false }
    else s.modify a fun o => { o with dirty := false }

def saveUnsaved (s : State) (r : Nat) : State :=
  let s := (s.marksOf r).created.foldl (fun s a =>
    if ¬ (s.get a).newReal then s
    else if (s.get a).deleted then s
    else saveRec s.fuelFor s a) s
  (s.marksOf r).updated.foldl (fun s a =>
    if ¬ (s.get a).dirty then s
    else if (s.get a).deleted then s
    else (saveObject s a).modify a fun o => { o with dirty := false }) s

def removeDeleted (s : State) (r : Nat) : State :=
  (s.marksOf r).deleted.foldl (fun s a => s.modify a fun o => { o with dead := true }) s

def clearMarks (s : State) (r : Nat) : State := s.modMarks r fun _ => {}

/-- `FinalizeRealmTransaction`. -/
def finalize (s : State) (r : Nat) : State :=
  let s := processNewCreated s r
  let s := processNewDeleted s r
  let s := processNewEscaped s r
  let s := markDirtyAncestors s r
  let s := saveUnsaved s r
  let s := removeDeleted s r
  clearMarks s r

/-! ### the end of a transaction

The machine is released: objects that never became real are garbage, and
the next transaction loads every object afresh from the store, so all
transient flags are gone. -/
def endTx (s : State) : State :=
  { s with heap := s.heap.map fun o =>
      { o with dirty := false, newReal := false, newEscaped := false, newDeleted := false,
               dead := o.dead || o.time == 0 || o.deleted } }

end GnoVerif.C06
