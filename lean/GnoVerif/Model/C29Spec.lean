/-
Model.C29Spec — the reference machine of property C29: "an in-memory ordered
map" with batches and snapshots, in the vocabulary of the statement.

It is `Spec.OMap` plus
* batches: a staged op list; `bwrite` applies it in order in one step and,
  as types.go says, leaves a batch on which only `Close` is allowed (every
  other method answers an error); `bclose` drops the batch and its ops;
* snapshots: a copy of the map, read-only, until closed.  Whether `NewSnapshot`
  exists at all is a capability of the backend (`snapshots : Bool`); where it
  does not, the snapshot clause of the statement is vacuous.

`ROp.toOp` embeds the vocabulary into the operations of the backend model
(`Model.C29`): everything addresses the backend itself (handle d0), no buffer
is written to after it was handed over.
-/
import GnoVerif.Model.C29

namespace GnoVerif.C29
open GnoVerif

/-- the statement's vocabulary: sets, deletes, batches, iterations, snapshots. -/
inductive ROp
  | set (k v : Option Bytes)
  | del (k : Option Bytes)
  | get (k : Option Bytes)
  | has (k : Option Bytes)
  | iter (asc : Bool) (s e : Option Bytes)
  | bnew (b : Nat)
  | bset (b : Nat) (k v : Option Bytes)
  | bdel (b : Nat) (k : Option Bytes)
  | bwrite (b : Nat)
  | bclose (b : Nat)
  | snap (s : Nat)
  | sget (s : Nat) (k : Option Bytes)
  | shas (s : Nat) (k : Option Bytes)
  | siter (s : Nat) (asc : Bool) (lo hi : Option Bytes)
  | sclose (s : Nat)
  deriving Repr

/-- the same operation on the backend model. -/
def ROp.toOp : ROp → Op
  | .set k v => .set 0 k v false
  | .del k => .del 0 k
  | .get k => .get false 0 k false
  | .has k => .has false 0 k
  | .iter asc s e => .iter false 0 asc s e false
  | .bnew b => .bnew 0 b
  | .bset b k v => .bset b k v false
  | .bdel b k => .bdel b k
  | .bwrite b => .bwrite b
  | .bclose b => .bclose b
  | .snap s => .snap 0 s
  | .sget s k => .get true s k false
  | .shas s k => .has true s k
  | .siter s asc lo hi => .iter true s asc lo hi false
  | .sclose s => .sclose s

/-- a staged op of the reference batch: delete?, key, value. -/
structure ROpStaged where
  del : Bool
  key : Bytes
  val : Bytes
  deriving Repr, DecidableEq

structure RBatch where
  id : Nat
  ops : List ROpStaged
  written : Bool
  deriving Repr, DecidableEq

structure Ref where
  m : OMap
  batches : List RBatch
  snaps : List (Nat × OMap)
  deriving Repr

def Ref.init : Ref := ⟨[], [], []⟩

def Ref.findBatch (r : Ref) (i : Nat) : Option RBatch := r.batches.find? (fun b => b.id == i)

def Ref.putBatch (r : Ref) (b : RBatch) : Ref :=
  { r with batches := r.batches.map (fun x => if x.id == b.id then b else x) }

/-- one staged op applied to the map. -/
def applyR (m : OMap) (o : ROpStaged) : OMap :=
  if o.del then OMap.del m o.key else OMap.set m o.key o.val

/-- `Write`: the staged ops applied in order. -/
def applyAllR (m : OMap) (ops : List ROpStaged) : OMap := ops.foldl applyR m

def Ref.step (snapshots : Bool) (r : Ref) : ROp → Ref × Out
  | .set k v => ({ r with m := OMap.set r.m (k.getD []) (v.getD []) }, .ok)
  | .del k => ({ r with m := OMap.del r.m (k.getD []) }, .ok)
  | .get k => (r, .val (OMap.get r.m (k.getD [])))
  | .has k => (r, .bool (OMap.get r.m (k.getD [])).isSome)
  | .iter asc s e => (r, .items (OMap.range r.m s e asc))
  | .bnew b =>
    if (r.findBatch b).isSome then (r, .err "dup")
    else ({ r with batches := r.batches ++ [⟨b, [], false⟩] }, .ok)
  | .bset b k v =>
    match r.findBatch b with
    | none => (r, .err "nohandle")
    | some bt =>
      if bt.written then (r, .err "batchdone")
      else (r.putBatch { bt with ops := bt.ops ++ [⟨false, k.getD [], v.getD []⟩] }, .ok)
  | .bdel b k =>
    match r.findBatch b with
    | none => (r, .err "nohandle")
    | some bt =>
      if bt.written then (r, .err "batchdone")
      else (r.putBatch { bt with ops := bt.ops ++ [⟨true, k.getD [], []⟩] }, .ok)
  | .bwrite b =>
    match r.findBatch b with
    | none => (r, .err "nohandle")
    | some bt =>
      if bt.written then (r, .err "batchdone")
      else (({ r with m := applyAllR r.m bt.ops } : Ref).putBatch { bt with written := true }, .ok)
  | .bclose b =>
    match r.findBatch b with
    | none => (r, .err "nohandle")
    | some _ => ({ r with batches := r.batches.filter (fun x => x.id != b) }, .ok)
  | .snap s =>
    if (lookup r.snaps s).isSome then (r, .err "dup")
    else if snapshots then ({ r with snaps := r.snaps ++ [(s, r.m)] }, .ok)
    else (r, .err "nosnap")
  | .sget s k =>
    match lookup r.snaps s with
    | none => (r, .err "nohandle")
    | some m => (r, .val (OMap.get m (k.getD [])))
  | .shas s k =>
    match lookup r.snaps s with
    | none => (r, .err "nohandle")
    | some m => (r, .bool (OMap.get m (k.getD [])).isSome)
  | .siter s asc lo hi =>
    match lookup r.snaps s with
    | none => (r, .err "nohandle")
    | some m => (r, .items (OMap.range m lo hi asc))
  | .sclose s =>
    match lookup r.snaps s with
    | none => (r, .err "nohandle")
    | some _ => ({ r with snaps := remove r.snaps s }, .ok)

/-- run a script, collecting the outputs. -/
def Ref.run (snapshots : Bool) : Ref → List ROp → Ref × List Out
  | r, [] => (r, [])
  | r, op :: ops =>
    let (r', o) := Ref.step snapshots r op
    let (r'', os) := Ref.run snapshots r' ops
    (r'', o :: os)

/-- run a script on the backend model. -/
def run : State → List Op → State × List Out
  | st, [] => (st, [])
  | st, op :: ops =>
    let (st', o) := step st op
    let (st'', os) := run st' ops
    (st'', o :: os)

/-! ## the guard: what a script must avoid on backend `b`

Each conjunct excludes exactly one recorded divergence:
* a point operation on the empty key, where the backend substitutes a sentinel
  key (boltdb, lmdbdb, mdbxdb);
* an empty non-nil bound where the backend seeks to it (lmdbdb);
* any use of a batch after `Write` except `Close`, unless the backend answers
  the error types.go announces (lmdbdb, mdbxdb do). -/

def keyOk (b : Backend) (k : Option Bytes) : Prop := b.sentinel.isSome → k.getD [] ≠ []

def boundsOk (b : Backend) (asc : Bool) (s e : Option Bytes) : Prop :=
  b.emptyBoundErr = true → ¬ (asc = true ∧ s = some []) ∧ ¬ (asc = false ∧ e = some [])

def freshOk (b : Backend) (r : Ref) (i : Nat) : Prop :=
  ∀ bt, r.findBatch i = some bt → bt.written = true → b.afterWrite = .error

def OpOk (b : Backend) (r : Ref) : ROp → Prop
  | .set k _ => keyOk b k
  | .del k => keyOk b k
  | .get k => keyOk b k
  | .has k => keyOk b k
  | .iter asc s e => boundsOk b asc s e
  | .bset i k _ => keyOk b k ∧ freshOk b r i
  | .bdel i k => keyOk b k ∧ freshOk b r i
  | .bwrite i => freshOk b r i
  | _ => True

/-- a script inside the guard, checked along the reference run. -/
def Clean (b : Backend) : Ref → List ROp → Prop
  | _, [] => True
  | r, op :: ops => OpOk b r op ∧ Clean b (Ref.step b.snapshots r op).1 ops

end GnoVerif.C29
