import GnoVerif.Gen.C52Tab
/-!
# C52 — model of the output escaping gnoweb's markdown renderers stand on

Bytes are `Nat`s (values `< 256` in every run; nothing below depends on that
bound, so the theorems hold for arbitrary lists).

Mirrored code (read line by line; quirks kept):

* `text/template.HTMLEscapeString`  (= `html/template.HTMLEscapeString` = gnoweb `markdown.HTMLEscapeString`,
  used for every dynamic piece of `ext_forms.go`)                                   → `tesc`
* `html.EscapeString` (std; `ext_foreign.go` label / error, `render.go` plain-text fallback) → `hesc`
* goldmark `util.EscapeHTML` (table driven; `ext_links.go`, `ext_codeexpand.go`)    → `gesc`
* goldmark `util.UnescapePunctuations`, `ResolveNumericReferences`, `ResolveEntityNames`,
  `util.URLEscape(v, true)` (including `url.QueryEscape`)                          → `urlEscape`
* goldmark `renderer/html.IsDangerousURL`                                          → `isDangerousURL`
* gnoweb `NewDefaultGoldmarkOptions.allowSvgDataImage` (render_config.go)          → `imgValidator`
* goldmark `renderImage` (safe mode) after gnoweb's `imgValidatorTransformer`      → `imgSrc`
* gnoweb `renderGnoLink` / `renderStringAttributes` / `getLinkIcons` (ext_links.go) → `linkHref`, `renderGnoLink`

The tables (`htmlEscapeTable`, `punctTable`, `urlEscapeTable`, `utf8lenTable`, the
`IsDangerousURL` prefixes, the HTML5 entity table) are NOT written here: they are
regenerated from the goldmark sources by `gvx c52tab` into `Gen/C52Tab.lean`.

The HTML5 named-entity lookup is a PARAMETER `lk` of every function that needs it
(the driver instantiates it with the generated table); theorems quantify over it.
-/
namespace GnoVerif.C52
open GnoVerif.Gen.C52

abbrev Bytes := List Nat

/- `B!"abc"` expands at elaboration time to the list of the UTF-8 bytes of the literal. -/
open Lean in
macro "B!" s:str : term => do
  let elems : Array (TSyntax `term) :=
    s.getString.toUTF8.toList.toArray.map fun b => Syntax.mkNumLit (toString b.toNat)
  `(([$elems,*] : List Nat))

/-! ## the three HTML escapers -/

/-- `text/template.HTMLEscape`: per byte; NUL becomes U+FFFD. -/
def tescByte (c : Nat) : Bytes :=
  if c = 0 then [239, 191, 189]
  else if c = 34 then B!"&#34;"
  else if c = 39 then B!"&#39;"
  else if c = 38 then B!"&amp;"
  else if c = 60 then B!"&lt;"
  else if c = 62 then B!"&gt;"
  else [c]

/-- `template.HTMLEscapeString` (the `ContainsAny` fast path returns the same bytes). -/
def tesc (s : Bytes) : Bytes := s.flatMap tescByte

/-- `html.EscapeString` (a `strings.Replacer` over five single bytes). -/
def hescByte (c : Nat) : Bytes :=
  if c = 38 then B!"&amp;"
  else if c = 39 then B!"&#39;"
  else if c = 60 then B!"&lt;"
  else if c = 62 then B!"&gt;"
  else if c = 34 then B!"&#34;"
  else [c]

def hesc (s : Bytes) : Bytes := s.flatMap hescByte

/-- goldmark `util.EscapeHTML`: `htmlEscapeTable[c]`, nil = copy. -/
def gescByte (c : Nat) : Bytes :=
  match htmlEscapeTable.getD c [] with
  | [] => [c]
  | r => r

def gesc (s : Bytes) : Bytes := s.flatMap gescByte

/-! ## character classes of goldmark/util -/

def isPunct (c : Nat) : Bool := punctTable.getD c 0 == 1
def urlSafe (c : Nat) : Bool := urlEscapeTable.getD c 0 == 1
def utf8len (c : Nat) : Nat := utf8lenTable.getD c 0
def isDigit (c : Nat) : Bool := 48 ≤ c && c ≤ 57
def isHex (c : Nat) : Bool := (48 ≤ c && c ≤ 57) || (97 ≤ c && c ≤ 102) || (65 ≤ c && c ≤ 70)
def isAlpha (c : Nat) : Bool := (97 ≤ c && c ≤ 122) || (65 ≤ c && c ≤ 90)
def isAlnum (c : Nat) : Bool := isAlpha c || isDigit c

/-- `util.ReadWhile`: the longest prefix satisfying `p`, and the rest. -/
def spanP (p : Nat → Bool) : Bytes → Bytes × Bytes
  | [] => ([], [])
  | c :: rest =>
    if p c then let r := spanP p rest; (c :: r.1, r.2) else ([], c :: rest)

/-! ## `util.UnescapePunctuations` -/

def unescapePunct : Bytes → Bytes
  | [] => []
  | [c] => [c]
  | c :: d :: rest =>
    if c = 92 ∧ isPunct d = true then d :: unescapePunct rest
    else c :: unescapePunct (d :: rest)

/-! ## `util.ResolveNumericReferences` -/

def hexVal (c : Nat) : Nat :=
  if 48 ≤ c ∧ c ≤ 57 then c - 48 else if 97 ≤ c ∧ c ≤ 102 then c - 87 else c - 55

/-- `strconv.ParseUint(s, 16, 32)` on hex digits, error ignored: a value that does not
    fit 32 bits comes back as `MaxUint32`. -/
def parseHex32 (ds : Bytes) : Nat :=
  let v := ds.foldl (fun a d => a * 16 + hexVal d) 0
  if v > 4294967295 then 4294967295 else v

/-- `strconv.ParseUint(s, 0, 32)` on 1–7 decimal digits, error ignored: base 0 makes a
    leading `0` an OCTAL prefix (`&#0115;` is `M`), and a digit `8`/`9` after it is a
    syntax error, i.e. value 0. -/
def parseBase0 (ds : Bytes) : Nat :=
  match ds with
  | 48 :: rest =>
    if rest.all (fun d => d < 56) then rest.foldl (fun a d => a * 8 + (d - 48)) 0 else 0
  | _ => ds.foldl (fun a d => a * 10 + (d - 48)) 0

/-- `util.ToValidRune ∘ rune(v)` for `v ≤ MaxUint32` (values ≥ 2³¹ become negative runes, invalid). -/
def toValidRune (v : Nat) : Nat :=
  if v = 0 ∨ (55296 ≤ v ∧ v ≤ 57343) ∨ v > 1114111 then 65533 else v

/-- `utf8.EncodeRune` of a valid rune. -/
def encodeRune (r : Nat) : Bytes :=
  if r < 128 then [r]
  else if r < 2048 then [192 + r / 64, 128 + r % 64]
  else if r < 65536 then [224 + r / 4096, 128 + (r / 64) % 64, 128 + r % 64]
  else [240 + r / 262144, 128 + (r / 4096) % 64, 128 + (r / 64) % 64, 128 + r % 64]

/-- fuel = remaining length + 1 (a successful reference jumps past its `;`). -/
def resolveNumAux : Nat → Bytes → Bytes
  | 0, s => s
  | _ + 1, [] => []
  | f + 1, c :: rest =>
    if c = 38 then
      match rest with
      | 35 :: nc :: rest2 =>
        if nc = 120 ∨ nc = 88 then
          match spanP isHex rest2 with
          | (d :: ds, 59 :: after) =>
            encodeRune (toValidRune (parseHex32 (d :: ds))) ++ resolveNumAux f after
          | _ => c :: resolveNumAux f rest
        else if isDigit nc = true then
          match spanP isDigit (nc :: rest2) with
          | (ds, 59 :: after) =>
            if ds.length < 8 then encodeRune (toValidRune (parseBase0 ds)) ++ resolveNumAux f after
            else c :: resolveNumAux f rest
          | _ => c :: resolveNumAux f rest
        else c :: resolveNumAux f rest
      | _ => c :: resolveNumAux f rest
    else c :: resolveNumAux f rest

def resolveNum (s : Bytes) : Bytes := resolveNumAux (s.length + 1) s

/-! ## `util.ResolveEntityNames` (entity lookup is a parameter) -/

abbrev Lookup := Bytes → Option Bytes

def resolveEntAux (lk : Lookup) : Nat → Bytes → Bytes
  | 0, s => s
  | _ + 1, [] => []
  | f + 1, c :: rest =>
    if c = 38 then
      match rest with
      | 35 :: _ => c :: resolveEntAux lk f rest
      | _ =>
        match spanP isAlnum rest with
        | (n :: ns, 59 :: after) =>
          match lk (n :: ns) with
          | some chars => chars ++ resolveEntAux lk f after
          | none => c :: resolveEntAux lk f rest
        | _ => c :: resolveEntAux lk f rest
    else c :: resolveEntAux lk f rest

def resolveEnt (lk : Lookup) (s : Bytes) : Bytes := resolveEntAux lk (s.length + 1) s

/-! ## the escaping loop of `util.URLEscape`, `url.QueryEscape` -/

def hexUpper (n : Nat) : Nat := if n < 10 then 48 + n else 55 + n

/-- `url.QueryEscape` on raw bytes: unreserved bytes stay, space becomes `+`, the rest `%XX`. -/
def queryEscapeByte (c : Nat) : Bytes :=
  if isAlnum c = true ∨ c = 45 ∨ c = 95 ∨ c = 46 ∨ c = 126 then [c]
  else if c = 32 then [43]
  else [37, hexUpper (c / 16), hexUpper (c % 16)]

def queryEscape (s : Bytes) : Bytes := s.flatMap queryEscapeByte

/-- The loop of `URLEscape` over `v` of total length `L` (the code compares against
    `len(v)`, not against what is left).  Kept quirks:
    * `%` is kept together with the TWO following bytes when the first of them is a hex
      digit (`IsHexDecimal(v[i+1]) && IsHexDecimal(v[i+1])` — the second is never looked at);
    * an invalid UTF-8 lead byte (table value 99) is kept as is;
    * a lead byte whose sequence would run past the end is DROPPED — except when the
      whole input is that single byte (nothing was written, the input is returned). -/
def escLoopAux (L : Nat) : Nat → Bytes → Bytes
  | 0, s => s
  | _ + 1, [] => []
  | f + 1, c :: rest =>
    if urlSafe c = true then c :: escLoopAux L f rest
    else
      match (if c = 37 then
               (match rest with
                | h1 :: x :: rest' => if isHex h1 = true then some (h1, x, rest') else none
                | _ => none)
             else none) with
      | some (h1, x, rest') => c :: h1 :: x :: escLoopAux L f rest'
      | none =>
        let u := utf8len c
        if u = 99 then c :: escLoopAux L f rest
        else if c = 32 then htmlSpace ++ escLoopAux L f rest
        else
          let u' := if u > L then L - 1 else u
          if u' = 0 then c :: escLoopAux L f rest
          else if u' > rest.length + 1 then escLoopAux L f rest
          else queryEscape ((c :: rest).take u') ++ escLoopAux L f (rest.drop (u' - 1))

def escLoop (v : Bytes) : Bytes := escLoopAux v.length (v.length + 1) v

/-- `util.URLEscape(v, true)` -/
def urlEscape (lk : Lookup) (v : Bytes) : Bytes :=
  escLoop (resolveEnt lk (resolveNum (unescapePunct v)))

/-! ## `html.IsDangerousURL` -/

/-- `bytes.ToLower` restricted to what can make the comparison succeed (ASCII). -/
def lowerB (c : Nat) : Nat := if 65 ≤ c ∧ c ≤ 90 then c + 32 else c

/-- goldmark `hasPrefix`: length check, then case-insensitive comparison. -/
def hasPrefixFold (s p : Bytes) : Bool :=
  decide (p.length ≤ s.length) && ((s.take p.length).map lowerB == p.map lowerB)

def isDangerousURL (u : Bytes) : Bool :=
  if hasPrefixFold u bDataImage && decide (11 ≤ u.length) then
    let v := u.drop 11
    !(hasPrefixFold v bPng || hasPrefixFold v bGif || hasPrefixFold v bJpeg ||
      hasPrefixFold v bWebp || hasPrefixFold v bSvg)
  else
    hasPrefixFold u bJs || hasPrefixFold u bVb || hasPrefixFold u bFile || hasPrefixFold u bData

/-! ## gnoweb: image validator, image `src`, link `href` -/

def hasPrefix (s p : Bytes) : Bool := decide (p.length ≤ s.length) && (s.take p.length == p)

/-- render_config.go `allowSvgDataImage` (case-SENSITIVE `strings.HasPrefix`). -/
def imgValidator (uri : Bytes) : Bool :=
  !hasPrefix uri (B!"data:") || hasPrefix uri (B!"data:image/svg+xml")

/-- What ends up between the quotes of `<img src="…"`: gnoweb's AST transformer erases a
    rejected destination, then goldmark's `renderImage` escapes and checks the ESCAPED url. -/
def imgSrc (lk : Lookup) (dest : Bytes) : Bytes :=
  let d0 := if imgValidator dest then dest else []
  let d := urlEscape lk d0
  if isDangerousURL d then [] else gesc d

/-- goldmark's own order (`renderLink`, `renderImage`): escape first, check the result. -/
def hrefEscCheck (lk : Lookup) (dest : Bytes) : Bytes :=
  let d := urlEscape lk dest
  if isDangerousURL d then [] else gesc d

/-- gnoweb `renderGnoLink` (ext_links.go) as it is now:
    `dest := util.URLEscape(n.Destination, true); if !html.IsDangerousURL(dest) { w.Write(util.EscapeHTML(dest)) }`. -/
def linkHref (lk : Lookup) (dest : Bytes) : Bytes := hrefEscCheck lk dest

/-- gnoweb `renderGnoLink` BEFORE the fix (kept for `raw_check_order_counterexample`): the
    check looked at the RAW destination, the bytes written were `EscapeHTML(URLEscape(dest, true))`,
    so a scheme spelled with character references passed the check and was decoded afterwards. -/
def linkHrefRawCheck (lk : Lookup) (dest : Bytes) : Bytes :=
  if isDangerousURL dest then [] else gesc (urlEscape lk dest)

/-- `renderStringAttributes` for one attribute. -/
def renderAttr (name value : Bytes) : Bytes :=
  [32] ++ name ++ B!"=\"" ++ gesc value ++ [34]

def renderAttrs (as : List (Bytes × Bytes)) : Bytes := as.flatMap fun a => renderAttr a.1 a.2

/-- link types of ext_links.go: 0 invalid, 1 external, 2 package, 3 internal, 4 user -/
structure LinkIn where
  ty : Nat
  untrusted : Bool
  help : Bool            -- GnoURL ≠ nil ∧ WebQuery.Has("help")
  dest : Bytes
  title : Option Bytes

/-- (tooltip, icon id, css class) -/
def iconExternal : Bytes × Bytes × Bytes := (B!"External link", B!"ico-external-link", B!"link-external")
def iconInternal : Bytes × Bytes × Bytes := (B!"Cross package link", B!"ico-internal-link", B!"link-internal")
def iconUser : Bytes × Bytes × Bytes := (B!"User profile", B!"ico-user-link", B!"link-user")
def iconTx : Bytes × Bytes × Bytes := (B!"Transaction link", B!"ico-tx-link", B!"link-tx")

def getLinkIcons (n : LinkIn) : List (Bytes × Bytes × Bytes) :=
  if n.untrusted then (if n.ty = 1 then [iconExternal] else [])
  else
    (if n.ty = 1 then [iconExternal] else if n.ty = 3 then [iconInternal]
     else if n.ty = 4 then [iconUser] else []) ++
    (if n.ty ≠ 1 ∧ n.help = true then [iconTx] else [])

def renderIcon (i : Bytes × Bytes × Bytes) : Bytes :=
  B!"<span" ++
  renderAttrs [(B!"class", i.2.2 ++ B!" tooltip"), (B!"data-tooltip-target", B!"info"),
               (B!"data-tooltip", i.1), (B!"title", i.1)] ++
  [62] ++ B!"<svg class=\"c-icon\"><use href=\"#" ++ i.2.1 ++ B!"\"></use></svg>" ++ B!"</span>"

/-- what `renderGnoLink` writes on entering the node -/
def linkOpen (lk : Lookup) (n : LinkIn) : Bytes :=
  if n.ty = 0 then B!"<!-- invalid link -->"
  else
    B!"<a href=\"" ++ linkHref lk n.dest ++ [34] ++
    renderAttrs ((if n.ty = 1 ∨ n.untrusted = true then [(B!"rel", B!"noopener nofollow ugc")] else []) ++
                 (match n.title with | some t => [(B!"title", t)] | none => [])) ++
    [62]

/-- the attributes of that `<a>` start tag as they are meant to be read back: `href`, then
    `rel` for external / untrusted links, then the (escaped) `title` -/
def linkAttrs (lk : Lookup) (n : LinkIn) : List (Bytes × Bytes) :=
  [(B!"href", linkHref lk n.dest)] ++
  (if n.ty = 1 ∨ n.untrusted = true then [(B!"rel", B!"noopener nofollow ugc")] else []) ++
  (match n.title with | some t => [(B!"title", gesc t)] | none => [])

/-- what `renderGnoLink` writes on leaving the node -/
def linkClose (n : LinkIn) : Bytes :=
  if n.ty = 0 then [] else (getLinkIcons n).flatMap renderIcon ++ B!"</a>"

/-- the whole element around already rendered children `inner` (dropped for an invalid link) -/
def renderGnoLink (lk : Lookup) (n : LinkIn) (inner : Bytes) : Bytes :=
  if n.ty = 0 then linkOpen lk n else linkOpen lk n ++ inner ++ linkClose n

end GnoVerif.C52
