import GnoVerif.Model.C40
/-!
Predicates used by the C40 theorems (definitions only; core Lean).
-/
namespace GnoVerif.C40

/-- Element identities increase along the list (arrival order) and are fresh w.r.t. `nextId`. -/
def IdsSorted (s : State) : Prop :=
  (s.txs.map (·.id)).Pairwise (· < ·) ∧ ∀ t ∈ s.txs, t.id < s.nextId

/-- Every `txsMap` entry points at a live element carrying that key; one entry per key. -/
def MapSound (s : State) : Prop :=
  (∀ k i, (k, i) ∈ s.txsMap → ∃ t ∈ s.txs, t.id = i ∧ t.tx = k) ∧ (s.txsMap.map (·.1)).Nodup

/-- `mem.txsBytes` is the sum of the sizes held. -/
def BytesExact (s : State) : Prop := s.txsBytes = sumBytes s.txs

/-- The configured limits, as the code enforces them (a non-positive limit admits nothing
    but the empty tx / the empty pool). -/
def WithinLimits (s : State) : Prop :=
  (s.txs.length : Int) ≤ max s.cfg.size 0 ∧ s.txsBytes ≤ max s.cfg.maxPending 0

/-- mapTxCache: no key twice, never more than `size` entries (nothing at all for nopTxCache). -/
def CacheWf (s : State) : Prop :=
  s.cache.Nodup ∧ (s.cache.length : Int) ≤ max s.cfg.cacheSize 0

/-- "never holds the same transaction twice". -/
def NoDupKeys (s : State) : Prop := (keys s).Nodup

/-- every element is the one `txsMap` knows for its key. -/
def MapComplete (s : State) : Prop := ∀ t ∈ s.txs, (t.tx, t.id) ∈ s.txsMap

/-- The invariant of every run. -/
structure Inv (s : State) : Prop where
  ids : IdsSorted s
  map : MapSound s
  complete : MapComplete s
  nodup : NoDupKeys s
  bytes : BytesExact s
  limits : WithinLimits s
  cache : CacheWf s

/-- a prefix of the pool respects the two reap limits (negative = unlimited). -/
def Fits (maxBytes maxGas : Int) (l : List MemTx) : Prop :=
  (0 ≤ maxBytes → sumBytes l ≤ maxBytes) ∧ (0 ≤ maxGas → sumGas l ≤ maxGas)

/-- the app's GasWanted answers are non-negative (ABCI contract). -/
def GasNonneg : Op → Prop
  | .check _ _ g => 0 ≤ g
  | _ => True

end GnoVerif.C40
