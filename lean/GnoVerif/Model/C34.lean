/-!
# C34 — model of the private validator's sign / persist / restart cycle

Mirrors, line by line, the order of effects in

* `tm2/pkg/bft/privval/privval.go`  `SignVote`, `SignProposal`, `NewPrivValidator`
* `tm2/pkg/bft/privval/state/state.go`  `CheckHRS`, `Check…OnlyDifferByTimestamp`,
  `Update` (memory first, then `save` = `validate` + `WriteFileAtomic`)
* `tm2/pkg/os/tempfile.go`  `WriteFileAtomic` (temp file, write, rename)

The order that exists in the code, and that the model reproduces:

1. `VoteTypeToStep` (panics on a non-vote type), then `CheckHRS` against the
   IN-MEMORY state: regression errors; strictly higher ⇒ "fresh"; equal ⇒
   "same" (needs sign-bytes, else `errNoSignBytes`).
2. same HRS: identical sign-bytes ⇒ stored signature; differs only by the
   timestamp ⇒ stored signature and STORED timestamp; otherwise conflict error.
   Nothing is written in this branch.
3. fresh HRS: the signer is called, the signature is assigned to the request
   object (`vote.Signature = signature`), then `Update` overwrites the five
   in-memory fields, then `save` runs `validate` (rejects negative round …) and
   `WriteFileAtomic`.  If `save` fails, `Update` restores the previous in-memory
   state (`*fs = prev`, since fd7d3fbcc7) and the error is returned; the request
   object keeps the signature that was assigned to it before `Update`.

Modelling assumption on the file system (the contract of `WriteFileAtomic`,
POSIX `rename`): at every instant the state file holds either the old or the
new content, never a torn one.  A kill before the rename leaves the old
content, a kill after it the new content; in both cases the signature never
left the process.  A restart (`Crash`) reloads memory from the file.

Core Lean only.
-/
namespace GnoVerif.C34

/-- height (Go `int64`), round (Go `int`), step (`uint8`; 1 propose, 2 prevote, 3 precommit). -/
@[ext] structure HRS where
  h : Int
  r : Int
  s : Nat
deriving DecidableEq, Repr, Inhabited

/-- Lexicographic order, as the three-level comparison in `CheckHRS`. -/
def HRS.lt (a b : HRS) : Prop :=
  a.h < b.h ∨ (a.h = b.h ∧ (a.r < b.r ∨ (a.r = b.r ∧ a.s < b.s)))

def HRS.le (a b : HRS) : Prop :=
  a.h < b.h ∨ (a.h = b.h ∧ (a.r < b.r ∨ (a.r = b.r ∧ a.s ≤ b.s)))

instance : LT HRS := ⟨HRS.lt⟩
instance : LE HRS := ⟨HRS.le⟩
instance (a b : HRS) : Decidable (a < b) := by
  show Decidable (HRS.lt a b); unfold HRS.lt; exact inferInstance
instance (a b : HRS) : Decidable (a ≤ b) := by
  show Decidable (HRS.le a b); unfold HRS.le; exact inferInstance

/-- The canonical sign-bytes: type/height/round (= `hrs`), everything else
except the timestamp (`body`: block id, POL round, chain id), the timestamp. -/
structure SignBytes where
  hrs : HRS
  body : Nat
  ts : Nat
deriving DecidableEq, Repr, Inhabited

/-- `FileState`: the five persisted fields. `sb`/`sig` are Go slices that may be nil. -/
structure SignState (σ : Type) where
  hrs : HRS
  sb : Option SignBytes
  sig : Option σ
deriving DecidableEq, Repr

/-- A freshly generated state file: `{Height:0 Round:0 Step:0}`. -/
def SignState.empty {σ : Type} : SignState σ := ⟨⟨0, 0, 0⟩, none, none⟩

/-- A signature that was returned to the caller together with a nil error. -/
structure Released (σ : Type) where
  hrs : HRS
  body : Nat
  /-- the timestamp RETURNED (the original one on the timestamp-only path) -/
  ts : Nat
  sig : σ
deriving DecidableEq, Repr

structure State (σ : Type) where
  /-- the `FileState` object of the running process -/
  mem : SignState σ
  /-- content of the state file -/
  disk : SignState σ
  /-- environment: persisting currently fails (disk full, read-only, …) -/
  failing : Bool
  /-- monotone log of everything released, in order -/
  released : List (Released σ)

def State.init {σ : Type} : State σ := ⟨.empty, .empty, false, []⟩

inductive Err | height | round | step | nosignbytes | conflict | validate | save
deriving DecidableEq, Repr

inductive Chk | fresh | same | err (e : Err) | panicNoSig
deriving DecidableEq, Repr

/-- `FileState.CheckHRS`. -/
def checkHRS {σ : Type} (st : SignState σ) (q : HRS) : Chk :=
  if q.h < st.hrs.h then .err .height
  else if q.h > st.hrs.h then .fresh
  else if q.r < st.hrs.r then .err .round
  else if q.r > st.hrs.r then .fresh
  else if q.s < st.hrs.s then .err .step
  else if q.s > st.hrs.s then .fresh
  else match st.sb, st.sig with
    | none, _ => .err .nosignbytes
    | some _, none => .panicNoSig
    | some _, some _ => .same

/-- `FileState.validate` as far as a state built by `Update` can fail it
(height/round negative, step out of range, sign-bytes HRS mismatch). -/
def validate {σ : Type} (st : SignState σ) : Bool :=
  decide (0 ≤ st.hrs.h) && decide (0 ≤ st.hrs.r) && decide (st.hrs.s ≤ 3) &&
  (match st.sb with
   | none => st.sig.isNone
   | some sb => decide (sb.hrs = st.hrs) && decide (1 ≤ st.hrs.s))

/-- A sign request after `VoteTypeToStep`: `none` = unknown vote type (panic). -/
structure Req where
  h : Int
  r : Int
  /-- 1 for proposals; the vote type's step for votes; `none` = not a vote type -/
  step : Option Nat
  body : Nat
  ts : Nat
deriving DecidableEq, Repr

/-- Where a process is killed relative to the rename inside `WriteFileAtomic`. -/
inductive Cut | old | new
deriving DecidableEq, Repr

inductive Op
  | sign (q : Req)                -- SignVote / SignProposal
  | crash                         -- process dies, restart reloads the file
  | failsave (on : Bool)          -- environment toggles
  | cut (c : Cut) (q : Req)       -- restart; SignVote / SignProposal in that process, killed inside WriteFileAtomic; restart
deriving DecidableEq, Repr

inductive Out (σ : Type)
  | sig (s : σ) (ts : Nat)        -- nil error: signature + timestamp as returned
  | err (e : Err) (leak : Option σ)  -- error; `leak` = Signature field was filled in anyway
  | panicVoteType
  | panicNoSig
  | killed
  | ok
  | unsupported
deriving DecidableEq, Repr

/-- How the persist step of this call ends. -/
inductive Persist | normal | killedOld | killedNew
deriving DecidableEq, Repr

/-- `Check{Votes,Proposals}OnlyDifferByTimestamp`: re-marshal both with the same timestamp. -/
def onlyDifferByTimestamp (last new : SignBytes) : Bool :=
  decide ({ last with ts := 0 } = { new with ts := 0 })

def State.release {σ : Type} (s : State σ) (e : Released σ) : State σ :=
  { s with released := s.released ++ [e] }

/-- The same-HRS branch (`if sameHRS { … }`): nothing is signed, nothing is written. -/
def reuse {σ : Type} (s : State σ) (sb : SignBytes) : State σ × Out σ :=
  match s.mem.sb, s.mem.sig with
  | some last, some sg =>
    if sb = last then
      (s.release ⟨sb.hrs, sb.body, sb.ts, sg⟩, .sig sg sb.ts)
    else if onlyDifferByTimestamp last sb then
      (s.release ⟨sb.hrs, sb.body, last.ts, sg⟩, .sig sg last.ts)     -- ORIGINAL signature and timestamp
    else (s, .err .conflict none)
  | _, _ => (s, .panicNoSig)   -- excluded by `checkHRS = same`

/-- The fresh-HRS branch: sign, assign to the request object, `Update`, and only
then return.  `Update` (state.go, since fd7d3fbcc7): `prev := *fs`; set the
five fields in memory; `save` = `validate` then `WriteFileAtomic`; **on a
failed save `*fs = prev`** (memory is rolled back) and the error is returned.
The request object keeps the signature that was assigned before `Update`. -/
def freshSign {σ : Type} (sign : SignBytes → σ) (p : Persist) (s : State σ) (sb : SignBytes) : State σ × Out σ :=
  let sg := sign sb                                        -- pv.signer.Sign; vote.Signature = signature
  let mem' : SignState σ := ⟨sb.hrs, some sb, some sg⟩      -- fs.Update: the five fields, in memory
  if !validate mem' then (s, .err .validate (some sg))     -- *fs = prev
  else match p with
    | .normal =>
      if s.failing then (s, .err .save (some sg))          -- *fs = prev
      else (({ s with mem := mem', disk := mem' } : State σ).release ⟨sb.hrs, sb.body, sb.ts, sg⟩, .sig sg sb.ts)
    | .killedOld => ({ s with mem := mem' }, .killed)      -- the process dies inside save; its memory is gone
    | .killedNew => ({ s with mem := mem', disk := mem' }, .killed)

/-- One `SignVote` / `SignProposal`, parametrised by the fresh-HRS branch so that
the variants below share everything else. -/
def signReqWith {σ : Type} (fresh : Persist → State σ → SignBytes → State σ × Out σ)
    (p : Persist) (s : State σ) (q : Req) : State σ × Out σ :=
  match q.step with
  | none => (s, .panicVoteType)
  | some step =>
    match checkHRS s.mem ⟨q.h, q.r, step⟩ with
    | .err e => (s, .err e none)
    | .panicNoSig => (s, .panicNoSig)
    | .same => reuse s ⟨⟨q.h, q.r, step⟩, q.body, q.ts⟩
    | .fresh => fresh p s ⟨⟨q.h, q.r, step⟩, q.body, q.ts⟩

/-- Restart: `LoadOrMakeFileState` reads the file. -/
def restart {σ : Type} (s : State σ) : State σ := { s with mem := s.disk }

def stepWith {σ : Type} (fresh : Persist → State σ → SignBytes → State σ × Out σ)
    (s : State σ) : Op → State σ × Out σ
  | .sign q => signReqWith fresh .normal s q
  | .crash => (restart s, .ok)
  | .failsave on => ({ s with failing := on }, .ok)
  | .cut c q =>
    -- a NEW process (it loads the file: `restart s`) serves this one request and is
    -- killed inside WriteFileAtomic (or exits after answering); then the next process starts
    if s.failing then (s, .unsupported)
    else
      let r := signReqWith fresh (match c with | .old => .killedOld | .new => .killedNew) (restart s) q
      (restart r.1, r.2)

def runWith {σ : Type} (fresh : Persist → State σ → SignBytes → State σ × Out σ)
    (s : State σ) : List Op → State σ
  | [] => s
  | op :: ops => runWith fresh (stepWith fresh s op).1 ops

/-- The code as it is: `SignVote` / `SignProposal`; `sign` is the signer (`pv.signer.Sign`). -/
def signReq {σ : Type} (sign : SignBytes → σ) : Persist → State σ → Req → State σ × Out σ :=
  signReqWith (freshSign sign)
def step {σ : Type} (sign : SignBytes → σ) : State σ → Op → State σ × Out σ :=
  stepWith (freshSign sign)
def run {σ : Type} (sign : SignBytes → σ) : State σ → List Op → State σ :=
  runWith (freshSign sign)

/-! ### Variant OLD: `Update` before fd7d3fbcc7 — no roll-back.

On a failed save the error is returned but memory keeps the new H/R/S,
sign-bytes and signature, which the file does not hold; a repeat of the same
request is then answered by the same-HRS branch (which persists nothing). -/

def freshSignOld {σ : Type} (sign : SignBytes → σ) (p : Persist) (s : State σ) (sb : SignBytes) : State σ × Out σ :=
  let sg := sign sb
  let mem' : SignState σ := ⟨sb.hrs, some sb, some sg⟩
  if !validate mem' then ({ s with mem := mem' }, .err .validate (some sg))
  else match p with
    | .normal =>
      if s.failing then ({ s with mem := mem' }, .err .save (some sg))
      else (({ s with mem := mem', disk := mem' } : State σ).release ⟨sb.hrs, sb.body, sb.ts, sg⟩, .sig sg sb.ts)
    | .killedOld => ({ s with mem := mem' }, .killed)
    | .killedNew => ({ s with mem := mem', disk := mem' }, .killed)

def runOld {σ : Type} (sign : SignBytes → σ) : State σ → List Op → State σ :=
  runWith (freshSignOld sign)

/-! ### Variant WRONG: release the signature, then persist.

In the fresh branch the signature is handed out before `save`; so a kill before
the rename (or a failed save) leaves a released signature that the file does
not know about. -/

def freshSignWrong {σ : Type} (sign : SignBytes → σ) (p : Persist) (s : State σ) (sb : SignBytes) : State σ × Out σ :=
  let sg := sign sb
  let mem' : SignState σ := ⟨sb.hrs, some sb, some sg⟩
  let s1 : State σ := ({ s with mem := mem' } : State σ).release ⟨sb.hrs, sb.body, sb.ts, sg⟩   -- released FIRST
  if !validate mem' then ({ s1 with mem := s.mem }, .sig sg sb.ts)
  else match p with
    | .normal => if s.failing then ({ s1 with mem := s.mem }, .sig sg sb.ts) else ({ s1 with disk := mem' }, .sig sg sb.ts)
    | .killedOld => (s1, .sig sg sb.ts)
    | .killedNew => ({ s1 with disk := mem' }, .sig sg sb.ts)

def runWrong {σ : Type} (sign : SignBytes → σ) : State σ → List Op → State σ :=
  runWith (freshSignWrong sign)

end GnoVerif.C34
