/-!
C11 — the GnoVM allocator's accounting (`gnovm/pkg/gnolang/alloc.go`):
`Allocator{maxBytes, bytes, collect}` with `Allocate`, `Reset`, `Recount`, and
the garbage collector seen from the allocator (`Machine.GarbageCollect`:
`Reset()`, then `Recount` of every reachable object, stopping with `ok = false`
as soon as the cap is exceeded).

Mirrored as written:
* `Allocate(size)`: `overflow.Addp(bytes, size)` (a Go panic on int64
  overflow); if the sum exceeds `maxBytes`: without a GC callback the panic
  "allocation limit exceeded (no GC)"; with one, collect, and if the collection
  fails or `bytes + size` still exceeds the cap, the panic "allocation limit
  exceeded"; otherwise `bytes += size`.
* after a collection `bytes += size` is a plain int64 addition (it can wrap;
  `allocate` mirrors the wrap, the invariant theorem states the guard under
  which it cannot happen: a collection never finds more than was allocated).

The amount the next collection will find reachable is an input of the model
(`survivors`): it is a property of the object graph, not of the allocator.
Core-only.
-/
namespace GnoVerif.C11

def maxInt64 : Int := 9223372036854775807
def minInt64 : Int := -9223372036854775808

/-- two's-complement wrap of an int64 addition result -/
def wrap64 (x : Int) : Int := (x + 9223372036854775808) % 18446744073709551616 - 9223372036854775808

structure Alloc where
  maxBytes : Int
  bytes : Int
  /-- a GC callback is installed (`SetGCFn`) -/
  hasGC : Bool
  /-- what the next collection will recount -/
  survivors : Int
  deriving Repr, DecidableEq, Inhabited

inductive AErr
  | limitNoGC     -- "allocation limit exceeded (no GC)"
  | limit         -- "allocation limit exceeded"
  | overflow      -- overflow.Addp
  deriving Repr, DecidableEq, Inhabited

def AErr.name : AErr → String
  | .limitNoGC => "limit-nogc" | .limit => "limit" | .overflow => "overflow"

/-- `overflow.Addp` on int64 -/
def addp (a b : Int) : Except AErr Int :=
  if a + b > maxInt64 ∨ a + b < minInt64 then .error .overflow else .ok (a + b)

/-- `Allocator.Allocate` -/
def allocate (a : Alloc) (size : Int) : Except AErr Alloc :=
  match addp a.bytes size with
  | .error e => .error e
  | .ok total =>
    if total > a.maxBytes then
      if !a.hasGC then .error .limitNoGC
      else if a.survivors > a.maxBytes then .error .limit          -- the collection itself ran out of budget
      else if wrap64 (a.survivors + size) > a.maxBytes then .error .limit
      else .ok { a with bytes := wrap64 (a.survivors + size) }
    else .ok { a with bytes := total }

/-- operations of an allocator history -/
inductive Op
  | alloc (size : Int)
  | setSurvivors (k : Int)      -- the object graph changed: the next collection would keep k bytes
  | reset                       -- `Reset()`
  | recount (n : Int)           -- `Recount(n)`: no cap check, no gas
  deriving Repr, DecidableEq, Inhabited

/-- ghost accounting: everything charged by successful `Allocate`/`Recount`, everything released -/
structure Ledger where
  charged : Int := 0
  freed : Int := 0
  deriving Repr, DecidableEq, Inhabited

/-- bytes released by the collection inside a successful `allocate` (0 if none ran) -/
def freedBy (a : Alloc) (size : Int) : Int :=
  if a.bytes + size > a.maxBytes then a.bytes - a.survivors else 0

/-- one step; a failed allocation is a panic: the history stops (`none`) -/
def step (st : Alloc × Ledger) : Op → Option (Alloc × Ledger)
  | .alloc size =>
    match allocate st.1 size with
    | .ok a' => some (a', { charged := st.2.charged + size, freed := st.2.freed + freedBy st.1 size })
    | .error _ => none
  | .setSurvivors k => some ({ st.1 with survivors := k }, st.2)
  | .reset => some ({ st.1 with bytes := 0 }, { st.2 with freed := st.2.freed + st.1.bytes })
  | .recount n => some ({ st.1 with bytes := st.1.bytes + n }, { st.2 with charged := st.2.charged + n })

def run (st : Alloc × Ledger) : List Op → Option (Alloc × Ledger)
  | [] => some st
  | op :: rest =>
    match step st op with
    | some st' => run st' rest
    | none => none

/-! ### the panic classification of the VM keeper (`doRecoverInternal`, keeper.go) -/

inductive PanicVal
  | outOfGas            -- store.OutOfGasError (anywhere in the error chain)
  | unhandledGno        -- gno.UnhandledPanicError: a Gno-level panic nobody recovered
  | other               -- anything else: preprocess errors, allocation limit, Go run-time errors
  deriving Repr, DecidableEq, Inhabited

inductive Handling
  | none                -- nothing was recovered
  | repanicOutOfGas     -- transaction path: re-panic, BaseApp turns it into the out-of-gas result
  | errOutOfGas         -- query path
  | errVMPanic          -- `*e = "VM panic: …"`
  deriving Repr, DecidableEq, Inhabited

def doRecover (r : Option PanicVal) (repanicOutOfGas : Bool) : Handling :=
  match r with
  | none => .none
  | some .outOfGas => if repanicOutOfGas then .repanicOutOfGas else .errOutOfGas
  | some .unhandledGno => .errVMPanic
  | some .other => .errVMPanic

/-! ### the statement's outcome classes -/

/-- how the handling of a submitted program can end -/
inductive Ending
  | success | validationError | gnoPanic | outOfGas | allocLimit   -- the statement's allowed endings
  | internalFault | processDeath | resourceBlowup                  -- the excluded ones (hang / growth past the cap)
  deriving DecidableEq, Repr, Inhabited

def Ending.allowed : Ending → Bool
  | .success | .validationError | .gnoPanic | .outOfGas | .allocLimit => true
  | _ => false

/-- the harness's outcome-class token (harness/cmd/c11: `classOf`) -/
def Ending.ofToken : String → Option Ending
  | "ok" => some .success
  | "err" => some .validationError
  | "panic" => some .gnoPanic
  | "limit:gas" => some .outOfGas
  | "limit:alloc" => some .allocLimit
  | "crash:vm-panic" => some .internalFault
  | "crash:runtime-error" => some .internalFault
  | "crash:fatal" => some .processDeath
  | "crash:resource" => some .resourceBlowup
  | _ => none

/-- what the GnoVM was observed to do with the pinned witness of known finding
`fallthrough-block-shrink`: after printing `1`, the Go panic "unexpected block
size shrinkage: 1 vs 0" (values.go, Block.ExpandWith) leaves Machine.Run — not
a Gno panic (the program's own `recover()` does not see it) -/
def fallShrinkObserved : Ending := .internalFault

/-- what was observed on the pinned witness of known finding
`defer-panic-recursion-memory` (`func f() { defer f(); panic("x") }; func main() { f() }`
with a 40M gas limit): the live Go heap of the process grows past twice the
500 MB allocation cap (quadratically in the gas: 48 MB at 3M gas, 229 MB at
10M, 1.8 GB at 30M, 7 GB at 60M) while the allocator tracks almost nothing -/
def deferPanicRecursionObserved : Ending := .resourceBlowup

end GnoVerif.C11
