/-
Model.C23Versions — `MutableTree` as a versioned store (mutable_tree.go:103-810,
prune.go:8-80), as a PERSISTENT (functional) model.

What is kept: the working root, `lastSaved` (rollback target), the cached
`size`, `version`, the `poisoned` flag, and the set of saved versions as a map
`version → tree value`.  What that abstracts:

* In the real code a saved version is a root record in the DB pointing at node
  records shared copy-on-write between versions; `SaveVersion` assigns node
  keys and writes the dirty nodes, `LoadVersion`/`GetImmutable` re-read them,
  pruning deletes the records of a version that its successor does not share
  (dual tree walk, prune.go).  Here a saved version is simply an immutable
  VALUE stored in a list.  Consequently "a saved version never changes
  afterwards" and "pruning never affects retained versions" hold in this model
  BY CONSTRUCTION (theorems `saved_stable`, `prune_retained` say so
  explicitly); the assurance that the real copy-on-write/pruning code behaves
  like these immutable values comes from the correspondence run only (every
  retained version is re-read in full by the harness oracle after each
  save/prune and compared with the model op by op).
* `dirty` stands for the clean-session test of `PruneVersionsTo`
  (`t.root != t.lastSaved || len(pendingVals) > 0 || nextValueNonce > 0 ||
  len(versionOrphans) > 0`): every successful `Set` allocates a value key and
  every `Remove` that finds its key publishes a cloned root, so the test is
  "some mutation was published since the last save / rollback / load".
* `ndb.firstVersion` / `ndb.latestVersion` are the smallest / largest saved
  version (versions are consecutive: each save is `version + 1`, pruning
  removes a prefix), 0 when there is none.
* `initialVersion`, version readers (always released by the harness), the
  fast index, DB errors are not modelled.

The hash is a parameter (`hashOf`): `SaveVersion` on an existing version
compares root hashes (mutable_tree.go:334-352).

Core-only.
-/
import GnoVerif.Model.C23BpTree

namespace GnoVerif.C23

structure MT where
  root : Tree := .empty
  lastSaved : Tree := .empty
  size : Nat := 0
  version : Nat := 0
  saved : List (Nat × Tree) := []      -- ascending by version
  dirty : Bool := false
  poisoned : Bool := false

inductive Err where
  | poisoned | emptyKey | nilValue | noVersion | latest | uncommitted | active | hashMismatch | noKey
deriving DecidableEq, Repr

namespace MT

def lookup (m : MT) (v : Nat) : Option Tree := (m.saved.find? (·.1 == v)).map (·.2)

def latest (m : MT) : Nat := (m.saved.map (·.1)).foldl max 0
def first (m : MT) : Nat := match m.saved with | [] => 0 | (v, _) :: _ => v

/-- `Set` (mutable_tree.go:103-182); `value = none` is Go's nil slice. -/
def set (B : Nat) (m : MT) (key : Key) (value : Option Val) : Except Err (MT × Bool) :=
  if m.poisoned then .error .poisoned
  else if key.length = 0 then .error .emptyKey
  else match value with
    | none => .error .nilValue
    | some v =>
      let (root', updated) := treeInsert B m.root key v
      .ok ({ m with root := root', size := if updated then m.size else m.size + 1, dirty := true }, updated)

/-- `Remove` (mutable_tree.go:251-289): `(old value, found)`. -/
def remove (B : Nat) (m : MT) (key : Key) : Except Err (MT × Option Val) :=
  if m.poisoned then .error .poisoned
  else
    let (root', old, found) := treeRemove B m.root key
    if !found then .ok (m, none)
    else .ok ({ m with root := root', size := m.size - 1, dirty := true }, some old)

def insertSaved (v : Nat) (t : Tree) : List (Nat × Tree) → List (Nat × Tree)
  | [] => [(v, t)]
  | (w, u) :: rest => if v < w then (v, t) :: (w, u) :: rest else (w, u) :: insertSaved v t rest

def treeIsEmpty : Tree → Bool
  | .empty => true
  | _ => false

/-- the comparison `SaveVersion` makes when the target version already exists
(mutable_tree.go:334-352): `existingEmpty != newEmpty || !bytes.Equal(existingHash, newHash)`. -/
def saveConflict (hashOf : Tree → Bytes) (existing root : Tree) : Bool :=
  treeIsEmpty existing != treeIsEmpty root || hashOf existing != hashOf root

/-- `SaveVersion` (mutable_tree.go:293-435): the error (if any) and the new state.
On success the saved version is `m'.version` and the hash that of `m'.root`. -/
def saveVersion (hashOf : Tree → Bytes) (m : MT) : Option Err × MT :=
  if m.poisoned then (some .poisoned, m)
  else
    let version := m.version + 1
    match m.lookup version with
    | some existing =>
      if saveConflict hashOf existing m.root then
        -- error exit: the deferred function poisons the session
        (some .hashMismatch, { m with poisoned := true })
      else
        -- idempotent save: adopt the persisted version's tree
        (none, { m with root := existing, lastSaved := existing, size := existing.size,
                        version := version, dirty := false })
    | none =>
      (none, { m with saved := insertSaved version m.root m.saved, version := version,
                      lastSaved := m.root, dirty := false })

/-- `Rollback` (mutable_tree.go:796-809). -/
def rollback (m : MT) : MT :=
  { m with root := m.lastSaved, size := m.lastSaved.size, dirty := false, poisoned := false }

/-- `LoadVersion(v)`, `v > 0` (mutable_tree.go:536-595): returns the latest version. -/
def loadVersion (m : MT) (v : Nat) : Except Err (MT × Nat) :=
  match m.lookup v with
  | none => .error .noVersion
  | some t =>
    .ok ({ m with root := t, lastSaved := t, size := t.size, version := v, dirty := false, poisoned := false },
         m.latest)

/-- close the handle, open a new one over the same DB and `Load()` the latest version. -/
def reopen (m : MT) : MT × Nat :=
  match m.lookup m.latest with
  | none => ({ saved := m.saved }, 0)
  | some t =>
    ({ root := t, lastSaved := t, size := t.size, version := m.latest, saved := m.saved }, m.latest)

/-- `PruneVersionsTo` / `DeleteVersionsTo` (prune.go:8-80). -/
def prune (m : MT) (to : Nat) : Except Err MT :=
  if to ≥ m.latest then .error .latest
  else if to < m.first then .ok m
  else if m.dirty then .error .uncommitted
  else if m.version ≤ to then .error .active
  else .ok { m with saved := m.saved.filter (fun p => p.1 > to) }

def availableVersions (m : MT) : List Nat := m.saved.map (·.1)

/-- the mutating operations of a history. -/
inductive Op where
  | set (key : Key) (value : Option Val)
  | rm (key : Key)
  | save
  | rollback
  | load (v : Nat)
  | prune (to : Nat)
  | reopen

/-- apply one operation (a refused operation leaves the state unchanged, except
that a refused `save` poisons the session — as in the code). -/
def apply (B : Nat) (hashOf : Tree → Bytes) (m : MT) : Op → MT
  | .set k v => match m.set B k v with | .ok (m', _) => m' | .error _ => m
  | .rm k => match m.remove B k with | .ok (m', _) => m' | .error _ => m
  | .save => (m.saveVersion hashOf).2
  | .rollback => m.rollback
  | .load v => match m.loadVersion v with | .ok (m', _) => m' | .error _ => m
  | .prune to => match m.prune to with | .ok m' => m' | .error _ => m
  | .reopen => m.reopen.1

/-- the state after a whole history, from a fresh tree over an empty database. -/
def run (B : Nat) (hashOf : Tree → Bytes) (ops : List Op) : MT := ops.foldl (apply B hashOf) {}

end MT
end GnoVerif.C23
