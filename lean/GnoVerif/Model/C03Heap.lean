/-
Model for C03 — realm behaviour is independent of persistence boundaries.

Two things live here.

(1) A reference HEAP SEMANTICS of the operations of the realm in
    harness/cmd/c03/src.go (nodes with pointers / cycles, int slices over shared
    backing arrays with Gno's exact-length append growth, maps, arrays with value
    semantics, pointers into structs / arrays / slice elements, closures over
    private and shared cells and over captured pointers, interface values with
    value and pointer receivers, a declared type).  Objects are identified by
    indices into tables, so aliasing is explicit.  `step` has ONE parameter,
    `lazy`: how a struct value copy (`c := *p`) treats the array-valued field
      lazy = false   Go semantics — the array is duplicated (what an in-memory
                     execution does);
      lazy = true    what the GnoVM does when the struct was reloaded from the
                     store and the field is still an unloaded `RefValue`:
                     values.go `StructValue.Copy` → `TypedValue.Copy` copies the
                     reference, so original and copy share the array.
    The driver runs `lazy = true` (the transaction-per-call world the harness
    prints); the harness oracle compares that world with the in-memory one.

(2) A model of the persistence mechanism itself (realm.go `copyValueWithRefs`,
    store.go `SetObject` / `loadObjectSafe` + the per-transaction object cache):
    `encode` replaces child objects by their ObjectIDs, `decode` resolves them
    through a cache keyed by ObjectID.

Core Lean only.
-/
namespace GnoVerif.C03

/-! ## (1) heap semantics of the realm's operations -/

/-- a pointer to an int -/
inductive IPtr
  | nodeV (a : Nat)               -- &node.V
  | cell (arr : Nat) (i : Nat)    -- &array[i]  (a node's Arr, or a slice's backing array)
  deriving DecidableEq, Repr

inductive AnyV
  | nil | int (v : Int) | str (s : String) | cel (v : Int) | node (a : Nat) | sq (s : Int) | ptr (p : IPtr)
  deriving DecidableEq, Repr

structure Node where
  v : Int
  next : Option Nat
  kids : List Nat
  tags : Option Nat          -- map id; none = nil map
  any : AnyV
  arr : Nat                  -- array id of the [3]int field
  deriving Repr

structure Slice where
  arr : Nat
  off : Nat
  len : Nat
  cap : Nat
  deriving Repr

inductive Clo
  | add (cell : Nat)         -- func(d) { c += d; return c }
  | mul (cell : Nat)         -- func(d) { return c * d }
  | adder (node : Nat)       -- func(d) { p.V += d; return p.V }
  deriving Repr

inductive Shape
  | sq (s : Int)
  | rc (id : Nat)
  deriving Repr

structure Heap where
  objs : List Node := []                    -- node objects by address
  arrays : List (List Int) := []            -- int arrays by id
  maps : List (List (String × Int)) := []   -- maps by id
  cells : List Int := []                    -- captured variables
  rcs : List (Int × Int) := []              -- *Rc objects
  nodes : List (Option Nat) := []           -- handle tables of the realm
  slices : List Slice := []
  iptrs : List IPtr := []
  fns : List Clo := []
  shapes : List Shape := []
  reg : List (String × Nat) := []
  pbacks : List (List (Int × Int)) := []    -- backing arrays of the [][2]int slices (elements are VALUES)
  pairs : List Nat := []                    -- handle table: backing id (cap == len always)
  deriving Repr

def setAt {α} (l : List α) (i : Nat) (x : α) : List α := l.set i x

def itoa (i : Int) : String := toString i

namespace Heap

def nodeAddr (h : Heap) (n : Int) : Option Nat :=
  if n < 0 then none else
  match h.nodes[n.toNat]? with
  | some (some a) => some a
  | _ => none

def node (h : Heap) (a : Nat) : Node :=
  (h.objs[a]?).getD ⟨0, none, [], none, .nil, 0⟩

def setNode (h : Heap) (a : Nat) (nd : Node) : Heap := { h with objs := setAt h.objs a nd }

def arrGet (h : Heap) (id i : Nat) : Int := ((h.arrays[id]?).getD [])[i]?.getD 0
def arrSet (h : Heap) (id i : Nat) (v : Int) : Heap :=
  { h with arrays := setAt h.arrays id (setAt ((h.arrays[id]?).getD []) i v) }

def slice? (h : Heap) (s : Int) : Option Slice := if s < 0 then none else h.slices[s.toNat]?

/-- `idx(p)`: first handle whose node is `p` -/
def idx (h : Heap) : Option Nat → String
  | none => "nil"
  | some a =>
    match h.nodes.findIdx? (fun x => x == some a) with
    | some i => toString i
    | none => "x"

def deref (h : Heap) : IPtr → Int
  | .nodeV a => (h.node a).v
  | .cell id i => h.arrGet id i

def store (h : Heap) (p : IPtr) (v : Int) : Heap :=
  match p with
  | .nodeV a => h.setNode a { h.node a with v := v }
  | .cell id i => h.arrSet id i v

def showSlice (h : Heap) (s : Slice) : String :=
  let elems := (List.range s.len).map fun i => itoa (h.arrGet s.arr (s.off + i)) ++ ","
  toString s.len ++ "/" ++ toString s.cap ++ ":" ++ String.join elems

def anyStr (h : Heap) : AnyV → String
  | .nil => "nil"
  | .int v => "int:" ++ itoa v
  | .str s => "str:" ++ s
  | .cel v => "cel:" ++ itoa v
  | .node a => "node:" ++ h.idx (some a)
  | .sq s => "sq:" ++ itoa s
  | .ptr p => "ptr:" ++ itoa (h.deref p)

def area (h : Heap) : Shape → Int
  | .sq s => s * s
  | .rc id => let r := (h.rcs[id]?).getD (0, 0); r.1 * r.2

def walk (h : Heap) : Nat → Option Nat → String
  | _, none => ""
  | 0, some a => itoa (h.node a).v ++ ">"
  | k+1, some a => itoa (h.node a).v ++ ">" ++ walk h k (h.node a).next

def mapOf (h : Heap) (t : Option Nat) : List (String × Int) :=
  match t with
  | none => []
  | some id => (h.maps[id]?).getD []

def showPairs (l : List (Int × Int)) : String :=
  toString l.length ++ ":" ++ String.join (l.map fun e => itoa e.1 ++ "." ++ itoa e.2 ++ ",")

def pback (h : Heap) (s : Int) : Option (Nat × List (Int × Int)) :=
  if s < 0 then none else
  match h.pairs[s.toNat]? with
  | some b => some (b, (h.pbacks[b]?).getD [])
  | none => none

def render (h : Heap) : String :=
  let ns := h.nodes.map fun x =>
    match x with
    | none => "-;"
    | some a =>
      let p := h.node a
      itoa p.v ++ "," ++ h.idx p.next ++ ",k" ++ String.join (p.kids.map fun k => h.idx (some k) ++ ".")
        ++ ",t" ++ toString (h.mapOf p.tags).length
        ++ ",a" ++ itoa (h.arrGet p.arr 0) ++ "." ++ itoa (h.arrGet p.arr 1) ++ "." ++ itoa (h.arrGet p.arr 2)
        ++ "," ++ h.anyStr p.any ++ ";"
  "N[" ++ String.join ns ++ "]S[" ++ String.join (h.slices.map fun s => h.showSlice s ++ ";")
    ++ "]P[" ++ String.join (h.iptrs.map fun p => itoa (h.deref p) ++ ";")
    ++ "]F" ++ toString h.fns.length
    ++ "H[" ++ String.join (h.shapes.map fun s => itoa (h.area s) ++ ";")
    ++ "]R" ++ toString h.reg.length
    ++ "Q[" ++ String.join (h.pairs.map fun b => showPairs ((h.pbacks[b]?).getD []) ++ ";") ++ "]"

end Heap

/-- an argument of a call -/
inductive Arg
  | i (v : Int)
  | s (k : String)
  deriving Repr

/-- the exported functions of the realm -/
inductive Fn
  | NewNode | SetV | GetV | Link | Unlink | Walk | Drop | AddKid | KidSum | Tag | Untag | TagGet | RegPut | RegDel | RegGet | CopyNode | SetArr | GetArr | MkSlice | Sub | SetElem | App | GetSlice | PtrV | PtrArr | PtrElem | SetPtr | GetPtr | MkCounter | MkPair | MkAdder | CallFn | MkSq | MkRc | DupShape | Area | Grow | SetAny | AnyStr | MkPairs | ClonePairs | DupPairs | AppPair | SetPair | GetPairs | Render
  deriving DecidableEq, Repr

def Fn.ofString : String → Option Fn
  | "NewNode" => some .NewNode
  | "SetV" => some .SetV
  | "GetV" => some .GetV
  | "Link" => some .Link
  | "Unlink" => some .Unlink
  | "Walk" => some .Walk
  | "Drop" => some .Drop
  | "AddKid" => some .AddKid
  | "KidSum" => some .KidSum
  | "Tag" => some .Tag
  | "Untag" => some .Untag
  | "TagGet" => some .TagGet
  | "RegPut" => some .RegPut
  | "RegDel" => some .RegDel
  | "RegGet" => some .RegGet
  | "CopyNode" => some .CopyNode
  | "SetArr" => some .SetArr
  | "GetArr" => some .GetArr
  | "MkSlice" => some .MkSlice
  | "Sub" => some .Sub
  | "SetElem" => some .SetElem
  | "App" => some .App
  | "GetSlice" => some .GetSlice
  | "PtrV" => some .PtrV
  | "PtrArr" => some .PtrArr
  | "PtrElem" => some .PtrElem
  | "SetPtr" => some .SetPtr
  | "GetPtr" => some .GetPtr
  | "MkCounter" => some .MkCounter
  | "MkPair" => some .MkPair
  | "MkAdder" => some .MkAdder
  | "CallFn" => some .CallFn
  | "MkSq" => some .MkSq
  | "MkRc" => some .MkRc
  | "DupShape" => some .DupShape
  | "Area" => some .Area
  | "Grow" => some .Grow
  | "SetAny" => some .SetAny
  | "AnyStr" => some .AnyStr
  | "Render" => some .Render
  | "MkPairs" => some .MkPairs
  | "ClonePairs" => some .ClonePairs
  | "DupPairs" => some .DupPairs
  | "AppPair" => some .AppPair
  | "SetPair" => some .SetPair
  | "GetPairs" => some .GetPairs
  | _ => none

def alistSet (l : List (String × Int)) (k : String) (v : Int) : List (String × Int) :=
  if l.any (·.1 == k) then l.map (fun e => if e.1 == k then (k, v) else e) else l ++ [(k, v)]

def regSet (l : List (String × Nat)) (k : String) (v : Nat) : List (String × Nat) :=
  if l.any (·.1 == k) then l.map (fun e => if e.1 == k then (k, v) else e) else l ++ [(k, v)]

open Heap in
/-- One call of the realm, every function except `CopyNode`. -/
def stepCore (h : Heap) (fn : Fn) (args : List Arg) : Heap × String :=
  let bad := (h, "bad")
  match fn, args with
  | .NewNode, [.i v] =>
    let a := h.objs.length
    let arr := h.arrays.length
    ({ h with objs := h.objs ++ [⟨v, none, [], none, .nil, arr⟩], arrays := h.arrays ++ [[0, 0, 0]],
              nodes := h.nodes ++ [some a] }, toString h.nodes.length)
  | .SetV, [.i n, .i v] =>
    match h.nodeAddr n with
    | some a => (h.setNode a { h.node a with v := v }, "ok")
    | none => bad
  | .GetV, [.i n] =>
    match h.nodeAddr n with
    | some a => (h, itoa (h.node a).v)
    | none => bad
  | .Link, [.i a, .i b] =>
    match h.nodeAddr a, h.nodeAddr b with
    | some x, some y => (h.setNode x { h.node x with next := some y }, "ok")
    | _, _ => bad
  | .Unlink, [.i a] =>
    match h.nodeAddr a with
    | some x => (h.setNode x { h.node x with next := none }, "ok")
    | none => bad
  | .Walk, [.i a, .i k] =>
    match h.nodeAddr a with
    | some x => if k < 0 || k > 8 then bad else (h, h.walk k.toNat (some x))
    | none => bad
  | .Drop, [.i a] =>
    match h.nodeAddr a with
    | some _ => ({ h with nodes := setAt h.nodes a.toNat none }, "ok")
    | none => bad
  | .AddKid, [.i a, .i b] =>
    match h.nodeAddr a, h.nodeAddr b with
    | some x, some y =>
      let nd := h.node x
      (h.setNode x { nd with kids := nd.kids ++ [y] }, toString (nd.kids.length + 1))
    | _, _ => bad
  | .KidSum, [.i a] =>
    match h.nodeAddr a with
    | some x => (h, itoa (((h.node x).kids.map fun k => (h.node k).v).foldl (· + ·) 0))
    | none => bad
  | .Tag, [.i a, .s k, .i v] =>
    match h.nodeAddr a with
    | some x =>
      let nd := h.node x
      match nd.tags with
      | none =>
        let id := h.maps.length
        let h1 := { h with maps := h.maps ++ [[(k, v)]] }
        (h1.setNode x { nd with tags := some id }, "1")
      | some id =>
        let m := alistSet ((h.maps[id]?).getD []) k v
        ({ h with maps := setAt h.maps id m }, toString m.length)
    | none => bad
  | .Untag, [.i a, .s k] =>
    match h.nodeAddr a with
    | some x =>
      match (h.node x).tags with
      | none => (h, "0")
      | some id =>
        let m := ((h.maps[id]?).getD []).filter (·.1 != k)
        ({ h with maps := setAt h.maps id m }, toString m.length)
    | none => bad
  | .TagGet, [.i a, .s k] =>
    match h.nodeAddr a with
    | some x =>
      match (h.mapOf (h.node x).tags).find? (·.1 == k) with
      | some e => (h, itoa e.2)
      | none => (h, "none")
    | none => bad
  | .RegPut, [.s k, .i n] =>
    match h.nodeAddr n with
    | some a =>
      let r := regSet h.reg k a
      ({ h with reg := r }, toString r.length)
    | none => bad
  | .RegDel, [.s k] =>
    let r := h.reg.filter (·.1 != k)
    ({ h with reg := r }, toString r.length)
  | .RegGet, [.s k] =>
    match h.reg.find? (·.1 == k) with
    | some e => (h, h.idx (some e.2) ++ ":" ++ itoa (h.node e.2).v)
    | none => (h, "none")
  | .SetArr, [.i a, .i i, .i v] =>
    match h.nodeAddr a with
    | some x => if i < 0 || i > 2 then bad else (h.arrSet (h.node x).arr i.toNat v, "ok")
    | none => bad
  | .GetArr, [.i a] =>
    match h.nodeAddr a with
    | some x =>
      let id := (h.node x).arr
      (h, itoa (h.arrGet id 0) ++ "," ++ itoa (h.arrGet id 1) ++ "," ++ itoa (h.arrGet id 2))
    | none => bad
  | .MkSlice, [.i n] =>
    if n < 0 || n > 6 then bad else
    let k := n.toNat
    let id := h.arrays.length
    let data : List Int := (List.range (2*k)).map fun i => if i < k then (i : Int) else 0
    ({ h with arrays := h.arrays ++ [data], slices := h.slices ++ [⟨id, 0, k, 2*k⟩] }, toString h.slices.length)
  | .Sub, [.i s, .i i, .i j] =>
    match h.slice? s with
    | some sl =>
      if i < 0 || j < i || j > sl.cap then bad else
      ({ h with slices := h.slices ++ [⟨sl.arr, sl.off + i.toNat, (j - i).toNat, sl.cap - i.toNat⟩] },
       toString h.slices.length)
    | none => bad
  | .SetElem, [.i s, .i i, .i v] =>
    match h.slice? s with
    | some sl => if i < 0 || i ≥ sl.len then bad else (h.arrSet sl.arr (sl.off + i.toNat) v, "ok")
    | none => bad
  | .App, [.i s, .i v] =>
    match h.slice? s with
    | some sl =>
      if sl.len + 1 ≤ sl.cap then
        -- in place: writes the shared backing array
        let h1 := h.arrSet sl.arr (sl.off + sl.len) v
        let sl' : Slice := { sl with len := sl.len + 1 }
        let h2 := { h1 with slices := setAt h1.slices s.toNat sl' }
        (h2, h2.showSlice sl')
      else
        -- Gno allocates exactly len+1 elements
        let id := h.arrays.length
        let data := ((List.range sl.len).map fun i => h.arrGet sl.arr (sl.off + i)) ++ [v]
        let sl' : Slice := ⟨id, 0, sl.len + 1, sl.len + 1⟩
        let h2 := { h with arrays := h.arrays ++ [data], slices := setAt h.slices s.toNat sl' }
        (h2, h2.showSlice sl')
    | none => bad
  | .GetSlice, [.i s] =>
    match h.slice? s with
    | some sl => (h, h.showSlice sl)
    | none => bad
  | .PtrV, [.i n] =>
    match h.nodeAddr n with
    | some a => ({ h with iptrs := h.iptrs ++ [.nodeV a] }, toString h.iptrs.length)
    | none => bad
  | .PtrArr, [.i n, .i i] =>
    match h.nodeAddr n with
    | some a => if i < 0 || i > 2 then bad else
      ({ h with iptrs := h.iptrs ++ [.cell (h.node a).arr i.toNat] }, toString h.iptrs.length)
    | none => bad
  | .PtrElem, [.i s, .i i] =>
    match h.slice? s with
    | some sl => if i < 0 || i ≥ sl.len then bad else
      ({ h with iptrs := h.iptrs ++ [.cell sl.arr (sl.off + i.toNat)] }, toString h.iptrs.length)
    | none => bad
  | .SetPtr, [.i p, .i v] =>
    if p < 0 then bad else
    match h.iptrs[p.toNat]? with
    | some q => (h.store q v, "ok")
    | none => bad
  | .GetPtr, [.i p] =>
    if p < 0 then bad else
    match h.iptrs[p.toNat]? with
    | some q => (h, itoa (h.deref q))
    | none => bad
  | .MkCounter, [.i st] =>
    let c := h.cells.length
    ({ h with cells := h.cells ++ [st], fns := h.fns ++ [.add c] }, toString h.fns.length)
  | .MkPair, [.i st] =>
    let c := h.cells.length
    ({ h with cells := h.cells ++ [st], fns := h.fns ++ [.add c, .mul c] }, toString h.fns.length)
  | .MkAdder, [.i n] =>
    match h.nodeAddr n with
    | some a => ({ h with fns := h.fns ++ [.adder a] }, toString h.fns.length)
    | none => bad
  | .CallFn, [.i f, .i d] =>
    if f < 0 then bad else
    match h.fns[f.toNat]? with
    | some (.add c) =>
      let v := (h.cells[c]?).getD 0 + d
      ({ h with cells := setAt h.cells c v }, itoa v)
    | some (.mul c) => (h, itoa ((h.cells[c]?).getD 0 * d))
    | some (.adder a) =>
      let v := (h.node a).v + d
      (h.setNode a { h.node a with v := v }, itoa v)
    | none => bad
  | .MkSq, [.i s] => ({ h with shapes := h.shapes ++ [.sq s] }, toString h.shapes.length)
  | .MkRc, [.i w, .i hh] =>
    let id := h.rcs.length
    ({ h with rcs := h.rcs ++ [(w, hh)], shapes := h.shapes ++ [.rc id] }, toString h.shapes.length)
  | .DupShape, [.i i] =>
    if i < 0 then bad else
    match h.shapes[i.toNat]? with
    | some s => ({ h with shapes := h.shapes ++ [s] }, toString h.shapes.length)
    | none => bad
  | .Area, [.i i] =>
    if i < 0 then bad else
    match h.shapes[i.toNat]? with
    | some s => (h, itoa (h.area s))
    | none => bad
  | .Grow, [.i i, .i d] =>
    if i < 0 then bad else
    match h.shapes[i.toNat]? with
    | some (.rc id) =>
      let r := (h.rcs[id]?).getD (0, 0)
      ({ h with rcs := setAt h.rcs id (r.1 + d, r.2) }, "rc")
    | some (.sq _) => (h, "sq")
    | none => bad
  | .SetAny, [.i n, .i kind] =>
    match h.nodeAddr n with
    | some a =>
      let p := h.node a
      let v : AnyV :=
        if kind == 0 then .int p.v
        else if kind == 1 then .str ("s" ++ itoa p.v)
        else if kind == 2 then .cel p.v
        else if kind == 3 then .node a
        else if kind == 4 then .sq p.v
        else if kind == 5 then .ptr (.nodeV a)
        else .nil
      (h.setNode a { p with any := v }, "ok")
    | none => bad
  | .AnyStr, [.i n] =>
    match h.nodeAddr n with
    | some a => (h, h.anyStr (h.node a).any)
    | none => bad
  | .MkPairs, [.i n] =>
    if n < 0 || n > 4 then bad else
    let data : List (Int × Int) := (List.range n.toNat).map fun (i : Nat) => (Int.ofNat i, Int.ofNat i * 10)
    ({ h with pbacks := h.pbacks ++ [data], pairs := h.pairs ++ [h.pbacks.length] }, toString h.pairs.length)
  | .ClonePairs, [.i s] =>
    match h.pback s with
    | some (_, data) =>
      -- append to a nil slice: a fresh backing array, element arrays copied by value
      ({ h with pbacks := h.pbacks ++ [data], pairs := h.pairs ++ [h.pbacks.length] }, toString h.pairs.length)
    | none => bad
  | .DupPairs, [.i s] =>
    match h.pback s with
    | some (b, _) => ({ h with pairs := h.pairs ++ [b] }, toString h.pairs.length)
    | none => bad
  | .AppPair, [.i s, .i a, .i b] =>
    match h.pback s with
    | some (_, data) =>
      -- cap == len: always reallocates; other handles keep the old backing array
      let data' := data ++ [(a, b)]
      ({ h with pbacks := h.pbacks ++ [data'], pairs := setAt h.pairs s.toNat h.pbacks.length }, showPairs data')
    | none => bad
  | .SetPair, [.i s, .i i, .i j, .i v] =>
    match h.pback s with
    | some (b, data) =>
      if i < 0 || i ≥ data.length || j < 0 || j > 1 then bad else
      let e := (data[i.toNat]?).getD (0, 0)
      let e' := if j == 0 then (v, e.2) else (e.1, v)
      ({ h with pbacks := setAt h.pbacks b (setAt data i.toNat e') }, "ok")
    | none => bad
  | .GetPairs, [.i s] =>
    match h.pback s with
    | some (_, data) => (h, showPairs data)
    | none => bad
  | .Render, [.i _] => (h, h.render)
  | _, _ => (h, "err:badop")

open Heap in
/-- `CopyNode(a)`: `c := *nodes[a]; nodes = append(nodes, &c)`.  `lazy` = the
    struct-copy quirk (see the header). -/
def copyNode (lazy : Bool) (h : Heap) (args : List Arg) : Heap × String :=
  match args with
  | [.i a] =>
    match h.nodeAddr a with
    | some x =>
      let nd := h.node x
      let na := h.objs.length
      if lazy then
        -- StructValue.Copy on a reloaded struct: the Arr field is a RefValue, copied by reference
        ({ h with objs := h.objs ++ [nd], nodes := h.nodes ++ [some na] }, toString h.nodes.length)
      else
        let arr := h.arrays.length
        ({ h with objs := h.objs ++ [{ nd with arr := arr }],
                  arrays := h.arrays ++ [(h.arrays[nd.arr]?).getD []],
                  nodes := h.nodes ++ [some na] }, toString h.nodes.length)
    | none => (h, "bad")
  | _ => (h, "err:badop")

/-- One call of the realm. -/
def step (lazy : Bool) (h : Heap) (fn : Fn) (args : List Arg) : Heap × String :=
  if fn = .CopyNode then copyNode lazy h args else stepCore h fn args

/-- a whole history -/
def runHist (lazy : Bool) : Heap → List (Fn × List Arg) → Heap × List String
  | h, [] => (h, [])
  | h, (fn, args) :: rest =>
    let (h1, out) := step lazy h fn args
    let (h2, outs) := runHist lazy h1 rest
    (h2, out :: outs)

/-! ## (2) the persistence round trip -/

/-- a value slot of a stored object: a primitive, or a child object — in memory a
    direct pointer (`addr`), in the encoded form an ObjectID (`RefValue`) -/
inductive Slot (ρ : Type)
  | prim (v : Int)
  | child (r : ρ)
  deriving DecidableEq, Repr

def Slot.map {ρ σ} (f : ρ → σ) : Slot ρ → Slot σ
  | .prim v => .prim v
  | .child r => .child (f r)

/-- `copyValueWithRefs`: every child object is replaced by its ObjectID -/
def encode {α} (oid : α → Nat) (fields : List (Slot α)) : List (Slot Nat) := fields.map (Slot.map oid)

/-- filling a loaded object: every RefValue is resolved through the object cache -/
def decode {α} (cache : Nat → α) (fields : List (Slot Nat)) : List (Slot α) := fields.map (Slot.map cache)

/-- `assignNewObjectID`: the realm's counter hands out `Time+1, Time+2, …` -/
def assignIds (time : Nat) (n : Nat) : List Nat := (List.range n).map (fun i => time + 1 + i)

/-- the transaction's object cache (`cacheObjects`): loading an id twice yields
    the same in-memory object; a miss allocates the next address -/
structure Cache where
  entries : List (Nat × Nat) := []   -- (ObjectID, address)
  next : Nat := 0
  deriving Repr

def Cache.load (c : Cache) (oid : Nat) : Cache × Nat :=
  match c.entries.find? (·.1 == oid) with
  | some e => (c, e.2)
  | none => ({ entries := c.entries ++ [(oid, c.next)], next := c.next + 1 }, c.next)

/-- the struct-copy quirk in isolation: a field slot is copied by
    `TypedValue.Copy`, which duplicates a loaded array (`fresh` = the new object)
    but passes an unloaded `RefValue` through unchanged -/
inductive Field
  | loaded (arrayObj : Nat)
  | lazyRef (oid : Nat)
  deriving DecidableEq, Repr

def Field.copy (fresh : Nat) : Field → Field
  | .loaded _ => .loaded fresh
  | .lazyRef oid => .lazyRef oid

end GnoVerif.C03
