import GnoVerif.Spec.C50OMap
/-!
# Model for C50: `examples/gno.land/p/nt/avl/v0/{node,tree}.gno`, ported function by function

The Gno tree is an IAVL-shaped AVL tree: **values live in leaves** (`height == 0`,
`size == 1`); an inner node (`height > 0`) carries a routing `key` (the smallest
key of its right subtree), cached `height` and `size` (= number of leaves), and
two non-nil children.  `*Node == nil` is the empty tree.

Representation choices (each is justified by the code, and named as an
assumption in props/C50.json):

* `Node.leaf` / `Node.inner` are the two shapes the code can build:
  `NewNode` (height 0, size 1, no children), the two struct literals in `Set`
  (height 1, size 2, both children set) and `_copy` + child assignment (which
  keeps both children non-nil: `Remove` tests `== nil` before assigning, `Set`
  never returns nil, rotations move existing non-nil children).  The Go test
  `node.height == 0` is the constructor test here.  `*Node` that may be nil is
  `Option (Node α)`.
* Go panics that the shapes still allow are kept as explicit error results
  (`Pan`): `_copy` of a leaf inside a rotation ("Why are you copying a value
  node?"), `calcBalance` on a leaf (nil dereference of `leftNode`), and the
  three `GetByIndex` panics.  The theorems prove they cannot happen on a
  well-formed tree except for the documented out-of-range `GetByIndex`.
* `height` is `int8` and `size` is `int` in Go; they are unbounded `Int` here.
  `Props.C50.height_fits_int8` shows that on a well-formed tree
  `2^(height/2) ≤ size`, so with `size < 2^63` (one leaf per stored key, memory
  bound) `height ≤ 125` and `maxInt8(..)+1` never wraps.
* `value any` is a type parameter `α`; Go's `nil` result is `none`.
* callbacks (`func(*Node) bool`, closures with state in Go) are state-passing
  functions `σ → Node α → σ × Bool`.

Core-only.
-/
namespace GnoVerif.C50

/-- Go panics reachable in node.gno -/
inductive Pan where
  | neg        -- "GetByIndex: negative index not allowed"
  | idx        -- "GetByIndex asked for invalid index"
  | nilderef   -- runtime error: nil pointer dereference
  | copyleaf   -- "Why are you copying a value node?"
  deriving DecidableEq, Repr

def Pan.token : Pan → String
  | .neg => "panic:neg"
  | .idx => "panic:idx"
  | .nilderef => "panic:nilderef"
  | .copyleaf => "panic:copyleaf"

/-- `type Node struct { key; value; height; size; leftNode; rightNode }` -/
inductive Node (α : Type) where
  | leaf (key : Key) (value : α)
  | inner (key : Key) (height : Int) (size : Int) (left right : Node α)
  deriving Repr

namespace Node
variable {α : Type}

/-- `node.key` / `Key()` -/
def key : Node α → Key
  | leaf k _ => k
  | inner k _ _ _ _ => k

/-- `node.value` / `Value()` (nil on inner nodes: `_copy` does not copy `value`) -/
def value? : Node α → Option α
  | leaf _ v => some v
  | inner _ _ _ _ _ => none

/-- `node.height` -/
def height : Node α → Int
  | leaf _ _ => 0
  | inner _ h _ _ _ => h

/-- `node.size` (field) -/
def size : Node α → Int
  | leaf _ _ => 1
  | inner _ _ s _ _ => s

/-- `IsLeaf()`: `node.height == 0` -/
def isLeaf : Node α → Bool
  | leaf _ _ => true
  | inner _ _ _ _ _ => false

/-- `Has` -/
def has : Node α → Key → Bool
  | leaf nk _, key => decide (nk = key)
  | inner nk _ _ l r, key =>
    if nk = key then true
    else if key < nk then l.has key
    else r.has key

/-- `Get`: (index, value, exists) -/
def get : Node α → Key → Int × Option α × Bool
  | leaf nk nv, key =>
    if nk = key then (0, some nv, true)
    else if nk < key then (1, none, false)
    else (0, none, false)
  | inner nk _ s l r, key =>
    if key < nk then l.get key
    else
      let (index, value, ex) := r.get key
      (index + (s - r.size), value, ex)

/-- `GetByIndex` -/
def getByIndex : Node α → Int → Except Pan (Key × α)
  | leaf nk nv, index =>
    if index < 0 then .error .neg
    else if index ≠ 0 then .error .idx
    else .ok (nk, nv)
  | inner _ _ _ l r, index =>
    if index < 0 then .error .neg
    else if index < l.size then l.getByIndex index
    else r.getByIndex (index - l.size)

/-- `calcHeightAndSize` (every call site holds a copied inner node) -/
def calcHeightAndSize : Node α → Node α
  | leaf k v => leaf k v
  | inner k _ _ l r => inner k (max l.height r.height + 1) (l.size + r.size) l r

/-- `calcBalance`: dereferences both children, so it panics on a leaf -/
def calcBalance : Node α → Except Pan Int
  | leaf _ _ => .error .nilderef
  | inner _ _ _ l r => .ok (l.height - r.height)

/-- `rotateRight` -/
def rotateRight : Node α → Except Pan (Node α)
  | inner k h s (inner lk lh ls ll lr) r =>
    -- node = node._copy(); _l = l._copy(); _l.rightNode = node; node.leftNode = _lrCached
    let node := calcHeightAndSize (inner k h s lr r)
    .ok (calcHeightAndSize (inner lk lh ls ll node))
  | inner _ _ _ (leaf _ _) _ => .error .copyleaf
  | leaf _ _ => .error .copyleaf

/-- `rotateLeft` -/
def rotateLeft : Node α → Except Pan (Node α)
  | inner k h s l (inner rk rh rs rl rr) =>
    let node := calcHeightAndSize (inner k h s l rl)
    .ok (calcHeightAndSize (inner rk rh rs node rr))
  | inner _ _ _ _ (leaf _ _) => .error .copyleaf
  | leaf _ _ => .error .copyleaf

/-- `balance` -/
def balance : Node α → Except Pan (Node α)
  | leaf _ _ => .error .nilderef
  | inner k h s l r =>
    let bal := l.height - r.height
    if bal > 1 then
      match calcBalance l with
      | .error e => .error e
      | .ok lb =>
        if lb ≥ 0 then rotateRight (inner k h s l r)          -- Left Left
        else match rotateLeft l with                           -- Left Right
          | .error e => .error e
          | .ok l' => rotateRight (inner k h s l' r)
    else if bal < -1 then
      match calcBalance r with
      | .error e => .error e
      | .ok rb =>
        if rb ≤ 0 then rotateLeft (inner k h s l r)           -- Right Right
        else match rotateRight r with                          -- Right Left
          | .error e => .error e
          | .ok r' => rotateLeft (inner k h s l r')
    else .ok (inner k h s l r)

/-- `Set` on a non-nil node: (newSelf, updated) -/
def set : Node α → Key → α → Except Pan (Node α × Bool)
  | leaf nk nv, key, value =>
    if key < nk then .ok (inner nk 1 2 (leaf key value) (leaf nk nv), false)
    else if key = nk then .ok (leaf key value, true)
    else .ok (inner key 1 2 (leaf nk nv) (leaf key value), false)
  | inner nk h s l r, key, value =>
    if key < nk then
      match l.set key value with
      | .error e => .error e
      | .ok (l', updated) =>
        if updated then .ok (inner nk h s l' r, updated)
        else match balance (calcHeightAndSize (inner nk h s l' r)) with
          | .error e => .error e
          | .ok n => .ok (n, updated)
    else
      match r.set key value with
      | .error e => .error e
      | .ok (r', updated) =>
        if updated then .ok (inner nk h s l r', updated)
        else match balance (calcHeightAndSize (inner nk h s l r')) with
          | .error e => .error e
          | .ok n => .ok (n, updated)

/-- `Remove` on a non-nil node: (newNode, newKey, value, removed) -/
def remove : Node α → Key → Except Pan (Option (Node α) × Key × Option α × Bool)
  | leaf nk nv, key =>
    if key = nk then .ok (none, [], some nv, true)
    else .ok (some (leaf nk nv), [], none, false)
  | inner nk h s l r, key =>
    if key < nk then
      match l.remove key with
      | .error e => .error e
      | .ok (newLeft, newKey, value, removed) =>
        if !removed then .ok (some (inner nk h s l r), [], value, false)
        else match newLeft with
          | none => .ok (some r, nk, value, true)   -- left node held value, was removed
          | some nl =>
            match balance (calcHeightAndSize (inner nk h s nl r)) with
            | .error e => .error e
            | .ok n => .ok (some n, newKey, value, true)
    else
      match r.remove key with
      | .error e => .error e
      | .ok (newRight, newKey, value, removed) =>
        if !removed then .ok (some (inner nk h s l r), [], value, false)
        else match newRight with
          | none => .ok (some l, [], value, true)   -- right node held value, was removed
          | some nr =>
            let nk' := if newKey ≠ [] then newKey else nk
            match balance (calcHeightAndSize (inner nk' h s l nr)) with
            | .error e => .error e
            | .ok n => .ok (some n, [], value, true)

/-- `TraverseInRange` on a non-nil node -/
def traverseInRange {σ : Type} (start end_ : Key) (ascending leavesOnly : Bool)
    (cb : σ → Node α → σ × Bool) : Node α → σ → σ × Bool
  | leaf nk nv, s =>
    let startOrAfter := start = [] ∨ start ≤ nk
    let beforeEnd := if ascending then (end_ = [] ∨ nk < end_) else (end_ = [] ∨ nk ≤ end_)
    if startOrAfter ∧ beforeEnd then cb s (leaf nk nv) else (s, false)
  | inner nk h sz l r, s =>
    let afterStart := start = [] ∨ start < nk
    let beforeEnd := if ascending then (end_ = [] ∨ nk < end_) else (end_ = [] ∨ nk ≤ end_)
    -- Run callback per inner node.
    let (s, stop) := if !leavesOnly then cb s (inner nk h sz l r) else (s, false)
    if stop then (s, true) else
    if ascending then
      -- check lower nodes, then higher
      let (s, stop) := if afterStart then traverseInRange start end_ ascending leavesOnly cb l s else (s, false)
      if stop then (s, true) else
      if beforeEnd then traverseInRange start end_ ascending leavesOnly cb r s else (s, false)
    else
      -- check the higher nodes first
      let (s, stop) := if beforeEnd then traverseInRange start end_ ascending leavesOnly cb r s else (s, false)
      if stop then (s, true) else
      if afterStart then traverseInRange start end_ ascending leavesOnly cb l s else (s, false)

/-- `traverseByOffset` (the recursive worker).  It is only ever entered on an
inner node: `TraverseByOffset` handles a leaf root itself and the worker tests
`IsLeaf()` on a child before recursing into it; the `leaf` equation below is
therefore dead code (Go would dereference a nil child there). -/
def traverseByOffsetRec {σ : Type} (ascending leavesOnly : Bool)
    (cb : σ → Node α → σ × Bool) : Node α → Int → Int → σ → σ × Bool
  | leaf _ _, _, _, s => (s, false)
  | inner nk h sz l r, offset, limit, s =>
    let recL := traverseByOffsetRec ascending leavesOnly cb l
    let recR := traverseByOffsetRec ascending leavesOnly cb r
    -- first, second := node.getLeftNode(), node.getRightNode(); if !ascending { swap }
    let first := if ascending then l else r
    let second := if ascending then r else l
    let recFirst := if ascending then recL else recR
    let recSecond := if ascending then recR else recL
    let (s, stop) := if !leavesOnly then cb s (inner nk h sz l r) else (s, false)
    if stop then (s, true) else
    -- `if second.IsLeaf() { return cb(second) }; return second.traverseByOffset(offset, limit, ..)`
    let tail (offset limit : Int) (s : σ) : σ × Bool :=
      if second.isLeaf then cb s second else recSecond offset limit s
    if first.isLeaf then
      -- either run or skip, based on offset
      if offset > 0 then tail (offset - 1) limit s
      else
        let (s, stop) := cb s first
        if stop then (s, true) else
        if limit - 1 ≤ 0 then (s, true)       -- Stop traversal when limit is reached
        else tail offset (limit - 1) s
    else
      if offset ≥ first.size then tail (offset - first.size) limit s     -- case 1
      else
        let (s, stop) := recFirst offset limit s
        if stop then (s, true) else
        let delta := first.size - offset
        if delta ≥ limit then (s, true)        -- case 3
        else tail 0 (limit - delta) s          -- case 2

end Node

/-! ## `*Node` that may be nil, and tree.gno -/

/-- `type Tree struct { node *Node }`; the zero struct is the empty tree -/
structure Tree (α : Type) where
  node : Option (Node α)
  deriving Repr

namespace Tree
variable {α : Type}

/-- `NewTree()` / the zero `Tree{}` -/
def empty : Tree α := ⟨none⟩

/-- `Size`: `node.Size()` (0 on nil) -/
def size (t : Tree α) : Int :=
  match t.node with
  | none => 0
  | some n => n.size

/-- `Has` (false on nil) -/
def has (t : Tree α) (key : Key) : Bool :=
  match t.node with
  | none => false
  | some n => n.has key

/-- `Node.Get` on a possibly-nil node -/
def nodeGet (t : Tree α) (key : Key) : Int × Option α × Bool :=
  match t.node with
  | none => (0, none, false)
  | some n => n.get key

/-- `Get`: `_, value, _ := tree.node.Get(key)` -/
def get (t : Tree α) (key : Key) : Option α := (t.nodeGet key).2.1

/-- `GetByIndex`: the negative-index test comes before the first dereference -/
def getByIndex (t : Tree α) (index : Int) : Except Pan (Key × α) :=
  if index < 0 then .error .neg else
  match t.node with
  | none => .error .nilderef
  | some n => n.getByIndex index

/-- `Set`: (tree after, updated) -/
def set (t : Tree α) (key : Key) (value : α) : Except Pan (Tree α × Bool) :=
  match t.node with
  | none => .ok (⟨some (Node.leaf key value)⟩, false)      -- `NewNode(key, value), false`
  | some n =>
    match n.set key value with
    | .error e => .error e
    | .ok (n', updated) => .ok (⟨some n'⟩, updated)

/-- `Remove`: (tree after, value, removed) -/
def remove (t : Tree α) (key : Key) : Except Pan (Tree α × Option α × Bool) :=
  match t.node with
  | none => .ok (⟨none⟩, none, false)
  | some n =>
    match n.remove key with
    | .error e => .error e
    | .ok (newnode, _, value, removed) => .ok (⟨newnode⟩, value, removed)

/-- `func(node *Node) bool { return cb(node.Key(), node.Value()) }` -/
def wrapCb {σ : Type} (cb : σ → Key → Option α → σ × Bool) : σ → Node α → σ × Bool :=
  fun s n => cb s n.key n.value?

/-- `TraverseInRange` on a possibly-nil node -/
def nodeTraverseInRange {σ : Type} (t : Tree α) (start end_ : Key) (ascending leavesOnly : Bool)
    (cb : σ → Node α → σ × Bool) (s : σ) : σ × Bool :=
  match t.node with
  | none => (s, false)
  | some n => n.traverseInRange start end_ ascending leavesOnly cb s

/-- `TraverseByOffset` on a possibly-nil node -/
def nodeTraverseByOffset {σ : Type} (t : Tree α) (offset limit : Int) (ascending leavesOnly : Bool)
    (cb : σ → Node α → σ × Bool) (s : σ) : σ × Bool :=
  match t.node with
  | none => (s, false)
  | some n =>
    -- Clamp negative offset to 0
    let offset := if offset < 0 then 0 else offset
    -- fast paths
    if limit ≤ 0 ∨ offset ≥ n.size then (s, false) else
    if n.isLeaf then
      if offset > 0 then (s, false) else cb s n
    else n.traverseByOffsetRec ascending leavesOnly cb offset limit s

/-- `Iterate` -/
def iterate {σ : Type} (t : Tree α) (start end_ : Key) (cb : σ → Key → Option α → σ × Bool) (s : σ) : σ × Bool :=
  t.nodeTraverseInRange start end_ true true (wrapCb cb) s

/-- `ReverseIterate` -/
def reverseIterate {σ : Type} (t : Tree α) (start end_ : Key) (cb : σ → Key → Option α → σ × Bool) (s : σ) : σ × Bool :=
  t.nodeTraverseInRange start end_ false true (wrapCb cb) s

/-- `IterateByOffset` -/
def iterateByOffset {σ : Type} (t : Tree α) (offset count : Int) (cb : σ → Key → Option α → σ × Bool) (s : σ) : σ × Bool :=
  t.nodeTraverseByOffset offset count true true (wrapCb cb) s

/-- `ReverseIterateByOffset` -/
def reverseIterateByOffset {σ : Type} (t : Tree α) (offset count : Int) (cb : σ → Key → Option α → σ × Bool) (s : σ) : σ × Bool :=
  t.nodeTraverseByOffset offset count false true (wrapCb cb) s

end Tree
end GnoVerif.C50
