import GnoVerif.Model.C04Eval
/-!
C04 — the model's constant folder (what the GnoVM preprocessor does with
constant operands, preprocess.go TRANS_LEAVE *BinaryExpr / *UnaryExpr /
conversion `evalConst`): a subexpression built from literals with the pure
operators is replaced by the literal of its value — unless its evaluation
would panic (a zero divisor, a negative shift count) or get stuck, in which
case it is left for run time.  `Proofs/C04Fold.lean` proves that folding does
not change what the evaluator computes.
-/
namespace GnoVerif.C04

/-- value of a constant expression, when its evaluation succeeds -/
def constVal : Expr → Option Val
  | .lit l => some (litVal l)
  | .bin op a b =>
    match constVal a, constVal b with
    | some x, some y =>
      match binopE op x y with
      | .ok v => some v
      | .error _ => none
    | _, _ => none
  | .un op a =>
    match constVal a with
    | some x =>
      match unopE op x with
      | .ok v => some v
      | .error _ => none
    | none => none
  | .conv (.int t) a =>
    match constVal a with
    | some (.int s v) => some (.int t (convInt s t v))
    | _ => none
  | .land a b =>
    match constVal a with
    | some (.bool false) => some (.bool false)
    | some (.bool true) =>
      match constVal b with
      | some (.bool y) => some (.bool y)
      | _ => none
    | _ => none
  | .lor a b =>
    match constVal a with
    | some (.bool true) => some (.bool true)
    | some (.bool false) =>
      match constVal b with
      | some (.bool y) => some (.bool y)
      | _ => none
    | _ => none
  | _ => none

def valToLit : Val → Option Lit
  | .int t v => some (.int t v)
  | .bool b => some (.bool b)
  | .str s => some (.str s)
  | _ => none

/-- replace `orig` by a literal when it is a constant whose evaluation succeeds -/
def foldOr (orig rebuilt : Expr) : Expr :=
  match constVal orig with
  | some v =>
    match valToLit v with
    | some l => .lit l
    | none => rebuilt
  | none => rebuilt

/-- bottom-up constant folding of the pure operators -/
def cfold : Expr → Expr
  | .bin op a b => foldOr (.bin op a b) (.bin op (cfold a) (cfold b))
  | .un op a => foldOr (.un op a) (.un op (cfold a))
  | .conv t a => foldOr (.conv t a) (.conv t (cfold a))
  | .land a b => foldOr (.land a b) (.land (cfold a) (cfold b))
  | .lor a b => foldOr (.lor a b) (.lor (cfold a) (cfold b))
  | e => e

end GnoVerif.C04
