import GnoVerif.Model.C41State
/-!
What "in effect at height h" means for C41: the store-relevant part of how consensus produces the
states it hands to `SaveState` (tm2/pkg/bft/state/state.go `MakeGenesisState`,
execution.go `updateState`), as relations between consecutive states, and the history of
`SaveState` calls `ApplyBlock` makes (one per block, in order).

A history is kept newest-first.  `IncrementProposerPriority(1)` is the abstract `inc1`; a
validator update at a block (`UpdateWithABCIValidatorUpdates`, C37's subject) may produce any
set, so the relation only records that `LastHeightValidatorsChanged` moves to `height + 2`.
-/
namespace GnoVerif.C41

variable {VS : Type}

/-- `MakeGenesisState`: `LastBlockHeight = InitialHeight - 1`, both change heights are
`InitialHeight`, `NextValidators = Validators.CopyIncrementProposerPriority(1)`. -/
def IsGenesis (inc1 : VS → Except String VS) (s : St VS) : Prop :=
  1 ≤ s.ih ∧ s.lbh = s.ih - 1 ∧ s.lhvc = s.ih ∧ s.lhpc = s.ih ∧
  ∃ v n, s.vals = some v ∧ s.nvals = some n ∧ inc1 v = .ok n

/-- `updateState(state, blockID, header, abciResponses)` with `header.Height = s.lbh + 1`:
`Validators' = NextValidators`; `NextValidators'` is `NextValidators` (after the block's
validator updates, if any) rotated once; a validator update moves
`LastHeightValidatorsChanged` to `height + 2`, a parameter update moves
`LastHeightConsensusParamsChanged` to `height + 1`; otherwise both, and the params, stay. -/
def IsNext (inc1 : VS → Except String VS) (s s' : St VS) : Prop :=
  s'.lbh = s.lbh + 1 ∧ s'.ih = s.ih ∧ s'.vals = s.nvals ∧
  (∃ n n', s.nvals = some n ∧ s'.nvals = some n' ∧
    ((s'.lhvc = s.lhvc ∧ inc1 n = .ok n') ∨ s'.lhvc = s'.lbh + 2)) ∧
  ((s'.lhpc = s.lhpc ∧ s'.params = s.params) ∨ s'.lhpc = s'.lbh + 1)

/-- a history of states (newest first) as consensus produces it -/
inductive Chain (inc1 : VS → Except String VS) : List (St VS) → Prop
  | genesis {s : St VS} : IsGenesis inc1 s → Chain inc1 [s]
  | next {s s' : St VS} {rest : List (St VS)} :
      Chain inc1 (s :: rest) → IsNext inc1 s s' → Chain inc1 (s' :: s :: rest)

/-- `SaveState` of every state of the history, oldest first (panics would keep the partial writes) -/
def saveAll (db : DB VS) : List (St VS) → DB VS
  | [] => db
  | s :: rest => (saveState (saveAll db rest) s).1

/-- every `SaveState` of the history returned normally -/
def allSaved (db : DB VS) : List (St VS) → Prop
  | [] => True
  | s :: rest => allSaved db rest ∧ (saveState (saveAll db rest) s).2 = .ok

end GnoVerif.C41
