/-
Model of tm2/pkg/crypto/multisig/bitarray/compact_bit_array.go
(`CompactBitArray`) for property C48.  Core-only.

`*CompactBitArray` is `Option CBA`; `ExtraBitsStored byte` and `Elems []byte`
are kept as they are, so malformed shapes (as `CompactUnmarshal` or a struct
decoder can produce them) are representable: `Size()` may then be negative or
exceed the stored bits.  Index arguments are `Int` here because the code
guards `i < 0` itself.
-/
import GnoVerif.Model.C48
namespace GnoVerif.C48

structure CBA where
  extra : Byte
  elems : List Byte
deriving Repr, DecidableEq

abbrev Compact := Option CBA

/-- result of a Go function returning `(value, error)` that may also panic -/
inductive Res (α : Type) where
  | ok (a : α)
  | err
  | panic (p : Panic)
deriving Repr, DecidableEq

/-- `NewCompactBitArray` -/
def newCompact (bits : Int) : Compact :=
  if bits ≤ 0 then none
  else some ⟨BitVec.ofNat 8 (bits.toNat % 8), List.replicate ((bits.toNat + 7) / 8) 0⟩

/-- `Size` of a non-nil array: `len*8` if no extra bits, else `(len-1)*8 + extra`. -/
def CBA.size (c : CBA) : Int :=
  if c.extra = 0 then (c.elems.length : Int) * 8
  else ((c.elems.length : Int) - 1) * 8 + (c.extra.toNat : Int)

def csize : Compact → Int
  | none => 0
  | some c => c.size

/-- `e&(uint8(1)<<uint8(7-k)) > 0` -/
def byteBit (e : Byte) (k : Nat) : Bool :=
  decide ((e &&& ((1 : Byte) <<< (7 - k))) > 0)

/-- guard of GetIndex/SetIndex: `i < 0 || i >= bA.Size() || i>>3 >= len(bA.Elems)` -/
def CBA.outOfRange (c : CBA) (i : Int) : Bool :=
  decide (i < 0) || decide (i ≥ c.size) || decide (i.toNat / 8 ≥ c.elems.length)

def CBA.getIndex (c : CBA) (i : Int) : Bool :=
  if c.outOfRange i then false
  else byteBit (c.elems.getD (i.toNat / 8) 0) (i.toNat % 8)

def cgetIndex : Compact → Int → Bool
  | none, _ => false
  | some c, i => c.getIndex i

def CBA.setIndex (c : CBA) (i : Int) (v : Bool) : CBA × Bool :=
  if c.outOfRange i then (c, false)
  else
    let e := c.elems.getD (i.toNat / 8) 0
    let m : Byte := (1 : Byte) <<< (7 - i.toNat % 8)
    (⟨c.extra, c.elems.set (i.toNat / 8) (if v then e ||| m else e &&& ~~~m)⟩, true)

def csetIndex : Compact → Int → Bool → Compact × Bool
  | none, _, _ => (none, false)
  | some c, i, v => let r := c.setIndex i v; (some r.1, r.2)

/-- `NumTrueBitsBefore(index)`: `for i := range index { if bA.GetIndex(i) { n++ } }` -/
def numTrueBitsBefore (c : Compact) (index : Int) : Nat :=
  (List.range index.toNat).countP (fun (i : Nat) => cgetIndex c (i : Int))

def ccopy : Compact → Compact
  | none => none
  | some c => some ⟨c.extra, goCopy (List.replicate c.elems.length 0) c.elems⟩

/-- `MarshalJSON` -/
def cmarshalJSON : Compact → List Byte
  | none => nullBytes
  | some c => cQuote :: (bitChars c.size.toNat (fun (i : Nat) => c.getIndex (i : Int)) ++ [cQuote])

def cfillFrom (chars : List Byte) (c : CBA) : CBA :=
  (List.range chars.length).foldl
    (fun c (i : Nat) => if chars.getD i 0 = cX then (c.setIndex (i : Int) true).1 else c) c

/-- `UnmarshalJSON` on a fresh receiver; `""` is treated like `null` (since the
fix: `NewCompactBitArray(0) == nil` is no longer dereferenced). -/
def cunmarshalJSON (bz : List Byte) : Res CBA :=
  if bz = nullBytes then .ok ⟨0, []⟩
  else match matchBitString bz with
    | none => .err
    | some chars =>
      match newCompact chars.length with
      | none => .ok ⟨0, []⟩
      | some c2 => .ok (cfillFrom chars c2)

/-- `binary.PutUvarint` -/
def putUvarint (x : Nat) : List Byte :=
  if h : x < 0x80 then [BitVec.ofNat 8 x]
  else BitVec.ofNat 8 (x % 128 + 128) :: putUvarint (x / 128)
termination_by x
decreasing_by omega

/-- `binary.Uvarint` (the loop, with `i`, `x`, `s` as in the Go source). -/
def uvarintLoop : List Byte → Nat → Word → Nat → Word × Int
  | [], _, _, _ => (0, 0)
  | b :: rest, i, x, s =>
    if i = 10 then (0, -((i : Int) + 1))                 -- overflow
    else if b.toNat < 0x80 then
      if i = 9 ∧ b.toNat > 1 then (0, -((i : Int) + 1))  -- overflow
      else (x ||| ((b.setWidth 64) <<< s), (i : Int) + 1)
    else uvarintLoop rest (i + 1) (x ||| (((b &&& 0x7f).setWidth 64) <<< s)) (s + 7)

def uvarint (bz : List Byte) : Word × Int := uvarintLoop bz 0 0 0

/-- `CompactMarshal`: `null` when `Size() <= 0`, else uvarint(size) ++ Elems. -/
def compactMarshal (c : Compact) : List Byte :=
  let size := csize c
  if size ≤ 0 then nullBytes
  else putUvarint size.toNat ++ (match c with | none => [] | some c => c.elems)

/-- `CompactUnmarshal`. `bz[n:]` with the negative `n` of an overflowing varint
panics; `int(size+7)/8` wraps as in Go. -/
def compactUnmarshal (bz : List Byte) : Res Compact :=
  if bz.length < 2 then .err
  else if bz = nullBytes then .ok (newCompact 0)
  else
    let (size, n) := uvarint bz
    if n < 0 then .panic .slice
    else
      let rest := bz.drop n.toNat
      if (rest.length : Int) ≠ (size + 7).toInt.tdiv 8 then .err
      else .ok (some ⟨(size % 8).setWidth 8, rest⟩)

def ctoStr : Compact → String
  | none => "nil-BitArray"
  | some c =>
    "BA{" ++ toString c.size ++ ":" ++
      String.ofList ((List.range c.size.toNat).map (fun (i : Nat) => if c.getIndex (i : Int) then 'x' else '_')) ++ "}"

end GnoVerif.C48
