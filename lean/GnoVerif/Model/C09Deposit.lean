/-
C09 — model of the storage-deposit accounting of gno.land's VM keeper
(gno.land/pkg/sdk/vm/keeper.go: processStorageDeposit, lockStorageDeposit,
refundStorageDeposit) and of the size bookkeeping of the object store
(gnovm/pkg/gnolang/store.go: SetObject / DelObject with `LastObjectSize`;
realm.go: `sumDiff` routing to the owning realm).

Part 1 (ledger): a message ends with a list of per-realm byte deltas (object
bytes from the finalizer + params bytes), sorted by realm path.  The keeper
walks it with one running deposit limit: growth locks `diff × price` coins
(price = the storage price read BEFORE the message ran) from the caller at
the realm's storage-deposit address; shrinkage refunds
`deposit × released / storage` (everything when all storage is released) to
the caller.  Any error makes the whole message fail (the transaction's cache
layer is dropped).

Part 2 (store): objects keyed by id with their stored size; `setObject`
returns `new − LastObjectSize`, `delObject` returns `LastObjectSize`; the
finalizer adds/subtracts that to the counter of the realm the object id
belongs to.
-/
namespace GnoVerif.C09

/-! ## Part 1 — the deposit ledger -/

def maxInt64 : Nat := 2 ^ 63 - 1

/-- `depositUnlocked` of processStorageDeposit. -/
def refundAmount (deposit storage released : Nat) : Nat :=
  if storage = released then deposit else deposit * released / storage

structure Realm where
  name : String
  /-- `Realm.Storage` -/
  storage : Nat := 0
  /-- `Realm.Deposit` -/
  deposit : Nat := 0
  /-- coins at `DeriveStorageDepositCryptoAddr(path)` -/
  backing : Nat := 0
  deriving Repr, DecidableEq, Inhabited

structure Ledger where
  realms : List Realm := []
  /-- caller balances -/
  bal : List Nat := []
  /-- vm.storage_price, ugnot per byte -/
  price : Nat := 100
  /-- vm.default_deposit -/
  deflt : Nat := 600000000
  deriving Repr, DecidableEq, Inhabited

inductive Outcome where
  | ok | exec | deposit | funds | overflow | refund
  deriving DecidableEq, Repr, Inhabited

def Outcome.str : Outcome → String
  | .ok => "ok" | .exec => "err:exec" | .deposit => "err:deposit" | .funds => "err:funds"
  | .overflow => "err:overflow" | .refund => "err:refund"

def Ledger.find (l : Ledger) (n : String) : Realm :=
  (l.realms.find? (·.name = n)).getD { name := n }

/-- replace (or insert, keeping the list sorted by name) -/
def insertRealm (r : Realm) : List Realm → List Realm
  | [] => [r]
  | x :: xs => if x.name = r.name then r :: xs
               else if r.name < x.name then r :: x :: xs
               else x :: insertRealm r xs

def Ledger.put (l : Ledger) (r : Realm) : Ledger := { l with realms := insertRealm r l.realms }

def Ledger.balOf (l : Ledger) (c : Nat) : Nat := l.bal.getD c 0
def Ledger.setBal (l : Ledger) (c : Nat) (v : Nat) : Ledger := { l with bal := l.bal.set c v }

/-- loop state of processStorageDeposit -/
structure Acc where
  led : Ledger
  /-- `depositAmt`: what is left of the message's deposit limit -/
  amt : Nat
  /-- an "not enough deposit" error was joined into allErrs -/
  depErr : Bool := false
  /-- a lockStorageDeposit (bank transfer) error was joined into allErrs -/
  fundsErr : Bool := false
  /-- a Go panic / early return ended the loop -/
  fatal : Option Outcome := none
  deriving Repr, Inhabited

/-- one iteration of the sorted-realm loop, for realm `n` with byte delta `diff`,
    at the message-start price `price`, caller `c`. -/
def stepRealm (c price : Nat) (a : Acc) (n : String) (diff : Int) : Acc :=
  if a.fatal.isSome then a
  else if diff = 0 then a
  else
    let r := a.led.find n
    if diff > 0 then
      let d := diff.toNat
      let required := d * price
      if required > maxInt64 then { a with fatal := some .overflow }   -- overflow.Mulp panics
      else if a.amt < required then { a with depErr := true }
      else if a.led.balOf c < required then { a with fundsErr := true }
      else
        let led := (a.led.setBal c (a.led.balOf c - required)).put
          { r with deposit := r.deposit + required, storage := r.storage + d, backing := r.backing + required }
        { a with led := led, amt := a.amt - required }
    else
      let released := (-diff).toNat
      if r.storage < released then { a with fatal := some .refund }   -- panic: not enough storage to be released
      else
        let unlocked := refundAmount r.deposit r.storage released
        if r.deposit < unlocked then { a with fatal := some .refund }
        else if r.backing < unlocked then { a with fatal := some .refund }   -- bank: insufficient coins → return err
        else
          let led := (a.led.setBal c (a.led.balOf c + unlocked)).put
            { r with deposit := r.deposit - unlocked, storage := r.storage - released, backing := r.backing - unlocked }
          { a with led := led }

/-- processStorageDeposit: `limit` = MaxDeposit, or the default deposit when that is 0. -/
def processDeposit (l : Ledger) (c maxDep : Nat) (deltas : List (String × Int)) : Outcome × Ledger :=
  let limit := if maxDep = 0 then l.deflt else maxDep
  let a := deltas.foldl (fun a (nd : String × Int) => stepRealm c l.price a nd.1 nd.2) { led := l, amt := limit }
  match a.fatal with
  | some o => (o, l)
  | none =>
    if a.depErr then (.deposit, l)
    else if a.fundsErr then (.funds, l)
    else (.ok, a.led)

/-- one message: `runs = false` means the program itself fails (nothing is kept);
    `newPrice` is the storage price the message itself installs (sys/params), if any. -/
def message (l : Ledger) (c maxDep : Nat) (runs : Bool) (deltas : List (String × Int)) (newPrice : Option Nat) :
    Outcome × Ledger :=
  if ¬ runs then (.exec, l)
  else
    match processDeposit l c maxDep deltas with
    | (.ok, l') => (.ok, match newPrice with | some p => { l' with price := p } | none => l')
    | (o, _) => (o, l)

/-- governance changes the price between messages; a zero price is refused by Params.Validate -/
def setPrice (l : Ledger) (p : Nat) : Bool × Ledger :=
  if p = 0 then (false, l) else (true, { l with price := p })

/-! ## Part 2 — object sizes and realm counters -/

/-- stored objects: (realm, object number) ↦ stored size (hash prefix + amino bytes) -/
abbrev Store := List ((Nat × Nat) × Nat)

def Store.sizeOf (st : Store) (k : Nat × Nat) : Nat :=
  match st.find? (·.1 = k) with
  | some e => e.2
  | none => 0

def Store.erase (st : Store) (k : Nat × Nat) : Store := st.filter (·.1 ≠ k)

/-- `SetObject`: returns the new store and `diff = len(new) − LastObjectSize`. -/
def setObject (st : Store) (k : Nat × Nat) (size : Nat) : Store × Int :=
  ((k, size) :: st.erase k, (size : Int) - (st.sizeOf k : Int))

/-- `DelObject`: returns the new store and the freed size `LastObjectSize`. -/
def delObject (st : Store) (k : Nat × Nat) : Store × Int :=
  (st.erase k, (st.sizeOf k : Int))

inductive StoreOp where
  | set (k : Nat × Nat) (size : Nat)
  | del (k : Nat × Nat)
  deriving Repr

/-- total stored bytes of realm `r` -/
def Store.bytesOf (st : Store) (r : Nat) : Nat :=
  (st.filter (·.1.1 = r)).foldl (fun n e => n + e.2) 0

/-- the finalizer's routing: the delta of an object goes to the counter (`sumDiff`,
    accumulated into RealmStorageDiffs) of the realm its id belongs to — also when
    another realm's finalize saves or deletes it. -/
def applyOp (sc : Store × (Nat → Int)) : StoreOp → Store × (Nat → Int)
  | .set k size =>
    let (st, d) := setObject sc.1 k size
    (st, fun r => if r = k.1 then sc.2 r + d else sc.2 r)
  | .del k =>
    let (st, d) := delObject sc.1 k
    (st, fun r => if r = k.1 then sc.2 r - d else sc.2 r)

def runOps (ops : List StoreOp) : Store × (Nat → Int) := ops.foldl applyOp ([], fun _ => 0)

end GnoVerif.C09
