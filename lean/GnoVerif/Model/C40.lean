/-
Model for C40: tm2/pkg/bft/mempool/clist_mempool.go (CListMempool + mapTxCache),
read line by line, at the granularity of atomic steps: each public method runs
under `mem.mtx`, and with the local ABCI client the app's CheckTx answer and
both callbacks (`globalCb`/`resCbRecheck`, `reqResCb`/`resCbFirstTime`) run
synchronously inside the call, so the app's answer is an INPUT of the step.

What is mirrored (and where):
* `mapTxCache.Push/Remove/Reset` (l.687-722) — LRU list, front = oldest; a hit
  does `MoveToBack` and returns false; a miss on a full cache pops the front;
  `CacheSize <= 0` selects `nopTxCache` (Push always true, nothing stored).
* `CheckTxWithInfo` (l.217): full check (`memSize >= Size || txSize+txsBytes >
  MaxPendingTxsBytes`) → too-large check (`txSize > maxTxBytes`) → cache push
  (→ ErrTxInCache) → app; `resCbFirstTime` (l.378): ok ⇒ (`txsMap.Load` hit ⇒
  return) else `addTx` (PushBack, `txsMap.Store`, `txsBytes +=`), error ⇒
  `cache.Remove`.
* `txsMap` (key ↦ list element): elements are identified by their arrival
  number `id` (the `*clist.CElement`).  `addTx` stores (overwrites) the entry
  of the key; `removeTx` deletes the entry of the key.  Since the fix
  "mempool never adds a second copy of a tx whose cache entry was evicted",
  `resCbFirstTime` consults `txsMap` before `addTx`: an app-accepted tx whose
  key is already mapped is NOT added again (result `present`; the cache keeps
  the freshly pushed key).  The cache is bounded and also holds committed
  txs, so it can forget a pooled key — `txsMap`, not the cache, is what
  excludes duplicates.
* `Update` (l.529): per committed tx: valid ⇒ `cache.Push`, invalid ⇒
  `cache.Remove`; then `txsMap.Load` ⇒ `removeTx(…, false)`; then, if the pool
  is non-empty and `config.Recheck`, `recheckTxs` (l.588): every remaining tx
  in order is sent to the app; an error answer ⇒ `removeTx(…, true)`
  (`resCbRecheck`, l.411).  `preCheck = nil`, `maxTxBytes = 0` (unchanged).
* `ReapMaxBytesMaxGas` (l.468), `ReapMaxTxs` (l.508), `Flush` (l.178) — the
  loops are written as loops (accumulator), not as their specification.

Abstractions: a tx's key is the tx itself (sha256 assumed injective on the
txs used); byte counts and gas are mathematical integers (the harness keeps
|v| ≤ 2^62 and 0 ≤ gas < 2^60, so no int64 sum wraps); `senders`, the WAL,
`txsAvailable` notifications, logging and telemetry are not modelled.
Core-only (no Mathlib).
-/
namespace GnoVerif.C40

abbrev Tx := List UInt8

structure Config where
  size : Int            -- config.Size
  maxPending : Int      -- config.MaxPendingTxsBytes
  cacheSize : Int       -- config.CacheSize
  maxTxBytes : Int      -- NewCListMempool's maxTxBytes (> 0)
  recheck : Bool        -- config.Recheck
  deriving Repr, DecidableEq

/-- `mempoolTx` plus the identity of its list element. -/
structure MemTx where
  id : Nat
  tx : Tx
  gas : Int
  height : Int
  deriving Repr, DecidableEq

structure State where
  cfg : Config
  txs : List MemTx            -- mem.txs, front first
  txsMap : List (Tx × Nat)    -- mem.txsMap : key ↦ element
  cache : List Tx             -- mapTxCache.list, front (oldest) first
  txsBytes : Int              -- mem.txsBytes
  height : Int                -- mem.height
  nextId : Nat                -- number of elements ever pushed
  deriving Repr, DecidableEq

def init (c : Config) : State :=
  { cfg := c, txs := [], txsMap := [], cache := [], txsBytes := 0, height := 0, nextId := 0 }

/-! ### mapTxCache / nopTxCache -/

/-- `cache.Push(tx)`: new cache content and the returned bool. -/
def cachePush (size : Int) (c : List Tx) (x : Tx) : List Tx × Bool :=
  if size ≤ 0 then (c, true)                       -- nopTxCache
  else if x ∈ c then (c.erase x ++ [x], false)     -- MoveToBack, return false
  else
    let c' := if (c.length : Int) ≥ size then c.drop 1 else c   -- pop the front
    (c' ++ [x], true)

/-- `cache.Remove(tx)`. -/
def cacheRemove (size : Int) (c : List Tx) (x : Tx) : List Tx :=
  if size ≤ 0 then c else c.erase x

/-! ### txsMap -/

def mapLoad (m : List (Tx × Nat)) (k : Tx) : Option Nat := m.lookup k
def mapDelete (m : List (Tx × Nat)) (k : Tx) : List (Tx × Nat) := m.filter (fun p => p.1 ≠ k)
def mapStore (m : List (Tx × Nat)) (k : Tx) (i : Nat) : List (Tx × Nat) := (k, i) :: mapDelete m k

/-! ### removeTx -/

/-- `removeTx(tx, elem, removeFromCache)`: unlink the element `id`, delete the
    map entry of `x`'s key, subtract `len(x)`. -/
def removeTx (s : State) (x : Tx) (id : Nat) (fromCache : Bool) : State :=
  { s with
    txs := s.txs.filter (fun t => t.id ≠ id)
    txsMap := mapDelete s.txsMap x
    txsBytes := s.txsBytes - (x.length : Int)
    cache := if fromCache then cacheRemove s.cfg.cacheSize s.cache x else s.cache }

/-! ### CheckTx -/

inductive CheckRes | full | tooLarge | inCache | present | added | rejected
  deriving Repr, DecidableEq

def checkTx (s : State) (x : Tx) (appOk : Bool) (gas : Int) : State × CheckRes :=
  if (s.txs.length : Int) ≥ s.cfg.size ∨ (x.length : Int) + s.txsBytes > s.cfg.maxPending then
    (s, .full)
  else if (x.length : Int) > s.cfg.maxTxBytes then
    (s, .tooLarge)
  else
    let p := cachePush s.cfg.cacheSize s.cache x
    if p.2 = false then
      ({ s with cache := p.1 }, .inCache)
    else if appOk then
      if (mapLoad s.txsMap x).isSome then
        ({ s with cache := p.1 }, .present)        -- already pooled: only the sender is recorded
      else
      let m : MemTx := { id := s.nextId, tx := x, gas := gas, height := s.height }
      ({ s with cache := p.1, txs := s.txs ++ [m], txsMap := mapStore s.txsMap x s.nextId,
                txsBytes := s.txsBytes + (x.length : Int), nextId := s.nextId + 1 }, .added)
    else
      ({ s with cache := cacheRemove s.cfg.cacheSize p.1 x }, .rejected)

/-! ### Update -/

/-- the `for i, tx := range txs` loop of `Update`. -/
def updateCommitted (s : State) : List (Tx × Bool) → State
  | [] => s
  | (x, ok) :: rest =>
    let s1 : State :=
      if ok then { s with cache := (cachePush s.cfg.cacheSize s.cache x).1 }
      else { s with cache := cacheRemove s.cfg.cacheSize s.cache x }
    let s2 : State :=
      match mapLoad s1.txsMap x with
      | some id => removeTx s1 x id false
      | none => s1
    updateCommitted s2 rest

/-- `recheckTxs` with the synchronous local client: the elements of the list
    at the start of the recheck are visited in order; `answers` are the app's
    replies (missing ones count as ok); an error reply removes the element the
    cursor is on. -/
def recheck (s : State) : List MemTx → List Bool → State
  | [], _ => s
  | t :: rest, answers =>
    let a := answers.headD true
    let s' := if a then s else removeTx s t.tx t.id true
    recheck s' rest answers.tail

def update (s : State) (h : Int) (committed : List (Tx × Bool)) (answers : List Bool) : State :=
  let s1 := updateCommitted { s with height := h } committed
  if s1.txs.length > 0 ∧ s1.cfg.recheck = true then recheck s1 s1.txs answers else s1

/-! ### Reap -/

/-- the loop of `ReapMaxBytesMaxGas` (`tb` = totalBytes, `tg` = totalGas). -/
def reapBGLoop (maxBytes maxGas : Int) : List MemTx → Int → Int → List Tx → List Tx
  | [], _, _, acc => acc
  | t :: rest, tb, tg, acc =>
    if maxBytes > -1 ∧ tb + (t.tx.length : Int) > maxBytes then acc
    else
      let tb' := tb + (t.tx.length : Int)
      let ng := tg + t.gas
      if maxGas > -1 ∧ ng > maxGas then acc
      else reapBGLoop maxBytes maxGas rest tb' ng (acc ++ [t.tx])

/-- `ReapMaxBytesMaxGas`; `none` = the `maxDataBytes == 0` panic. -/
def reapBG (s : State) (maxBytes maxGas : Int) : Option (List Tx) :=
  if maxBytes = 0 then none else some (reapBGLoop maxBytes maxGas s.txs 0 0 [])

/-- the loop of `ReapMaxTxs`: `for e != nil && len(txs) < maxVal`. -/
def reapNLoop (maxVal : Int) : List MemTx → List Tx → List Tx
  | [], acc => acc
  | t :: rest, acc =>
    if (acc.length : Int) < maxVal then reapNLoop maxVal rest (acc ++ [t.tx]) else acc

def reapN (s : State) (n : Int) : List Tx :=
  let maxVal := if n < 0 then (s.txs.length : Int) else n
  reapNLoop maxVal s.txs []

/-! ### Flush -/

def flush (s : State) : State :=
  { s with cache := [], txs := [], txsMap := [], txsBytes := 0 }

/-! ### operations and runs -/

inductive Op
  | check (x : Tx) (appOk : Bool) (gas : Int)
  | update (h : Int) (committed : List (Tx × Bool)) (answers : List Bool)
  | reapBG (maxBytes maxGas : Int)
  | reapN (n : Int)
  | flush
  deriving Repr, DecidableEq

/-- One atomic step (reaps do not change the state). -/
def step (s : State) : Op → State
  | .check x ok g => (checkTx s x ok g).1
  | .update h c a => update s h c a
  | .reapBG _ _ => s
  | .reapN _ => s
  | .flush => flush s

def run (s : State) : List Op → State
  | [] => s
  | op :: ops => run (step s op) ops

/-- The element a step appends to the pool, if any (the arrival log entry). -/
def arrival (s : State) : Op → List MemTx
  | .check x ok g =>
    if (checkTx s x ok g).2 = .added then [{ id := s.nextId, tx := x, gas := g, height := s.height }] else []
  | _ => []

/-- Arrival log of a run: every element ever appended, in order. -/
def arrivals (s : State) : List Op → List MemTx
  | [] => []
  | op :: ops => arrival s op ++ arrivals (step s op) ops

def keys (s : State) : List Tx := s.txs.map (·.tx)

def sumBytes (l : List MemTx) : Int := (l.map (fun t => (t.tx.length : Int))).sum
def sumGas (l : List MemTx) : Int := (l.map (·.gas)).sum

end GnoVerif.C40
