import GnoVerif.Model.C04Val
/-!
C04 — MiniGo abstract syntax.  A program is what the generator
(harness/minigo) serialises on one op line; the same tree is rendered to Go
source text for the GnoVM and for the native Go toolchain.
-/
namespace GnoVerif.C04

inductive BinOp
  | ar (op : ArOp) | cmp (op : CmpOp) | shl | shr | concat
  deriving DecidableEq, Repr, Inhabited

/-- untyped integer constant expression (arbitrary precision, as Go's
constant arithmetic / the GnoVM's BigintValue folding) -/
inductive CExpr
  | lit (v : Int)
  | bin (op : ArOp) (a b : CExpr)
  | shl (a : CExpr) (n : Nat)
  | shr (a : CExpr) (n : Nat)
  | neg (a : CExpr)
  | compl (a : CExpr)
  deriving Repr, Inhabited

inductive Lit
  | int (t : ITy) (v : Int)
  | bool (b : Bool)
  | str (s : List UInt8)
  deriving Repr, Inhabited

/-- what an index / slice expression is applied to (resolved statically) -/
inductive CKind | arr | slice | str | map | ptrArr
  deriving DecidableEq, Repr, Inhabited

inductive Expr
  | lit (l : Lit)
  | cexpr (t : ITy) (c : CExpr)
  | var (x : String)
  | bin (op : BinOp) (a b : Expr)
  | land (a b : Expr)
  | lor (a b : Expr)
  | un (op : UnOp) (a : Expr)
  | conv (to : Ty) (a : Expr)
  | box (t : Ty) (a : Expr)                       -- implicit/explicit conversion to `any`
  | call (f : Expr) (args : List Expr)
  | index (k : CKind) (a i : Expr)
  | indexOk (a i : Expr)                          -- `v, ok := m[k]`
  | sliceE (k : CKind) (a : Expr) (lo hi mx : Option Expr)
  | field (viaPtr : Bool) (a : Expr) (i : Nat)
  | deref (a : Expr)
  | addr (a : Expr)                               -- &lvalue
  | newE (t : Ty)
  | nilE (t : Ty)                                 -- `nil` of a pointer/slice/map/func/interface type
  | structLit (t : Ty) (fs : List Expr)           -- all fields, in order
  | arrLit (t : Ty) (n : Nat) (es : List Expr)    -- [n]T{...} (missing = zero)
  | sliceLit (t : Ty) (es : List Expr)            -- []T{...}
  | mapLit (k v : Ty) (kvs : List (Expr × Expr))
  | addrLit (a : Expr)                            -- &T{...}
  | len (a : Expr)
  | cap (a : Expr)
  | append (s : Expr) (xs : List Expr)
  | appendSl (s t : Expr)                         -- append(s, t...) ; t slice or string
  | copy (d s : Expr)
  | makeSlice (t : Ty) (n : Expr) (c : Option Expr)
  | makeMap (k v : Ty)
  | funcLit (id : Nat)
  | recover
  | assert (a : Expr) (t : Ty)
  | assertOk (a : Expr) (t : Ty)
  deriving Repr, Inhabited

inductive RangeKind | slice | arr | str
  deriving DecidableEq, Repr, Inhabited

inductive Stmt
  | varDecl (x : String) (t : Ty) (e : Option Expr)
  | define (xs : List String) (e : Expr)          -- `_` allowed; several names ⇒ tuple-valued e
  | assign (lvs : List Expr) (es : List Expr)     -- several lvs and one e ⇒ tuple
  | opAssign (op : BinOp) (lv : Expr) (e : Expr)
  | incDec (inc : Bool) (lv : Expr)
  | exprS (e : Expr)
  | print (es : List Expr)
  | deleteS (m k : Expr)
  | ifS (init : Option Stmt) (c : Expr) (th el : List Stmt)
  | forS (label : Option String) (init : Option Stmt) (cond : Option Expr) (post : Option Stmt) (body : List Stmt)
  | rangeS (label : Option String) (kind : RangeKind) (k v : Option String) (e : Expr) (body : List Stmt)
  | switchS (label : Option String) (init : Option Stmt) (tag : Option Expr)
      (clauses : List (Option (List Expr) × List Stmt))
  | typeSwitch (label : Option String) (bind : Option String) (x : Expr)
      (clauses : List (Option (List (Option Ty)) × List Stmt))     -- `none` type = `case nil`
  | block (ss : List Stmt)
  | labeled (l : String) (s : Stmt)
  | breakS (l : Option String)
  | continueS (l : Option String)
  | gotoS (l : String)
  | fallthroughS
  | ret (es : List Expr)
  | deferS (f : Expr) (args : List Expr)
  | panicS (e : Expr)
  deriving Repr, Inhabited

structure FuncDecl where
  name : String
  params : List (String × Ty)
  results : List (String × Ty)
  body : List Stmt
  deriving Repr, Inhabited

structure Program where
  types : TypeTable
  funcs : Array FuncDecl                 -- top-level functions and hoisted literals
  globals : List (String × Ty × Option Expr)
  /-- index of the entry function in `funcs` -/
  entry : Nat
  deriving Repr, Inhabited

end GnoVerif.C04
